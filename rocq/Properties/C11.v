(* C11 -- Every named draw type delivers the distribution and structure it advertises.
   Property theorems only; each is closed by [exact] of a lemma proved in Proofs/DrawsGenP.v.
   Model: Model/DrawsGen.v (hand written, tied to draws.py by the streams halton / mlhs / types);
   catalogue and the branch conditions of the normal quantile: Gen/DrawCatalogue.v, regenerated
   from native_draws.py / draws.py on every run (tie A). *)
From Coq Require Import ZArith QArith Qround List Bool String Permutation.
From BV Require Import Model.DrawsGen Gen.DrawCatalogue Proofs.DrawsGenP.
Import ListNotations.
Local Open Scope Q_scope.

(* ---- T11a. Halton: the doubling construction coded in get_halton_draws delivers, at position i,
   the radical inverse of i + skip + 1 in the base passed -- every base >= 2, every length, every
   skip (the element of index 0, i.e. 0, and the `skip` next ones are dropped). *)
Theorem T11a_halton_is_radical_inverse : forall (b : Z) (len skip i : nat),
  (2 <= b)%Z -> (i < len)%nat ->
  nth i (halton_py b len skip) 0 == radical_inverse b (Z.of_nat (i + skip + 1)).
Proof. exact halton_is_radical_inverse. Qed.
Print Assumptions T11a_halton_is_radical_inverse.

Example T11a_example : map Qred (halton_py 3 6 10) = [19 # 27; 4 # 27; 13 # 27; 22 # 27; 7 # 27; 16 # 27].
Proof. vm_compute. reflexivity. Qed.

Theorem T11a_halton_length : forall (b : Z) (len skip : nat),
  (2 <= b)%Z -> List.length (halton_py b len skip) = len.
Proof. exact halton_py_length. Qed.
Print Assumptions T11a_halton_length.

(* skip law: skipping k elements = dropping the first k elements of the unskipped sequence *)
Theorem T11a_halton_skip_law : forall (b : Z) (len skip i : nat),
  (2 <= b)%Z -> (i < len)%nat ->
  nth i (halton_py b len skip) 0 == nth (skip + i) (halton_py b (len + skip) 0) 0.
Proof. exact halton_skip_law. Qed.
Print Assumptions T11a_halton_skip_law.

(* what [radical_inverse] is: the digit string of n mirrored about the radix point *)
Theorem T11a_radical_inverse_mirrors_digits : forall (b : Z) (ds : list Z),
  (2 <= b)%Z -> Forall (fun d => 0 <= d < b)%Z ds ->
  radical_inverse b (from_digits b ds) == mirror_digits b ds.
Proof. exact radical_inverse_digits. Qed.
Print Assumptions T11a_radical_inverse_mirrors_digits.

Example T11a_digits_example :   (* 11 = 102 in base 3  ->  0.201 in base 3 = 19/27 *)
  from_digits 3 [2; 0; 1]%Z = 11%Z /\ Qred (radical_inverse 3 11) = 19 # 27.
Proof. vm_compute. split; reflexivity. Qed.

(* ---- T11b. MLHS: exactly one point in each of the N equal strata, for all random numbers of
   [0,1) and every shuffle *)
Theorem T11b_mlhs_one_per_stratum : forall (us : list Q) (perm : list N) (s : bool),
  (forall u, In u us -> 0 <= u < 1) ->
  Permutation (map N.to_nat perm) (seq 0 (List.length us)) ->
  Permutation (map (stratum (List.length us) s) (mlhs us perm s))
              (map Z.of_nat (seq 0 (List.length us))).
Proof. exact mlhs_one_per_stratum. Qed.
Print Assumptions T11b_mlhs_one_per_stratum.

Example T11b_example :
  map (stratum 3 true) (mlhs [1 # 2; 0; 99 # 100] [2; 0; 1]%N true) = [2; 0; 1]%Z.
Proof. vm_compute. reflexivity. Qed.

(* ---- T11c. antithetic: second half = mirror image of the first half, element by element;
   on the returned array: every row is (first half) ++ (its mirror), whatever the transform *)
Theorem T11c_antithetic_mirror : forall (m : Q -> Q) (xs : list Q) (j : nat),
  (j < List.length xs)%nat ->
  nth (List.length xs + j) (anti_row m xs) 0 = m (nth j (anti_row m xs) 0).
Proof. exact anti_row_mirror. Qed.
Print Assumptions T11c_antithetic_mirror.

Theorem T11c_antithetic_rows : forall quant e ss n us perm row,
  e_antithetic e = true -> In row (gen_output quant e ss n us perm) ->
  exists half, row = half ++ map (mirror_fun (e_mirror e)) half /\
    In half (let rows := gen_rows e ss n us perm in
             if e_normal e then map (map quant) rows else rows).
Proof. exact gen_output_antithetic. Qed.
Print Assumptions T11c_antithetic_rows.

Example T11c_example : anti_row mirror_unit [1 # 4; 1 # 3] = [1 # 4; 1 # 3; 1 - (1 # 4); 1 - (1 # 3)].
Proof. reflexivity. Qed.

(* ---- T11d. symmetric variants are the map 2u-1 of the unit ones, and lie in [-1,1] *)
Theorem T11d_symmetric_map : forall e e' count us perm,
  e_family e' = e_family e -> e_base e' = e_base e -> e_skip e' = e_skip e ->
  e_shuffled e' = e_shuffled e -> e_symmetric e' = true -> e_symmetric e = false ->
  Forall (fun j => (N.to_nat j < List.length us)%nat) perm ->
  stage e' count us perm = map sym (stage e count us perm).
Proof. exact stage_symmetric. Qed.
Print Assumptions T11d_symmetric_map.

Theorem T11d_symmetric_range : forall u, 0 <= u <= 1 -> -1 <= sym u <= 1.
Proof. exact sym_range. Qed.
Print Assumptions T11d_symmetric_range.

Example T11d_example : sym (3 # 4) == 1 # 2.
Proof. reflexivity. Qed.

(* ---- T11e. support *)
Theorem T11e_halton_support : forall (b : Z) (len skip i : nat),
  (2 <= b)%Z -> (i < len)%nat ->
  0 < nth i (halton_py b len skip) 0 /\ nth i (halton_py b len skip) 0 < 1.
Proof. exact halton_support. Qed.
Print Assumptions T11e_halton_support.

Theorem T11e_mlhs_support : forall us perm s x,
  (forall u, In u us -> 0 <= u < 1) ->
  Permutation (map N.to_nat perm) (seq 0 (List.length us)) ->
  In x (mlhs us perm s) -> if s then -1 <= x < 1 else 0 <= x < 1.
Proof. exact mlhs_support. Qed.
Print Assumptions T11e_mlhs_support.

(* every entry of the array returned by a non-normal catalogue-style entry lies in the advertised
   interval (numpy's uniform numbers assumed in [0,1), its shuffle assumed a permutation) *)
Theorem T11e_output_support : forall quant e ss n us perm row x,
  e_normal e = false ->
  (2 <= e_base e)%Z \/ e_family e <> FHalton ->
  (forall u, In u us -> 0 <= u < 1) -> List.length us = (ss * gen_cols e n)%nat ->
  Permutation (map N.to_nat perm) (seq 0 (ss * gen_cols e n)) ->
  (e_antithetic e = true -> e_mirror e = if e_symmetric e then MNeg else MOneMinus) ->
  In row (gen_output quant e ss n us perm) -> In x row ->
  if e_symmetric e then -1 <= x <= 1 else 0 <= x <= 1.
Proof. exact gen_output_support. Qed.
Print Assumptions T11e_output_support.

(* ---- T11f. shape observations x draws (even number of draws for antithetic types) *)
Theorem T11f_shape : forall quant e ss n us perm,
  (2 <= e_base e)%Z \/ e_family e <> FHalton ->
  e_half e = e_antithetic e ->
  (e_antithetic e = true -> Nat.even n = true) ->
  List.length us = (ss * gen_cols e n)%nat -> List.length perm = (ss * gen_cols e n)%nat ->
  List.length (gen_output quant e ss n us perm) = ss /\
  Forall (fun r => List.length r = n) (gen_output quant e ss n us perm).
Proof. exact gen_output_shape. Qed.
Print Assumptions T11f_shape.

Example T11f_example :
  let e := nth 6 catalogue (nth 0 catalogue (mkEntry "" "" "" FUniform 0 0 false false false false MNone 0 false)) in
  e_key e = "UNIFORM_MLHS_ANTI"%string /\
  map (map Qred) (gen_output (fun x => x) e 2 4 [1 # 2; 1 # 2; 1 # 2; 1 # 2] [3; 0; 2; 1]%N)
  = [[7 # 8; 1 # 8; 1 # 8; 7 # 8]; [5 # 8; 3 # 8; 3 # 8; 5 # 8]].
Proof. vm_compute. split; reflexivity. Qed.

(* ---- T11g. the catalogue (21 entries, generated from native_draws.py on this run): what each
   entry advertises in its description and key is what its helper does.  Decided by computation
   over the finite generated table. *)
Theorem T11g_catalogue_size : List.length catalogue = 21%nat.
Proof. exact catalogue_size. Qed.
Print Assumptions T11g_catalogue_size.

Theorem T11g_catalogue_keys_distinct : distinct_keys (map e_key catalogue) = true.
Proof. exact catalogue_keys_distinct. Qed.
Print Assumptions T11g_catalogue_keys_distinct.

Theorem T11g_catalogue_consistent : Forall entry_consistent catalogue.
Proof. exact catalogue_consistent. Qed.
Print Assumptions T11g_catalogue_consistent.

Theorem T11g_catalogue_base_advertised : forall e, In e catalogue -> e_family e = FHalton ->
  number_after "base " (e_descr e) = Some (e_base e) /\
  number_after "HALTON" (e_key e) = Some (e_base e) /\ (2 <= e_base e)%Z /\ e_shuffled e = false.
Proof. exact catalogue_base_advertised. Qed.
Print Assumptions T11g_catalogue_base_advertised.

(* ---- T11h. different bases, different sequences *)
Theorem T11h_distinct_bases_distinct_sequences : forall (b b' : Z) (len len' : nat),
  (2 <= b)%Z -> (2 <= b')%Z -> b <> b' -> (1 <= len)%nat -> (1 <= len')%nat ->
  ~ nth 0 (halton_py b len 0) 0 == nth 0 (halton_py b' len' 0) 0.
Proof. exact distinct_bases_distinct_sequences. Qed.
Print Assumptions T11h_distinct_bases_distinct_sequences.

(* on the catalogue, with the skips actually passed *)
Theorem T11h_catalogue_halton_distinct : forall e1 e2 len1 len2,
  In e1 catalogue -> In e2 catalogue ->
  e_family e1 = FHalton -> e_family e2 = FHalton -> e_base e1 <> e_base e2 ->
  (1 <= len1)%nat -> (1 <= len2)%nat ->
  ~ nth 0 (halton_py (e_base e1) len1 (Z.to_nat (e_skip e1))) 0
    == nth 0 (halton_py (e_base e2) len2 (Z.to_nat (e_skip e2))) 0.
Proof. exact catalogue_halton_distinct. Qed.
Print Assumptions T11h_catalogue_halton_distinct.

(* and the difference survives 2u-1 and any injective (strictly increasing) quantile transform *)
Theorem T11h_distinct_after_injective_map : forall (f : Q -> Q) xs ys i,
  (forall a b, f a == f b -> a == b) ->
  (i < List.length xs)%nat -> (i < List.length ys)%nat ->
  ~ nth i xs 0 == nth i ys 0 ->
  ~ nth i (map f xs) (f 0) == nth i (map f ys) (f 0).
Proof. exact distinct_after_injective_map. Qed.
Print Assumptions T11h_distinct_after_injective_map.

(* ---- T11i. normal quantile (Wichura AS241 / PPND16): branch structure.
   The statement "for every u in (0,1) the code selects the formula AS241 selects" is FALSE for
   the code as it is (it tests |u| <= 0.45 where AS241 tests |u - 1/2| <= 0.425): *)
Theorem T11i_wichura_branches_refuted :
  (exists u, 0 < u < 1 /\ impl_region wichura u = WCentral /\ as241_region u = WTailLow) /\
  (exists u, 0 < u < 1 /\ impl_region wichura u = WTailLow /\ as241_region u = WCentral) /\
  (exists u, 0 < u < 1 /\ impl_region wichura u = WTailHigh /\ as241_region u = WCentral).
Proof. exact wichura_branches_refuted. Qed.
Print Assumptions T11i_wichura_branches_refuted.

(* what does hold: the branch choice is AS241's exactly on [0.075.., 0.45..] and (0.925.., 1)
   (missing: (0, 0.075) gets the central formula, (0.45, 0.925] a tail formula) *)
Theorem T11i_wichura_branches_partial : forall u, 0 < u < 1 ->
  (impl_region wichura u = as241_region u <->
   (as241_lo <= u <= w_c1 wichura \/ as241_hi < u)).
Proof. exact wichura_branches_exact. Qed.
Print Assumptions T11i_wichura_branches_partial.

Example T11i_partial_example :
  impl_region wichura (3 # 10) = as241_region (3 # 10) /\ impl_region wichura (99 # 100) = as241_region (99 # 100).
Proof. vm_compute. split; reflexivity. Qed.

(* every u of (0,1) gets a formula; a selected tail formula is fed AS241's tail area min(u, 1-u)
   and carries AS241's sign *)
Theorem T11i_wichura_tails : forall u, 0 < u < 1 ->
  impl_region wichura u <> WUnassigned /\
  (impl_region wichura u = WTailLow ->
     u < 1 # 2 /\ impl_tail_area wichura u == as241_tail_area u /\ impl_tail_negated wichura u = true) /\
  (impl_region wichura u = WTailHigh ->
     1 # 2 <= u /\ impl_tail_area wichura u == as241_tail_area u /\ impl_tail_negated wichura u = false).
Proof. exact wichura_tails. Qed.
Print Assumptions T11i_wichura_tails.
