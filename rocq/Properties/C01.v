(* C01 -- every expression evaluates to its mathematical value on both evaluation paths.
   (theorems are added as the proofs land; see Proofs/EvalIP.v, Proofs/SigP.v) *)
From BV Require Import Model.Expr Model.EvalX Model.EvalI.

(* placeholder obligation so that the file is never empty: the structural equality used by
   every structural correspondence stream is reflexive on a sample tree *)
Theorem T01_expr_eqb_example : expr_eqb (EBin Plus (ENumZ 1) (EVar "x")) (EBin Plus (ENumZ 1) (EVar "x")) = true.
Proof. vm_compute. reflexivity. Qed.
Print Assumptions T01_expr_eqb_example.
