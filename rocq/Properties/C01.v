(* C01 -- every expression evaluates to its mathematical value on both evaluation paths.
   (theorems are added as the proofs land; see Proofs/EvalIP.v, Proofs/SigP.v) *)
From BV Require Import Model.Expr Model.EvalX Model.EvalI.

(* placeholder obligation so that the file is never empty: the structural equality used by
   every structural correspondence stream is reflexive on a sample tree *)
Theorem T01_expr_eqb_example : expr_eqb (EBin Plus (ENumZ 1) (EVar "x")) (EBin Plus (ENumZ 1) (EVar "x")) = true.
Proof. vm_compute. reflexivity. Qed.
Print Assumptions T01_expr_eqb_example.

From Coq Require Import Reals.
From Interval Require Import Xreal Interval.
From BV Require Import Proofs.EvalIP.

(* T01f. The executable oracle is sound: whatever the interval evaluator returns encloses the
   mathematical value evalX -- for every expression tree, every environment, every Phi with a
   correct interval extension.  (The correspondence streams compare the engine's and the Python
   evaluator's doubles with these enclosures.) *)
Theorem T01f_evalI_sound : forall (Phi : R -> R) (PhiI : I.type -> I.type),
  (forall i r, contains (I.convert i) (Xreal r) -> contains (I.convert (PhiI i)) (Xreal (Phi r))) ->
  forall (e : expr) (d : denv), sound (evalI PhiI e d) (evalX Phi e (env_of d)).
Proof. exact evalI_sound. Qed.
Print Assumptions T01f_evalI_sound.

(* the differ is sound as well: an Agree verdict bounds the distance to the mathematical value *)
Theorem T01f_judge_sound : forall v y relbits x,
  judge v y relbits = Agree -> sound v x ->
  exists r, x = XR r /\ (Rabs (D2R y - r) <= (Rabs (D2R y) + 1) * powerRZ 2 relbits)%R.
Proof. exact judge_agree_sound. Qed.
Print Assumptions T01f_judge_sound.

From BV Require Import Model.PhiI Model.PhiDef Proofs.PhiP.

(* the interval extension of the normal CDF used by the streams is PROVED to enclose the concrete
   function Phi_def x = 1/2 + RInt npdf 0 x, npdf t = exp(-t^2/2)/sqrt(2 pi) (Model/PhiDef.v) ... *)
Theorem T01f_PhiI_series_correct : forall i r,
  contains (I.convert i) (Xreal r) -> contains (I.convert (PhiI_series i)) (Xreal (Phi_def r)).
Proof. exact PhiI_series_correct. Qed.
Print Assumptions T01f_PhiI_series_correct.

(* ... so the oracle the streams run is sound with no hypothesis left on the normal CDF *)
Theorem T01f_evalI_sound_concrete : forall (e : expr) (d : denv),
  sound (evalI PhiI_series e d) (evalX Phi_def e (env_of d)).
Proof. exact (evalI_sound Phi_def PhiI_series PhiI_series_correct). Qed.
Print Assumptions T01f_evalI_sound_concrete.

(* non-vacuity: the proved enclosure is informative (at 0 it pins Phi_def 0 = 1/2 to 2^-80) *)
Example T01f_PhiI_series_at_0 : in_tol (PhiI_series (I.fromZ prec 0)) (1, -1)%Z (-80) = true.
Proof. exact PhiI_series_at_0. Qed.

From BV Require Import Model.IdMgr Model.Sig Proofs.SigP Proofs.SigEvalP.

(* T01a. For every Python object graph (labels = object identity; any sharing) whose
   ConditionalSum nodes do not reuse one condition OBJECT, what the engine's reader rebuilds
   from the emitted signature is exactly the index-resolved formula. *)
Theorem T01a_decode_signature : forall (t : idtable) (l : lexpr) (ls : list line),
  wf_dag l -> cond_ids_distinct l -> signature t l = Some ls ->
  exists r : expr, resolve t (erase l) = Some r /\ decode ls = Some r.
Proof. exact decode_signature. Qed.
Print Assumptions T01a_decode_signature.

(* ... and the hypothesis on ConditionalSum is necessary (known engine defect): *)
Theorem T01a_refuted_without_distinct_conditions :
  ~ (forall (t : idtable) (l : lexpr) (ls : list line),
       wf_dag l -> signature t l = Some ls ->
       exists r : expr, resolve t (erase l) = Some r /\ decode ls = Some r).
Proof. exact decode_signature_needs_cond_ids_distinct. Qed.
Print Assumptions T01a_refuted_without_distinct_conditions.

Theorem T01a_refuted_value : forall (Phi : R -> R) (en : env),
  exists (t : idtable) (l : lexpr) (ls : list line) (r : expr),
    wf_dag l /\ signature t l = Some ls /\ decode ls = Some r /\
    evalX Phi (erase l) en = XR 5 /\ evalIdx Phi t r en = XR 3.
Proof. exact condsum_shared_value_refuted. Qed.
Print Assumptions T01a_refuted_value.

(* T01b. The value the engine computes BY POSITION (class indices into the vectors of free
   parameters, fixed parameters, row, draws) is the value of the formula BY NAME. *)
Theorem T01b_engine_value_is_named_value :
  forall (Phi : R -> R) (t : idtable) (l : lexpr) (ls : list line) (en : env),
    wf_dag l -> cond_ids_distinct l -> signature t l = Some ls ->
    exists r : expr, decode ls = Some r /\ evalIdx Phi t r en = evalX Phi (erase l) en.
Proof. exact engine_value_is_named_value. Qed.
Print Assumptions T01b_engine_value_is_named_value.

(* T01c. Sharing one sub-formula between several parents changes nothing: two object graphs
   of the same formula (any two sharings) give the engine the same tree. *)
Theorem T01c_sharing_irrelevant : forall (t : idtable) (l1 l2 : lexpr),
  erase l1 = erase l2 -> wf_dag l1 -> cond_ids_distinct l1 -> wf_dag l2 -> cond_ids_distinct l2 ->
  engine_tree t l1 = engine_tree t l2.
Proof. exact sharing_irrelevant. Qed.
Print Assumptions T01c_sharing_irrelevant.

(* T01d. Evaluating several formulas side by side changes the numbering, not the value. *)
Theorem T01d_side_by_side_irrelevant :
  forall (Phi : R -> R) (fs fs' : list expr) (cols : list string) (t0 t1 : idtable) (e r0 : expr) (en : env),
    incl fs fs' -> prepare fs cols = Some t0 -> prepare fs' cols = Some t1 ->
    logit_wf e -> resolve t0 e = Some r0 ->
    exists r1 : expr, resolve t1 e = Some r1 /\
      evalIdx Phi t1 r1 en = evalIdx Phi t0 r0 en /\ evalIdx Phi t0 r0 en = evalX Phi e en.
Proof. exact side_by_side_irrelevant. Qed.
Print Assumptions T01d_side_by_side_irrelevant.

From BV Require Import Model.Stats Gen.PyEval Proofs.PyEvalP.

(* T01e. The pure-Python evaluator: the get_value methods, TRANSLATED FROM /repo ON THIS RUN
   (Gen/PyEval.v), compute on real arguments exactly what the semantics evalX assigns to the same
   node (under the domain conditions the property states: divisor non-zero, arguments of log /
   power positive). *)
Theorem T01e_python_evaluator_binary : forall l r : R,
  xbin Plus (XR l) (XR r) = XR (py_Plus l r) /\ xbin Minus (XR l) (XR r) = XR (py_Minus l r) /\
  xbin Times (XR l) (XR r) = XR (py_Times l r) /\
  (r <> 0%R -> xbin Divide (XR l) (XR r) = XR (py_Divide l r)) /\
  ((0 < l)%R -> xbin Power (XR l) (XR r) = XR (py_Power l r)) /\
  xbin BMin (XR l) (XR r) = XR (py_bioMin l r) /\ xbin BMax (XR l) (XR r) = XR (py_bioMax l r) /\
  xbin And (XR l) (XR r) = XR (py_And l r) /\ xbin Or (XR l) (XR r) = XR (py_Or l r) /\
  xbin Eq (XR l) (XR r) = XR (py_Equal l r) /\ xbin Ne (XR l) (XR r) = XR (py_NotEqual l r) /\
  xbin Le (XR l) (XR r) = XR (py_LessOrEqual l r) /\ xbin Ge (XR l) (XR r) = XR (py_GreaterOrEqual l r) /\
  xbin Lt (XR l) (XR r) = XR (py_Less l r) /\ xbin Gt (XR l) (XR r) = XR (py_Greater l r).
Proof.
  intros l r. repeat split; intros;
    first [apply py_Plus_sem|apply py_Minus_sem|apply py_Times_sem|apply py_Divide_sem; assumption
          |apply py_Power_sem; assumption|apply py_bioMin_sem|apply py_bioMax_sem|apply py_And_sem|apply py_Or_sem
          |apply py_Equal_sem|apply py_NotEqual_sem|apply py_LessOrEqual_sem|apply py_GreaterOrEqual_sem
          |apply py_Less_sem|apply py_Greater_sem].
Qed.
Print Assumptions T01e_python_evaluator_binary.

Theorem T01e_python_evaluator_unary : forall (Phi : R -> R) (c : R),
  xun Phi UMinus (XR c) = XR (py_UnaryMinus c) /\ xun Phi Exp (XR c) = XR (py_exp c) /\
  xun Phi Sin (XR c) = XR (py_sin c) /\ xun Phi Cos (XR c) = XR (py_cos c) /\
  ((0 < c)%R -> xun Phi Log (XR c) = XR (py_log c)) /\
  ((0 <= c)%R -> xun Phi Logzero (XR c) = XR (py_logzero c)).
Proof.
  intros Phi c. repeat split; intros;
    first [apply py_UnaryMinus_sem|apply py_exp_sem|apply py_sin_sem|apply py_cos_sem
          |apply py_log_sem; assumption|apply py_logzero_sem; assumption].
Qed.
Print Assumptions T01e_python_evaluator_unary.

Theorem T01e_python_evaluator_sums : forall (kids : list R) (terms : list (R * R)),
  xsum (map XR kids) = XR (py_bioMultSum kids) /\ xcondsum (flat_vals terms) = XR (py_ConditionalSum terms).
Proof. intros. split; [apply py_bioMultSum_sem|apply py_ConditionalSum_sem]. Qed.
Print Assumptions T01e_python_evaluator_sums.

(* T01e (logit). LogLogit.get_value, transcribed in Gen/PyLogit.v after its source matched the statement-by-statement template
   on this run: whenever the pure-Python evaluator returns (a number or minus infinity), that is the value of the reference
   semantics of the logit node; it refuses (None) exactly where the method raises. *)
From BV Require Import Gen.PyLogit Proofs.PyLogitP.
Theorem T01e_python_evaluator_loglogit : forall (c : Z) (uk : list Z) (us : list R) (ak : list Z) (avs : list R) (x : xval),
  List.length us = List.length uk -> List.length avs = List.length ak ->
  py_LogLogit c uk us ak avs = Some x ->
  xloglogit uk ak (XR (IZR c) :: map XR us ++ map XR avs) = x.
Proof. exact py_LogLogit_sem. Qed.
Print Assumptions T01e_python_evaluator_loglogit.
