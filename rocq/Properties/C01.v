(* C01 -- every expression evaluates to its mathematical value on both evaluation paths.
   (theorems are added as the proofs land; see Proofs/EvalIP.v, Proofs/SigP.v) *)
From BV Require Import Model.Expr Model.EvalX Model.EvalI.

(* placeholder obligation so that the file is never empty: the structural equality used by
   every structural correspondence stream is reflexive on a sample tree *)
Theorem T01_expr_eqb_example : expr_eqb (EBin Plus (ENumZ 1) (EVar "x")) (EBin Plus (ENumZ 1) (EVar "x")) = true.
Proof. vm_compute. reflexivity. Qed.
Print Assumptions T01_expr_eqb_example.

From Coq Require Import Reals.
From Interval Require Import Xreal Interval.
From BV Require Import Proofs.EvalIP.

(* T01f. The executable oracle is sound: whatever the interval evaluator returns encloses the
   mathematical value evalX -- for every expression tree, every environment, every Phi with a
   correct interval extension.  (The correspondence streams compare the engine's and the Python
   evaluator's doubles with these enclosures.) *)
Theorem T01f_evalI_sound : forall (Phi : R -> R) (PhiI : I.type -> I.type),
  (forall i r, contains (I.convert i) (Xreal r) -> contains (I.convert (PhiI i)) (Xreal (Phi r))) ->
  forall (e : expr) (d : denv), sound (evalI PhiI e d) (evalX Phi e (env_of d)).
Proof. exact evalI_sound. Qed.
Print Assumptions T01f_evalI_sound.

(* the differ is sound as well: an Agree verdict bounds the distance to the mathematical value *)
Theorem T01f_judge_sound : forall v y relbits x,
  judge v y relbits = Agree -> sound v x ->
  exists r, x = XR r /\ (Rabs (D2R y - r) <= (Rabs (D2R y) + 1) * powerRZ 2 relbits)%R.
Proof. exact judge_agree_sound. Qed.
Print Assumptions T01f_judge_sound.
