(* C16 -- Catalogs span the product of their controllers; operators stay inside it.
   Property theorems only; each is closed by [exact] of a lemma proved in Proofs/CatalogP.v.

   Definitions with a [Config.] prefix or named get_string_id / set_selections / modify_controller
   are GENERATED from /repo/src/biogeme/{configuration,controller}.py on every run (Gen/Config.v);
   the others are the hand-written model of Model/Catalog.v, tied to the library by the
   correspondence streams of lib/props/C16.py. *)
From Coq Require Import ZArith List String Permutation.
From BV Require Import Model.PyBase Model.Expr Model.Catalog Gen.Config Proofs.CatalogP.
Import ListNotations.
Open Scope Z_scope.

(* ---------------------------------------------------------------- tie A: generated = model *)
Theorem T16_gen_string_id : forall c, get_string_id c = string_id c.
Proof. exact gen_get_string_id. Qed.
Print Assumptions T16_gen_string_id.

Theorem T16_gen_set_selections : forall l, set_selections l = option_map with_id (mk_config l).
Proof. exact gen_set_selections. Qed.
Print Assumptions T16_gen_set_selections.

Theorem T16_gen_from_string : forall s,
  Config.from_string s = option_map with_id (Catalog.from_string s).
Proof. exact gen_from_string. Qed.
Print Assumptions T16_gen_from_string.

Theorem T16_gen_modify_controller : forall n i s, 1 <= n ->
  modify_controller n i s true = Some (s, step_index n i s).
Proof. exact gen_modify_controller_circular. Qed.
Print Assumptions T16_gen_modify_controller.

Theorem T16_gen_modify_controller_clamped : forall n i s, 1 <= n -> 0 <= i < n ->
  modify_controller n i s false = Some (snd (clamp_index n i s), fst (clamp_index n i s)).
Proof. exact gen_modify_controller_clamped. Qed.
Print Assumptions T16_gen_modify_controller_clamped.

(* ---------------------------------------------------------------- T16a: count *)
(* one configuration per combination of controller choices: the product has prod(sizes)
   elements, CentralController's count and its set of configurations have that many too *)
Theorem T16a_count : forall cs, wf_ctrls cs = true -> cs <> [] ->
  number_of_configurations cs = Z.of_nat (List.length (product cs)) /\
  List.length (product cs) = prod_nat (sizes cs) /\
  List.length (all_configurations cs) = prod_nat (sizes cs).
Proof. exact count_configurations. Qed.
Print Assumptions T16a_count.

Example T16a_example :
  let cs := [("c1", ["lin"; "log"]); ("c2", ["a"; "b"; "c"])]%string in
  wf_ctrls cs = true /\ number_of_configurations cs = 6 /\ List.length (product cs) = 6%nat.
Proof. vm_compute. repeat split; reflexivity. Qed.

(* ---------------------------------------------------------------- T16b: canonical, injective id *)
Theorem T16b_id_order_invariant : forall l1 l2,
  Permutation l1 l2 -> set_selections l1 = set_selections l2.
Proof. exact gen_id_order_invariant. Qed.
Print Assumptions T16b_id_order_invariant.

Example T16b_order_example :
  set_selections [("b", "y"); ("a", "x")]%string = Some ([("a", "x"); ("b", "y")], "a:x;b:y")%string
  /\ set_selections [("a", "x"); ("b", "y")]%string = Some ([("a", "x"); ("b", "y")], "a:x;b:y")%string.
Proof. vm_compute. split; reflexivity. Qed.

Theorem T16b_id_injective : forall c1 c2,
  names_ok c1 = true -> names_ok c2 = true -> get_string_id c1 = get_string_id c2 -> c1 = c2.
Proof. exact gen_id_injective. Qed.
Print Assumptions T16b_id_injective.

(* the hypothesis on names is needed: with a reserved character two configurations collide *)
Example T16b_names_needed :
  get_string_id [("a", "x;b:y")]%string = get_string_id [("a", "x"); ("b", "y")]%string.
Proof. reflexivity. Qed.

Theorem T16b_id_determines_configuration : forall l1 l2 c1 c2 id1 id2,
  names_ok l1 = true -> names_ok l2 = true ->
  set_selections l1 = Some (c1, id1) -> set_selections l2 = Some (c2, id2) ->
  (id1 = id2 <-> Permutation l1 l2).
Proof. exact gen_id_determines. Qed.
Print Assumptions T16b_id_determines_configuration.

(* ---------------------------------------------------------------- T16c: parse . print = id *)
Theorem T16c_parse_print : forall l c id,
  l <> [] -> names_ok l = true -> set_selections l = Some (c, id) ->
  Config.from_string id = Some (c, id).
Proof. exact gen_parse_print. Qed.
Print Assumptions T16c_parse_print.

Example T16c_example :
  Config.from_string "a:x;b:y" = Some ([("a", "x"); ("b", "y")], "a:x;b:y")%string.
Proof. vm_compute. reflexivity. Qed.

(* the empty configuration (a formula without catalogs) does not convert back: excluded above *)
Example T16c_empty_refused : set_selections [] = Some ([], ""%string) /\ Config.from_string "" = None.
Proof. vm_compute. split; reflexivity. Qed.

(* ---------------------------------------------------------------- T16d: iteration *)
(* the set enumerated by the library is the product; iterating over it in any order visits
   every valid configuration exactly once and nothing else *)
Theorem T16d_set_is_product : forall cs, wf_ctrls cs = true -> cs <> [] ->
  all_configurations cs = map Some (product cs).
Proof. exact all_configurations_product. Qed.
Print Assumptions T16d_set_is_product.

Theorem T16d_iteration_exactly_once : forall cs, wf_ctrls cs = true -> cs <> [] ->
  forall order, Permutation order (all_configurations cs) ->
    NoDup order /\
    List.length order = prod_nat (sizes cs) /\
    (forall x, In x order -> exists cfg, x = Some cfg /\ valid_config cs cfg = true) /\
    (forall cfg, valid_config cs cfg = true -> In (Some cfg) order).
Proof. exact iteration_exactly_once. Qed.
Print Assumptions T16d_iteration_exactly_once.

Theorem T16d_valid_iff_in_product : forall cs cfg,
  valid_config cs cfg = true <-> In cfg (product cs).
Proof. exact valid_config_In. Qed.
Print Assumptions T16d_valid_iff_in_product.

(* ---------------------------------------------------------------- T16e: shared controllers *)
Theorem T16e_shared_controller_sync : forall e cfg st,
  wf_cexpr e = true -> valid_config (central e) cfg = true ->
  set_configuration (central e) cfg = Some st ->
  Forall (fun p => snd p = assoc (fst p) cfg /\ snd p <> None)
         (selected_names (index_in (central e) st) e).
Proof. exact shared_controller_sync. Qed.
Print Assumptions T16e_shared_controller_sync.

(* ---------------------------------------------------------------- T16f: = hand-written formula *)
Theorem T16f_configured_equals_handwritten : forall e cfg,
  wf_cexpr e = true -> valid_config (central e) cfg = true ->
  configure e cfg = Some (subst cfg e) /\
  forall (A : Type) (f : expr -> A), option_map f (configure e cfg) = Some (f (subst cfg e)).
Proof. exact configured_equals_handwritten. Qed.
Print Assumptions T16f_configured_equals_handwritten.

(* two catalogs sharing controller "g", one nested catalog with its own controller *)
Definition ex_formula : cexpr :=
  CNode (HBin Plus)
    [CCat "k1" "g" [("p", CNode (HVar "x") []);
                    ("q", CCat "in" "in" [("u", CNode (HVar "y") []); ("v", CNode (HVar "z") [])])];
     CCat "k2" "g" [("p", CNode (HBeta "b1" false) []); ("q", CNode (HBeta "b2" false) [])]]%string.

Example T16f_example :
  wf_cexpr ex_formula = true /\
  central ex_formula = [("g", ["p"; "q"]); ("in", ["u"; "v"])]%string /\
  valid_config (central ex_formula) [("g", "q"); ("in", "v")]%string = true /\
  configure ex_formula [("g", "q"); ("in", "v")]%string =
    Some (Node (HBin Plus) [Node (HVar "z") []; Node (HBeta "b2" false) []])%string.
Proof. vm_compute. repeat split; reflexivity. Qed.

(* ---------------------------------------------------------------- T16i: histories *)
(* Controllers outlive formulas.  In ANY legal state of the controllers -- in particular after any
   history of index assignments (configure_catalogs, select_expression, operators, iteration,
   direct calls on a Controller all reduce to Controller.set_index), whether the catalogs of e
   were created before, between or after them -- the formula e reads as the formula written by
   hand for the configuration it reports, that configuration belongs to e's product, and all
   catalogs of e (selected branch or not) take the member it names. *)
Theorem T16i_any_state_reads_handwritten : forall U st e,
  wf_ctrls U = true -> st_ok U st -> incl (ctrls_of e) U ->
  read U st e = subst (current_configuration U st e) e /\
  valid_config (central e) (current_configuration U st e) = true /\
  Forall (fun p => snd p = assoc (fst p) (current_configuration U st e) /\ snd p <> None)
         (selected_names (index_in U st) e).
Proof. exact any_state_reads_handwritten. Qed.
Print Assumptions T16i_any_state_reads_handwritten.

Theorem T16i_any_history_reads_handwritten : forall U st0 h st e,
  wf_ctrls U = true -> st_ok U st0 -> run_sets U st0 h = Some st -> incl (ctrls_of e) U ->
  read U st e = subst (current_configuration U st e) e /\
  valid_config (central e) (current_configuration U st e) = true /\
  Forall (fun p => snd p = assoc (fst p) (current_configuration U st e) /\ snd p <> None)
         (selected_names (index_in U st) e).
Proof. exact any_history_reads_handwritten. Qed.
Print Assumptions T16i_any_history_reads_handwritten.

Theorem T16i_set_index_keeps_state_legal : forall U st n i st',
  NoDup (map fst U) -> st_ok U st -> set_index U st n i = Some st' -> st_ok U st'.
Proof. exact set_index_ok. Qed.
Print Assumptions T16i_set_index_keeps_state_legal.

Example T16i_example :
  let U := central ex_formula in
  wf_ctrls U = true /\ st_ok U [0; 0] /\
  run_sets U [0; 0] [("g", 1); ("in", 1); ("g", 0); ("g", 1)]%string = Some [1; 1] /\
  run_sets U [0; 0] [("g", 2)]%string = None /\
  current_configuration U [1; 1] ex_formula = [("g", "q"); ("in", "v")]%string /\
  read U [1; 1] ex_formula = Node (HBin Plus) [Node (HVar "z") []; Node (HBeta "b2" false) []]%string.
Proof.
  cbv zeta. split; [vm_compute; reflexivity|]. split; [apply initial_state_ok; vm_compute; intros c [<-|[<-|[]]]; discriminate|].
  vm_compute. repeat split; reflexivity.
Qed.

(* ---------------------------------------------------------------- T16g: operators are closed *)
Theorem T16g_operators_closed : forall cs sd choice name o cfg s,
  wf_ctrls cs = true -> valid_config cs cfg = true ->
  (forall n, In n choice -> In n (map fst cs)) ->
  In (name, o) (prepare_operators cs) ->
  exists cfg' k, apply_op cs sd choice o cfg s = Some (cfg', k) /\ valid_config cs cfg' = true.
Proof. exact prepared_operator_closed. Qed.
Print Assumptions T16g_operators_closed.

Example T16g_example :
  let cs := [("c1", ["lin"; "log"]); ("c2", ["a"; "b"; "c"])]%string in
  increased cs "c2" [("c1", "lin"); ("c2", "c")]%string 5 = Some ([("c1", "lin"); ("c2", "b")]%string, 5)
  /\ two_controllers cs "c1" "c2" NW [("c1", "lin"); ("c2", "a")]%string 4
     = Some ([("c1", "lin"); ("c2", "b")]%string, 4).
Proof. vm_compute. split; reflexivity. Qed.

(* ---------------------------------------------------------------- T16h: inverse *)
Theorem T16h_inc_dec_inverse : forall cs n cfg s cfg' k,
  wf_ctrls cs = true -> valid_config cs cfg = true ->
  increased cs n cfg s = Some (cfg', k) -> decreased cs n cfg' s = Some (cfg, s).
Proof. exact inc_dec_inverse. Qed.
Print Assumptions T16h_inc_dec_inverse.

Theorem T16h_dec_inc_inverse : forall cs n cfg s cfg' k,
  wf_ctrls cs = true -> valid_config cs cfg = true ->
  decreased cs n cfg s = Some (cfg', k) -> increased cs n cfg' s = Some (cfg, s).
Proof. exact dec_inc_inverse. Qed.
Print Assumptions T16h_dec_inc_inverse.

(* on the generated modify_controller itself: every size >= 1, every step (larger than the
   size, negative, wrapping around) *)
Theorem T16h_modify_controller_inverse : forall n i s, 1 <= n -> 0 <= i < n ->
  exists j, modify_controller n i s true = Some (s, j) /\ 0 <= j < n /\
            modify_controller n j (- s) true = Some (- s, i).
Proof. exact gen_inc_dec_inverse. Qed.
Print Assumptions T16h_modify_controller_inverse.

Example T16h_example :
  modify_controller 3 2 7 true = Some (7, 0) /\ modify_controller 3 0 (-7) true = Some (-7, 2).
Proof. vm_compute. split; reflexivity. Qed.

(* ---------------------------------------------------------------- T16j: names identify controllers *)
(* merge_controllers as GENERATED from controller.py is the hand-written one on sets of controllers *)
Theorem T16_gen_merge_controllers : forall target source,
  NoDup (map fst target) -> merge_controllers target source = m_merge target source.
Proof. exact gen_merge_controllers. Qed.
Print Assumptions T16_gen_merge_controllers.

(* A formula is accepted by get_all_controllers (hence gets a central controller) iff controllers
   of one name are one and the same Controller object, wherever they sit in the formula ... *)
Theorem T16j_accepted_iff_one_object_per_name : forall t,
  (exists l, all_controllers t = Some l) <-> consistent (objs_of t).
Proof. exact accepted_iff_consistent. Qed.
Print Assumptions T16j_accepted_iff_one_object_per_name.

Theorem T16j_refused_iff_two_objects_share_a_name : forall t,
  all_controllers t = None <-> ~ consistent (objs_of t).
Proof. exact refused_witness. Qed.
Print Assumptions T16j_refused_iff_two_objects_share_a_name.

(* ... and the controllers of an accepted formula have pairwise distinct names (so the sorted
   name:selection string determines the configuration, T16b) and are exactly those met *)
Theorem T16j_accepted_controllers_have_distinct_names : forall t l,
  all_controllers t = Some l ->
  NoDup (map fst l) /\ (forall c, In c l <-> In c (objs_of t)) /\ consistent (objs_of t).
Proof. exact accepted_distinct_names. Qed.
Print Assumptions T16j_accepted_controllers_have_distinct_names.

Example T16j_example :
  (* one shared object "g"#1 used by two catalogs, one of them nested: accepted *)
  all_controllers (ONode [OCat ("g", 1) [ONode []; OCat ("g", 1) [ONode []]]; OCat ("h", 2) []])%string
    = Some [("g", 1); ("h", 2)]%string /\
  (* two objects named "g" in the two operands of an operator / nested: refused *)
  all_controllers (ONode [OCat ("g", 1) [ONode []]; ONode [OCat ("g", 3) []]])%string = None /\
  all_controllers (OCat ("g", 1) [ONode [OCat ("g", 3) []]])%string = None /\
  merge_controllers [("g", 1)]%string [("h", 2); ("g", 1)]%string = Some [("g", 1); ("h", 2)]%string /\
  merge_controllers [("g", 1)]%string [("h", 2); ("g", 3)]%string = None.
Proof. vm_compute. repeat split; reflexivity. Qed.

(* ---------------------------------------------------------------- helper generators *)
(* all catalogs returned by one call of segmentation_catalogs list the same specifications,
   whatever the parameter: they can share one controller (coherence hypothesis of T16e/f) *)
Theorem T16_seg_catalog_controller : forall g b segs maxn,
  ctrls_of (seg_catalog g b segs maxn) = [(g, map (combo_name segs) (seg_possibilities segs maxn))].
Proof. exact seg_catalog_ctrls. Qed.
Print Assumptions T16_seg_catalog_controller.

Theorem T16_gas_catalog_controllers : forall g b alt segs maxn,
  ctrls_of (gas_catalog g b alt segs maxn) =
  ((g ++ "_gen_altspec")%string, ["generic"; "altspec"]%string) ::
  match segs with
  | [] => []
  | _ => let c := (g, map (combo_name segs) (seg_possibilities segs maxn)) in [c; c]
  end.
Proof. exact gas_catalog_ctrls. Qed.
Print Assumptions T16_gas_catalog_controllers.
