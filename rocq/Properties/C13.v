(* C13 -- Data-set transformations keep rows and values intact.
   Property theorems only; each is closed by [exact] of a lemma proved in Proofs/DBP.v. *)
From Coq Require Import ZArith List Permutation.
From BV Require Import Model.DB Proofs.DBP.
Import ListNotations.
Open Scope Z_scope.

Theorem T13a_remove_exact : forall f t t' n,
  well_formed t -> remove_tab f t = Some (t', n) ->
  cols t' = cols t /\
  rows t' = filter (keeps f (cols t)) (rows t) /\
  n = Z.of_nat (length (filter (fun r => negb (keeps f (cols t) r)) (rows t))) /\
  n + nrows t' = nrows t.
Proof. exact remove_exact. Qed.
Print Assumptions T13a_remove_exact.
