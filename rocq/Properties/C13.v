(* C13 -- Data-set transformations keep rows and values intact.
   Property theorems only; each is closed by [exact] of a lemma proved in Proofs/DBP.v.
   The model (Model/DB.v) describes src/biogeme/database.py and tools/database.py as repaired by
   the fix: commits 589b5da, 5b62ce6, 4b225bd, 5cb635b; it is tied to the code by the
   correspondence stream `ops` (lib/props/C13.py).  Formulas are ARBITRARY functions of the row;
   the outcomes of the random number generator are arbitrary inputs. *)
From Coq Require Import ZArith List Bool Permutation.
From BV Require Import Model.DB Proofs.DBP.
Import ListNotations.
Open Scope Z_scope.

(* an example table: labels unsorted, with a gap and a duplicate; columns 1, 2 *)
Definition ex_t : table :=
  mkT [1; 6] [(7, [(1, 0); (5, 0)]); (3, [(1, 1); (5, 0)]); (7, [(3, 0); (1, 1)]); (10, [(1, 2); (1, 1)]); (4, [(5, 0); (9, 0)])].
Definition ex_f : formula := feval (FBin BEq (FCol 1) (FConst (3, 0))).     (* a == 3 *)

(* ---------------------------------------------------------------- T13a remove *)
(* remove deletes exactly the rows whose condition is non-zero (whatever the labels: unsorted,
   gaps, duplicates), keeps order, labels and cells of the others, reports the number of deleted
   rows, leaves no temporary column *)
Theorem T13a_remove_exact : forall f t t' n,
  well_formed t -> remove_tab f t = Some (t', n) ->
  cols t' = cols t /\
  rows t' = filter (keeps f (cols t)) (rows t) /\
  n = Z.of_nat (length (filter (fun r => negb (keeps f (cols t) r)) (rows t))) /\
  n + nrows t' = nrows t.
Proof. exact remove_exact. Qed.
Print Assumptions T13a_remove_exact.

Example T13a_example :
  well_formed ex_t /\
  remove_tab ex_f ex_t =
    Some (mkT [1; 6] [(7, [(1, 0); (5, 0)]); (3, [(1, 1); (5, 0)]); (10, [(1, 2); (1, 1)]); (4, [(5, 0); (9, 0)])], 1).
Proof.
  split; [|vm_compute; reflexivity]. split; [repeat constructor; simpl; intuition discriminate|].
  intros r Hr. simpl in Hr. repeat destruct Hr as [<-|Hr]; try reflexivity. contradiction.
Qed.

Theorem T13a_remove_values : forall f t t' n r,
  well_formed t -> remove_tab f t = Some (t', n) -> In r (rows t) ->
  exists v, f (cols t) (snd r) = Some v /\ (In r (rows t') <-> fst v = 0).
Proof. exact remove_exact_values. Qed.
Print Assumptions T13a_remove_values.

(* remove fails only on an empty table, a clash with the temporary name, or a formula that raises *)
Theorem T13a_remove_defined : forall f t,
  rows t <> [] -> ~ In bioRemove (cols t) -> (forall r, In r (rows t) -> f (cols t) (snd r) <> None) ->
  exists t' n, remove_tab f t = Some (t', n).
Proof. exact remove_defined. Qed.
Print Assumptions T13a_remove_defined.

(* ... after ANY history (gaps left by earlier removals, duplicate labels created by extract_rows
   with repeated positions, panel declaration, ...); on panel data the survivors are re-sorted by
   individual, every individual keeping its observations in order *)
Theorem T13a_remove_exact_over_histories : forall ops d0 f d',
  inv d0 -> step (run d0 ops) (ORemove f) = (d', Done) ->
  let d := run d0 ops in
  let kept := filter (keeps f (cols (tab d))) (rows (tab d)) in
  excluded d' = Z.of_nat (length (filter (fun r => negb (keeps f (cols (tab d)) r)) (rows (tab d)))) /\
  cols (tab d') = cols (tab d) /\
  Permutation (map snd (rows (tab d'))) (map snd kept) /\
  (pcol d = None -> rows (tab d') = kept) /\
  (forall c v, pcol d = Some c ->
      map snd (filter (has_id (cols (tab d)) c v) (rows (tab d'))) = map snd (filter (has_id (cols (tab d)) c v) kept)).
Proof. exact remove_exact_over_histories. Qed.
Print Assumptions T13a_remove_exact_over_histories.

Example T13a_history_example :
  inv (new_db ex_t) /\
  exists d', step (run (new_db ex_t) [OExtract [4; 0; 0; 2]; OAdd ex_f 9]) (ORemove (feval (FCol 9))) = (d', Done).
Proof.
  split; [|eexists; vm_compute; reflexivity]. apply new_db_inv. exact (proj1 T13a_example).
Qed.

(* the code before fix 589b5da (drop by label) did violate the statement *)
Theorem T13a_label_based_remove_refuted :
  exists f t t' n r,
    well_formed t /\ remove_tab_by_label f t = Some (t', n) /\
    In r (rows t) /\ f (cols t) (snd r) = Some dzero /\ ~ In r (rows t').
Proof. exact remove_by_label_refuted. Qed.
Print Assumptions T13a_label_based_remove_refuted.

(* on panel data remove rebuilds the map of individuals from the remaining rows (fix 5b62ce6) *)
Theorem T13a_remove_rebuilds_map : forall d f d',
  inv d -> step d (ORemove f) = (d', Done) ->
  let kept := filter (keeps f (cols (tab d))) (rows (tab d)) in
  excluded d' = Z.of_nat (length (filter (fun r => negb (keeps f (cols (tab d)) r)) (rows (tab d)))) /\
  pcol d' = pcol d /\
  match pcol d with
  | None => tab d' = mkT (cols (tab d)) kept /\ imap d' = None
  | Some c => tab d' = sort_tab c (mkT (cols (tab d)) kept) /\
              imap d' = build_imap c (tab d') /\ exists m, imap d' = Some m
  end.
Proof. exact step_remove_spec. Qed.
Print Assumptions T13a_remove_rebuilds_map.

(* ------------------------------------------- T13b add_column / define_variable *)
Theorem T13b_add_column_pointwise : forall f c t t',
  well_formed t -> add_col f c t = Some t' ->
  cols t' = cols t ++ [c] /\ labels t' = labels t /\
  forall i r, nth_error (rows t) i = Some r ->
    exists r', nth_error (rows t') i = Some r' /\ fst r' = fst r /\
               getc (cols t') c (snd r') = f (cols t) (snd r) /\
               forall c', In c' (cols t) -> getc (cols t') c' (snd r') = getc (cols t) c' (snd r).
Proof. exact add_column_pointwise. Qed.
Print Assumptions T13b_add_column_pointwise.

Theorem T13b_add_column_defined : forall f c t,
  rows t <> [] -> ~ In c (cols t) -> (forall r, In r (rows t) -> f (cols t) (snd r) <> None) ->
  exists t', add_col f c t = Some t'.
Proof. exact add_col_defined. Qed.
Print Assumptions T13b_add_column_defined.

Example T13b_example :
  add_col ex_f 9 ex_t =
    Some (mkT [1; 6; 9] [(7, [(1, 0); (5, 0); (0, 0)]); (3, [(1, 1); (5, 0); (0, 0)]); (7, [(3, 0); (1, 1); (1, 0)]);
                         (10, [(1, 2); (1, 1); (0, 0)]); (4, [(5, 0); (9, 0); (0, 0)])]).
Proof. vm_compute. reflexivity. Qed.

(* ------------------------------------------------------------ T13c scale_column *)
Theorem T13c_scale_one_column : forall c s t t',
  well_formed t -> scale_tab c s t = Some t' ->
  In c (cols t) /\ cols t' = cols t /\ labels t' = labels t /\ well_formed t' /\
  forall i r, nth_error (rows t) i = Some r ->
    exists r', nth_error (rows t') i = Some r' /\ fst r' = fst r /\
               getc (cols t) c (snd r') = option_map (fun x => dmul x s) (getc (cols t) c (snd r)) /\
               forall c', c' <> c -> getc (cols t) c' (snd r') = getc (cols t) c' (snd r).
Proof. exact scale_one_column. Qed.
Print Assumptions T13c_scale_one_column.

Example T13c_example :
  scale_tab 1 (1, -1) ex_t =
    Some (mkT [1; 6] [(7, [(1, -1); (5, 0)]); (3, [(1, 0); (5, 0)]); (7, [(3, -1); (1, 1)]); (10, [(1, 1); (1, 1)]); (4, [(5, -1); (9, 0)])]).
Proof. vm_compute. reflexivity. Qed.

(* -------------------------------------------------------------------- T13d split *)
(* for every number of folds, every outcome of the shuffle: the validation parts together
   contain every row exactly once, every estimation part is the complement of its validation
   part, and (grouping column or panel data) no group is separated *)
Theorem T13d_split_is_partition : forall k groups o d fs,
  split_db k groups o d = Ok fs ->
  2 <= k /\
  split_spec (tab d) (match pcol d with Some p => Some p | None => groups end) (Z.to_nat k) fs.
Proof. exact split_db_spec. Qed.
Print Assumptions T13d_split_is_partition.

Theorem T13d_split_plain_defined : forall k perm t,
  2 <= k -> is_perm_idx perm (length (rows t)) = true -> exists fs, split_plain k perm t = Ok fs.
Proof. exact split_plain_defined. Qed.
Print Assumptions T13d_split_plain_defined.

Theorem T13d_validation_parts_disjoint : forall t g k fs i j l,
  split_spec t g k fs -> labels_unique t ->
  (i < length fs)%nat -> (j < length fs)%nat ->
  In l (map fst (snd (nth i fs ([], [])))) -> In l (map fst (snd (nth j fs ([], [])))) -> i = j.
Proof. exact split_spec_disjoint_labels. Qed.
Print Assumptions T13d_validation_parts_disjoint.

Example T13d_example :
  exists fs, split_db 3 None (SPerm [3; 1; 0; 4; 2]) (new_db ex_t) = Ok fs /\
             split_db 2 (Some 6) (SIds [(9, 0); (5, 0); (1, 1)]) (new_db ex_t) <> Bad /\
             split_db 2 (Some 6) (SIds [(9, 0); (5, 0); (1, 1)]) (new_db ex_t) <> Err.
Proof. eexists. split; [vm_compute; reflexivity|]. split; vm_compute; discriminate. Qed.

(* ---------------------------------------------------------------- T13e bootstrap *)
Theorem T13e_bootstrap_rows_exist : forall size idx d s,
  sample_db size idx d = Ok s -> incl s (rows (tab d)).
Proof. exact sample_db_subset. Qed.
Print Assumptions T13e_bootstrap_rows_exist.

Theorem T13e_bootstrap_individuals_in_map : forall size idx d s,
  sample_imap_db size idx d = Ok s -> exists m, imap d = Some m /\ incl s m.
Proof. exact sample_imap_subset. Qed.
Print Assumptions T13e_bootstrap_individuals_in_map.

(* ... and the individuals of the map are exactly the individuals present in the table, along every
   history that does not rescale the identifier column itself *)
Theorem T13e_map_individuals_exist : forall d c m v,
  pcol d = Some c -> map_fresh d -> imap d = Some m ->
  (In v (map fst m) <-> exists r, In r (rows (tab d)) /\ getc (cols (tab d)) c (snd r) = Some v).
Proof. exact map_fresh_individuals. Qed.
Print Assumptions T13e_map_individuals_exist.

Theorem T13e_map_follows_table_over_histories : forall ops d,
  inv d -> map_fresh d -> no_id_scaling d ops -> map_fresh (run d ops).
Proof. exact run_map_fresh. Qed.
Print Assumptions T13e_map_follows_table_over_histories.

Example T13e_example :
  sample_db None [4; 0; 0; 2; 1] (new_db ex_t) =
    Ok [(4, [(5, 0); (9, 0)]); (7, [(1, 0); (5, 0)]); (7, [(1, 0); (5, 0)]); (7, [(3, 0); (1, 1)]); (3, [(1, 1); (5, 0)])].
Proof. vm_compute. reflexivity. Qed.

(* ------------------------------------------------ T13f extract / count / flatten *)
Theorem T13f_extract_rows : forall idx t t',
  extract_tab idx t = Some t' ->
  idx <> [] /\ (forall i, In i idx -> 0 <= i < nrows t) /\
  cols t' = cols t /\ rows t' = map (iloc t) idx /\ incl (rows t') (rows t).
Proof. exact extract_spec. Qed.
Print Assumptions T13f_extract_rows.

Theorem T13f_extract_after_remove : forall f idx t t1 n t2,
  well_formed t -> remove_tab f t = Some (t1, n) -> extract_tab idx t1 = Some t2 ->
  cols t2 = cols t /\
  rows t2 = map (fun i => nth (Z.to_nat i) (filter (keeps f (cols t)) (rows t)) dummy_row) idx.
Proof. exact extract_after_remove. Qed.
Print Assumptions T13f_extract_after_remove.

Theorem T13f_count : forall c v t n,
  count_tab c v t = Some n ->
  In c (cols t) /\
  n = Z.of_nat (length (filter (fun r : lrow => ceqb v (getd (cols t) c (snd r))) (rows t))).
Proof. exact count_spec. Qed.
Print Assumptions T13f_count.

Theorem T13f_count_after_remove : forall f c v t t1 n m,
  well_formed t -> remove_tab f t = Some (t1, n) -> count_tab c v t1 = Some m ->
  m = Z.of_nat (length (filter (fun r : lrow => keeps f (cols t) r && ceqb v (getd (cols t) c (snd r))) (rows t))).
Proof. exact count_after_remove. Qed.
Print Assumptions T13f_count_after_remove.

Theorem T13f_flatten : forall g idn t out,
  flatten_tab g idn t = Some out ->
  exists varying ident,
    incl varying (cols t) /\ incl ident (cols t) /\ ~ In g ident /\
    (forall c, In c (cols t) -> c <> g -> In c varying \/ In c ident) /\
    (forall c, In c ident -> ~ In c varying) /\
    NoDup (map fst out) /\
    (forall v, In v (map fst out) <-> exists r, In r (rows t) /\ getc (cols t) g (snd r) = Some v) /\
    forall v common flat, In (v, (common, flat)) out ->
      let G := filter (has_id (cols t) g v) (rows t) in
      common = map (fun c => (c, hd dzero (colv (cols t) c G))) ident /\
      (forall k c x, In ((k, c), x) flat <->
                     In c varying /\ exists n r, nth_error G n = Some r /\ k = Z.of_nat n + 1 /\
                                                 x = getd (cols t) c (snd r)) /\
      (idn = None -> forall c r, In c ident -> In r G ->
                     getd (cols t) c (snd r) = hd dzero (colv (cols t) c G)).
Proof. exact flatten_spec. Qed.
Print Assumptions T13f_flatten.

Example T13f_example :
  extract_tab [4; 0; 0] ex_t = Some (mkT [1; 6] [(4, [(5, 0); (9, 0)]); (7, [(1, 0); (5, 0)]); (7, [(1, 0); (5, 0)])]) /\
  count_tab 6 (5, 0) ex_t = Some 2 /\
  flatten_tab 6 None ex_t =
    Some [((1, 1), ([], [((1, 1), (3, 0)); ((2, 1), (1, 2))]));
          ((5, 0), ([], [((1, 1), (1, 0)); ((2, 1), (1, 1))]));
          ((9, 0), ([], [((1, 1), (5, 0))]))].
Proof. repeat split; vm_compute; reflexivity. Qed.

(* ------------------------------------------ T13g invariants over every history *)
Theorem T13g_invariant_over_histories : forall ops d, inv d -> inv (run d ops).
Proof. exact run_inv. Qed.
Print Assumptions T13g_invariant_over_histories.

Theorem T13g_labels_unique_over_histories : forall ops d,
  inv d -> labels_unique (tab d) -> (forall idx, In (OExtract idx) ops -> NoDup idx) ->
  labels_unique (tab (run d ops)).
Proof. exact run_labels_unique. Qed.
Print Assumptions T13g_labels_unique_over_histories.

(* a call that raises leaves the database exactly as it was *)
Theorem T13g_raise_leaves_state : forall d o, inv d -> snd (step d o) = Raised -> fst (step d o) = d.
Proof. exact step_raised_unchanged. Qed.
Print Assumptions T13g_raise_leaves_state.

Example T13g_example :
  inv (new_db ex_t) /\ snd (step (new_db ex_t) (OAdd ex_f 1)) = Raised /\
  ~ labels_unique ex_t /\ labels_unique (tab (run (new_db ex_t) [OPanel 6])).
Proof.
  split; [apply new_db_inv; exact (proj1 T13a_example)|]. split; [vm_compute; reflexivity|]. split.
  - unfold labels_unique, labels. simpl. intros H. inversion H as [|? ? N _]. apply N. simpl. auto.
  - vm_compute. repeat constructor; simpl; intuition discriminate.
Qed.

(* ---------------------------------------------------- T13h the proved checkers *)
Theorem T13h_check_split_sound_and_complete : forall t g k fs,
  check_split t g k fs = true <-> split_spec t g k fs.
Proof. exact check_split_spec. Qed.
Print Assumptions T13h_check_split_sound_and_complete.

Theorem T13h_check_subset_sound_and_complete : forall s rs, check_subset s rs = true <-> incl s rs.
Proof. exact check_subset_spec. Qed.
Print Assumptions T13h_check_subset_sound_and_complete.

(* ------------------------------------------------------- T13i panel declaration *)
(* a refused declaration leaves the database untouched (fix 4b225bd); an accepted one sorts the
   rows by individual, renumbers the index, builds the map *)
Theorem T13i_panel_declaration : forall c d,
  well_formed (tab d) ->
  match panel_db c d with
  | (d', Raised) => d' = d
  | (d', Done) =>
    In c (cols (tab d)) /\
    exists m, d' = mkDB (sort_tab c (tab d)) (excluded d) (Some c) (Some m) /\
              build_imap c (sort_tab c (tab d)) = Some m
  end.
Proof. exact panel_db_spec. Qed.
Print Assumptions T13i_panel_declaration.

(* the sort is a rearrangement of the rows, sorted by individual, and stable: the observations of
   every individual keep their order (fix 5cb635b) *)
Theorem T13i_panel_sort : forall c t,
  cols (sort_tab c t) = cols t /\
  labels (sort_tab c t) = iota (length (rows t)) /\
  Permutation (map snd (rows (sort_tab c t))) (map snd (rows t)) /\
  sorted_cells (map (fun r : lrow => getd (cols t) c (snd r)) (rows (sort_tab c t))) = true /\
  forall v, map snd (filter (has_id (cols t) c v) (rows (sort_tab c t)))
            = map snd (filter (has_id (cols t) c v) (rows t)).
Proof. exact sort_tab_spec. Qed.
Print Assumptions T13i_panel_sort.

Example T13i_example :
  panel_db 6 (new_db ex_t) =
    (mkDB (mkT [1; 6] [(0, [(3, 0); (1, 1)]); (1, [(1, 2); (1, 1)]); (2, [(1, 0); (5, 0)]); (3, [(1, 1); (5, 0)]); (4, [(5, 0); (9, 0)])])
          0 (Some 6) (Some [((1, 1), (0, 1)); ((5, 0), (2, 3)); ((9, 0), (4, 4))]), Done) /\
  snd (panel_db 1 (new_db (mkT [1] [(0, [(5, 0)]); (1, [(1, 1)]); (2, [(5, 0)])]))) = Raised.
Proof. split; vm_compute; reflexivity. Qed.

(* the ranges of the map: in the table produced by panel() (or by remove() on panel data) the
   range [lo, hi] recorded for an individual holds exactly the rows of that individual.
   (cells of the identifier column in canonical form, as every IEEE double is) *)
Theorem T13i_map_ranges : forall c t m v lo hi,
  well_formed t -> In c (cols t) -> canonical_col c t ->
  build_imap c (sort_tab c t) = Some m -> In (v, (lo, hi)) m ->
  let t' := sort_tab c t in
  0 <= lo <= hi /\ hi < nrows t' /\
  forall p, 0 <= p < nrows t' -> (lo <= p <= hi <-> getc (cols t') c (snd (iloc t' p)) = Some v).
Proof. exact panel_ranges. Qed.
Print Assumptions T13i_map_ranges.

Example T13i_ranges_example :
  well_formed ex_t /\ In 6 (cols ex_t) /\ canonical_col 6 ex_t /\
  build_imap 6 (sort_tab 6 ex_t) = Some [((1, 1), (0, 1)); ((5, 0), (2, 3)); ((9, 0), (4, 4))].
Proof.
  split; [exact (proj1 T13a_example)|]. split; [simpl; auto|]. split; [|vm_compute; reflexivity].
  intros r Hr. simpl in Hr. repeat destruct Hr as [<-|Hr]; try reflexivity. contradiction.
Qed.

(* ----------------------------------- the arithmetic used for formulas is exact *)
(* [dval a E] = a / 2^E (an integer when E <= exponent of a): the operations on cells used by the
   closed formula family of the stream (feval) are the operations on the numbers they denote *)
Theorem T13b_dyadic_arithmetic_exact :
  (forall a b E, E <= snd a -> E <= snd b -> dval (dadd a b) E = dval a E + dval b E) /\
  (forall a b E, E <= snd a -> E <= snd b -> dval (dsub a b) E = dval a E - dval b E) /\
  (forall a b Ea Eb, Ea <= snd a -> Eb <= snd b -> dval (dmul a b) (Ea + Eb) = dval a Ea * dval b Eb) /\
  (forall a b E, E <= snd a -> E <= snd b -> (dleb a b = true <-> dval a E <= dval b E)) /\
  (forall a b E, E <= snd a -> E <= snd b -> (dltb a b = true <-> dval a E < dval b E)) /\
  (forall a b E, canonical a -> canonical b -> E <= snd a -> E <= snd b -> (ceqb a b = true <-> dval a E = dval b E)) /\
  (forall a b, canonical (dadd a b) /\ canonical (dmul a b)).
Proof. exact arithmetic_exact. Qed.
Print Assumptions T13b_dyadic_arithmetic_exact.
