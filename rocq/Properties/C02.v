(* C02 -- gradient, Hessian and BHHH returned with a value are its true derivatives. *)
From Coq Require Import Reals List String.
From Coquelicot Require Import Coquelicot.
From BV Require Import Model.Expr Model.EvalX Model.Deriv Proofs.DerivP.
Open Scope R_scope.

(* T02a.  For every tree of the smooth fragment, every environment in the open domain (dom) and
   every parameter / variable w of the list ws: the value of the tree [D w e] is the partial
   derivative of the value of e with respect to w. *)
Theorem T02a_D_correct : forall (Phi : R -> R),
  (forall x, is_derive Phi x (D2R inv_sqrt_2pi * exp (- (x * x / 2)))) ->
  forall (ws : list wrt) (en : env) (w : wrt) (x0 : R) (e : expr),
    In w ws -> wrt_val en w = Some x0 -> dom Phi ws en e ->
    is_derive (fun x => valR (evalX Phi e (upd en w x))) x0 (valR (evalX Phi (D w e) en)).
Proof. exact D_correct_at. Qed.
Print Assumptions T02a_D_correct.
