(* C02 -- Gradient, Hessian and BHHH returned with a value are its true derivatives.

   Property theorems only; each is closed by [exact] of a lemma proved in Proofs/DerivP.v
   (symbolic derivative D of Model/Deriv.v, Coquelicot) or Proofs/PackP.v (packaging code,
   about the definitions of Gen/Pack.v regenerated from the Python source on every run).

   The engine's derivative code is external (C++): the stream deriv_engine of ./check C02
   compares every entry it returns with a proved enclosure (T01f) of evalX (D b e) and
   evalX (D b' (D b e)).  What is proved here is that these trees ARE the derivatives. *)
From Coq Require Import Reals ZArith List String Bool.
From Coquelicot Require Import Coquelicot.
From BV Require Import Model.Expr Model.EvalX Model.Deriv Model.IdMgr Model.Pack Gen.Pack
  Proofs.DerivP Proofs.PackP.
Import ListNotations.
Open Scope R_scope.

(* the hypothesis on the normal CDF (external): differentiable, with the density the derivative
   trees use -- c * exp(-x^2/2), c the double nearest to 1/sqrt(2 pi) *)
Definition Phi_ok (Phi : R -> R) : Prop :=
  forall x, is_derive Phi x (D2R inv_sqrt_2pi * exp (- (x * x / 2))).

(* non-vacuity: such a function exists (the integral of the density) *)
Example Phi_ok_inhabited : exists Phi, Phi_ok Phi.
Proof. exact Phi_exists. Qed.

(* ------------------------------------------------------------------ T02a *)
(* For every tree of the smooth fragment, every environment in the open domain (dom) and every
   parameter / variable w of the list ws: the value of the tree [D w e] is the partial derivative
   of the value of e with respect to w, and it is a real number. *)
Theorem T02a_D_correct : forall Phi, Phi_ok Phi ->
  forall (ws : list wrt) (en : env) (w : wrt) (x0 : R) (e : expr),
    In w ws -> wrt_val en w = Some x0 -> dom Phi ws en e ->
    is_derive (fun x => valR (evalX Phi e (upd en w x))) x0 (valR (evalX Phi (D w e) en)).
Proof. exact D_correct_at. Qed.
Print Assumptions T02a_D_correct.

Theorem T02a_D_value : forall Phi, Phi_ok Phi ->
  forall (ws : list wrt) (en : env) (w : wrt) (x0 : R) (e : expr),
    In w ws -> wrt_val en w = Some x0 -> dom Phi ws en e -> exists d, evalX Phi (D w e) en = XR d.
Proof. exact D_value_at. Qed.
Print Assumptions T02a_D_value.

(* the derivative tree is again inside the fragment and the open domain: D can be iterated *)
Theorem T02a_dom_D : forall Phi, Phi_ok Phi ->
  forall (ws : list wrt) (en : env) (w : wrt) (x0 : R) (e : expr),
    In w ws -> wrt_val en w = Some x0 -> dom Phi ws en e -> dom Phi ws en (D w e).
Proof. exact dom_D_at. Qed.
Print Assumptions T02a_dom_D.

(* the domain is open: it holds on a neighbourhood of the point (so "interior point" is what dom says) *)
Theorem T02a_dom_open : forall Phi, Phi_ok Phi ->
  forall (ws : list wrt) (w : wrt), In w ws -> forall (en : env) (x0 : R) (e : expr),
    dom Phi ws (upd en w x0) e -> locally x0 (fun x => dom Phi ws (upd en w x) e).
Proof. exact dom_open. Qed.
Print Assumptions T02a_dom_open.

(* non-vacuity of T02a: the formula  b * Phi(b) + exp(b) / (1 + b*b) + log(c + x)  at b = 1/2, c = 2,
   x = 1 is in the domain with respect to [b; c] *)
Definition demo_tree : expr :=
  EBin Plus (EBin Plus (EBin Times (EBeta "b" false) (EUn NormalCdf (EBeta "b" false)))
                       (EBin Divide (EUn Exp (EBeta "b" false))
                                    (EBin Plus (ENumZ 1) (EBin Times (EBeta "b" false) (EBeta "b" false)))))
            (EUn Log (EBin Plus (EBeta "c" false) (EVar "x"))).
Definition demo_env : env :=
  mkEnv (fun n => if String.eqb n "b" then Some (1/2) else if String.eqb n "c" then Some 2 else None)
        (fun n => if String.eqb n "x" then Some 1 else None)
        (fun _ => None) (fun _ => None) [] [].

Example T02a_hypotheses_hold : forall Phi,
  In (WBeta "b") [WBeta "b"; WBeta "c"] /\ wrt_val demo_env (WBeta "b") = Some (1/2) /\
  dom Phi [WBeta "b"; WBeta "c"] demo_env demo_tree.
Proof.
  intros Phi. split; [left; reflexivity|]. split; [reflexivity|].
  unfold demo_tree.
  assert (Hb : dom Phi [WBeta "b"; WBeta "c"] demo_env (EBeta "b" false)) by (apply (dom_beta _ _ _ _ _ (1/2)); reflexivity).
  assert (Hc : dom Phi [WBeta "b"; WBeta "c"] demo_env (EBeta "c" false)) by (apply (dom_beta _ _ _ _ _ 2); reflexivity).
  assert (Hx : dom Phi [WBeta "b"; WBeta "c"] demo_env (EVar "x")) by (apply (dom_var _ _ _ _ 1); reflexivity).
  assert (H1 : dom Phi [WBeta "b"; WBeta "c"] demo_env (ENumZ 1))
    by (apply (dom_pfree _ _ _ _ (IZR 1)); [reflexivity | apply ev_numZ]).
  apply dom_plus; [apply dom_plus|].
  - apply dom_times; [exact Hb | apply dom_normalcdf; exact Hb].
  - apply (dom_divide _ _ _ _ _ (1 + 1/2 * (1/2))).
    + apply dom_exp; exact Hb.
    + apply dom_plus; [exact H1 | apply dom_times; exact Hb].
    + unfold EBin, ENumZ, EBeta. rewrite !ev_bin, ev_numZ. reflexivity.
    + apply Rgt_not_eq. apply Rlt_gt. apply Rplus_lt_0_compat; [exact Rlt_0_1|].
      apply Rmult_lt_0_compat; apply Rdiv_lt_0_compat; (exact Rlt_0_1 || exact Rlt_0_2).
  - apply (dom_log _ _ _ _ (2 + 1)).
    + apply dom_plus; [exact Hc | exact Hx].
    + reflexivity.
    + apply Rplus_lt_0_compat; [exact Rlt_0_2 | exact Rlt_0_1].
Qed.

(* ------------------------------------------------------------------ T02b *)
(* The (w, w') tree of the Hessian is the derivative with respect to w' of the w-th gradient tree ... *)
Theorem T02b_hess_correct : forall Phi, Phi_ok Phi ->
  forall (ws : list wrt) (en : env) (w w' : wrt) (x0 x0' : R) (e : expr),
    In w ws -> In w' ws -> wrt_val en w = Some x0 -> wrt_val en w' = Some x0' -> dom Phi ws en e ->
    is_derive (fun x => valR (evalX Phi (D w e) (upd en w' x))) x0' (valR (evalX Phi (D w' (D w e)) en)).
Proof. exact hess_correct. Qed.
Print Assumptions T02b_hess_correct.

(* ... hence the second partial derivative of the value: mixed entries (w <> w') *)
Theorem T02b_hess_is_second_derivative_mixed : forall Phi, Phi_ok Phi ->
  forall (ws : list wrt) (en : env) (w w' : wrt) (x0 x0' : R) (e : expr),
    In w ws -> In w' ws -> wrt_eqb w w' = false ->
    wrt_val en w = Some x0 -> wrt_val en w' = Some x0' -> dom Phi ws en e ->
    is_derive (fun x' => Derive (fun x => valR (evalX Phi e (upd (upd en w' x') w x))) x0) x0'
              (valR (evalX Phi (D w' (D w e)) en)).
Proof. exact hess_is_second_derivative_mixed. Qed.
Print Assumptions T02b_hess_is_second_derivative_mixed.

(* ... and diagonal entries *)
Theorem T02b_hess_is_second_derivative_diag : forall Phi, Phi_ok Phi ->
  forall (ws : list wrt) (en : env) (w : wrt) (x0 : R) (e : expr),
    In w ws -> wrt_val en w = Some x0 -> dom Phi ws en e ->
    is_derive (fun x' => Derive (fun x => valR (evalX Phi e (upd en w x))) x') x0
              (valR (evalX Phi (D w (D w e)) en)).
Proof. exact hess_is_second_derivative_diag. Qed.
Print Assumptions T02b_hess_is_second_derivative_diag.

(* ------------------------------------------------------------------ T02d *)
(* Entry i of the gradient list (resp. (i, j) of the Hessian) is the derivative with respect to the
   i-th (and j-th) name of the list of names ... *)
Theorem T02d_grad_entry : forall names e i, (i < List.length names)%nat ->
  nth i (grad names e) Deriv.zero = D (WBeta (nth i names EmptyString)) e.
Proof. exact grad_nth. Qed.
Print Assumptions T02d_grad_entry.

Theorem T02d_hess_entry : forall names e i j, (i < List.length names)%nat -> (j < List.length names)%nat ->
  nth j (nth i (hess names e) []) Deriv.zero =
  D (WBeta (nth j names EmptyString)) (D (WBeta (nth i names EmptyString)) e).
Proof. exact hess_nth. Qed.
Print Assumptions T02d_hess_entry.

(* ... the list the library uses is the sorted list of the free-parameter names, the index it
   attaches to a name is its rank (expressions_names_indices, generated from idmanager.py), the
   literal ids handed to the engine by calculate_likelihood_and_derivatives are 0 .. n-1 in that
   order ... *)
Theorem T02d_names_sorted_indices_ranks : forall keys,
  expressions_names_indices keys = (map swap_iv (enumerate (sorted_names keys)), sorted_names keys).
Proof. exact names_indices_spec. Qed.
Print Assumptions T02d_names_sorted_indices_ranks.

Theorem T02d_index_is_rank : forall keys b,
  dict_get (fst (expressions_names_indices keys)) b = index_of b (snd (expressions_names_indices keys)).
Proof. exact index_is_rank. Qed.
Print Assumptions T02d_index_is_rank.

Theorem T02d_literal_ids : forall keys,
  clad_literal_ids (fst (expressions_names_indices keys)) = map Z.of_nat (seq 0 (List.length (sorted_names keys))).
Proof. exact literal_ids_spec. Qed.
Print Assumptions T02d_literal_ids.

(* ... and a named output attaches entry i of the array to the i-th sorted name (convert_to_dict,
   generated from function_output.py): named[b] = array[rank b] *)
Theorem T02d_named_entry : forall (A : Type) (d : A) keys (arr : list A) i,
  List.length arr = List.length (sorted_names keys) -> (i < List.length (sorted_names keys))%nat ->
  exists dict, convert_to_dict d arr (fst (expressions_names_indices keys)) = Some dict /\
               dict_get dict (nth i (sorted_names keys) EmptyString) = Some (nth i arr d) /\
               map fst dict = sorted_names keys.
Proof. exact @named_entry. Qed.
Print Assumptions T02d_named_entry.

Theorem T02d_named_gradient : forall (A : Type) (d : A) keys (g : list A),
  List.length g = List.length (sorted_names keys) ->
  named_gradient d (Some g) (fst (expressions_names_indices keys)) = Some (Some (combine (sorted_names keys) g)).
Proof. exact @named_gradient_spec. Qed.
Print Assumptions T02d_named_gradient.

Theorem T02d_named_hessian : forall (A : Type) (d : A) keys (h : list (list A)),
  List.length h = List.length (sorted_names keys) ->
  Forall (fun row => List.length row = List.length (sorted_names keys)) h ->
  named_hessian d (Some h) (fst (expressions_names_indices keys))
  = Some (Some (combine (sorted_names keys) (map (fun row => Some (combine (sorted_names keys) row)) h))).
Proof. exact @named_hessian_spec. Qed.
Print Assumptions T02d_named_hessian.

Example T02d_demo :
  expressions_names_indices ["b_2"; "B_z"; "a9"; "B_10"]%string
  = ([("B_10", 0); ("B_z", 1); ("a9", 2); ("b_2", 3)]%string%Z, ["B_10"; "B_z"; "a9"; "b_2"]%string)
  /\ convert_to_dict 0%Z [10; 20; 30; 40]%Z (fst (expressions_names_indices ["b_2"; "B_z"; "a9"; "B_10"]%string))
     = Some [("B_10", 10); ("B_z", 20); ("a9", 30); ("b_2", 40)]%string%Z
  /\ convert_to_dict 0%Z [10; 20]%Z [("a", 0); ("b", 2)]%string%Z = None.
Proof. repeat split; vm_compute; reflexivity. Qed.

(* ------------------------------------------------------------------ selection of the outputs *)
(* calculate_function_and_derivatives (generated from calculator.py): aggregated mode returns the
   first entry of each array and None for what was not asked; per-observation mode returns the
   arrays; without database exactly one entry is expected *)
Theorem T02_select_aggregated : forall (F G H : Type) (dF : F) (dG : G) (dH : H) cg ch cb db f g h b,
  select dF dG dH cg ch cb true db f g h b
  = RAgg (nth 0 f dF, asked cg (nth 0 g dG), asked ch (nth 0 h dH), asked cb (nth 0 b dH)).
Proof. exact @select_agg. Qed.
Print Assumptions T02_select_aggregated.

Theorem T02_select_per_observation : forall (F G H : Type) (dF : F) (dG : G) (dH : H) cg ch cb f g h b,
  select dF dG dH cg ch cb false (Some tt) f g h b = RDis (f, asked cg g, asked ch h, asked cb b).
Proof. exact @select_dis. Qed.
Print Assumptions T02_select_per_observation.

Theorem T02_select_no_database_one : forall (F G H : Type) (dF : F) (dG : G) (dH : H) cg ch cb f0 g h b,
  select dF dG dH cg ch cb false None [f0] g h b
  = RAgg (f0, asked cg (nth 0 g dG), asked ch (nth 0 h dH), asked cb (nth 0 b dH)).
Proof. exact @select_one. Qed.
Print Assumptions T02_select_no_database_one.

Theorem T02_select_no_database_many : forall (F G H : Type) (dF : F) (dG : G) (dH : H) cg ch cb f g h b,
  List.length f <> 1%nat -> select dF dG dH cg ch cb false None f g h b = RErr.
Proof. exact @select_many. Qed.
Print Assumptions T02_select_no_database_many.

(* the only refused request: Hessian or BHHH without the gradient; the flags asked reach the engine *)
Theorem T02_refusal : forall g h b, gvd_refuses g h b = true <-> ((h = true \/ b = true) /\ g = false).
Proof. exact gvd_refuses_spec. Qed.
Print Assumptions T02_refusal.

Theorem T02_flags_passed : forall g h b a,
  (let '(g1, h1, b1, a1) := gvd_flags g h b a in engine_flags g1 h1 b1 a1) = (g, h, b, a).
Proof. exact flags_passed. Qed.
Print Assumptions T02_flags_passed.

(* ------------------------------------------------------------------ T02e *)
(* Aggregation: the sum over the observations of the per-observation derivatives is the derivative
   of the sum over the observations of the values (gradient and Hessian) ... *)
Theorem T02e_aggregate_gradient : forall Phi, Phi_ok Phi ->
  forall ws w x0 e (rows : list env), In w ws ->
    (forall r, In r rows -> wrt_val r w = Some x0 /\ dom Phi ws r e) ->
    is_derive (fun x => rsum (map (fun r => valR (evalX Phi e (upd r w x))) rows)) x0
              (rsum (map (fun r => valR (evalX Phi (D w e) r)) rows)).
Proof. exact aggregate_gradient. Qed.
Print Assumptions T02e_aggregate_gradient.

Theorem T02e_aggregate_hessian : forall Phi, Phi_ok Phi ->
  forall ws w w' x0 x0' e (rows : list env), In w ws -> In w' ws ->
    (forall r, In r rows -> wrt_val r w = Some x0 /\ wrt_val r w' = Some x0' /\ dom Phi ws r e) ->
    is_derive (fun x => rsum (map (fun r => valR (evalX Phi (D w e) (upd r w' x))) rows)) x0'
              (rsum (map (fun r => valR (evalX Phi (D w' (D w e)) r)) rows)).
Proof. exact aggregate_hessian. Qed.
Print Assumptions T02e_aggregate_hessian.

(* ... and entry-wise: an entry of a sum of vectors / matrices is the sum of the entries *)
Theorem T02e_vsum_entry : forall k l i,
  Forall (fun v => List.length v = k) l -> ventry (vsum k l) i = rsum (map (fun v => ventry v i) l).
Proof. exact vsum_entry. Qed.
Print Assumptions T02e_vsum_entry.

Theorem T02e_msum_entry : forall k l i j,
  Forall (square k) l -> mentry (msum k l) i j = rsum (map (fun m => mentry m i j) l).
Proof. exact msum_entry. Qed.
Print Assumptions T02e_msum_entry.

(* ------------------------------------------------------------------ T02f *)
(* BHHH = sum over the observations of the outer products of the gradients: entry (i, j) is the sum
   of g_r[i] * g_r[j]; it is symmetric *)
Theorem T02f_bhhh_entry : forall k gs i j,
  Forall (fun g => List.length g = k) gs ->
  mentry (bhhh k gs) i j = rsum (map (fun g => ventry g i * ventry g j) gs).
Proof. exact bhhh_entry. Qed.
Print Assumptions T02f_bhhh_entry.

Theorem T02f_bhhh_symmetric : forall k gs i j,
  Forall (fun g => List.length g = k) gs -> mentry (bhhh k gs) i j = mentry (bhhh k gs) j i.
Proof. exact bhhh_symmetric. Qed.
Print Assumptions T02f_bhhh_symmetric.

Example T02f_demo : bhhh 2 [[1; 2]; [3; 4]] = [[1 * 1 + (3 * 3 + 0); 1 * 2 + (3 * 4 + 0)]; [2 * 1 + (4 * 3 + 0); 2 * 2 + (4 * 4 + 0)]].
Proof. reflexivity. Qed.

(* ------------------------------------------------------------------ T02g *)
(* Scaling (generated from biogeme.py): all four outputs are divided by the sample size, entry by
   entry; a zero sample size is refused; division by N commutes with differentiation *)
Theorem T02g_scaled_entries : forall n f g h bh f' g' h' bh',
  clad_scale true n f g h bh = Some (f', g', h', bh') ->
  f' = f / IZR n /\ (forall i, ventry g' i = ventry g i / IZR n) /\
  (forall i j, mentry h' i j = mentry h i j / IZR n) /\ (forall i j, mentry bh' i j = mentry bh i j / IZR n).
Proof. exact scaled_entries. Qed.
Print Assumptions T02g_scaled_entries.

Theorem T02g_unscaled : forall n f g h bh, (n <> 0)%Z ->
  clad_scale true n f g h bh = Some (f / IZR n, vdiv g (IZR n), mdiv h (IZR n), mdiv bh (IZR n)) /\
  clad_scale false n f g h bh = Some (f, g, h, bh).
Proof. exact clad_scale_spec. Qed.
Print Assumptions T02g_unscaled.

Theorem T02g_scaling_linear : forall (f : R -> R) (x0 d N : R),
  is_derive f x0 d -> is_derive (fun x => f x / N) x0 (d / N).
Proof. exact scaling_linear. Qed.
Print Assumptions T02g_scaling_linear.

(* ------------------------------------------------------------------ T02c *)
(* The Hessian is symmetric: the trees D w' (D w e) and D w (D w' e) have the same value, for every tree
   of the smooth fragment at every point of the open domain.  (Proved by induction on the tree with the
   semantic derivation rules of Proofs/DerivP.v; the symmetry of the matrix returned by the engine is
   checked entry by entry by the stream deriv_engine.) *)
Theorem T02c_hessian_symmetric : forall Phi, Phi_ok Phi ->
  forall (ws : list wrt) (en : env) (w w' : wrt) (x0 x0' : R) (e : expr),
    In w ws -> In w' ws -> wrt_val en w = Some x0 -> wrt_val en w' = Some x0' -> dom Phi ws en e ->
    evalX Phi (D w' (D w e)) en = evalX Phi (D w (D w' e)) en.
Proof. exact hess_symmetric_at. Qed.
Print Assumptions T02c_hessian_symmetric.

(* non-vacuity: on the demo formula the mixed entries (b, c) and (c, b) coincide, and both are real numbers *)
Example T02c_demo : forall Phi, Phi_ok Phi ->
  evalX Phi (D (WBeta "c") (D (WBeta "b") demo_tree)) demo_env = evalX Phi (D (WBeta "b") (D (WBeta "c") demo_tree)) demo_env
  /\ exists d, evalX Phi (D (WBeta "c") (D (WBeta "b") demo_tree)) demo_env = XR d.
Proof.
  intros Phi HP. destruct (T02a_hypotheses_hold Phi) as (Hb & Hvb & Hd).
  assert (Hc : In (WBeta "c") [WBeta "b"; WBeta "c"]) by (right; left; reflexivity).
  split.
  - exact (T02c_hessian_symmetric Phi HP _ demo_env (WBeta "b") (WBeta "c") (1/2) 2 demo_tree Hb Hc Hvb eq_refl Hd).
  - exact (T02a_D_value Phi HP _ demo_env (WBeta "c") 2 _ Hc eq_refl
             (T02a_dom_D Phi HP _ demo_env (WBeta "b") (1/2) demo_tree Hb Hvb Hd)).
Qed.

(* the derivative tree does not depend on parameters the formula does not mention *)
Theorem T02c_mentions_D : forall u v e, mentions u (D v e) = true -> mentions u e = true.
Proof. exact mentions_D. Qed.
Print Assumptions T02c_mentions_D.
