(* C12 -- Invalid specifications are refused with a clear error wherever the fault sits.
   Property theorems only; each is closed by [exact] of a lemma proved in Proofs/AuditP.v.
   [G] is the recursion table regenerated from /repo/src/biogeme/expressions/*.py and catalog.py on
   every run (Gen/AuditTable.v): removing the recursion from one class changes G and breaks T12_0. *)
From Coq Require Import ZArith List String Bool Reals.
From BV Require Import Model.Expr Model.IdMgr Model.Audit Model.EvalX Gen.AuditTable.
From BV Require Import Proofs.IdMgrP Proofs.AuditP.
Open Scope Z_scope. Open Scope string_scope. Open Scope list_scope.

(* T12_0. all_kinds_recurse: in the code as it is now, the audit of every kind of node reaches each of its
   children (unary kinds through self.child), Variable.audit tests the column, each of the three
   collections has exactly its leaf (answers its name) and its blocking operator (answers the empty
   set), and every other kind takes the union over get_children() = self.children. *)
Theorem T12_0_all_kinds_recurse : forall h, head_ok G h = true.
Proof. exact gen_head_ok. Qed.
Print Assumptions T12_0_all_kinds_recurse.

(* catalogs (MultipleExpression, Catalog) hand all five methods to the selected expression: a catalog
   node is transparent, which is how the expression bridge presents it to the model *)
Theorem T12_0_catalogs_delegate :
  map fst gen_transparent = ["MultipleExpression"; "Catalog"] /\
  forallb (fun r => transparent_ok (snd r)) gen_transparent = true.
Proof. exact (conj gen_transparent_classes gen_transparent_ok). Qed.
Print Assumptions T12_0_catalogs_delegate.

(* T12a. a column absent from the data is reported through every one-hole context *)
Theorem T12a_missing_column_rejected : forall db C x,
  ctx_wf C = true -> ~ In x (d_cols db) -> In (EMissingColumn x) (audit G db (plug C (EVar x))).
Proof. exact missing_column_rejected. Qed.
Print Assumptions T12a_missing_column_rejected.

Definition ex_db := mkDb ["x1"; "kk"] [[("x1", (1, 0)); ("kk", (1, 0))]; [("x1", (3, -1)); ("kk", (2, 0))]] false.
(* non-vacuity: under a comparison, under a product, in the availability of a logit *)
Example T12a_example :
  audit G ex_db (plug [(HBin Times, [EBeta "b" false], []);
                       (HLogLogit [1; 2] [1; 2], [EVar "kk"; EVar "x1"; ENumZ 0; ENumZ 1], []);
                       (HBin Gt, [], [ENumZ 1])] (EVar "zz")) = [EMissingColumn "zz"].
Proof. vm_compute. reflexivity. Qed.

(* T12b-d. placement: the leaf is collected unless the path goes under its operator, in which case the
   content of the hole has no influence *)
Theorem T12b_draws_outside_mc : forall C n t,
  ctx_wf C = true -> passes_under is_mc C = false -> In n (check_draws G (plug C (EDraws n t))).
Proof. exact draws_outside_mc. Qed.
Print Assumptions T12b_draws_outside_mc.
Theorem T12b_draws_under_mc : forall C e1 e2,
  passes_under is_mc C = true -> check_draws G (plug C e1) = check_draws G (plug C e2).
Proof. exact draws_under_mc. Qed.
Print Assumptions T12b_draws_under_mc.
Example T12b_example :
  check_draws G (plug [(HBin Plus, [ENumZ 1], []); (HBin Le, [], [ENumZ 0])] (EDraws "d" "NORMAL")) = ["d"] /\
  check_draws G (plug [(HBin Plus, [ENumZ 1], []); (HUn MonteCarlo, [], []); (HBin Le, [], [ENumZ 0])]
                      (EDraws "d" "NORMAL")) = [].
Proof. vm_compute. split; reflexivity. Qed.

Theorem T12c_rv_outside_integral : forall C n,
  ctx_wf C = true -> passes_under is_integrate C = false -> In n (check_rv G (plug C (ERV n))).
Proof. exact rv_outside_integral. Qed.
Print Assumptions T12c_rv_outside_integral.
Theorem T12c_rv_under_integral : forall C e1 e2,
  passes_under is_integrate C = true -> check_rv G (plug C e1) = check_rv G (plug C e2).
Proof. exact rv_under_integral. Qed.
Print Assumptions T12c_rv_under_integral.
Example T12c_example :
  check_rv G (plug [(HElem [1; 2], [ENumZ 1; ENumZ 0], [])] (ERV "om")) = ["om"] /\
  check_rv G (plug [(HIntegrate "om", [], []); (HElem [1; 2], [ENumZ 1; ENumZ 0], [])] (ERV "om")) = [].
Proof. vm_compute. split; reflexivity. Qed.

Theorem T12d_var_outside_trajectory : forall C n,
  ctx_wf C = true -> passes_under is_traj C = false -> In n (check_panel G (plug C (EVar n))).
Proof. exact var_outside_trajectory. Qed.
Print Assumptions T12d_var_outside_trajectory.
Theorem T12d_var_under_trajectory : forall C e1 e2,
  passes_under is_traj C = true -> check_panel G (plug C e1) = check_panel G (plug C e2).
Proof. exact var_under_trajectory. Qed.
Print Assumptions T12d_var_under_trajectory.
Example T12d_example :
  check_panel G (plug [(HBin Times, [], [EUn PanelTraj (EVar "x1")])] (EVar "x2")) = ["x2"] /\
  check_panel G (plug [(HUn PanelTraj, [], []); (HBin Times, [], [EVar "x1"])] (EVar "x2")) = [].
Proof. vm_compute. split; reflexivity. Qed.

(* KNOWN FINDING (open): on panel data the constructor applies this rule to a formula given as a single
   Expression only; formulas given in a dictionary are accepted with variables outside the trajectory *)
Theorem T12d_dict_formulas_refuted :
  exists db e, d_panel db = true /\ In "x1" (check_panel G e) /\
               spec_errors G db e <> [] /\ spec_errors_dict G db e = [].
Proof. exact var_outside_trajectory_dict_refuted. Qed.
Print Assumptions T12d_dict_formulas_refuted.

(* the same four faults in the verdict of BIOGEME(database, formula) *)
Theorem T12abcd_spec_refuses : forall db C,
  ctx_wf C = true ->
  (forall x, ~ In x (d_cols db) -> In (EMissingColumn x) (spec_errors G db (plug C (EVar x)))) /\
  (forall n t, passes_under is_mc C = false -> In (EDrawsOutside n) (spec_errors G db (plug C (EDraws n t)))) /\
  (forall n, passes_under is_integrate C = false -> In (ERvOutside n) (spec_errors G db (plug C (ERV n)))) /\
  (forall n, d_panel db = true -> passes_under is_traj C = false ->
             In (EVarOutsideTraj n) (spec_errors G db (plug C (EVar n)))).
Proof. exact spec_refuses. Qed.
Print Assumptions T12abcd_spec_refuses.

(* T12abc for a specification with several formulas ({'log_like': ..., 'weight': ..., ...}): BIOGEME._audit, as
   extracted on this run (gen_biogeme_acc: accumulation with += over all the formulas), reports the fault of a
   formula in ANY position of the specification *)
Theorem T12_dict_fault_any_position : forall db fs e x,
  In e fs -> In x (formula_errors G db e) -> In x (biogeme_audit_errors gen_biogeme_acc G db fs).
Proof. exact dict_fault_any_position. Qed.
Print Assumptions T12_dict_fault_any_position.
Theorem T12_dict_faults_through_contexts : forall db fs1 fs2 C,
  ctx_wf C = true ->
  (forall x, ~ In x (d_cols db) ->
     In (EMissingColumn x) (biogeme_audit_errors gen_biogeme_acc G db (fs1 ++ plug C (EVar x) :: fs2))) /\
  (forall n t, passes_under is_mc C = false ->
     In (EDrawsOutside n) (biogeme_audit_errors gen_biogeme_acc G db (fs1 ++ plug C (EDraws n t) :: fs2))) /\
  (forall n, passes_under is_integrate C = false ->
     In (ERvOutside n) (biogeme_audit_errors gen_biogeme_acc G db (fs1 ++ plug C (ERV n) :: fs2))).
Proof. exact dict_faults_through_contexts. Qed.
Print Assumptions T12_dict_faults_through_contexts.
Example T12_dict_example :
  biogeme_audit_errors gen_biogeme_acc G ex_db
    [EBin Plus (EBeta "b" false) (EDraws "d" "NORMAL"); EVar "x1"; EBin Times (EBeta "b" false) (EVar "kk")]
  = [EDrawsOutside "d"].
Proof. vm_compute. reflexivity. Qed.

(* T12e. logit: availabilities whose keys differ from the utilities', a chosen alternative that is not
   one of the utilities on some row (choice given by a constant or a column) *)
Theorem T12e_logit_keys_rejected : forall db C uk ak kids,
  ctx_wf C = true -> ~ (forall k, In k uk <-> In k ak) ->
  In ELogitKeys (audit G db (plug C (Node (HLogLogit uk ak) kids))).
Proof. exact logit_keys_rejected. Qed.
Print Assumptions T12e_logit_keys_rejected.
Theorem T12e_logit_choice_rejected : forall db C uk ak c rest vs j v,
  ctx_wf C = true -> choice_values db c = Some vs ->
  nth_error vs j = Some v -> valid_choice uk v = false ->
  exists x, In x [ELogitKeys; ELogitChoice; ELogitChoiceNotInAv] /\
            In x (audit G db (plug C (Node (HLogLogit uk ak) (c :: rest)))).
Proof. exact logit_choice_rejected. Qed.
Print Assumptions T12e_logit_choice_rejected.
Example T12e_example :
  audit G ex_db (plug [(HUn Exp, [], [])] (ELogLogit (EVar "kk") [(1, EVar "x1"); (2, ENumZ 0)] [(1, ENumZ 1); (3, ENumZ 1)]))
    = [ELogitKeys] /\
  audit G ex_db (plug [(HUn Exp, [], [])] (ELogLogit (EVar "kk") [(1, EVar "x1"); (3, ENumZ 0)] [(1, ENumZ 1); (3, ENumZ 1)]))
    = [ELogitChoice; ELogitChoiceNotInAv] /\
  audit G ex_db (plug [(HUn Exp, [], [])] (ELogLogit (EVar "kk") [(1, EVar "x1"); (2, ENumZ 0)] [(2, ENumZ 1); (1, ENumZ 1)]))
    = [].
Proof. vm_compute. repeat split; reflexivity. Qed.

(* T12f. nests: the nested logit accepts exactly the nests inside the choice set, without a repeated alternative, that do not overlap,
   the cross-nested logit exactly the nests inside the choice set *)
Theorem T12f_nested_ok_iff : forall ns,
  nested_ok ns = true <->
  (forall a x, In a (n_alts ns) -> In x a -> In x (n_choice_set ns)) /\
  (forall a, In a (n_alts ns) -> NoDup a) /\ disjoint_nests (n_alts ns).
Proof. exact nested_ok_iff. Qed.
Print Assumptions T12f_nested_ok_iff.
Theorem T12f_cnl_ok_iff : forall ns,
  cnl_ok ns = true <-> (forall a x, In a (n_alts ns) -> In x a -> In x (n_choice_set ns)).
Proof. exact cnl_ok_iff. Qed.
Print Assumptions T12f_cnl_ok_iff.
Example T12f_example :
  nested_ok (mkNests [1; 2; 3] [[1; 2]; [2; 3]]) = false /\ nested_ok (mkNests [1; 2; 3] [[1; 2]; [3; 4]]) = false /\
  cnl_ok (mkNests [1; 2; 3] [[1; 2]; [3; 4]]) = false /\ cnl_ok (mkNests [1; 2; 3] [[1; 2]; [2; 3]]) = true /\
  nested_ok (mkNests [1; 2; 3] [[1; 2]]) = true /\ nested_ok (mkNests [1; 2; 3] [[1; 2; 1]]) = false.
Proof. vm_compute. repeat split; reflexivity. Qed.

(* T12g. data: refused exactly when a column is not numeric, a cell is null, or there is no row *)
Theorem T12g_data_rejected_iff : forall f,
  data_audit f <> [] <->
  (exists c t, In (c, t) (f_cols f) /\ numeric_dtype t = false) \/ f_has_null f = true \/ f_nrows f = O.
Proof. exact data_rejected_iff. Qed.
Print Assumptions T12g_data_rejected_iff.
Example T12g_example :
  data_audit (mkFrame [("x", DFloat); ("s", DExtension); ("t", DTimedelta)] 0 true)
  = [ENonNumeric "s"; ENonNumeric "t"; ENaN; ENoEntry] /\
  data_audit (mkFrame [("x", DFloat); ("i", DInt)] 3 false) = [].
Proof. vm_compute. split; reflexivity. Qed.

(* T12h. duplicates (= T03h) and second derivatives without first ones *)
Theorem T12h_duplicates_rejected : forall db e,
  ((exists n k1 k2, k1 <> k2 /\ In n (raw_class [e] (d_cols db) k1) /\ In n (raw_class [e] (d_cols db) k2))
   \/ ~ NoDup (d_cols db)) ->
  In EDuplicate (spec_errors G db e).
Proof. exact duplicates_rejected. Qed.
Print Assumptions T12h_duplicates_rejected.
Example T12h_example :
  spec_errors G ex_db (EBin Times (EBeta "x1" false) (EVar "kk")) = [EDuplicate].
Proof. vm_compute. reflexivity. Qed.

(* T12h'. one draw name declared with two distributions is refused by the IdManager wherever the two declarations
   sit: in one formula or in two different formulas of the specification (the check, as extracted on this run --
   gen_draw_scope --, is made against the declarations of ALL the formulas), under any two contexts; and a
   reported clash is a genuine one *)
Theorem T12h_draw_type_clash_rejected : forall fs cols f1 f2 C1 C2 n t1 t2,
  In f1 fs -> In f2 fs -> f1 = plug C1 (EDraws n t1) -> f2 = plug C2 (EDraws n t2) -> t1 <> t2 ->
  In (EDrawTypes n) (idmanager_errors gen_draw_scope fs cols).
Proof. exact draw_type_clash_rejected. Qed.
Print Assumptions T12h_draw_type_clash_rejected.
Theorem T12h_draw_type_error_sound : forall fs n,
  In (EDrawTypes n) (draw_type_errors gen_draw_scope fs) ->
  exists f1 f2 t1 t2, In f1 fs /\ In f2 fs /\ In (n, t1) (draw_decls f1) /\ In (n, t2) (draw_decls f2) /\ t1 <> t2.
Proof. exact draw_type_error_sound. Qed.
Print Assumptions T12h_draw_type_error_sound.
Example T12h_draw_types_example :
  idmanager_errors gen_draw_scope
    [EUn MonteCarlo (EBin Times (EVar "x1") (EDraws "xi" "NORMAL")); EVar "kk";
     EUn MonteCarlo (EUn Exp (EDraws "xi" "UNIFORM"))] ["x1"; "kk"]
  = [EDrawTypes "xi"; EDrawTypes "xi"] /\
  idmanager_errors gen_draw_scope
    [EUn MonteCarlo (EBin Times (EVar "x1") (EDraws "xi" "NORMAL")); EUn MonteCarlo (EUn Exp (EDraws "xi" "NORMAL"))]
    ["x1"; "kk"] = [].
Proof. vm_compute. split; reflexivity. Qed.

Theorem T12h_hessian_without_gradient : forall hessian bhhh,
  hessian || bhhh = true -> request_errors false hessian bhhh = [EHessianNoGradient].
Proof. exact hessian_without_gradient_rejected. Qed.
Print Assumptions T12h_hessian_without_gradient.
Theorem T12h_request_accepted : forall gradient hessian bhhh,
  (hessian || bhhh = true -> gradient = true) -> request_errors gradient hessian bhhh = [].
Proof. exact request_accepted. Qed.
Print Assumptions T12h_request_accepted.

(* T12i. no false rejection: every reported error is the own fault of some node, and a specification
   without duplicate names, with every draw / integration variable / (panel data) variable under its
   operator and with no node breaking its own rule is accepted *)
Theorem T12i_audit_reports_only_faults : forall db e x,
  In x (audit G db e) -> exists s, In s (subterms e) /\ In x (own_errors G db (hd_of s) (kids_of s)).
Proof. exact audit_reports_only_faults. Qed.
Print Assumptions T12i_audit_reports_only_faults.
Theorem T12i_no_false_rejection : forall db e,
  prepare [e] (d_cols db) <> None ->
  clashing_names (draw_decls e) = [] ->
  placed_ok is_draws is_mc e -> placed_ok is_rv is_integrate e ->
  (d_panel db = true -> placed_ok is_var is_traj e) ->
  faultfree G db e ->
  spec_errors G db e = [].
Proof. exact no_false_rejection. Qed.
Print Assumptions T12i_no_false_rejection.
Example T12i_example :
  spec_errors G ex_db
    (EBin Plus (EUn MonteCarlo (EBin Times (EDraws "d" "NORMAL") (EVar "x1")))
               (ELogLogit (EVar "kk") [(1, EBin Gt (EVar "x1") (ENumZ 0)); (2, ENumZ 0)] [(1, ENumZ 1); (2, ENumZ 1)])) = [].
Proof. vm_compute. reflexivity. Qed.

(* T12j. the missing-data rule on the lazy semantics: a missing cell ([e_var en x = None]) makes the
   evaluation fail through every position that is always read ... *)
Theorem T12j_read_propagates : forall Phi C x,
  ctx_wf C = true -> forallb strict_frame C = true ->
  forall en, e_var en x = None -> evalX Phi (plug C (EVar x)) en = XNaN.
Proof. exact read_propagates. Qed.
Print Assumptions T12j_read_propagates.

(* KNOWN FINDING (open, engine side): the strict rule fails for the linear utility as the engine evaluates it
   (a term whose variable holds the missing-data code is dropped); T12j_read_propagates is about evalX, whose
   linear utility is strict: the stream `missing` reports the difference as a known finding *)
Theorem T12j_linear_utility_swallows_refuted :
  exists b, xlinutil [XR b; XNaN] = XNaN /\ xlinutil_engine [XR b; XNaN] = XR 0.
Proof. exact linear_utility_swallows_refuted. Qed.
Print Assumptions T12j_linear_utility_swallows_refuted.

(* ... and, at the four lazy operators, has no influence in a position that is not read for this
   observation, while it fails in a position that is read *)
Theorem T12j_and_unread : forall Phi a b en,
  evalX Phi a en = XR 0 -> evalX Phi (EBin And a b) en = XR 0.
Proof. exact and_second_unread. Qed.
Print Assumptions T12j_and_unread.
Theorem T12j_and_read : forall Phi a b en v,
  evalX Phi a en = XR v -> v <> 0%R -> evalX Phi b en = XNaN -> evalX Phi (EBin And a b) en = XNaN.
Proof. exact and_second_read. Qed.
Print Assumptions T12j_and_read.
Theorem T12j_or_unread : forall Phi a b en v,
  evalX Phi a en = XR v -> v <> 0%R -> evalX Phi (EBin Or a b) en = XR 1.
Proof. exact or_second_unread. Qed.
Print Assumptions T12j_or_unread.
Theorem T12j_or_read : forall Phi a b en,
  evalX Phi a en = XR 0 -> evalX Phi b en = XNaN -> evalX Phi (EBin Or a b) en = XNaN.
Proof. exact or_second_read. Qed.
Print Assumptions T12j_or_read.
Theorem T12j_condsum_unread : forall Phi l c t1 t2 r en,
  Nat.even (List.length l) = true -> evalX Phi c en = XR 0 ->
  evalX Phi (Node HCondSum (l ++ c :: t1 :: r)) en = evalX Phi (Node HCondSum (l ++ c :: t2 :: r)) en.
Proof. exact condsum_false_term_unread. Qed.
Print Assumptions T12j_condsum_unread.
Theorem T12j_condsum_read : forall Phi l c t r en v,
  Nat.even (List.length l) = true -> evalX Phi c en = XR v -> v <> 0%R -> evalX Phi t en = XNaN ->
  evalX Phi (Node HCondSum (l ++ c :: t :: r)) en = XNaN.
Proof. exact condsum_true_term_read. Qed.
Print Assumptions T12j_condsum_read.
Theorem T12j_elem_unread : forall Phi keys k es1 e1 e2 es2 en kr z,
  evalX Phi k en = XR kr -> R2Z kr = Some z -> nth_error keys (List.length es1) <> Some z ->
  evalX Phi (Node (HElem keys) (k :: es1 ++ e1 :: es2)) en =
  evalX Phi (Node (HElem keys) (k :: es1 ++ e2 :: es2)) en.
Proof. exact elem_unselected_unread. Qed.
Print Assumptions T12j_elem_unread.
Theorem T12j_elem_read : forall Phi keys k es1 e es2 en kr z,
  evalX Phi k en = XR kr -> R2Z kr = Some z -> nth_error keys (List.length es1) = Some z ->
  (forall j, (j < List.length es1)%nat -> nth_error keys j <> Some z) ->
  evalX Phi e en = XNaN ->
  evalX Phi (Node (HElem keys) (k :: es1 ++ e :: es2)) en = XNaN.
Proof. exact elem_selected_read. Qed.
Print Assumptions T12j_elem_read.
Theorem T12j_logit_unread : forall Phi uk ak c us1 u1 u2 us2 avk en ki,
  List.length (us1 ++ u1 :: us2) = List.length uk ->
  nth_error uk (List.length us1) = Some ki ->
  assoc_Z ki ak (map (fun x => evalX Phi x en) avk) = Some (XR 0) ->
  evalX Phi (Node (HLogLogit uk ak) (c :: (us1 ++ u1 :: us2) ++ avk)) en =
  evalX Phi (Node (HLogLogit uk ak) (c :: (us1 ++ u2 :: us2) ++ avk)) en.
Proof. exact logit_unavailable_unread. Qed.
Print Assumptions T12j_logit_unread.
Theorem T12j_logit_read : forall Phi uk ak c us1 u us2 avk en ki a cr z ca,
  List.length (us1 ++ u :: us2) = List.length uk ->
  List.length avk = List.length ak ->
  nth_error uk (List.length us1) = Some ki ->
  assoc_Z ki ak (map (fun x => evalX Phi x en) avk) = Some (XR a) -> a <> 0%R ->
  evalX Phi c en = XR cr -> R2Z cr = Some z ->
  assoc_Z z ak (map (fun x => evalX Phi x en) avk) = Some (XR ca) -> ca <> 0%R ->
  evalX Phi u en = XNaN ->
  evalX Phi (Node (HLogLogit uk ak) (c :: (us1 ++ u :: us2) ++ avk)) en = XNaN.
Proof. exact logit_available_read. Qed.
Print Assumptions T12j_logit_read.

(* non-vacuity of T12j: a strict path through a comparison, a sum and exp; the hypotheses of the lazy
   lemmas are met by constants *)
Definition ex_env : env := mkEnv (fun _ => None) (fun n => if String.eqb n "x1" then Some 1%R else None)
                                 (fun _ => None) (fun _ => None) [] [].
Example T12j_example_strict :
  ctx_wf [(HBin Times, [ENumZ 2], []); (HUn Exp, [], []); (HMultSum, [ENumZ 1], [ENumZ 3]); (HBin Le, [], [ENumZ 0])] = true /\
  forallb strict_frame [(HBin Times, [ENumZ 2], []); (HUn Exp, [], []); (HMultSum, [ENumZ 1], [ENumZ 3]); (HBin Le, [], [ENumZ 0])] = true /\
  e_var ex_env "zz" = None.
Proof. vm_compute. repeat split; reflexivity. Qed.
Example T12j_example_lazy : forall Phi b,
  evalX Phi (EBin And (ENumZ 0) b) ex_env = XR 0.
Proof.
  intros Phi b. apply T12j_and_unread. cbn. unfold D2R. cbn. f_equal. ring.
Qed.
