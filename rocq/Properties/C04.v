(* C04 -- The sample log likelihood is the weighted sum of per-observation values.
   Property theorems only; each is closed by [exact] of a lemma proved in Proofs/LogLikeP.v.
   Rows are numbered 0 .. n-1; w r and f r are the weight and the per-observation value of row r
   (reals); the engine model (blocks, thread_sum, join, engine_total, engine_vtotal) is
   Model/LogLike.v, transcribed from cythonbiogeme's biogeme.cc; number_of_threads,
   scaled_likelihood and scaled_output are GENERATED from /repo/src/biogeme/biogeme.py (Gen/Threads.v). *)
From Coq Require Import ZArith List Bool Reals Permutation Lra.
From BV Require Import Model.LogLike Gen.Threads Proofs.LogLikeP.
Import ListNotations.
Open Scope Z_scope.

(* T04a. The engine's assignment of rows to threads is a partition: for every number of rows n > 0
   and every thread count T > 0 (T from 1 to beyond n), the blocks in thread order are the rows
   0 .. n-1 in order -- every row is in exactly one block. *)
Theorem T04a_blocks_partition : forall n T, 0 < n -> 0 < T -> concat (blocks n T) = zrange 0 n.
Proof. exact blocks_partition. Qed.
Print Assumptions T04a_blocks_partition.

Theorem T04a_blocks_partition_nat : forall n T : nat, (0 < n)%nat -> (0 < T)%nat ->
  concat (blocks_nat n T) = seq 0 n.
Proof. exact blocks_nat_partition. Qed.
Print Assumptions T04a_blocks_partition_nat.

Theorem T04a_row_in_exactly_one_block : forall n T, 0 < n -> 0 < T -> forall r,
  count_occ Z.eq_dec (concat (blocks n T)) r = if (0 <=? r) && (r <? n) then 1%nat else 0%nat.
Proof. exact row_in_one_block. Qed.
Print Assumptions T04a_row_in_exactly_one_block.

(* no more threads than requested, none without a row, none with more than ceil(n/T) rows *)
Theorem T04a_blocks_shape : forall n T, 0 < n -> 0 < T ->
  (Z.of_nat (length (blocks n T)) = n_threads n T /\ n_threads n T <= T) /\
  (forall b, In b (blocks n T) -> (0 < length b <= Z.to_nat (block_size n T))%nat).
Proof. exact blocks_shape. Qed.
Print Assumptions T04a_blocks_shape.

(* more threads than rows: one row per thread, n threads *)
Theorem T04a_more_threads_than_rows : forall n T, 0 < n -> n <= T ->
  block_size n T = 1 /\ n_threads n T = n.
Proof. exact blocks_many_threads. Qed.
Print Assumptions T04a_more_threads_than_rows.

(* non-vacuity: 10 rows on 4 threads (last block shorter), on 6 threads (only 5 are used),
   3 rows on 7 threads *)
Example T04a_example :
  blocks 10 4 = [[0; 1; 2]; [3; 4; 5]; [6; 7; 8]; [9]] /\
  bounds_flat 10 6 = [0; 2; 2; 4; 4; 6; 6; 8; 8; 10] /\
  blocks 3 7 = [[0]; [1]; [2]].
Proof. vm_compute. repeat split. Qed.

Open Scope R_scope.

(* T04b. The total obtained part by part (each part accumulated on its own, the results added) is
   the sum over the rows, for ANY split of the rows into parts, in any order. *)
Theorem T04b_sum_over_partition : forall parts rows w f,
  Permutation (concat parts) rows -> total_of_parts parts w f = loglike rows w f.
Proof. exact sum_over_partition. Qed.
Print Assumptions T04b_sum_over_partition.

Theorem T04b_split_of_the_table : forall n T (parts : list (list Z)) w f, (0 < n)%Z -> (0 < T)%Z ->
  Permutation (concat parts) (zrange 0 n) ->
  rsum (map (fun p => loglike p w f) parts) = engine_total n T w f.
Proof. exact split_invariant. Qed.
Print Assumptions T04b_split_of_the_table.

Example T04b_example : forall w f,
  total_of_parts [[2%Z]; [0%Z; 3%Z]; [1%Z]] w f = loglike (zrange 0 4) w f.
Proof.
  intros. apply sum_over_partition. vm_compute.
  apply Permutation_sym.
  apply (perm_trans (l' := [2; 0; 1; 3]%Z)).
  - apply (perm_trans (l' := [0; 2; 1; 3]%Z)); [apply perm_skip, perm_swap | apply perm_swap].
  - apply perm_skip, perm_skip, perm_swap.
Qed.

(* T04c. The total does not depend on the order of the rows: the table whose row i is row
   sigma(i) of the original one (sigma a permutation of 0..n-1), evaluated with any thread count,
   gives the total of the original table evaluated with any other thread count. *)
Theorem T04c_sum_perm_invariant : forall n T T' (sigma : Z -> Z) w f, (0 < n)%Z -> (0 < T)%Z -> (0 < T')%Z ->
  Permutation (map sigma (zrange 0 n)) (zrange 0 n) ->
  engine_total n T (fun i => w (sigma i)) (fun i => f (sigma i)) = engine_total n T' w f.
Proof. exact sum_perm_invariant. Qed.
Print Assumptions T04c_sum_perm_invariant.

Theorem T04c_loglike_perm : forall rows rows' w f,
  Permutation rows rows' -> loglike rows w f = loglike rows' w f.
Proof. exact loglike_perm. Qed.
Print Assumptions T04c_loglike_perm.

(* the order in which the threads' partial results are added does not matter either *)
Theorem T04c_join_order : forall ps ps', Permutation ps ps' -> join ps = join ps'.
Proof. exact join_order_invariant. Qed.
Print Assumptions T04c_join_order.

Example T04c_example : forall w f,
  engine_total 3 2 (fun i => w ((i + 1) mod 3)%Z) (fun i => f ((i + 1) mod 3)%Z) = engine_total 3 5 w f.
Proof.
  intros. apply (sum_perm_invariant 3 2 5 (fun i => ((i + 1) mod 3)%Z)); try reflexivity.
  vm_compute. apply Permutation_sym, (Permutation_cons_append [1; 2]%Z 0%Z).
Qed.

(* T04d. The engine's total is the sum over the observations of weight times per-observation
   value, whatever the number of threads; weight one when there is no weight formula. *)
Theorem T04d_weighted_total : forall n T w f, (0 < n)%Z -> (0 < T)%Z ->
  engine_total n T w f = loglike (zrange 0 n) w f.
Proof. exact engine_total_eq. Qed.
Print Assumptions T04d_weighted_total.

Theorem T04d_thread_count_invariant : forall n T1 T2 w f, (0 < n)%Z -> (0 < T1)%Z -> (0 < T2)%Z ->
  engine_total n T1 w f = engine_total n T2 w f.
Proof. exact threads_invariant. Qed.
Print Assumptions T04d_thread_count_invariant.

Theorem T04d_weight_one : forall rows f, loglike rows one f = rsum (map f rows).
Proof. exact loglike_weight_one. Qed.
Print Assumptions T04d_weight_one.

Example T04d_example : forall w f,
  engine_total 3 2 w f = w 0%Z * f 0%Z + (w 1%Z * f 1%Z + (w 2%Z * f 2%Z + 0)).
Proof. intros. rewrite engine_total_eq by reflexivity. reflexivity. Qed.

(* T04e. Thread-count resolution and scaling, about the definitions generated from biogeme.py:
   0 means the cpu count; the scaled value is the total divided by the sample size. *)
Theorem T04e_threads_resolution : forall cpu p, (0 < cpu)%Z -> (0 <= p)%Z ->
  number_of_threads cpu 0 = cpu /\ (p <> 0%Z -> number_of_threads cpu p = p) /\
  (0 < number_of_threads cpu p)%Z.
Proof. exact threads_resolution. Qed.
Print Assumptions T04e_threads_resolution.

Theorem T04e_scaled_def : forall N f,
  scaled_likelihood N true f = scaled f N /\ scaled_likelihood N false f = f.
Proof. exact scaled_likelihood_def. Qed.
Print Assumptions T04e_scaled_def.

Theorem T04e_scaled_times_N : forall N f, N <> 0%Z -> scaled f N * IZR N = f.
Proof. exact scaled_times_N. Qed.
Print Assumptions T04e_scaled_times_N.

Theorem T04e_scaled_output : forall N f g h bh, N <> 0%Z ->
  scaled_output N true f g h bh = Some (scaled f N, vdiv g (IZR N), vdiv h (IZR N), vdiv bh (IZR N)) /\
  scaled_output N false f g h bh = Some (f, g, h, bh).
Proof. exact scaled_output_def. Qed.
Print Assumptions T04e_scaled_output.

(* end to end: what calculate_likelihood reports for thread parameter p on a machine with cpu cores *)
Theorem T04e_reported_loglike : forall cpu p n sc w f, (0 < cpu)%Z -> (0 <= p)%Z -> (0 < n)%Z ->
  scaled_likelihood n sc (engine_total n (number_of_threads cpu p) w f)
  = if sc then loglike (zrange 0 n) w f / IZR n else loglike (zrange 0 n) w f.
Proof. exact reported_loglike. Qed.
Print Assumptions T04e_reported_loglike.

Example T04e_example : number_of_threads 16 0 = 16%Z /\ number_of_threads 16 3 = 3%Z /\
  scaled_likelihood 4 true 10 = 10 / 4.
Proof. repeat split. Qed.

(* T04f. Gradient, Hessian and BHHH aggregate in the same way: every component of the vector the
   engine accumulates (gradient: d reals; Hessian, BHHH: d*d reals) is the weighted sum over the
   rows of that component of the per-row derivative -- i.e. the engine total of T04d with the
   component as per-observation value, hence independent of thread count, row order and split. *)
Theorem T04f_derivatives_aggregate_alike : forall d n T w v k, (0 < n)%Z -> (0 < T)%Z ->
  (forall r, (0 <= r < n)%Z -> length (v r) = d) ->
  nth k (engine_vtotal d n T w v) 0 = engine_total n T w (comp k v).
Proof. exact derivatives_aggregate_alike. Qed.
Print Assumptions T04f_derivatives_aggregate_alike.

Theorem T04f_vector_total : forall d n T w v k, (0 < n)%Z -> (0 < T)%Z ->
  (forall r, (0 <= r < n)%Z -> length (v r) = d) ->
  length (engine_vtotal d n T w v) = d /\
  nth k (engine_vtotal d n T w v) 0 = loglike (zrange 0 n) w (comp k v).
Proof. exact engine_vtotal_nth. Qed.
Print Assumptions T04f_vector_total.

Theorem T04f_vector_sum_over_partition : forall d parts rows w v k,
  Permutation (concat parts) rows -> (forall r, In r rows -> length (v r) = d) ->
  nth k (vtotal_of_parts d parts w v) 0 = loglike rows w (comp k v).
Proof. exact vsum_over_partition. Qed.
Print Assumptions T04f_vector_sum_over_partition.

(* BHHH: entry (i, j) of the total is the weighted sum of g_i * g_j *)
Theorem T04f_bhhh_entry : forall d n T w (g : Z -> list R) i j, (0 < n)%Z -> (0 < T)%Z ->
  (forall r, (0 <= r < n)%Z -> length (g r) = d) -> (i < d)%nat -> (j < d)%nat ->
  nth (i * d + j) (engine_vtotal (d * d) n T w (fun r => outer (g r))) 0
  = loglike (zrange 0 n) w (fun r => nth i (g r) 0 * nth j (g r) 0).
Proof. exact bhhh_entry. Qed.
Print Assumptions T04f_bhhh_entry.

Example T04f_example : forall w (g : Z -> list R), (forall r, length (g r) = 2%nat) ->
  nth 1 (engine_vtotal 2 3 2 w g) 0
  = w 0%Z * nth 1 (g 0%Z) 0 + (w 1%Z * nth 1 (g 1%Z) 0 + (w 2%Z * nth 1 (g 2%Z) 0 + 0)).
Proof.
  intros w g Hg. destruct (engine_vtotal_nth 2 3 2 w g 1) as [_ N]; try reflexivity.
  - intros; apply Hg.
  - rewrite N. reflexivity.
Qed.

(* T04g. The parts made by the library itself (database.py) hold every row exactly once, so the
   log likelihood -- and every component of gradient, Hessian, BHHH -- summed over them is the
   total of the data set:
   Database.extract_rows on the interleaved ranges range(k, n, m) (k = 0..m-1), on a reversed
   range, on any list of valid positions; Database.split = numpy.array_split of the shuffled rows
   into k slices for ANY remainder of n by k, and each of its estimation / validation pairs;
   Database.mdcev_row_split (one part per row).  (The groups= / panel variant of split is covered
   by the stream only: partial.) *)
Theorem T04g_interleaved_ranges_partition : forall n m, (0 < m)%Z ->
  Permutation (concat (interleaved n m)) (zrange 0 n).
Proof. exact interleaved_partition. Qed.
Print Assumptions T04g_interleaved_ranges_partition.

Theorem T04g_reversed_range : forall n, (0 <= n)%Z -> Permutation (py_range (n - 1) (-1) (-1)) (zrange 0 n).
Proof. exact reversed_range. Qed.
Print Assumptions T04g_reversed_range.

Theorem T04g_range_step1 : forall a b, py_range a b 1 = zrange a b.
Proof. exact py_range_step1. Qed.
Print Assumptions T04g_range_step1.

Theorem T04g_extract_rows : forall n ps, (forall i, In i ps -> (0 <= i < n)%Z) ->
  extract_rows 0%Z (zrange 0 n) ps = ps.
Proof. exact extract_rows_positions. Qed.
Print Assumptions T04g_extract_rows.

Theorem T04g_array_split : forall (A : Type) (l : list A) (k : nat), (0 < k)%nat ->
  concat (array_split l k) = l /\ length (array_split l k) = k.
Proof. exact array_split_concat. Qed.
Print Assumptions T04g_array_split.

Theorem T04g_estimation_validation : forall (A : Type) (slices : list (list A)) (i : nat),
  (i < length slices)%nat ->
  Permutation (estimation_of slices i ++ validation_of slices i) (concat slices).
Proof. exact estimation_validation_partition. Qed.
Print Assumptions T04g_estimation_validation.

Theorem T04g_library_parts_total : forall n m k (shuffled : list Z) w f, (0 < m)%Z -> (0 < k)%nat ->
  Permutation shuffled (zrange 0 n) ->
  total_of_parts (interleaved n m) w f = loglike (zrange 0 n) w f /\
  total_of_parts (array_split shuffled k) w f = loglike (zrange 0 n) w f /\
  total_of_parts (row_split (zrange 0 n)) w f = loglike (zrange 0 n) w f /\
  (forall i, (i < k)%nat ->
     loglike (estimation_of (array_split shuffled k) i) w f + loglike (validation_of (array_split shuffled k) i) w f
     = loglike (zrange 0 n) w f).
Proof. exact library_parts_total. Qed.
Print Assumptions T04g_library_parts_total.

Theorem T04g_library_parts_vtotal : forall d n m k (shuffled : list Z) w v j, (0 < m)%Z -> (0 < k)%nat ->
  Permutation shuffled (zrange 0 n) -> (forall r, In r (zrange 0 n) -> length (v r) = d) ->
  nth j (vtotal_of_parts d (interleaved n m) w v) 0 = loglike (zrange 0 n) w (comp j v) /\
  nth j (vtotal_of_parts d (array_split shuffled k) w v) 0 = loglike (zrange 0 n) w (comp j v) /\
  nth j (vtotal_of_parts d (row_split (zrange 0 n)) w v) 0 = loglike (zrange 0 n) w (comp j v).
Proof. exact library_parts_vtotal. Qed.
Print Assumptions T04g_library_parts_vtotal.

(* non-vacuity: 11 rows in 3 interleaved ranges / 3 slices (remainder 2): nothing lost *)
Example T04g_example :
  interleaved 11 3 = [[0; 3; 6; 9]; [1; 4; 7; 10]; [2; 5; 8]]%Z /\
  array_split_sizes 11 3 = [4; 4; 3]%nat /\ array_split_sizes 7 2 = [4; 3]%nat /\
  array_split [5; 3; 1; 0; 2; 4; 6]%Z 2 = [[5; 3; 1; 0]; [2; 4; 6]]%Z /\
  py_range 9 (-1) (-3) = [9; 6; 3; 0]%Z.
Proof. vm_compute. repeat split. Qed.

(* T04d'. A constant weight c (a bare Numeric as weight formula) multiplies the unweighted sum. *)
Theorem T04d_constant_weight : forall rows c f, loglike rows (fun _ => c) f = c * rsum (map f rows).
Proof. exact constant_weight. Qed.
Print Assumptions T04d_constant_weight.

(* T04h. The parameter point at which the object evaluates "its current" likelihood
   (calculate_init_likelihood) follows change_init_values: every value given replaces the old one,
   exact zero included (about the definition generated from biogeme.py). *)
Theorem T04h_changed_value : forall old v, changed_value old (Some v) = v /\ changed_value old None = old.
Proof. exact changed_value_spec. Qed.
Print Assumptions T04h_changed_value.

Example T04h_example : changed_value 3 (Some 0) = 0 /\ changed_value 3 None = 3.
Proof. split; reflexivity. Qed.
