(* C20 -- Every deprecated name behaves exactly like the function it points users to.
   Property theorems only; each is closed by [exact] of a lemma proved in Proofs/AliasP.v.
   The tables [aliases], [classes], [kwuses] and the program [deprecated_wrapper] are
   regenerated from /repo/src/biogeme on every run (Gen/AliasTable.v): the bound of every
   statement is "all aliases / classes / keyword maps present in the extracted tables". *)
From Coq Require Import ZArith List String Bool.
From BV Require Import Model.Alias Gen.AliasTable Proofs.AliasP.
Import ListNotations.
Open Scope string_scope.

(* T20a. The stub kept under the old name declares the parameters of its replacement: same
   names (or an old spelling that the replacement's own @deprecated_parameters map renames to
   the new one), same order, kinds and default texts -- except for the three reviewed
   entries of Alias.param_exceptions_reviewed, each of which still agrees after the one
   listed adjustment. *)
Theorem T20a_same_parameters : forall a, In a aliases ->
  Forall2 (params_agree (a_captured_kwmap a)) (a_old_params a) (a_new_params a) \/
  exists e, In (a_mod a, a_owner a, a_old a, e) param_exceptions_reviewed /\ params_agree_modulo a e.
Proof. exact same_parameters_l. Qed.
Print Assumptions T20a_same_parameters.

Example T20a_nonvacuous :
  Nat.leb 100 (List.length aliases) = true /\
  existsb (fun a => negb (same_params a)) aliases = true /\           (* the exceptions are really needed *)
  existsb (fun a => same_params a && negb (forall2b (param_agree []) (a_old_params a) (a_new_params a))) aliases = true.
  (* ... and so is the keyword-map clause (getLaTeX(onlyRobust) / getLatinHypercubeDraws(uniformNumbers)) *)
Proof. vm_compute. repeat split; reflexivity. Qed.

(* T20b. For every class of the package that exposes an old name (the alias is what attribute
   lookup along the class' MRO finds), calling the alias on an instance of that class reaches
   the function that resolving the NEW name on that class yields -- in particular the
   override of a subclass that redefines the replacement and inherits the alias.
   [reach] interprets the wrapper program read from deprecated.py. *)
Theorem T20b_receiver_independent : forall c, In c classes ->
  forall i a, nth_error aliases i = Some a -> exposes T c i = true ->
  (a_kind a = Instance \/ f_owner (a_captured a) <> "") ->
  exists f, resolve_fn classes c (a_new a) = Some f /\
            reach fuel_reach deprecated_wrapper T c (a_old a) = Some f.
Proof. exact receiver_independent_l. Qed.
Print Assumptions T20b_receiver_independent.

(* ... static aliases whose replacement is a module-level function, on every exposing class *)
Theorem T20b_receiver_free : forall c, In c classes ->
  forall i a, nth_error aliases i = Some a -> exposes T c i = true ->
  a_kind a <> Instance -> f_owner (a_captured a) = "" ->
  exists f, a_final a = Some f /\ reach fuel_reach deprecated_wrapper T c (a_old a) = Some f.
Proof. exact receiver_free_l. Qed.
Print Assumptions T20b_receiver_free.

(* ... module-level aliases: the wrapper forwards to the captured function, and that is the
   function bound to the new name at the end of the alias' module *)
Theorem T20b_module_level : forall a, In a aliases -> a_kind a = ModuleLevel ->
  a_final a = Some (a_captured a) /\
  forall args_nonempty, exists ev,
    run_wrapper deprecated_wrapper {| has_args := args_nonempty; owned := false |} = (ev, OForward CallCaptured).
Proof. exact module_aliases_l. Qed.
Print Assumptions T20b_module_level.

(* ... and evaluating the ownership test "without receiver" for them is sound: static aliases
   take no positional argument, the replacement of a module-level alias sits in no class
   dictionary, the replacement of an instance alias is an instance method *)
Theorem T20b_no_receiver_sound : forall a, In a aliases -> no_receiver_ok T a = true.
Proof. exact no_receiver_l. Qed.
Print Assumptions T20b_no_receiver_sound.

(* non-vacuity and discrimination: many (class, alias) pairs are exposing, many of them with a
   class that overrides the replacement, and the statement is FALSE on the same tables for the
   wrapper that forwards to the captured function (the code before the repair) *)
Example T20b_nonvacuous :
  Nat.leb 500 (List.length exposing_pairs) = true /\ Nat.leb 30 (List.length overriding_pairs) = true /\
  In ("biogeme.expressions.numeric_expressions:Numeric", "getSignature") overriding_pairs /\
  receiver_independent_b captured_only_wrapper T = false.
Proof.
  split; [vm_compute; reflexivity|].
  split; [vm_compute; reflexivity|].
  split; [|exact receiver_independent_needs_dispatch].
  assert (H : existsb (fun '(c, o) => String.eqb c "biogeme.expressions.numeric_expressions:Numeric" &&
                                      String.eqb o "getSignature") overriding_pairs = true)
    by (vm_compute; reflexivity).
  apply existsb_exists in H. destruct H as ([c o] & Hin & H).
  apply andb_prop in H. destruct H as [H1 H2].
  apply String.eqb_eq in H1, H2. subst. exact Hin.
Qed.

(* T20c. The replacement is the one the old name designates: the names fold to the same string
   (camelCase / snake_case / capitals), or the pair is one of the three reviewed renamings; a
   docstring "Same as X" names the replacement; the name printed in the warning is the name
   of the captured definition. *)
Theorem T20c_replacement_matches_name : forall a, In a aliases ->
  (normalise (a_old a) = normalise (a_new a) \/ In (a_mod a, a_owner a, a_old a, a_new a) renamed_reviewed) /\
  (forall x, a_doc_same_as a = Some x -> x = a_new a) /\
  a_new a = f_name (a_captured a).
Proof. exact replacement_matches_name_l. Qed.
Print Assumptions T20c_replacement_matches_name.

Example T20c_nonvacuous :
  normalise "getValueAndDerivatives" = normalise "get_value_and_derivatives" /\
  normalise "AIC_BIC_dimension" = normalise "aic_bic_dimension" /\
  normalise "logcnl_avail" <> normalise "cnl" /\
  (* the regression `@deprecated(cnl) def logcnl_avail` is rejected *)
  name_matches (mkAlias "biogeme.models.cnl" "" "logcnl_avail" 0 ModuleLevel "cnl"
                  (mkFid "biogeme.models.cnl" "" "cnl" 0) ModuleLevel [] [] [] (Some "logcnl") None) = false.
Proof. vm_compute. repeat split; try reflexivity. discriminate. Qed.

(* T20d. Every @deprecated_parameters map is well formed: each new keyword is a named parameter
   of the decorated function (or, for BIOGEME.__init__( **kwargs), one of the TOML parameter
   names the constructor documents it accepts); no two old names map to one new name; no old
   name is listed twice, is still a live parameter, or is itself a new name. *)
Theorem T20d_keyword_map_wellformed : forall k, In k kwuses ->
  (forall o n, In (o, Some n) (k_map k) ->
     In n (named_params (k_params k)) \/ (has_varkw (k_params k) = true /\ In n (k_extra k))) /\
  NoDup (somes (map snd (k_map k))) /\
  NoDup (map fst (k_map k)) /\
  (forall o, In o (map fst (k_map k)) -> ~ In o (map p_name (k_params k))) /\
  (forall o, In o (map fst (k_map k)) -> ~ In o (somes (map snd (k_map k)))).
Proof. exact keyword_map_wellformed_l. Qed.
Print Assumptions T20d_keyword_map_wellformed.

Example T20d_nonvacuous :
  Nat.leb 15 (List.length kwuses) = true /\ Nat.leb 25 (List.length (flat_map k_map kwuses)) = true.
Proof. vm_compute. split; reflexivity. Qed.

(* T20e. Calling the old name adds nothing but the warning.
   (i) `deprecated`: in every calling context the wrapper read from the source emits exactly one
   DeprecationWarning, raises nothing itself, and forwards the call with all its arguments --
   on the receiver only when the receiver's class owns the replacement. *)
Theorem T20e_wrapper_adds_only_warning : forall x : wctx, exists c,
  run_wrapper deprecated_wrapper x = ([EvDeprecationWarning], OForward c) /\
  (c = CallOnReceiver -> has_args x = true /\ owned x = true).
Proof. exact wrapper_adds_only_warning_l. Qed.
Print Assumptions T20e_wrapper_adds_only_warning.

(* (ii) `deprecated_parameters` (the renaming loop, for every map and every call):
   a call without obsolete keywords is forwarded unchanged and silently; *)
Theorem T20e_keywords_identity : forall (V : Type) m (kw : list (string * V)),
  NoDup (map fst kw) -> (forall k, In k (map fst kw) -> assoc k m = None) ->
  rename_kwargs m kw = ([], kw).
Proof. exact rename_kwargs_identity. Qed.
Print Assumptions T20e_keywords_identity.

(* each value is forwarded under its target keyword when targets do not collide
   (guaranteed by T20d unless the caller passes an old and a new spelling together); *)
Theorem T20e_keywords_value : forall (V : Type) m (kw : list (string * V)),
  NoDup (somes (map (kw_target m) (map fst kw))) ->
  forall k v t, In (k, v) kw -> kw_target m k = Some t ->
    assoc t (snd (rename_kwargs m kw)) = Some v.
Proof. exact rename_kwargs_value. Qed.
Print Assumptions T20e_keywords_value.

(* exactly one warning per obsolete keyword, in call order, and nothing else. *)
Theorem T20e_keywords_events : forall (V : Type) m (kw : list (string * V)),
  fst (rename_kwargs m kw) = kw_events m (map fst kw).
Proof. exact rename_kwargs_events. Qed.
Print Assumptions T20e_keywords_events.

Example T20e_nonvacuous :
  rename_kwargs [("numberOfDraws", Some "number_of_draws"); ("suggestScales", None)]
                [("database", 1%Z); ("numberOfDraws", 7%Z); ("suggestScales", 0%Z)]
  = ([EvRenamed "numberOfDraws" "number_of_draws"; EvIgnored "suggestScales"],
     [("database", 1%Z); ("number_of_draws", 7%Z)]).
Proof. vm_compute. reflexivity. Qed.

(* T20g. The linearisations in the class table are Python's: C3 over the extracted bases
   (and class names are unique, so lookup by name is lookup of the class). *)
Theorem T20g_mro_is_c3 :
  NoDup (map c_name classes) /\
  forall c, In c classes -> c3 (S (List.length classes)) classes (c_name c) = Some (c_mro c).
Proof. exact mro_table_l. Qed.
Print Assumptions T20g_mro_is_c3.
