(* C09 -- Panel likelihood is the product over each individual's rows, with shared draws.
   Property theorems only; each is closed by [exact] of a lemma proved in Proofs/PanelP.v.
   The model (Model/Panel.v) is written from Database.panel / build_panel_map / get_sample_size /
   generate_draws, tools.count_number_of_groups and the engine's bioExprPanelTrajectory; it is tied to
   the implementation by the streams panel_map and panel_ll of lib/props/C09.py (tie B). *)
From Coq Require Import ZArith List Bool Lia Sorted Permutation Reals.
From BV Require Import Model.Panel Proofs.PanelP.
Import ListNotations.
Open Scope Z_scope.

(* T09a. The test of Database.panel (number of runs of equal consecutive identifiers == the same number
   for the sorted column) accepts exactly the columns in which every identifier's occurrences are
   contiguous.  All columns, all identifier values. *)
Theorem T09a_contiguity_check_exact : forall ids : list Z, panel_ok ids = true <-> contiguous ids.
Proof. exact contiguity_check_exact. Qed.
Print Assumptions T09a_contiguity_check_exact.

Example T09a_accepts : panel_ok [5; 5; -2; -2; -2; 7] = true /\ contiguous [5; 5; -2; -2; -2; 7].
Proof. split; [vm_compute; reflexivity|]. apply contiguity_check_exact. vm_compute. reflexivity. Qed.
Example T09a_refuses : panel_ok [1; 2; 1] = false /\ ~ contiguous [1; 2; 1].
Proof.
  split; [vm_compute; reflexivity|]. intros H. apply contiguity_check_exact in H. vm_compute in H. discriminate.
Qed.

(* T09b. For every identifier column (accepted or not: build_panel_map sorts first): the individuals of
   the map are the distinct identifiers in ascending order; each block [first,last] is a non-empty range
   of rows and contains exactly the rows of the sorted column carrying its identifier; every row lies in
   exactly one block; the blocks are laid end to end from row 0 to row n-1. *)
Theorem T09b_map_partitions_rows : forall ids : list Z,
  let s := sort_ids ids in
  let m := build_map ids in
  let n := List.length ids in
  StronglySorted Z.lt (map b_id m) /\
  (forall i, In i (map b_id m) <-> In i ids) /\
  (forall e, In e m ->
      (b_first e <= b_last e < n)%nat /\
      forall r, (r < n)%nat -> ((b_first e <= r <= b_last e)%nat <-> nth r s 0 = b_id e)) /\
  (forall r, (r < n)%nat ->
      exists e, In e m /\ (b_first e <= r <= b_last e)%nat /\
                forall e', In e' m -> (b_first e' <= r <= b_last e')%nat -> e' = e) /\
  tiles 0 m n.
Proof. exact map_partitions_rows. Qed.
Print Assumptions T09b_map_partitions_rows.

Example T09b_example : build_map [5; 5; -2; -2; -2; 7] = [(-2, 0%nat, 2%nat); (5, 3%nat, 4%nat); (7, 5%nat, 5%nat)].
Proof. vm_compute. reflexivity. Qed.

(* The sorted identifier column does not depend on the sorting algorithm (pandas' default is unstable). *)
Theorem T09b_sorted_column_unique : forall ids s : list Z,
  Permutation ids s -> StronglySorted Z.le s -> s = sort_ids ids.
Proof. exact sorted_ids_unique. Qed.
Print Assumptions T09b_sorted_column_unique.

(* Sample size = number of blocks = number of distinct identifiers = number of rows of the draws table. *)
Theorem T09_sample_size : forall ids : list Z,
  sample_size ids = List.length (build_map ids) /\
  sample_size ids = distinct ids /\
  draws_rows ids = distinct ids /\
  (panel_ok ids = true -> sample_size ids = count_groups ids).
Proof. exact sample_size_is_number_of_individuals. Qed.
Print Assumptions T09_sample_size.

Example T09_sample_size_example : sample_size [5; 5; -2; -2; -2; 7] = 3%nat /\ panel_ok [5; 5; -2; -2; -2; 7] = true.
Proof. vm_compute. split; reflexivity. Qed.

(* ---- values over the real numbers.  A row is (identifier, payload); f is the per-row value of the
   formula inside the operator; st is ANY admissible result of sort_values on the table t. *)
Section OverR.
  Context {A : Type}.
  Notation row := (Z * A)%type.

  (* T09c. PanelLikelihoodTrajectory(f) of the individual of block e = the product of f over exactly the
     rows of the (unsorted) table carrying its identifier. *)
  Theorem T09c_trajectory_is_product : forall (f : row -> R) (t st : list row),
    sorted_version t st ->
    forall e, In e (build_map (ids_of t)) ->
      traj 1%R Rmult f st (b_first e) (b_last e) = prod_list 1%R Rmult (map f (rows_of (b_id e) t)).
  Proof. exact (trajectory_is_product 1%R Rmult Rmult_comm (fun a b c => eq_sym (Rmult_assoc a b c))). Qed.

  (* T09d. Reordering the table in any way (individuals exchanged, rows exchanged inside an individual),
     and whatever the unstable sort does: same map, same value for every individual, same total
     h = ln gives the sample log likelihood). *)
  Theorem T09d_order_independent : forall (f : row -> R) (h : R -> R) (t t' st st' : list row),
    Permutation t t' -> sorted_version t st -> sorted_version t' st' ->
    build_map (ids_of t) = build_map (ids_of t') /\
    panel_values 1%R Rmult f st (build_map (ids_of t)) = panel_values 1%R Rmult f st' (build_map (ids_of t')) /\
    total 0%R Rplus h (panel_values 1%R Rmult f st (build_map (ids_of t)))
      = total 0%R Rplus h (panel_values 1%R Rmult f st' (build_map (ids_of t'))).
  Proof. exact (order_independent 1%R 0%R Rmult Rplus Rmult_comm (fun a b c => eq_sym (Rmult_assoc a b c))). Qed.

  (* T09d'. Individuals renamed by an injective map (so that they appear in another order in the map and
     in the result): every individual keeps its value; the list of values is permuted; the total is
     unchanged. *)
  Theorem T09d_relabel_independent : forall (rho : Z -> Z) (f : A -> R) (h : R -> R) (t st st' : list row),
    (forall a b, rho a = rho b -> a = b) ->
    sorted_version t st -> sorted_version (relabel rho t) st' ->
    (forall i, value_of 1%R Rmult f (rho i) (relabel rho t) = value_of 1%R Rmult f i t) /\
    Permutation (map snd (panel_values 1%R Rmult (fun r => f (snd r)) st (build_map (ids_of t))))
                (map snd (panel_values 1%R Rmult (fun r => f (snd r)) st' (build_map (ids_of (relabel rho t))))) /\
    total 0%R Rplus h (panel_values 1%R Rmult (fun r => f (snd r)) st (build_map (ids_of t)))
    = total 0%R Rplus h (panel_values 1%R Rmult (fun r => f (snd r)) st' (build_map (ids_of (relabel rho t)))).
  Proof.
    exact (relabel_independent 1%R 0%R Rmult Rplus Rmult_comm (fun a b c => eq_sym (Rmult_assoc a b c))
             Rplus_comm (fun a b c => eq_sym (Rplus_assoc a b c))).
  Qed.

  (* T09e. MonteCarlo(PanelLikelihoodTrajectory(g)) of an individual = (1/nd) sum_k prod over exactly the
     individual's rows of g(row, draw k of that individual): one draw per (individual, k), read by every
     row of the block; the individual at position idx of the map reads row idx of the draws table; and the
     values do not depend on the order of the table. *)
  Theorem T09e_draws_per_individual : forall (nd : nat) (dr : nat -> R) (g : row -> R -> R) (t st : list row),
    sorted_version t st ->
    forall e, In e (build_map (ids_of t)) ->
      mc 1%R 0%R Rmult Rplus Rdivn nd dr g st (b_first e) (b_last e)
      = Rdivn (sum_list 0%R Rplus
                 (map (fun k => prod_list 1%R Rmult (map (fun r => g r (dr k)) (rows_of (b_id e) t))) (seq 0 nd))) nd.
  Proof. exact (draws_per_individual 1%R 0%R Rmult Rplus Rdivn Rmult_comm (fun a b c => eq_sym (Rmult_assoc a b c))). Qed.

  Theorem T09e_draws_row_of_individual :
    forall (nd : nat) (draws : nat -> nat -> R) (g : row -> R -> R) (st : list row) m idx e,
    nth_error m idx = Some e ->
    nth_error (panel_mc_values 1%R 0%R Rmult Rplus Rdivn nd draws g st m) idx
    = Some (b_id e, mc 1%R 0%R Rmult Rplus Rdivn nd (draws idx) g st (b_first e) (b_last e)).
  Proof. exact (draws_row_of_individual 1%R 0%R Rmult Rplus Rdivn). Qed.

  Theorem T09e_mc_order_independent :
    forall (nd : nat) (draws : nat -> nat -> R) (g : row -> R -> R) (t t' st st' : list row),
    Permutation t t' -> sorted_version t st -> sorted_version t' st' ->
    panel_mc_values 1%R 0%R Rmult Rplus Rdivn nd draws g st (build_map (ids_of t))
    = panel_mc_values 1%R 0%R Rmult Rplus Rdivn nd draws g st' (build_map (ids_of t')).
  Proof. exact (mc_order_independent 1%R 0%R Rmult Rplus Rdivn Rmult_comm (fun a b c => eq_sym (Rmult_assoc a b c))). Qed.
End OverR.
Print Assumptions T09c_trajectory_is_product.
Print Assumptions T09d_order_independent.
Print Assumptions T09d_relabel_independent.
Print Assumptions T09e_draws_per_individual.
Print Assumptions T09e_draws_row_of_individual.
Print Assumptions T09e_mc_order_independent.

(* non-vacuity of the hypotheses of T09c/T09d/T09e: a table, a reordering of it, and sorted versions *)
Example T09cde_hypotheses_inhabited :
  let t  := [(5, 1%nat); (5, 2%nat); (-2, 3%nat); (-2, 4%nat); (7, 5%nat)] in
  let t' := [(7, 5%nat); (-2, 4%nat); (-2, 3%nat); (5, 1%nat); (5, 2%nat)] in
  Permutation t t' /\ sorted_version t (sorted_table t) /\ sorted_version t' (sorted_table t') /\
  sorted_table t <> sorted_table t' /\ In (-2, 0%nat, 1%nat) (build_map (ids_of t)).
Proof.
  intros t t'. split; [|split; [apply sorted_table_version|split; [apply sorted_table_version|split]]].
  - unfold t, t'.
    apply (Permutation_cons_app [(7, 5%nat); (-2, 4%nat); (-2, 3%nat)] [(5, 2%nat)]). simpl.
    apply (Permutation_cons_app [(7, 5%nat); (-2, 4%nat); (-2, 3%nat)] []). simpl.
    apply (Permutation_cons_app [(7, 5%nat); (-2, 4%nat)] []). simpl.
    apply perm_swap.
  - vm_compute. discriminate.
  - vm_compute. left. reflexivity.
Qed.
(* ... and of the renaming theorem: i -> -i is injective and reverses the order of the individuals *)
Example T09d_relabel_example :
  (forall a b, - a = - b -> a = b) /\
  map b_id (build_map (ids_of (relabel Z.opp [(5, 1%nat); (-2, 3%nat); (7, 5%nat)]))) = [-7; -5; 2] /\
  map b_id (build_map (ids_of [(5, 1%nat); (-2, 3%nat); (7, 5%nat)])) = [-2; 5; 7].
Proof. split; [intros; lia|]. vm_compute. split; reflexivity. Qed.

(* ---- histories of one Database object (declarations on several columns, refused declarations, direct
   edits of database.data, Database.remove, earlier evaluations and draws). *)
Section Histories.
  Context {A : Type}.

  (* T09g. After ANY history, an evaluation uses the map of the current table on the current panel column,
     a sorted permutation of the current table, and one series of draws per individual of that table. *)
  Theorem T09g_evaluation_uses_current_table : forall (s0 : @pstate A) ops c,
    let s := fst (run_ops s0 ops) in
    st_col s = Some c ->
    let s2 := prepare_eval s in
    st_col s2 = Some c /\
    Permutation (st_table s) (st_table s2) /\
    StronglySorted Z.le (col_ids c (st_table s2)) /\
    st_map s2 = build_map (col_ids c (st_table s)) /\
    st_map s2 = build_map (col_ids c (st_table s2)) /\
    st_draws s2 = distinct (col_ids c (st_table s)).
  Proof. exact evaluation_uses_current_table. Qed.

  (* T09h. A declaration (also a second one, on another column) is accepted exactly on contiguous columns;
     accepted: that column is the panel column and the map is the map of that column; refused: the state
     of the database is unchanged. *)
  Theorem T09h_declaration_exact : forall (s : @pstate A) c,
    (contiguous (col_ids c (st_table s)) ->
       st_col (step s (OpPanel c)) = Some c /\
       st_map (step s (OpPanel c)) = build_map (col_ids c (st_table s)) /\
       Permutation (st_table s) (st_table (step s (OpPanel c)))) /\
    (~ contiguous (col_ids c (st_table s)) -> step s (OpPanel c) = s).
  Proof. exact declaration_exact. Qed.

  (* T09i. A direct edit of the table leaves the stored map stale; the next evaluation does not use it. *)
  Theorem T09i_edit_then_evaluate : forall (s : @pstate A) t c,
    st_col s = Some c ->
    st_map (step s (OpEdit t)) = st_map s /\
    st_map (prepare_eval (step s (OpEdit t))) = build_map (col_ids c t) /\
    st_draws (prepare_eval (step s (OpEdit t))) = distinct (col_ids c t).
  Proof. exact edit_then_evaluate. Qed.
End Histories.
Print Assumptions T09g_evaluation_uses_current_table.
Print Assumptions T09h_declaration_exact.
Print Assumptions T09i_edit_then_evaluate.

(* non-vacuity (columns that exist: [nth] is totalised): persons (column 0) then households (column 1), then a
   third column that is refused, then a
   direct edit appending an individual with a small identifier: the stored map is stale, the evaluation's is not *)
Example T09ghi_example :
  let t := [([5; 20; 1], 1%nat); ([5; 20; 2], 2%nat); ([7; 20; 1], 3%nat); ([9; 30; 3], 4%nat)] in
  let t' := t ++ [([2; 10; 4], 5%nat)] in
  let '(s, verdicts) := run_ops (fresh t) [OpPanel 0%nat; OpPanel 1%nat; OpPanel 2%nat; OpEdit t'] in
  verdicts = [true; true; false; true] /\ st_col s = Some 1%nat /\
  st_map s = [(20, 0%nat, 2%nat); (30, 3%nat, 3%nat)] /\
  st_map (prepare_eval s) = [(10, 0%nat, 0%nat); (20, 1%nat, 3%nat); (30, 4%nat, 4%nat)] /\
  st_draws (prepare_eval s) = 3%nat /\
  panel_accepts (fresh [([1; 1], 0%nat); ([2; 2], 0%nat); ([1; 1], 0%nat)]) 0%nat = false.
Proof. vm_compute. repeat split; reflexivity. Qed.

(* T09j. One BIOGEME object whose database table changes after the construction (Database.remove, direct
   edits), likelihoods and simulations asked in any order: the engine always evaluates ONE consistent
   table -- sorted, with the map of exactly that table; that table is a reordering of the table of the
   construction or of a later table of the database.  (Never old rows with new ranges.) *)
Theorem T09j_object_engine_consistent : forall (A : Type) c (db : list (@hrow A)) ops,
  engine_ok c (snd (run_object c db ops)) /\
  exists t, (t = db \/ In (BChange t) ops) /\ Permutation t (e_table (snd (run_object c db ops))).
Proof. exact (@object_engine_consistent). Qed.
Print Assumptions T09j_object_engine_consistent.

Example T09j_example :
  let db := [([5], 1%nat); ([5], 2%nat); ([7], 3%nat); ([9], 4%nat)] in
  let db' := [([5], 1%nat); ([7], 3%nat); ([9], 4%nat)] in
  e_map (snd (run_object 0%nat db [BChange db'; BLikelihood])) = [(5, 0%nat, 1%nat); (7, 2%nat, 2%nat); (9, 3%nat, 3%nat)] /\
  e_map (snd (run_object 0%nat db [BChange db'; BLikelihood; BSimulate])) = [(5, 0%nat, 0%nat); (7, 1%nat, 1%nat); (9, 2%nat, 2%nat)] /\
  e_table (snd (run_object 0%nat db [BChange db'; BSimulate])) = db'.
Proof. vm_compute. repeat split; reflexivity. Qed.
