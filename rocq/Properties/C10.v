(* C10 -- Simulated and numerical integrals equal the average / integral they denote.
   Property theorems only; each is closed by [exact] of a lemma of Proofs/DrawsP.v.
   The model (Model/Draws.v) is written from Database.generate_draws / set_random_number_generators,
   IdManager.prepare / draw_types, bioDraws.set_id_manager and the engine's bioExprDraws /
   bioExprMontecarlo / bioExprDerive / bioGaussHermite; it is tied to the implementation by the streams
   table, mc, native, seed, shape, reserved, integrate, derive of lib/props/C10.py (tie B).

   A = the numbers stored in the table, S = the state of the random number generator: a generator is
   ANY function (S, sample size, number of draws) -> array * S, so every statement holds for native
   (numpy-based) and user-defined generators alike and for every outcome of the random numbers. *)
From Coq Require Import Sorting.Sorted Reals.
From Coquelicot Require Import Rbar Hierarchy RInt_gen Derive.
From BV Require Import Model.Draws Proofs.IdMgrP Proofs.DrawsP.
Open Scope nat_scope.

(* ---- a running example: three draw variables whose order of appearance (zz, aa, mm), sorted order
   (aa, mm, zz) and generator registration order (TB, TA, TC) all differ; tagged integer series *)
Definition tagged (k : Z) : generator Z unit :=
  fun s N R => (map (fun o => map (fun r => (k * 1024 + Z.of_nat o * 32 + Z.of_nat r)%Z) (seq 0 R)) (seq 0 N), s).
Definition ex_user : gdict Z unit := [("TB"%string, tagged 1); ("TA"%string, tagged 2); ("TC"%string, tagged 3)].
Definition ex_f : expr :=
  EUn MonteCarlo (EBin Plus (EBin Times (EDraws "zz" "TA") (EVar "x"))
                            (EBin Times (EDraws "aa" "TB") (EDraws "mm" "TC"))).

(* T10a. For every list of formulas, every set of native / user generators, every N and R and every
   generator state: when the preparation is accepted and generate_draws succeeds, the column number of
   each draw variable d is its position in the sorted list of the draw-variable names, and what the
   engine reads for d at draw r of observation o is cell [o][r] of an array returned by the generator
   registered for THE type d is declared with (an accepted preparation has one type per name: prepare
   checks it, IdManager._check_types_of_draws): variable A is fed series A. *)
Theorem T10a_table_indexing :
  forall (A S : Type) (native user : gdict A S) (fs : list expr) (cols : list string) (N R : nat) (s : S)
         (t : idtable) (table : tensor A) (s' : S) (d : string),
    prepare_draws A S native user fs cols N R s = Some (t, Ok (table, s')) ->
    In d (flat_map (names_of_kind KDraws) fs) ->
    t_draws t = sorted_names (flat_map (names_of_kind KDraws) fs) /\
    exists k ty g st m st',
      draw_id t d = Some (Z.of_nat k) /\ nth_error (t_draws t) k = Some d /\
      In (d, ty) (draws_decls fs) /\ (forall ty0, In (d, ty0) (draws_decls fs) -> ty0 = ty) /\
      find_generator A S native user ty = Some g /\
      g st N R = (m, st') /\ has_shape A N R m = true /\
      forall o r, o < N -> r < R ->
        engine_draw A t table o r d = get2 A m o r /\ get2 A m o r <> None.
Proof. exact table_indexing. Qed.
Print Assumptions T10a_table_indexing.

Example T10a_example :
  exists t table,
    prepare_draws Z unit [] ex_user [ex_f] ["x"%string] 2 3 tt = Some (t, Ok (table, tt)) /\
    t_draws t = ["aa"; "mm"; "zz"]%string /\
    engine_draw Z t table 1 2 "zz" = Some (2 * 1024 + 32 + 2)%Z /\
    engine_draw Z t table 1 2 "aa" = Some (1 * 1024 + 32 + 2)%Z /\
    engine_draw Z t table 0 1 "mm" = Some (3 * 1024 + 0 + 1)%Z.
Proof. eexists. eexists. split; [vm_compute; reflexivity|]. repeat split. Qed.

(* T10a'. The same, stated from any declaration (d, ty0) of the formulas. *)
Theorem T10a_table_indexing_consistent :
  forall (A S : Type) (native user : gdict A S) fs cols N R s t table s' d ty0,
    prepare_draws A S native user fs cols N R s = Some (t, Ok (table, s')) ->
    In (d, ty0) (draws_decls fs) ->
    exists k g st m st',
      draw_id t d = Some (Z.of_nat k) /\ nth_error (t_draws t) k = Some d /\
      find_generator A S native user ty0 = Some g /\
      g st N R = (m, st') /\ has_shape A N R m = true /\
      forall o r, o < N -> r < R ->
        engine_draw A t table o r d = get2 A m o r /\ get2 A m o r <> None.
Proof. exact table_indexing_consistent. Qed.
Print Assumptions T10a_table_indexing_consistent.

(* A name declared with two different types is refused, whatever the generators, N, R. *)
Theorem T10a_conflicting_types_refused :
  forall (A S : Type) (native user : gdict A S) fs cols N R s d t1 t2,
    In (d, t1) (draws_decls fs) -> In (d, t2) (draws_decls fs) -> t1 <> t2 ->
    prepare_draws A S native user fs cols N R s = None.
Proof. exact conflicting_types_refused. Qed.
Print Assumptions T10a_conflicting_types_refused.

(* The check is necessary: without it (prepare_draws_unchecked, the code before the repair 2054030) a name
   declared with two types is accepted and every occurrence reads the series of the LAST declared type;
   with it the same formula is refused. *)
Theorem T10a_conflicting_types_refuted :
  exists (fs : list expr) (user : gdict Z unit) t table gA,
    prepare_draws_unchecked Z unit [] user fs [] 1 1 tt = Some (t, Ok (table, tt)) /\
    prepare_draws Z unit [] user fs [] 1 1 tt = None /\
    In ("a"%string, "TA"%string) (draws_decls fs) /\
    find_generator Z unit [] user "TA" = Some gA /\
    get2 Z (fst (gA tt 1 1)) 0 0 = Some 1%Z /\
    engine_draw Z t table 0 0 "a" = Some 2%Z.
Proof. exact conflicting_types_refuted. Qed.
Print Assumptions T10a_conflicting_types_refuted.

(* The numbering is a property of ONE preparation: identifiers of another formula sharing the variable, applied to this
   formula's table, read another variable's series (or fall outside the table).  Histories of models / evaluations
   sharing objects are exercised by stream history. *)
Theorem T10a_stale_identifiers_refuted :
  exists (f1 f2 : expr) (user : gdict Z unit) t1 tb1 t2 tb2,
    prepare_draws Z unit [] user [f1] [] 1 1 tt = Some (t1, Ok (tb1, tt)) /\
    prepare_draws Z unit [] user [f2] [] 1 1 tt = Some (t2, Ok (tb2, tt)) /\
    draw_id t1 "xi" = Some 1%Z /\ draw_id t2 "xi" = Some 0%Z /\
    engine_draw Z t1 tb1 0 0 "xi" = Some 100%Z /\
    engine_draw Z t2 tb2 0 0 "xi" = Some 100%Z /\
    engine_draw Z t2 tb1 0 0 "xi" = Some 1%Z /\
    engine_draw Z t1 tb2 0 0 "xi" = None.
Proof. exact stale_identifiers_refuted. Qed.
Print Assumptions T10a_stale_identifiers_refuted.

(* np.array(list_of_draws) then np.moveaxis(., 0, -1): table[o][r][k] = series_k[o][r], any K, N, R *)
Theorem T10a_stack_moveaxis :
  forall (A : Type) N R (ms : list (matrix A)) o r k,
    Forall (fun m => has_shape A N R m = true) ms -> o < N -> r < R ->
    get3 A (moveaxis_0_last A N R (stack A ms)) o r k =
    match nth_error ms k with Some m => get2 A m o r | None => None end.
Proof. exact moveaxis_index. Qed.
Print Assumptions T10a_stack_moveaxis.

(* two different variables never share a column; the columns follow the sorted names *)
Theorem T10a_draw_id_injective :
  forall fs cols t d1 d2 k, prepare fs cols = Some t -> draw_id t d1 = Some k -> draw_id t d2 = Some k -> d1 = d2.
Proof. exact draw_id_injective. Qed.
Print Assumptions T10a_draw_id_injective.

Theorem T10a_draws_sorted : forall fs cols t, prepare fs cols = Some t -> StronglySorted slt (t_draws t).
Proof. exact draws_sorted. Qed.
Print Assumptions T10a_draws_sorted.

(* T10b. The MonteCarlo node is the arithmetic mean over the draws of the observation: if the child
   evaluates to v_r at the r-th draw, the value is (v_1 + ... + v_R) / R; conversely a real value
   means R >= 1 and a real value at every draw. *)
Theorem T10b_mc_is_mean :
  forall (Phi : R -> R) e en vs,
    Forall2 (fun d v => evalX Phi e (with_draw en d) = XR v) (e_draws en) vs ->
    e_draws en <> [] ->
    evalX Phi (EUn MonteCarlo e) en = XR (Rsum vs / INR (List.length vs)).
Proof. exact mc_is_mean. Qed.
Print Assumptions T10b_mc_is_mean.

Example T10b_example (Phi : R -> R) :
  evalX Phi (EUn MonteCarlo (EDraws "x" "T"))
        (mkEnv (fun _ => None) (fun _ => None) (fun _ => None) (fun _ => None)
               [(fun _ => Some 1%R); (fun _ => Some 3%R)] [])
  = XR (Rsum [1%R; 3%R] / INR 2).
Proof. apply (mc_is_mean Phi); [repeat constructor | discriminate]. Qed.

Theorem T10b_mc_real_inv :
  forall (Phi : R -> R) e en x,
    evalX Phi (EUn MonteCarlo e) en = XR x ->
    e_draws en <> [] /\
    exists vs, Forall2 (fun d v => evalX Phi e (with_draw en d) = XR v) (e_draws en) vs /\
               x = (Rsum vs / INR (List.length vs))%R.
Proof. exact mc_real_inv. Qed.
Print Assumptions T10b_mc_real_inv.

(* engine side: the R lookups the engine's loop goes through at observation o map every draw variable
   to cell [o][r] of its own series *)
Theorem T10b_engine_draws_own_series :
  forall (A S : Type) (val : A -> R) native user fs cols N R s t table s' o,
    prepare_draws A S native user fs cols N R s = Some (t, Ok (table, s')) -> o < N ->
    List.length (engine_draws A val t table o R) = R /\
    forall d, In d (flat_map (names_of_kind KDraws) fs) ->
      exists ty g st m st',
        In (d, ty) (draws_decls fs) /\ find_generator A S native user ty = Some g /\
        g st N R = (m, st') /\
        forall r, r < R ->
          exists L x, nth_error (engine_draws A val t table o R) r = Some L /\
                      get2 A m o r = Some x /\ L d = Some (val x).
Proof. exact engine_draws_own_series. Qed.
Print Assumptions T10b_engine_draws_own_series.

(* T10c. A returned table only contains series of shape (N, R) and has shape (N, R, K); the first
   generator returning another shape makes generate_draws fail with the shape error. *)
Theorem T10c_shape_enforced :
  forall (A S : Type) (native user : gdict A S) types N R names s table s',
    generate_draws A S native user types names N R s = Ok (table, s') ->
    exists ms, calls A S native user types N R s names ms s' /\
               table = moveaxis_0_last A N R (stack A ms) /\
               Forall (fun m => has_shape A N R m = true) ms /\
               List.length table = N /\
               Forall (fun plane => List.length plane = R /\
                         Forall (fun cell => List.length cell = List.length names) plane) table.
Proof. exact shape_enforced. Qed.
Print Assumptions T10c_shape_enforced.

Theorem T10c_bad_shape_refused :
  forall (A S : Type) (native user : gdict A S) types N R pre n post s ms s1 t g,
    calls A S native user types N R s pre ms s1 -> assoc n types = Some t ->
    find_generator A S native user t = Some g ->
    has_shape A N R (fst (g s1 N R)) = false ->
    generate_draws A S native user types (pre ++ n :: post) N R s = Err (BadShape n).
Proof. exact bad_shape_refused. Qed.
Print Assumptions T10c_bad_shape_refused.

Example T10c_example :
  generate_draws Z unit [] [("T"%string, tagged 1); ("BAD"%string, fun s N R => (fst (tagged 1 s R N), s))]
                 [("a", "T"); ("b", "BAD"); ("c", "T")]%string ["a"; "b"; "c"]%string 2 3 tt
  = Err (BadShape "b").
Proof. vm_compute. reflexivity. Qed.

Theorem T10c_unknown_type_refused :
  forall (A S : Type) (native user : gdict A S) types N R pre n post s ms s1 t,
    calls A S native user types N R s pre ms s1 -> assoc n types = Some t ->
    find_generator A S native user t = None ->
    generate_draws A S native user types (pre ++ n :: post) N R s = Err (UnknownType n t).
Proof. exact unknown_type_refused. Qed.
Print Assumptions T10c_unknown_type_refused.

(* T10d. set_random_number_generators refuses exactly the dictionaries containing a native type name;
   an accepted dictionary has no native key; and whatever the user dictionary holds, a native type
   name designates the native generator. *)
Theorem T10d_set_rng_refuses_iff :
  forall (A S : Type) (native rng : gdict A S),
    set_rng A S native rng = None <-> exists k, In k (map fst native) /\ In k (map fst rng).
Proof. exact set_rng_None_iff. Qed.
Print Assumptions T10d_set_rng_refuses_iff.

Theorem T10d_reserved_names :
  forall (A S : Type) (native rng u : gdict A S),
    set_rng A S native rng = Some u ->
    u = rng /\ forall k, In k (map fst native) -> assoc k u = None.
Proof. exact reserved_names. Qed.
Print Assumptions T10d_reserved_names.

Theorem T10d_native_not_shadowed :
  forall (A S : Type) (native user : gdict A S) t g,
    assoc t native = Some g -> find_generator A S native user t = Some g.
Proof. exact native_not_shadowed. Qed.
Print Assumptions T10d_native_not_shadowed.

Theorem T10d_reachable_user_no_native :
  forall (A S : Type) (native u : gdict A S) k,
    reachable_user A S native u -> In k (map fst native) -> assoc k u = None.
Proof. exact reachable_user_no_native. Qed.
Print Assumptions T10d_reachable_user_no_native.

Example T10d_example :
  set_rng Z unit [("NORMAL"%string, tagged 0)] [("MINE"%string, tagged 1); ("NORMAL"%string, tagged 2)] = None /\
  set_rng Z unit [("NORMAL"%string, tagged 0)] [("MINE"%string, tagged 1)] = Some [("MINE"%string, tagged 1)].
Proof. split; reflexivity. Qed.

(* T10e. Derive(child, name) = the partial derivative of the child in the named parameter / variable,
   at every point where the child is in the smooth fragment (dom).  From the correctness of the
   symbolic derivative D of Model/Deriv.v (property C02, Proofs/DerivP.v: D_correct, D_value), taken
   here as explicit premises. *)
Theorem T10e_derive_is_partial :
  forall (Phi : R -> R),
    (forall ws w en x0 e, In w ws -> dom Phi ws (upd en w x0) e ->
       is_derive (fun x => valR (evalX Phi e (upd en w x))) x0 (valR (evalX Phi (D w e) (upd en w x0)))) ->
    (forall ws w en x0 e, In w ws -> dom Phi ws (upd en w x0) e ->
       exists d, evalX Phi (D w e) (upd en w x0) = XR d) ->
    forall t n w child en x0,
      wrt_of t n = Some w -> dom Phi (w :: nil) (upd en w x0) child ->
      exists d, derive_value Phi t n child (upd en w x0) = XR d /\
                is_derive (fun x => valR (evalX Phi child (upd en w x))) x0 d.
Proof. exact derive_is_partial. Qed.
Print Assumptions T10e_derive_is_partial.

(* closed with Proofs/DerivP.v (D_correct, D_value): the remaining premise is the derivative of the external
   normal CDF, used by bioNormalCdf nodes only *)
Theorem T10e_derive_is_partial_closed :
  forall (Phi : R -> R),
    (forall x, is_derive Phi x (D2R inv_sqrt_2pi * exp (- (x * x / 2)))%R) ->
    forall t n w child en x0,
      wrt_of t n = Some w -> dom Phi (w :: nil) (upd en w x0) child ->
      exists d, derive_value Phi t n child (upd en w x0) = XR d /\
                is_derive (fun x => valR (evalX Phi child (upd en w x))) x0 d.
Proof. exact derive_is_partial_closed. Qed.
Print Assumptions T10e_derive_is_partial_closed.

Example T10e_example (Phi : R -> R) :
  derive_value Phi (mkId ["b"%string] [] [] [] ["x"%string]) "b" (EBin Times (EBeta "b" false) (EVar "x"))
  = evalX Phi (EBin Plus (EBin Times (ENumZ 1) (EVar "x")) (EBin Times (EBeta "b" false) (ENumZ 0))).
Proof. reflexivity. Qed.

(* T10f. Sanity corollaries: the Monte-Carlo mean is linear, and the mean of a draw-independent
   quantity is that quantity. *)
Theorem T10f_mc_plus :
  forall (Phi : R -> R) a b en va vb,
    evalX Phi (EUn MonteCarlo a) en = XR va -> evalX Phi (EUn MonteCarlo b) en = XR vb ->
    evalX Phi (EUn MonteCarlo (EBin Plus a b)) en = XR (va + vb).
Proof. exact mc_plus. Qed.
Print Assumptions T10f_mc_plus.

Theorem T10f_mc_scale :
  forall (Phi : R -> R) c a en cv va,
    (forall d, In d (e_draws en) -> evalX Phi c (with_draw en d) = XR cv) ->
    evalX Phi (EUn MonteCarlo a) en = XR va ->
    evalX Phi (EUn MonteCarlo (EBin Times c a)) en = XR (cv * va).
Proof. exact mc_scale. Qed.
Print Assumptions T10f_mc_scale.

Theorem T10f_mc_const :
  forall (Phi : R -> R) e en v,
    e_draws en <> [] ->
    (forall d, In d (e_draws en) -> evalX Phi e (with_draw en d) = XR v) ->
    evalX Phi (EUn MonteCarlo e) en = XR v.
Proof. exact mc_const. Qed.
Print Assumptions T10f_mc_const.

(* T10g (partial). Integrate: the engine applies the Gauss-Hermite sum to f(x) exp(x^2); the rule is
   linear in the integrand, and IF the node table integrates (f(x) exp(x^2)) exp(-x^2) exactly, the
   value is the integral of f over the real line.  Missing: that the engine's 100-point table has this
   accuracy for smooth, normally decaying integrands -- a numerical fact of the external engine,
   sampled by stream `integrate` (relative tolerance 1e-4), not a theorem. *)
Theorem T10g_integrate_is_integral_partial :
  forall nodes f,
    is_integral (fun x => gh_unweighted f x * exp (- (x * x)))%R (gh_quad nodes (gh_unweighted f)) ->
    is_integral f (gh_rule nodes f).
Proof. exact integrate_is_integral_partial. Qed.
Print Assumptions T10g_integrate_is_integral_partial.

Theorem T10g_gh_rule_linear :
  forall nodes f g a b,
    gh_rule nodes (fun x => a * f x + b * g x)%R = (a * gh_rule nodes f + b * gh_rule nodes g)%R.
Proof. exact gh_rule_linear. Qed.
Print Assumptions T10g_gh_rule_linear.
