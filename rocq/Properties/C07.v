(* C07 -- Estimation returns a feasible point that is a maximum of the stated likelihood.
   Property theorems only; each is closed by [exact] of a lemma proved in Proofs/EstimP.v.

   What is proved here is the GLUE (biogeme.py estimate/optimize, negative_likelihood.py, the wrappers of
   optimization.py, results.RawResults -- the first and third generated from the source on every run, Gen/NegLike.v)
   and the MATHEMATICS that turn contracts of the external optimiser into the property.  The optimiser itself
   (biogeme_optimization, scipy) is an oracle `ext`; its contracts appear as hypotheses (descent, feasibility,
   dimension) and are only sampled by the stream `estimate`: every clause depending on what the optimiser
   returns is PARTIAL. *)
From Coq Require Import Reals List String Bool Lra.
From BV Require Import Model.PyBase Model.Estim Gen.NegLike Proofs.EstimP.
Open Scope R_scope.

(* ---- T07a. the function handed to the optimiser is -L, with gradient -grad L and Hessian -hess L
        (NegativeLikelihood._f/_f_g/_f_g_h as translated on this run), called with scaled=False, batch=None *)
Theorem T07a_sign_flip_generated : forall like ld x,
  py_f like (Some x) = Some (- like x false None) /\
  py_f_g ld (Some x) =
    Some (mkFD (- fo_function (ld x false false false None)) (vopp (fo_gradient (ld x false false false None))) None) /\
  py_f_g_h ld (Some x) =
    Some (mkFD (- fo_function (ld x false true false None)) (vopp (fo_gradient (ld x false true false None)))
               (Some (mopp (fo_hessian (ld x false true false None))))).
Proof. exact (fun like ld x => conj (py_f_spec like x) (conj (py_f_g_spec ld x) (py_f_g_h_spec ld x))). Qed.
Print Assumptions T07a_sign_flip_generated.

Theorem T07a_sign_flip : forall L gradL hessL bhhhL junk_h junk_b N x,
  let obj := the_objective L gradL hessL bhhhL junk_h junk_b N in
  obj_f obj x = Some (- L x) /\
  obj_f_g obj x = Some (mkFD (- L x) (vopp (gradL x)) None) /\
  obj_f_g_h obj x = Some (mkFD (- L x) (vopp (gradL x)) (Some (mopp (hessL x)))).
Proof. exact sign_flip. Qed.
Print Assumptions T07a_sign_flip.

Example T07a_example :
  obj_f (the_objective (fun x => - dot x x) (fun x => map (Rmult (-2)) x) (fun _ => []) (fun _ => [])
                       (fun _ => []) (fun _ => []) 1) [1; 2] = Some (- - (1 * 1 + (2 * 2 + 0))).
Proof. reflexivity. Qed.

(* hence: minimising the objective = maximising L, and the first-order conditions coincide *)
Theorem T07a_argmin_is_argmax : forall L gradL hessL bhhhL junk_h junk_b N (S : vec -> Prop) x,
  let obj := the_objective L gradL hessL bhhhL junk_h junk_b N in
  (forall y, S y -> forall fx fy, obj_f obj x = Some fx -> obj_f obj y = Some fy -> fx <= fy) <->
  (forall y, S y -> L y <= L x).
Proof. exact argmin_is_argmax. Qed.
Print Assumptions T07a_argmin_is_argmax.

Theorem T07a_stationarity_coincides : forall bs x g,
  (Forall (fun v => v = 0) (vopp g) <-> Forall (fun v => v = 0) g) /\
  (kkt_min bs x (vopp g) <-> kkt bs x g).
Proof. exact (fun bs x g => conj (vopp_zero_iff g) (kkt_min_vopp bs x g)). Qed.
Print Assumptions T07a_stationarity_coincides.

(* ---- T07b. the reported logLike, g, H, bhhh are those of L at the returned estimates, the reported initial
        value is L at the starting values (after the optional restart file), names / bounds are the free ones *)
Theorem T07b_reported_is_recomputed :
  forall L gradL hessL bhhhL junk_h junk_b N P ext alg p si saved s r s',
  est L gradL hessL bhhhL junk_h junk_b N P ext alg p si saved s = Some (r, s') ->
  r_logLike r = L (r_betaValues r) /\ r_g r = gradL (r_betaValues r) /\
  r_H r = hessL (r_betaValues r) /\ r_bhhh r = bhhhL (r_betaValues r) /\
  r_initLogLike r = L (free_values (st_idm (load_saved si saved s))) /\
  r_betaNames r = free_names (st_idm (load_saved si saved s)) /\
  r_bounds r = free_bounds (st_idm (load_saved si saved s)).
Proof. exact reported_is_recomputed. Qed.
Print Assumptions T07b_reported_is_recomputed.

(* where the estimation starts: the restart file (when save_iterations is set and the file is readable) overrides the
   declared starting values, name by name *)
Theorem T07b_restart_start : forall si saved s k,
  let i := st_idm s in
  (k < List.length (free_names i))%nat -> List.length (free_values i) = List.length (free_names i) ->
  nth k (free_values (st_idm (load_saved si saved s))) 0 =
  match (if si then saved else None) with
  | Some d => match assoc (nth k (free_names i) ""%string) d with Some w => w | None => nth k (free_values i) 0 end
  | None => nth k (free_values i) 0
  end.
Proof. exact restart_start. Qed.
Print Assumptions T07b_restart_start.

Example T07b_restart_example :
  free_values (st_idm (load_saved true (Some [("b"%string, 7)]) ex_state)) = [7] /\
  map (map b_init) (st_formulas (load_saved true (Some [("b"%string, 7)]) ex_state)) = [[7; 3; 7]].
Proof.
  split; [reflexivity|]. cbn. unfold change_init_beta. cbn.
  destruct (Req_EM_T 7 0) as [E|_]; [lra|]. reflexivity.
Qed.

(* the estimates ARE what the routine selected by the generated tables returned, started at the start values,
   with the declared bounds iff the wrapper hands them on *)
Theorem T07b_estimates_are_the_routines :
  forall L gradL hessL bhhhL junk_h junk_b N P ext alg p si saved s r s',
  est L gradL hessL bhhhL junk_h junk_b N P ext alg p si saved s = Some (r, s') ->
  let s1 := load_saved si saved s in
  let i := st_idm s1 in
  exists rt fb,
    routine alg = Some (rt, fb) /\
    let out := ext rt p (the_objective L gradL hessL bhhhL junk_h junk_b N) (free_values i)
                   (if fb then Some (free_bounds i) else None) in
    r = mkRaw (free_names i) (solution out) (free_bounds i) (L (free_values i))
              (L (solution out)) (gradL (solution out)) (hessL (solution out)) (bhhhL (solution out))
              (convergence out) /\
    s' = mkState (map (change_init_formula (combine (free_names i) (solution out))) (st_formulas s1))
                 (mkIdm (free_names i) (overlay (free_names i) (free_values i) (combine (free_names i) (solution out)))
                        (free_bounds i)).
Proof. exact estimate_unfold. Qed.
Print Assumptions T07b_estimates_are_the_routines.

(* non-vacuity (for T07b-e): EstimP.ex_ext is an oracle that answers [1/2]; EstimP.ex_state has one free parameter b
   (two leaves, upper bound 1) and one fixed parameter *)
Example T07b_example :
  option_map (fun rs => (r_betaValues (fst rs), r_logLike (fst rs), r_initLogLike (fst rs), map (map b_init) (st_formulas (snd rs))))
    (est (fun x => - dot x x) (fun x => map (Rmult (-2)) x) (fun _ => []) (fun _ => []) (fun _ => []) (fun _ => []) 1
         unit ex_ext "simple_bounds" tt false None ex_state)
  = Some ([1/2], - (1/2 * (1/2) + 0), - (0 * 0 + 0), [[1/2; 3; 1/2]]).
Proof.
  unfold est, estimate, optimize. cbn zeta.
  replace (routine_of algorithms wrappers algorithm_name "simple_bounds")
    with (Some ("biogeme_optimization.simple_bounds.simple_bounds_newton_algorithm"%string, true)) by (vm_compute; reflexivity).
  cbn. unfold change_init_beta. cbn.
  destruct (Req_EM_T (1/2) 0) as [E|_]; [lra|]. reflexivity.
Qed.

(* ---- T07c. final >= initial log likelihood, when the routine is a descent method
        (hypothesis on the oracle: objective(returned point) <= objective(start)) *)
Theorem T07c_final_ge_init_partial :
  forall L gradL hessL bhhhL junk_h junk_b N P ext alg p si saved s r s',
  (forall rt o x0 b fs f0, obj_f o (solution (ext rt p o x0 b)) = Some fs -> obj_f o x0 = Some f0 -> fs <= f0) ->
  est L gradL hessL bhhhL junk_h junk_b N P ext alg p si saved s = Some (r, s') ->
  r_initLogLike r <= r_logLike r.
Proof. exact final_ge_init. Qed.
Print Assumptions T07c_final_ge_init_partial.

(* ---- T07d. the estimates respect the declared bounds for the algorithms whose wrapper hands the bounds to the
        routine, when the routine stays in the box it is handed (hypothesis on the oracle) *)
Theorem T07d_bounds_respected_partial :
  forall L gradL hessL bhhhL junk_h junk_b N P ext alg p si saved s r s',
  (forall rt, let i := st_idm (load_saved si saved s) in
     in_box (free_bounds i)
            (solution (ext rt p (the_objective L gradL hessL bhhhL junk_h junk_b N) (free_values i) (Some (free_bounds i))))) ->
  fwd alg = true ->
  est L gradL hessL bhhhL junk_h junk_b N P ext alg p si saved s = Some (r, s') ->
  in_box (r_bounds r) (r_betaValues r).
Proof. exact bounds_respected. Qed.
Print Assumptions T07d_bounds_respected_partial.

(* which algorithms these are -- decided on the tables generated from optimization.py on this run *)
Theorem T07d_algorithms_forwarding_bounds :
  filter fwd all_algorithm_names = ["automatic"; "scipy"; "simple_bounds"; "simple_bounds_newton"; "simple_bounds_BFGS"]%string.
Proof. exact algorithms_forwarding_bounds. Qed.
Print Assumptions T07d_algorithms_forwarding_bounds.

Theorem T07d_algorithms_dropping_bounds :
  filter (fun a => negb (fwd a)) all_algorithm_names = ["LS-newton"; "TR-newton"; "LS-BFGS"; "TR-BFGS"]%string.
Proof. exact algorithms_dropping_bounds. Qed.
Print Assumptions T07d_algorithms_dropping_bounds.

Theorem T07d_routines :
  map (fun a => (a, routine a)) all_algorithm_names =
  [("automatic", Some ("biogeme_optimization.simple_bounds.simple_bounds_newton_algorithm", true));
   ("scipy", Some ("scipy.optimize.minimize", true));
   ("LS-newton", Some ("biogeme_optimization.linesearch.newton_line_search", false));
   ("TR-newton", Some ("biogeme_optimization.trust_region.newton_trust_region", false));
   ("LS-BFGS", Some ("biogeme_optimization.linesearch.bfgs_line_search", false));
   ("TR-BFGS", Some ("biogeme_optimization.trust_region.bfgs_trust_region", false));
   ("simple_bounds", Some ("biogeme_optimization.simple_bounds.simple_bounds_newton_algorithm", true));
   ("simple_bounds_newton", Some ("biogeme_optimization.simple_bounds.simple_bounds_newton_algorithm", true));
   ("simple_bounds_BFGS", Some ("biogeme_optimization.simple_bounds.simple_bounds_newton_algorithm", true))]%string.
Proof. exact routines_table. Qed.
Print Assumptions T07d_routines.

Theorem T07d_unknown_algorithm_refused : forall a, ~ In a all_algorithm_names -> routine a = None.
Proof. exact unknown_algorithm_refused. Qed.
Print Assumptions T07d_unknown_algorithm_refused.

(* for the four others the clause cannot hold: the bounds never reach the routine *)
Theorem T07d_bounds_dropped_refuted : forall alg, In alg ["LS-newton"; "TR-newton"; "LS-BFGS"; "TR-BFGS"]%string ->
  exists (ext : string -> unit -> objective -> vec -> option (list bound) -> opt_result) s r s',
    (forall rt o x0 bs, in_box bs x0 -> in_box bs (solution (ext rt tt o x0 (Some bs)))) /\
    in_box (free_bounds (st_idm s)) (free_values (st_idm s)) /\
    est (fun _ => 0) (fun _ => []) (fun _ => []) (fun _ => []) (fun _ => []) (fun _ => []) 1 unit ext
        alg tt false None s = Some (r, s') /\
    ~ in_box (r_bounds r) (r_betaValues r).
Proof. exact bounds_dropped_refuted. Qed.
Print Assumptions T07d_bounds_dropped_refuted.

(* non-vacuity of T07c / T07d: for L(x) = -(x-1)^2 the example oracle (0 |-> 1/2) is a descent step of the
   objective -L, inside the declared box (-inf, 1], and "simple_bounds" hands the bounds on *)
Example T07cd_example :
  let L := fun x : vec => match x with [a] => - ((a - 1) * (a - 1)) | _ => 0 end in
  (- L (solution (ex_ext "r" tt (the_objective L (fun _ => []) (fun _ => []) (fun _ => []) (fun _ => []) (fun _ => []) 1)
                        [0] (Some [(None, Some 1)]))) <= - L [0]) /\
  in_box [(None, Some 1)] (solution (ex_ext "r" tt (the_objective L (fun _ => []) (fun _ => []) (fun _ => []) (fun _ => []) (fun _ => []) 1)
                        [0] (Some [(None, Some 1)]))) /\
  fwd "simple_bounds" = true.
Proof.
  cbn. split; [lra|]. split; [|vm_compute; reflexivity].
  constructor; [|constructor]. split; cbn; [exact I | lra].
Qed.

(* ---- T07e. write-back: after estimate() every Beta leaf of every formula keeps name, bounds and status;
        a leaf named like the k-th free parameter starts at the k-th estimate; a leaf whose name is not a free
        parameter (the fixed ones) is untouched; and the starting vector of the object (id_manager.free_betas_values) holds the
        estimates too (BIOGEME.change_init_values), so that a second estimate() starts at the estimates. *)
Theorem T07e_writeback :
  forall L gradL hessL bhhhL junk_h junk_b N P ext alg p si saved s r s',
  est L gradL hessL bhhhL junk_h junk_b N P ext alg p si saved s = Some (r, s') ->
  NoDup (r_betaNames r) -> List.length (r_betaValues r) = List.length (r_betaNames r) ->
  List.length (free_values (st_idm (load_saved si saved s))) = List.length (r_betaNames r) ->
  free_names (st_idm s') = r_betaNames r /\ free_values (st_idm s') = r_betaValues r /\
  free_bounds (st_idm s') = r_bounds r /\
  Forall2 (Forall2 (fun b b' =>
      b_name b' = b_name b /\ b_lb b' = b_lb b /\ b_ub b' = b_ub b /\ b_fixed b' = b_fixed b /\
      (forall k, (k < List.length (r_betaNames r))%nat -> b_name b = nth k (r_betaNames r) ""%string ->
                 b_init b' = nth k (r_betaValues r) 0) /\
      (~ In (b_name b) (r_betaNames r) -> b' = b)))
    (st_formulas (load_saved si saved s)) (st_formulas s').
Proof. exact writeback. Qed.
Print Assumptions T07e_writeback.

(* ---- T07f. concave L on a box: a feasible point satisfying the first-order conditions (partial derivative zero,
        or coordinate on a bound with the gradient pointing out of the box) is a global maximum over the box;
        any two such points have the same value ("all algorithms agree on the maximum", mathematical half).
        Concavity enters as its first-order characterisation. *)
Theorem T07f_concave_kkt : forall (L : vec -> R) (gradL : vec -> vec) bs x,
  (forall y, in_box bs y -> L y <= L x + dot (gradL x) (vsub y x)) ->
  kkt bs x (gradL x) ->
  forall y, in_box bs y -> L y <= L x.
Proof. exact concave_kkt. Qed.
Print Assumptions T07f_concave_kkt.

Theorem T07f_kkt_points_agree : forall (L : vec -> R) (gradL : vec -> vec) bs x1 x2,
  (forall x y, in_box bs x -> in_box bs y -> L y <= L x + dot (gradL x) (vsub y x)) ->
  in_box bs x1 -> in_box bs x2 -> kkt bs x1 (gradL x1) -> kkt bs x2 (gradL x2) ->
  L x1 = L x2.
Proof. exact kkt_points_agree. Qed.
Print Assumptions T07f_kkt_points_agree.

(* with gradients that are only small (what a stopping rule delivers): the values differ by at most
   eps * |x1 - x2|_1 *)
Theorem T07f_kkt_eps_points_agree : forall (L : vec -> R) (gradL : vec -> vec) eps bs x1 x2, 0 <= eps ->
  (forall x y, in_box bs x -> in_box bs y -> L y <= L x + dot (gradL x) (vsub y x)) ->
  in_box bs x1 -> in_box bs x2 -> kkt_eps eps bs x1 (gradL x1) -> kkt_eps eps bs x2 (gradL x2) ->
  Rabs (L x1 - L x2) <= eps * norm1 (vsub x1 x2).
Proof. exact kkt_eps_points_agree. Qed.
Print Assumptions T07f_kkt_eps_points_agree.

(* the stationarity measure of the stream (projected gradient) vanishes exactly at the first-order points *)
Theorem T07f_projected_gradient : forall b x g, in_bound b x -> (projgrad1 b x g = 0 <-> kkt1 b x g).
Proof. exact projgrad_zero_iff_kkt1. Qed.
Print Assumptions T07f_projected_gradient.

(* non-vacuity: L(x) = -(x-2)^2 on (-inf, 1]: the point 1 sits on its upper bound with gradient 2 > 0 *)
Example T07f_example :
  let L := fun x : vec => match x with [a] => - ((a - 2) * (a - 2)) | _ => 0 end in
  let gradL := fun x : vec => match x with [a] => [-2 * (a - 2)] | _ => [] end in
  (forall x y, in_box [(None, Some 1)] x -> in_box [(None, Some 1)] y -> L y <= L x + dot (gradL x) (vsub y x)) /\
  in_box [(None, Some 1)] [1] /\ kkt [(None, Some 1)] [1] (gradL [1]).
Proof.
  cbn zeta. split; [|split].
  - intros x y Bx By. inversion Bx as [|b xa bs xs _ Bxs]; subst. inversion Bxs; subst.
    inversion By as [|b' ya bs' ys _ Bys]; subst. inversion Bys; subst. cbn.
    pose proof (Rle_0_sqr (ya - xa)) as Q. unfold Rsqr in Q. nra.
  - constructor; [|constructor]. split; cbn; [exact I | lra].
  - cbn. split; [|exact I]. right; right. split; [reflexivity | lra].
Qed.

(* ---- T07g. option plumbing, decided on the generated tables: which keyword of which routine receives which
        parameter of biogeme.toml (marker "<name>"), a literal, or the wrapper's default *)
Theorem T07g_option_plumbing :
  map (fun a => (a, option_map snd (expected_call a false marker_settings))) all_algorithm_names =
  [("automatic", Some [("proportion_analytical_hessian", "1/1"); ("first_radius", "<initial_radius>");
                       ("conjugate_gradient_tol", "expr:np.finfo(np.float64).eps ** 0.3333");
                       ("maxiter", "<max_iterations>"); ("eta1", "3602879701896397/36028797018963968");
                       ("eta2", "8106479329266893/9007199254740992"); ("enlarging_factor", "<enlarging_factor>")]);
   ("scipy", Some [("options", "expr:{'ftol': np.finfo(np.float64).eps, 'gtol': absgtol}")]);
   ("LS-newton", Some [("maxiter", "<max_iterations>")]);
   ("TR-newton", Some [("use_dogleg", "<dogleg>"); ("maxiter", "<max_iterations>"); ("initial_radius", "<initial_radius>")]);
   ("LS-BFGS", Some [("init_bfgs", "None"); ("maxiter", "<max_iterations>")]);
   ("TR-BFGS", Some [("init_bfgs", "None"); ("use_dogleg", "<dogleg>"); ("maxiter", "<max_iterations>");
                     ("initial_radius", "<initial_radius>")]);
   ("simple_bounds", Some [("proportion_analytical_hessian", "<second_derivatives>"); ("first_radius", "<initial_radius>");
                           ("conjugate_gradient_tol", "expr:np.finfo(np.float64).eps ** 0.3333");
                           ("maxiter", "<max_iterations>"); ("eta1", "3602879701896397/36028797018963968");
                           ("eta2", "8106479329266893/9007199254740992"); ("enlarging_factor", "<enlarging_factor>")]);
   ("simple_bounds_newton", Some [("proportion_analytical_hessian", "1/1"); ("first_radius", "<initial_radius>");
                                  ("conjugate_gradient_tol", "expr:np.finfo(np.float64).eps ** 0.3333");
                                  ("maxiter", "<max_iterations>"); ("eta1", "3602879701896397/36028797018963968");
                                  ("eta2", "8106479329266893/9007199254740992"); ("enlarging_factor", "<enlarging_factor>")]);
   ("simple_bounds_BFGS", Some [("proportion_analytical_hessian", "0/1"); ("first_radius", "<initial_radius>");
                                ("conjugate_gradient_tol", "expr:np.finfo(np.float64).eps ** 0.3333");
                                ("maxiter", "<max_iterations>"); ("eta1", "3602879701896397/36028797018963968");
                                ("eta2", "8106479329266893/9007199254740992"); ("enlarging_factor", "<enlarging_factor>")])]%string.
Proof. exact option_plumbing_table. Qed.
Print Assumptions T07g_option_plumbing.

Theorem T07g_options_consumed :
  forallb (fun a => forallb (fun cx =>
     match set_algorithm_parameters a cx with
     | Some ps => forallb (fun kv => String.eqb (fst kv) "infeasibleConjugateGradient" || option_read a (fst kv)) ps
     | None => true end) [true; false]) all_algorithm_names = true.
Proof. exact options_consumed. Qed.
Print Assumptions T07g_options_consumed.

(* (observation, not part of the property: the parameter infeasible_cg is prepared for four algorithms and read by none) *)
Theorem T07g_infeasible_cg_never_read :
  existsb (fun a => option_read a "infeasibleConjugateGradient") all_algorithm_names = false.
Proof. exact infeasible_cg_never_read. Qed.
Print Assumptions T07g_infeasible_cg_never_read.

Theorem T07g_tolerances_reach_the_objective :
  map (fun kw => (fst kw, option_map (token_of marker_settings) (assoc (snd kw) function_parameters)))
      function_parameters_plumbing
  = [("epsilon", Some "<tolerance>"); ("steptol", Some "<steptol>")]%string.
Proof. exact function_parameters_reach_base. Qed.
Print Assumptions T07g_tolerances_reach_the_objective.

Theorem T07g_sections :
  map (fun a => (a, assoc a parameter_sections))
      ["optimization_algorithm"; "save_iterations"; "second_derivatives"; "tolerance"; "max_iterations";
       "infeasible_cg"; "initial_radius"; "steptol"; "enlarging_factor"; "dogleg"]%string
  = [("optimization_algorithm", Some "Estimation"); ("save_iterations", Some "Estimation");
     ("second_derivatives", Some "SimpleBounds"); ("tolerance", Some "SimpleBounds");
     ("max_iterations", Some "SimpleBounds"); ("infeasible_cg", Some "SimpleBounds");
     ("initial_radius", Some "SimpleBounds"); ("steptol", Some "SimpleBounds");
     ("enlarging_factor", Some "SimpleBounds"); ("dogleg", Some "TrustRegion")]%string.
Proof. exact option_sections. Qed.
Print Assumptions T07g_sections.

(* ---- T07h. the main path of estimate() and the fields of RawResults, as read from the source on this run, are
        the ones Model/Estim.v models *)
Theorem T07h_estimate_skeleton :
  estimate_skeleton =
  ["self._set_function_parameters()";
   "self._set_algorithm_parameters()";
   "if self.save_iterations: self._load_saved_iteration()";
   "self.calculate_init_likelihood()";
   "output = self.optimize(np.array(self.id_manager.free_betas_values))";
   "xstar, optimization_messages, convergence = output";
   "self.convergence = convergence";
   "f_g_h_b: BiogemeFunctionOutput = self.calculate_likelihood_and_derivatives(xstar, scaled=False, hessian=True, bhhh=True)";
   "if run_bootstrap: <bootstrap block>";
   "raw_results = res.RawResults(self, xstar, f_g_h_b, bootstrap=self.bootstrap_results)";
   "r = res.bioResults(raw_results, identification_threshold=self.identification_threshold)";
   "estimated_betas = r.get_beta_values()";
   "self.change_init_values(estimated_betas)";
   "return r"]%string.
Proof. exact estimate_skeleton_ok. Qed.
Print Assumptions T07h_estimate_skeleton.

Theorem T07h_raw_results_fields :
  forallb (fun kv => match assoc (fst kv) raw_results_fields with
                     | Some v => String.eqb v (snd kv) | None => false end)
    [("betaValues", "beta_values"); ("betaNames", "the_model.id_manager.free_betas.names");
     ("initLogLike", "the_model.initLogLike"); ("logLike", "f_g_h_b.function"); ("g", "f_g_h_b.gradient");
     ("H", "f_g_h_b.hessian"); ("bhhh", "f_g_h_b.bhhh"); ("convergence", "the_model.convergence")]%string = true.
Proof. exact raw_results_fields_ok. Qed.
Print Assumptions T07h_raw_results_fields.

(* ---- T07i. estimate(run_bootstrap=True): with optimize() as read from the source on this run (it records nothing on the
        object), the reported results -- estimates, logLike, g, H, bhhh AND the convergence status -- are those of the
        estimation on the full sample, whatever the re-estimations return; the bootstrap rows are the solutions of the
        re-estimations started at the estimates (bounds handed on as for the estimation). *)
Theorem T07i_bootstrap_keeps_main :
  forall L gradL hessL bhhhL junk_h junk_b N P ext alg p si saved samples s r boots s',
  est_boot L gradL hessL bhhhL junk_h junk_b N P ext optimize_attribute_stores alg p si saved samples s = Some (r, boots, s') ->
  est L gradL hessL bhhhL junk_h junk_b N P ext alg p si saved s = Some (r, s') /\
  exists rt fb, routine alg = Some (rt, fb) /\
    boots = map (fun o => solution (ext rt p o (r_betaValues r) (if fb then Some (r_bounds r) else None))) samples.
Proof. exact bootstrap_keeps_main. Qed.
Print Assumptions T07i_bootstrap_keeps_main.

Theorem T07i_optimize_records_nothing : optimize_attribute_stores = [].
Proof. exact optimize_records_nothing. Qed.
Print Assumptions T07i_optimize_records_nothing.

Theorem T07i_bootstrap_skeleton :
  bootstrap_skeleton = ["for b in range(self.bootstrap_samples):"; "x_br, _, _ = self.optimize(xstar)";
                        "self.bootstrap_results[b] = x_br"]%string.
Proof. exact bootstrap_skeleton_ok. Qed.
Print Assumptions T07i_bootstrap_skeleton.

(* why it matters (and non-vacuity): were the status recorded by optimize(), an unconverged estimation followed by a
   converged re-estimation would be reported as converged *)
Theorem T07i_bootstrap_overwrites_refuted :
  exists (ext : string -> unit -> objective -> vec -> option (list bound) -> opt_result) s sample r boots s' r0 s0,
    est (fun _ => 0) (fun _ => []) (fun _ => []) (fun _ => []) (fun _ => []) (fun _ => []) 1 unit ext
        "simple_bounds" tt false None s = Some (r0, s0) /\
    est_boot (fun _ => 0) (fun _ => []) (fun _ => []) (fun _ => []) (fun _ => []) (fun _ => []) 1 unit ext
        ["self.convergence"%string] "simple_bounds" tt false None [sample] s = Some (r, boots, s') /\
    r_convergence r0 = false /\ r_convergence r = true.
Proof. exact bootstrap_overwrites_refuted. Qed.
Print Assumptions T07i_bootstrap_overwrites_refuted.

(* ---- T07j. the matrices a results object holds are not touched by later evaluations of the same BIOGEME object: with the
        allocation read from the source on this run (a new array at every call), the array written by one evaluation still
        holds its matrix after any sequence of further evaluations; with a shared array it would not. *)
Theorem T07j_stored_matrices_stable : forall st m ms,
  read (evals derivative_buffers_fresh (fst (eval_into derivative_buffers_fresh st m)) ms)
       (snd (eval_into derivative_buffers_fresh st m)) = m.
Proof. exact generated_buffers_stable. Qed.
Print Assumptions T07j_stored_matrices_stable.

Theorem T07j_shared_buffer_refuted : exists st m ms,
  read (evals false (fst (eval_into false st m)) ms) (snd (eval_into false st m)) <> m.
Proof. exact shared_buffer_refuted. Qed.
Print Assumptions T07j_shared_buffer_refuted.

Example T07j_example : read (evals true (fst (eval_into true [] [[1]])) [[[2]]; [[3]]]) 0 = [[1]].
Proof. reflexivity. Qed.

(* ---- T07k. when estimate(run_bootstrap=True) is left -- normally or by a fault inside any re-estimation -- the calculation
        engine holds the estimation data again (the restore sits in the `finally` clause read from the source on this run), so
        that later estimations / evaluations by the same object concern the stated likelihood; were the restore done only after
        a completed loop, a fault would leave the last resample. *)
Theorem T07k_engine_restored : forall (D : Type) (e : D) rs, fst (bootstrap_engine bootstrap_restores_in_finally e rs) = e.
Proof. exact engine_restored_generated. Qed.
Print Assumptions T07k_engine_restored.

Theorem T07k_engine_not_restored_refuted : exists (e : nat) rs, fst (bootstrap_engine false e rs) <> e.
Proof. exact engine_not_restored_refuted. Qed.
Print Assumptions T07k_engine_not_restored_refuted.

Theorem T07k_bootstrap_finally :
  bootstrap_finally =
  ["self._saving_suspended = False";
   "if self.database.is_panel(): self.theC.setDataMap(self.database.individualMap) else: self.theC.setData(self.database.data)"]%string.
Proof. exact bootstrap_finally_ok. Qed.
Print Assumptions T07k_bootstrap_finally.

Example T07k_example : bootstrap_engine true 0%nat [(1%nat, Done); (2%nat, Fault); (3%nat, Done)] = (0%nat, false).
Proof. reflexivity. Qed.
