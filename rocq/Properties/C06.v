(* C06 -- Model family is consistent: special cases and generating functions agree.
   Property theorems only; each is closed by [exact] of a lemma proved in Proofs/Choice*.v.
   Vocabulary as in Properties/C05.v.  The side conditions [nl_exact], [mu_exact], [mu1_exact]
   (Model/BuildersChoice.v) say that the double arithmetic Python performs on a *numeric*
   nest / scale parameter before building the tree was exact; they are [True] for parameters given
   as Expressions (Beta, Numeric), and hold for the literal 1.0 ([nl_exact_one]). *)
From Coq Require Import Reals List ZArith String.
From Coquelicot Require Import Coquelicot.
From BV Require Import Proofs.BuildersChoiceP.
Open Scope R_scope.

Definition en1 : env := mkEnv (fun _ => Some 1) (fun _ => Some 0) (fun _ => None) (fun _ => None) [] [].
Definition en2 : env := mkEnv (fun _ => Some 2) (fun _ => Some 0) (fun _ => None) (fun _ => None) [] [].
Definition U0 : dict expr := [(1, EVar "x1"); (2, EVar "x2"); (3, EVar "x3")]%Z.
Definition A0 : avail := Some [(1, PN d_one); (2, PE (EVar "a2")); (3, PN d_one)]%Z.
Definition aval0 (k : Z) : R := if (k =? 2)%Z then 0 else 1.

Ltac in_cases H :=
  simpl in H; repeat (destruct H as [H|H]; [injection H as <- <-|]); try contradiction.

Lemma A0_ok Phi en : e_var en "a2"%string = Some 0 -> av_ok Phi en A0 aval0.
Proof.
  intros Ha k p H. in_cases H; unfold pvX, aval0; simpl; rewrite ?D2R_one, ?Ha; reflexivity.
Qed.

(* ------------------------------------------------------------------ T06a *)
Theorem T06a_nested_mu1_is_logit : forall Phi en (U : dict expr) (av : avail) (a : nn_arg) (aval uval : Z -> R),
  av_ok Phi en av aval -> av_covers av (keys U) ->
  (forall k e, In (k, e) U -> aval k <> 0 -> evalX Phi e en = XR (uval k)) ->
  (forall m, In m (nn_arg_nests a) -> pvX Phi en (nn_param m) = XR 1 /\ nl_exact (nn_param m)) ->
  forall i ch l, In i (keys U) -> pvX Phi en ch = XR (IZR i) ->
    lognested (pe_dict U) av a ch = Ok l ->
    evalX Phi l en = evalX Phi (loglogit_e (pe_dict U) av ch) en /\
    evalX Phi (EUn Exp l) en = evalX Phi (EUn Exp (loglogit_e (pe_dict U) av ch)) en.
Proof. exact nested_mu1_is_logit. Qed.
Print Assumptions T06a_nested_mu1_is_logit.

(* non-vacuity: one nest with the literal 1.0, one with a Beta whose value is 1 *)
Definition N1 : nn_arg := NNLegacy [(PN d_one, [1; 2]%Z); (PE (EBeta "mu2" false), [3]%Z)].

Example T06a_example : forall Phi,
  av_ok Phi en1 A0 aval0 /\
  (forall k e, In (k, e) U0 -> aval0 k <> 0 -> evalX Phi e en1 = XR ((fun _ => 0) k)) /\
  (forall m, In m (nn_arg_nests N1) -> pvX Phi en1 (nn_param m) = XR 1 /\ nl_exact (nn_param m)) /\
  exists l, lognested (pe_dict U0) A0 N1 (PN d_one) = Ok l.
Proof.
  intros Phi. split; [now apply A0_ok|]. split; [|split].
  - intros k e H _. in_cases H; reflexivity.
  - intros m H. simpl in H. destruct H as [<-|[<-|[]]]; simpl.
    + split; [unfold pvX; simpl; now rewrite D2R_one|apply nl_exact_one].
    + split; [reflexivity|exact I].
  - eexists. vm_compute. reflexivity.
Qed.

(* ------------------------------------------------------------------ T06b *)
Theorem T06b_cnl_degenerate_is_nested : forall Phi en (U : dict expr) (av : avail) (a : cn_arg)
    (aval uval : Z -> R),
  av_ok Phi en av aval -> av_covers av (keys U) ->
  (forall k, aval k = 0 \/ aval k = 1) ->
  (forall k e, In (k, e) U -> evalX Phi e en = XR (uval k)) ->
  (forall m, In m (cn_arg_nests a) ->
     (exists mu, pvX Phi en (cn_param m) = XR mu /\ mu <> 0) /\ nl_exact (cn_param m) /\
     (forall j p, In (j, p) (cn_alpha m) -> pvX Phi en p = XR 1)) ->
  forall i ch l l', In i (keys U) -> pvX Phi en ch = XR (IZR i) ->
    logcnl (pe_dict U) av a ch = Ok l -> lognested (pe_dict U) av (cn_induced a) ch = Ok l' ->
    evalX Phi l en = evalX Phi l' en /\ evalX Phi (EUn Exp l) en = evalX Phi (EUn Exp l') en.
Proof. exact cnl_degenerate_is_nested. Qed.
Print Assumptions T06b_cnl_degenerate_is_nested.

Definition C1 : cn_arg :=
  CNLegacy [(PE (EBeta "mu1" false), [(1, PN d_one); (2, PE (ENumD d_one))]%Z)].

Example T06b_example : forall Phi,
  (forall k, aval0 k = 0 \/ aval0 k = 1) /\
  (forall m, In m (cn_arg_nests C1) ->
     (exists mu, pvX Phi en2 (cn_param m) = XR mu /\ mu <> 0) /\ nl_exact (cn_param m) /\
     (forall j p, In (j, p) (cn_alpha m) -> pvX Phi en2 p = XR 1)) /\
  exists l l', logcnl (pe_dict U0) A0 C1 (PN d_one) = Ok l /\
               lognested (pe_dict U0) A0 (cn_induced C1) (PN d_one) = Ok l'.
Proof.
  intros Phi. split; [|split].
  - intros k. unfold aval0. destruct (k =? 2)%Z; [now left|now right].
  - intros m H. simpl in H. destruct H as [<-|[]]. split; [|split].
    + exists 2. split; [reflexivity|]. apply not_eq_sym, Rlt_not_eq, Rlt_0_2.
    + exact I.
    + intros j p Hin. in_cases Hin; unfold pvX; simpl; now rewrite D2R_one.
  - eexists; eexists; split; vm_compute; reflexivity.
Qed.

(* ------------------------------------------------------------------ T06c *)
Theorem T06c_nested_mu_one : forall Phi en (U : dict expr) (av : avail) (a : nn_arg) (mu : pv) (aval uval : Z -> R),
  av_ok Phi en av aval -> av_covers av (keys U) ->
  (forall k e, In (k, e) U -> aval k <> 0 -> evalX Phi e en = XR (uval k)) ->
  pvX Phi en mu = XR 1 ->
  nests_ok Phi en (nn_arg_nests a) -> nests_exact (nn_arg_nests a) -> mus_exact mu (nn_arg_nests a) ->
  forall i ch l l', In i (keys U) -> pvX Phi en ch = XR (IZR i) ->
    lognested_mev_mu (pe_dict U) av a ch mu = Ok l -> lognested (pe_dict U) av a ch = Ok l' ->
    evalX Phi l en = evalX Phi l' en /\ evalX Phi (EUn Exp l) en = evalX Phi (EUn Exp l') en.
Proof. exact nested_mu_one. Qed.
Print Assumptions T06c_nested_mu_one.

Theorem T06c_cnlmu_one : forall Phi en (U : dict expr) (av : avail) (a : cn_arg) (mu : pv) (aval uval : Z -> R),
  av_ok Phi en av aval -> av_covers av (keys U) -> (forall k, 0 <= aval k) ->
  (forall k e, In (k, e) U -> evalX Phi e en = XR (uval k)) ->
  pvX Phi en mu = XR 1 ->
  cnests_ok Phi en (cn_arg_nests a) -> cnests_exact (cn_arg_nests a) -> cmus_exact mu (cn_arg_nests a) ->
  forall i ch l l', In i (keys U) -> pvX Phi en ch = XR (IZR i) ->
    logcnlmu (pe_dict U) av a ch mu = Ok l -> logcnl (pe_dict U) av a ch = Ok l' ->
    evalX Phi l en = evalX Phi l' en /\ evalX Phi (EUn Exp l) en = evalX Phi (EUn Exp l') en.
Proof. exact cnlmu_one. Qed.
Print Assumptions T06c_cnlmu_one.

Definition N2 : nn_arg := NNLegacy [(PE (EBeta "mu1" false), [1; 2]%Z)].

(* non-vacuity: the scale given as the literal 1.0 *)
Example T06c_example : forall Phi,
  pvX Phi en2 (PN d_one) = XR 1 /\
  nests_ok Phi en2 (nn_arg_nests N2) /\ nests_exact (nn_arg_nests N2) /\ mus_exact (PN d_one) (nn_arg_nests N2) /\
  cnests_exact (cn_arg_nests C1) /\ cmus_exact (PN d_one) (cn_arg_nests C1) /\
  (exists l l', lognested_mev_mu (pe_dict U0) A0 N2 (PN d_one) (PN d_one) = Ok l /\
                lognested (pe_dict U0) A0 N2 (PN d_one) = Ok l') /\
  (exists l l', logcnlmu (pe_dict U0) A0 C1 (PN d_one) (PN d_one) = Ok l /\
                logcnl (pe_dict U0) A0 C1 (PN d_one) = Ok l').
Proof.
  intros Phi.
  assert (M1 : mu1_exact (PN d_one)).
  { unfold mu1_exact. replace (fl_sub d_one d_one) with d_zero by (vm_compute; reflexivity).
    rewrite D2R_one, D2R_zero. ring. }
  split; [unfold pvX; simpl; now rewrite D2R_one|].
  split; [|split; [|split; [|split; [|split; [|split]]]]].
  - intros m H. simpl in H. destruct H as [<-|[]]. exists 2. split; [reflexivity|].
    apply not_eq_sym, Rlt_not_eq, Rlt_0_2.
  - intros m H. simpl in H. destruct H as [<-|[]]. exact I.
  - split; [exact M1|]. intros m H. simpl in H. destruct H as [<-|[]]. exact I.
  - intros m H. simpl in H. destruct H as [<-|[]]. exact I.
  - split; [exact M1|]. intros m H. simpl in H. destruct H as [<-|[]]. exact I.
  - eexists; eexists; split; vm_compute; reflexivity.
  - eexists; eexists; split; vm_compute; reflexivity.
Qed.

(* ------------------------------------------------------------------ T06d *)
(* legacy tuple syntax = nest objects over the choice set list(util) (model of from_tuple); the
   stream build additionally demands identical Python trees for both syntaxes on every case *)
Theorem T06d_legacy_syntax_nested : forall util av l,
  let objs := NNObj (keys util) (map nn_from_tuple l) in
  (forall ch, lognested util av (NNLegacy l) ch = lognested util av objs ch) /\
  (forall ch, nested util av (NNLegacy l) ch = nested util av objs ch) /\
  (forall ch mu, lognested_mev_mu util av (NNLegacy l) ch mu = lognested_mev_mu util av objs ch mu) /\
  (forall ch mu, nested_mev_mu util av (NNLegacy l) ch mu = nested_mev_mu util av objs ch mu) /\
  get_mev_for_nested util av (NNLegacy l) = get_mev_for_nested util av objs /\
  (forall mu, get_mev_for_nested_mu util av (NNLegacy l) mu = get_mev_for_nested_mu util av objs mu) /\
  (forall o, get_mev_generating_for_nested util av (NNLegacy l) o = get_mev_generating_for_nested util av objs o).
Proof. exact legacy_syntax_nested. Qed.
Print Assumptions T06d_legacy_syntax_nested.

Theorem T06d_legacy_syntax_cnl : forall util av l,
  let objs := CNObj (keys util) (map cn_from_tuple l) in
  (forall ch, logcnl util av (CNLegacy l) ch = logcnl util av objs ch) /\
  (forall ch, cnl util av (CNLegacy l) ch = cnl util av objs ch) /\
  (forall ch mu, logcnlmu util av (CNLegacy l) ch mu = logcnlmu util av objs ch mu) /\
  (forall ch mu, cnlmu util av (CNLegacy l) ch mu = cnlmu util av objs ch mu) /\
  get_mev_for_cross_nested util av (CNLegacy l) = get_mev_for_cross_nested util av objs /\
  (forall mu, get_mev_for_cross_nested_mu util av (CNLegacy l) mu = get_mev_for_cross_nested_mu util av objs mu).
Proof. exact legacy_syntax_cnl. Qed.
Print Assumptions T06d_legacy_syntax_cnl.

(* ... whatever names the nest objects carry -- including equal names, which arise without the
   user naming anything: an unnamed object that was second in an earlier specification keeps
   nest_2 and meets the nest_2 generated for a new unnamed nest (T06d_names_example) *)
Theorem T06d_legacy_syntax_named_nested : forall util av l (names : list (option string)),
  List.length names = List.length l ->
  let objs := NNObjNamed (keys util) (combine names (map nn_from_tuple l)) in
  (forall ch, lognested util av (NNLegacy l) ch = lognested util av objs ch) /\
  (forall ch, nested util av (NNLegacy l) ch = nested util av objs ch) /\
  (forall ch mu, lognested_mev_mu util av (NNLegacy l) ch mu = lognested_mev_mu util av objs ch mu) /\
  (forall ch mu, nested_mev_mu util av (NNLegacy l) ch mu = nested_mev_mu util av objs ch mu) /\
  get_mev_for_nested util av (NNLegacy l) = get_mev_for_nested util av objs /\
  (forall mu, get_mev_for_nested_mu util av (NNLegacy l) mu = get_mev_for_nested_mu util av objs mu) /\
  (forall o, get_mev_generating_for_nested util av (NNLegacy l) o = get_mev_generating_for_nested util av objs o).
Proof. exact legacy_syntax_named_nested. Qed.
Print Assumptions T06d_legacy_syntax_named_nested.

Theorem T06d_legacy_syntax_named_cnl : forall util av l (names : list (option string)),
  List.length names = List.length l ->
  let objs := CNObjNamed (keys util) (combine names (map cn_from_tuple l)) in
  (forall ch, logcnl util av (CNLegacy l) ch = logcnl util av objs ch) /\
  (forall ch, cnl util av (CNLegacy l) ch = cnl util av objs ch) /\
  (forall ch mu, logcnlmu util av (CNLegacy l) ch mu = logcnlmu util av objs ch mu) /\
  (forall ch mu, cnlmu util av (CNLegacy l) ch mu = cnlmu util av objs ch mu) /\
  get_mev_for_cross_nested util av (CNLegacy l) = get_mev_for_cross_nested util av objs /\
  (forall mu, get_mev_for_cross_nested_mu util av (CNLegacy l) mu = get_mev_for_cross_nested_mu util av objs mu).
Proof. exact legacy_syntax_named_cnl. Qed.
Print Assumptions T06d_legacy_syntax_named_cnl.

Example T06d_names_example :
  assign_names [carried_name None (Some 2%Z); None] = ["nest_2"; "nest_2"]%string /\
  assign_names [None; Some "B"; None]%string = ["nest_1"; "B"; "nest_3"]%string /\
  List.length [carried_name None (Some 2%Z); None] = List.length [(PN d_one, [1; 2]%Z); (PN d_one, [3]%Z)].
Proof. repeat split; vm_compute; reflexivity. Qed.

(* ------------------------------------------------------------------ T06e *)
(* [enf t] is a family of environments in which V_i has the value t and nothing else moves
   ([uvt uval i t] = uval with the value t at i); G is the tree of the generating function,
   g the entry of alternative i in the dictionary of get_mev_for_nested, gi its value at
   t = uval i.  Every nest must contain an available alternative (0 ** x is outside the regular
   domain of evalX).  That every nest lists each alternative once is no longer a hypothesis: it
   follows from the builder returning Ok (check_partition refuses a repetition, T06v below). *)
Theorem T06e_generating_function_consistent : forall Phi
    (U : dict expr) (av : avail) (a : nn_arg) (order : list Z) (enf : R -> env)
    (aval uval : Z -> R) (muf : nnest -> R) (i : Z) (G : expr) (D : dict pv) (g : pv) (gi : R),
  (forall t, av_ok Phi (enf t) av aval) ->
  (forall t k e, In (k, e) U -> evalX Phi e (enf t) = XR (uvt uval i t k)) ->
  (forall t m, In m (nn_arg_nests a) ->
     pvX Phi (enf t) (nn_param m) = XR (muf m) /\ muf m <> 0 /\ nl_exact (nn_param m) /\
     exists j, In j (nn_alts m) /\ aval j <> 0) ->
  In i (keys U) -> aval i <> 0 ->
  get_mev_generating_for_nested (pe_dict U) av a order = Ok G ->
  get_mev_for_nested (pe_dict U) av a = Ok D ->
  get D i = Some g ->
  pvX Phi (enf (uval i)) g = XR gi ->
  is_derive (fun t => xR (evalX Phi G (enf t))) (uval i) (exp (uval i) * exp gi).
Proof. exact generating_function_consistent. Qed.
Print Assumptions T06e_generating_function_consistent.

(* non-vacuity, for an alternative outside every nest (i = 3) and one inside (i = 1) *)
Definition enf (x : string) (t : R) : env :=
  mkEnv (fun _ => Some 2) (fun n => if String.eqb n x then Some t else Some 0)
        (fun _ => None) (fun _ => None) [] [].

Example T06e_example : forall Phi,
  (forall t, av_ok Phi (enf "x3" t) A0 aval0) /\
  (forall t k e, In (k, e) U0 -> evalX Phi e (enf "x3" t) = XR (uvt (fun _ => 0) 3 t k)) /\
  (forall t m, In m (nn_arg_nests N2) ->
     pvX Phi (enf "x3" t) (nn_param m) = XR ((fun _ => 2) m) /\ (fun _ => 2) m <> 0 /\ nl_exact (nn_param m) /\
     exists j, In j (nn_alts m) /\ aval0 j <> 0) /\
  aval0 3 <> 0 /\ aval0 1 <> 0 /\
  (forall t k e, In (k, e) U0 -> evalX Phi e (enf "x1" t) = XR (uvt (fun _ => 0) 1 t k)) /\
  exists G D g3 g1,
    get_mev_generating_for_nested (pe_dict U0) A0 N2 [3]%Z = Ok G /\
    get_mev_for_nested (pe_dict U0) A0 N2 = Ok D /\ get D 3%Z = Some g3 /\ get D 1%Z = Some g1.
Proof.
  intros Phi. split; [intros t; now apply A0_ok|].
  split; [intros t k e H; in_cases H; reflexivity|].
  split; [|split; [|split; [|split]]].
  - intros t m H. simpl in H. destruct H as [<-|[]]. split; [reflexivity|].
    split; [apply not_eq_sym, Rlt_not_eq, Rlt_0_2|]. split; [exact I|].
    exists 1%Z. split; [now left|]. unfold aval0. simpl. apply R1_neq_R0.
  - unfold aval0. simpl. apply R1_neq_R0.
  - unfold aval0. simpl. apply R1_neq_R0.
  - intros t k e H; in_cases H; reflexivity.
  - do 4 eexists. split; [vm_compute; reflexivity|]. split; [vm_compute; reflexivity|].
    split; vm_compute; reflexivity.
Qed.

(* ------------------------------------------------------------------ Nests validation (model) *)
(* what the validators accept: used implicitly by the theorems above through "the builder returned
   Ok".  check_union can never fail once Nests.__init__ succeeded. *)
Theorem T06v_check_union_always : forall cs alts al,
  nests_init cs alts = Ok al -> check_union cs alts al = true.
Proof. exact check_union_always. Qed.
Print Assumptions T06v_check_union_always.

Theorem T06v_check_partition_spec : forall n,
  check_partition n = true ->
  (forall m, In m (nl_list n) -> NoDup (nn_alts m)) /\
  pairwise_disjoint (map nn_alts (nl_list n)) = true /\
  (forall m x, In m (nl_list n) -> In x (nn_alts m) -> ~ In x (nl_alone n)).
Proof. exact check_partition_spec. Qed.
Print Assumptions T06v_check_partition_spec.

(* a nest that lists an alternative twice is refused with a BiogemeError by every nested-logit
   builder, in both syntaxes (its nest sum would count the alternative twice while the generating
   function's derivative counts it once) *)
Theorem T06v_repeated_alternative_refused : forall util av a,
  (exists m, In m (nn_arg_nests a) /\ ~ NoDup (nn_alts m)) ->
  (forall ch, lognested util av a ch = Err 1%Z /\ nested util av a ch = Err 1%Z) /\
  (forall ch mu, lognested_mev_mu util av a ch mu = Err 1%Z /\ nested_mev_mu util av a ch mu = Err 1%Z) /\
  get_mev_for_nested util av a = Err 1%Z /\
  (forall mu, get_mev_for_nested_mu util av a mu = Err 1%Z) /\
  (forall o, get_mev_generating_for_nested util av a o = Err 1%Z).
Proof. exact repeated_alternative_refused. Qed.
Print Assumptions T06v_repeated_alternative_refused.

(* conversely: when a nested-logit builder returns a tree, every nest lists each alternative once *)
Theorem T06v_accepted_nests_list_once : forall util av a ch l,
  lognested util av a ch = Ok l -> forall m, In m (nn_arg_nests a) -> NoDup (nn_alts m).
Proof. exact lognested_ok_nodup. Qed.
Print Assumptions T06v_accepted_nests_list_once.

Example T06v_example :
  nests_init [1; 2; 3]%Z [[1; 2]%Z] = Ok [3]%Z /\
  check_partition (mkNL [1; 2; 3]%Z [mkNN (PN d_one) [1; 2]%Z] [3]%Z) = true /\
  check_partition (mkNL [1; 2; 3]%Z [mkNN (PN d_one) [1; 2]%Z; mkNN (PN d_one) [2; 3]%Z] []) = false /\
  nests_init [1; 2]%Z [[1; 7]%Z] = Err 1%Z /\
  check_partition (mkNL [10; 11]%Z [mkNN (PN d_one) [10; 10; 11]%Z] []) = false /\
  (exists m, In m (nn_arg_nests (NNLegacy [(PN d_one, [10; 10; 11]%Z)])) /\ ~ NoDup (nn_alts m)).
Proof.
  repeat split; try (vm_compute; reflexivity).
  eexists. split; [now left|]. simpl. intros H. inversion H as [|? ? Hn _]; subst. apply Hn. now left.
Qed.
