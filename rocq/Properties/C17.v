(* C17 -- Specification helpers equal their documented closed forms.
   Property theorems only; each is closed by [exact] of a lemma proved in Proofs/Builders17P.v.
   Trees are the ones built by the Gallina builders of Model/Builders17.v (tied to the Python
   builders by stream build17); piecewise_function and nl_corr_entry are regenerated from the
   source (Gen/Piecewise.v).  Values are evalX (Model/EvalX.v) over the reals. *)
From Coq Require Import Reals Lra ZArith List Bool Sorted String.
From Coquelicot Require Import Coquelicot.
From BV Require Import Model.PyBase Model.Builders17 Gen.Piecewise Proofs.Builders17P.
Import ListNotations.
Open Scope R_scope.

(* ------------------------------------------------------------------ piecewise *)
(* T17a. For every valid threshold list first :: mids ++ [last] (only the ends may be None,
   not all None), sorted, the variables sum to the clipped distance from the first threshold
   (and to the open-end variants). *)
Theorem T17a_piecewise_vars_sum : forall Phi en v x first mids last,
  evalX Phi v en = XR x ->
  ~ (first = None /\ mids = [] /\ last = None) ->
  exact_diffs (first :: tail_of mids last) ->
  StronglySorted Rle (olist (oD2R first) ++ map D2R mids ++ olist (oD2R last)) ->
  exists vars, piecewise_variables v (first :: tail_of mids last) = Some vars /\
    List.length vars = S (List.length mids) /\
    evalX Phi (EMultSum vars) en = XR (pw_total x (oD2R first) (oD2R last)).
Proof. exact piecewise_vars_sum. Qed.
Print Assumptions T17a_piecewise_vars_sum.

Example T17a_total_closed : forall x a b, pw_total x (Some a) (Some b) = Rmax 0 (Rmin (x - a) (b - a)).
Proof. reflexivity. Qed.
(* non-vacuity: thresholds 10, 20, 30 satisfy the hypotheses *)
Example T17a_hypotheses_hold :
  exact_diffs [Some (5, 1); Some (5, 2); Some (15, 1)]%Z /\
  StronglySorted Rle (map D2R [(5, 1); (5, 2); (15, 1)]%Z).
Proof.
  split.
  - cbn [exact_diffs]. repeat split; vm_compute dsub53; unfold D2R; simpl; lra.
  - unfold D2R; simpl. repeat constructor; lra.
Qed.

(* T17b. The tree of piecewise_formula evaluates to what the plain function piecewise_function
   (translated from the source on this run) returns, for every argument, every valid sorted
   threshold list and every list of coefficients. *)
Theorem T17b_formula_equals_function : forall Phi en v x first mids last betas bvs,
  evalX Phi v en = XR x ->
  Forall2 (fun b bv => evalX Phi b en = XR bv) betas bvs ->
  List.length betas = S (List.length mids) ->
  ~ (first = None /\ mids = [] /\ last = None) ->
  exact_diffs (first :: tail_of mids last) ->
  StronglySorted Rle (olist (oD2R first) ++ map D2R mids ++ olist (oD2R last)) ->
  exists tree r,
    piecewise_formula v (first :: tail_of mids last) betas = Some tree /\
    evalX Phi tree en = XR r /\
    piecewise_function x (map oD2R (first :: tail_of mids last)) bvs = Some r.
Proof. exact formula_equals_function. Qed.
Print Assumptions T17b_formula_equals_function.

(* the witness of the repaired defect (first threshold 10 <> 0): the function returns 5 = 1*(15-10) *)
Example T17b_witness : piecewise_function 15 [Some 10; Some 20; Some 30] [1; 2] = Some 5.
Proof.
  change [Some 10; Some 20; Some 30] with (Some 10 :: rtail_of [20] (Some 30)).
  rewrite pw_function_ok.
  - f_equal. cbn [pw_vals]. rewrite pw_rest_vals_cons, pw_rest_vals_nil. cbn [dot].
    rewrite clip_inside, clip_below by lra. ring.
  - intros [A _]; discriminate.
  - simpl. repeat constructor; lra.
  - reflexivity.
Qed.

(* piecewise_as_variable = x_T1 + sum_{i >= 2} beta_i x_Ti (the documented form) *)
Theorem T17b_as_variable_documented : forall Phi en v x first mids last betas bvs,
  evalX Phi v en = XR x ->
  Forall2 (fun b bv => evalX Phi b en = XR bv) betas bvs ->
  List.length betas = List.length mids -> mids <> [] ->
  exact_diffs (first :: tail_of mids last) ->
  exists tree,
    piecewise_as_variable v (first :: tail_of mids last) betas = Some tree /\
    evalX Phi tree en =
    XR (let ws := pw_vals x (oD2R first) (rtail_of (map D2R mids) (oD2R last)) in
        hd 0 ws + dot bvs (tl ws)).
Proof. exact as_variable_documented. Qed.
Print Assumptions T17b_as_variable_documented.

(* ------------------------------------------------------------------ Box-Cox *)
(* T17c. Off the switching band |l| < 1e-5 the tree is (x^l - 1)/l. *)
Theorem T17c_boxcox_regular : forall Phi en x ell vx vl,
  evalX Phi x en = XR vx -> evalX Phi ell en = XR vl ->
  0 < vx -> (vl <= - bc_eps \/ bc_eps <= vl) ->
  evalX Phi (boxcox x ell) en = XR ((Rpower vx vl - 1) / vl).
Proof. exact boxcox_regular. Qed.
Print Assumptions T17c_boxcox_regular.

(* T17d. Inside the band the tree is the series whose k-th coefficient is ln^(k+1) x / (k+1)!. *)
Theorem T17d_boxcox_series_coefficients : forall Phi en x ell vx vl,
  evalX Phi x en = XR vx -> evalX Phi ell en = XR vl ->
  0 < vx -> - bc_eps < vl < bc_eps ->
  evalX Phi (boxcox x ell) en
  = XR (bc_coeff 0 vx + bc_coeff 1 vx * vl + bc_coeff 2 vx * vl ^ 2 + bc_coeff 3 vx * vl ^ 3).
Proof. exact boxcox_series_coefficients. Qed.
Print Assumptions T17d_boxcox_series_coefficients.

Example T17d_second_coefficient : forall x, bc_coeff 1 x = ln x ^ 2 / 2.
Proof. intros; unfold bc_coeff; simpl; field. Qed.
Example T17d_band_nonempty : - bc_eps < 0 < bc_eps.
Proof. pose proof bc_eps_pos; lra. Qed.
Example T17c_band_value : Rabs (bc_eps - 1 / 100000) <= 1 / 10 ^ 21.
Proof. exact bc_eps_value. Qed.

Theorem T17c_boxcox_at_zero : forall Phi en x ell vx,
  evalX Phi x en = XR vx -> vx = 0 ->
  evalX Phi (boxcox x ell) en = XR 0.
Proof. exact boxcox_at_zero. Qed.
Print Assumptions T17c_boxcox_at_zero.

(* ell given as a Python float *)
Theorem T17c_boxcox_float_regular : forall Phi en x vx c c2 c3,
  evalX Phi x en = XR vx -> 0 < vx -> (D2R c <= - bc_eps \/ bc_eps <= D2R c) ->
  evalX Phi (boxcox_float x c c2 c3) en = XR ((Rpower vx (D2R c) - 1) / D2R c).
Proof. exact boxcox_float_regular. Qed.
Print Assumptions T17c_boxcox_float_regular.

Theorem T17d_boxcox_float_series : forall Phi en x vx c c2 c3,
  evalX Phi x en = XR vx -> 0 < vx -> - bc_eps < D2R c < bc_eps ->
  evalX Phi (boxcox_float x c c2 c3) en
  = XR (bc_coeff 0 vx + bc_coeff 1 vx * D2R c + bc_coeff 2 vx * D2R c2 + bc_coeff 3 vx * D2R c3).
Proof. exact boxcox_float_series. Qed.
Print Assumptions T17d_boxcox_float_series.

(* T17e. Continuity in l through zero: the limit of (x^l - 1)/l is ln x; the value function of
   the tree (series inside the band, regular outside) is continuous at l = 0 with value ln x. *)
Theorem T17e_boxcox_limit : forall x, 0 < x -> is_lim (fun l => bc_regular x l) 0 (ln x).
Proof. exact boxcox_limit. Qed.
Print Assumptions T17e_boxcox_limit.

Theorem T17e_boxcox_tree_value : forall Phi en x ell vx vl,
  evalX Phi x en = XR vx -> evalX Phi ell en = XR vl -> 0 < vx ->
  evalX Phi (boxcox x ell) en = XR (bc_value vx vl).
Proof. exact boxcox_value. Qed.
Print Assumptions T17e_boxcox_tree_value.

Theorem T17e_boxcox_continuous_at_zero : forall x,
  continuous (bc_value x) 0 /\ bc_value x 0 = ln x /\ is_lim (bc_value x) 0 (ln x).
Proof. exact boxcox_continuity_summary. Qed.
Print Assumptions T17e_boxcox_continuous_at_zero.

(* ------------------------------------------------------------------ densities *)
(* T17f. The density trees evaluate to the textbook formulas.  The normal and lognormal trees
   use the double 2.506628275 for sqrt(2 pi): relative error <= 2e-10. *)
Theorem T17f_normalpdf : forall Phi en x mu s vx vm vs,
  evalX Phi x en = XR vx -> evalX Phi mu en = XR vm -> evalX Phi s en = XR vs -> 0 < vs ->
  exists r, evalX Phi (normalpdf x mu s) en = XR r /\
    r = normal_density vm vs vx * (sqrt (2 * PI) / k_sqrt2pi) /\
    Rabs (r - normal_density vm vs vx) <= 2 / 10 ^ 10 * normal_density vm vs vx.
Proof. exact normalpdf_textbook. Qed.
Print Assumptions T17f_normalpdf.

Example T17f_constant : Rabs (k_sqrt2pi - sqrt (2 * PI)) <= 4 / 10 ^ 10.
Proof. exact k_sqrt2pi_close. Qed.

Theorem T17f_lognormalpdf : forall Phi en x mu s vx vm vs,
  evalX Phi x en = XR vx -> evalX Phi mu en = XR vm -> evalX Phi s en = XR vs ->
  0 < vx -> 0 < vs ->
  evalX Phi (lognormalpdf x mu s) en
  = XR (lognormal_density vm vs vx * (sqrt (2 * PI) / k_sqrt2pi)).
Proof. exact lognormalpdf_textbook. Qed.
Print Assumptions T17f_lognormalpdf.

Theorem T17f_uniformpdf : forall Phi en x a b vx va vb,
  evalX Phi x en = XR vx -> evalX Phi a en = XR va -> evalX Phi b en = XR vb -> vb <> va ->
  evalX Phi (uniformpdf x a b) en = XR (uniform_density va vb vx).
Proof. exact uniformpdf_tree. Qed.
Print Assumptions T17f_uniformpdf.

Theorem T17f_triangularpdf : forall Phi en x a b c vx va vb vc,
  evalX Phi x en = XR vx -> evalX Phi a en = XR va -> evalX Phi b en = XR vb ->
  evalX Phi c en = XR vc -> va < vc < vb ->
  evalX Phi (triangularpdf x a b c) en = XR (triangular_density va vb vc vx).
Proof. exact triangularpdf_tree. Qed.
Print Assumptions T17f_triangularpdf.

Theorem T17f_logisticcdf : forall Phi en x mu s vx vm vs,
  evalX Phi x en = XR vx -> evalX Phi mu en = XR vm -> evalX Phi s en = XR vs -> vs <> 0 ->
  evalX Phi (logisticcdf x mu s) en = XR (logistic_cdf vm vs vx).
Proof. exact logisticcdf_tree. Qed.
Print Assumptions T17f_logisticcdf.

(* T17g. Integrate to one. *)
Theorem T17g_uniform_integrates_to_one : forall a b lo hi, a < b -> lo <= a -> b <= hi ->
  is_RInt (uniform_density a b) lo hi 1.
Proof. exact uniform_integrates_to_one. Qed.
Print Assumptions T17g_uniform_integrates_to_one.

Theorem T17g_triangular_integrates_to_one : forall a b c lo hi, a < c < b -> lo <= a -> b <= hi ->
  is_RInt (triangular_density a b c) lo hi 1.
Proof. exact triangular_integrates_to_one. Qed.
Print Assumptions T17g_triangular_integrates_to_one.

Theorem T17g_logistic_cdf : forall m s, 0 < s ->
  (forall x, is_derive (logistic_cdf m s) x (logistic_density m s x)) /\
  is_lim (logistic_cdf m s) m_infty 0 /\ is_lim (logistic_cdf m s) p_infty 1.
Proof. exact logistic_cdf_props. Qed.
Print Assumptions T17g_logistic_cdf.

(* normal / lognormal: reduced to the Gaussian integral, which is the hypothesis on Phi *)
Theorem T17g_normal_integrates_to_one_partial : forall Phi : R -> R,
  (forall z, is_derive Phi z (exp (- (z ^ 2 / 2)) / sqrt (2 * PI))) ->
  is_lim Phi p_infty 1 -> is_lim Phi m_infty 0 ->
  forall m s, 0 < s ->
  forall eps : posreal, exists M, forall lo hi, lo < - M -> M < hi ->
    Rabs (RInt (normal_density m s) lo hi - 1) < eps.
Proof. exact normal_integrates_to_one_partial. Qed.
Print Assumptions T17g_normal_integrates_to_one_partial.

Theorem T17g_lognormal_integral_partial : forall Phi : R -> R,
  (forall z, is_derive Phi z (exp (- (z ^ 2 / 2)) / sqrt (2 * PI))) ->
  forall m s lo hi, 0 < s -> 0 < lo -> lo <= hi ->
  is_RInt (lognormal_density m s) lo hi (Phi ((ln hi - m) / s) - Phi ((ln lo - m) / s)).
Proof. exact lognormal_integral_partial. Qed.
Print Assumptions T17g_lognormal_integral_partial.

(* T17h. The regression log likelihood is the normal log density. *)
Theorem T17h_regression_is_normal_logdensity : forall Phi en meas model sigma vy vm vs,
  evalX Phi meas en = XR vy -> evalX Phi model en = XR vm -> evalX Phi sigma en = XR vs -> 0 < vs ->
  exists r, evalX Phi (loglikelihoodregression meas model sigma) en = XR r /\
            evalX Phi (likelihoodregression meas model sigma) en = XR (exp r) /\
            Rabs (r - ln (normal_density vm vs vy)) <= 1 / 10 ^ 11.
Proof. exact regression_normal. Qed.
Print Assumptions T17h_regression_is_normal_logdensity.

(* ... and for a scale parameter of either sign (only sigma^2 enters the documented form
   -(y-m)^2/(2 sigma^2) - log(sigma^2)/2 - log(2 pi)/2): the normal log density with scale |sigma|.
   A tree that takes log(sigma) instead is NaN for sigma < 0 and does not satisfy this. *)
Theorem T17h_regression_any_sign : forall Phi en meas model sigma vy vm vs,
  evalX Phi meas en = XR vy -> evalX Phi model en = XR vm -> evalX Phi sigma en = XR vs -> vs <> 0 ->
  exists r, evalX Phi (loglikelihoodregression meas model sigma) en = XR r /\
            evalX Phi (likelihoodregression meas model sigma) en = XR (exp r) /\
            Rabs (r - ln (normal_density vm (Rabs vs) vy)) <= 1 / 10 ^ 11.
Proof. exact regression_normal_anysign. Qed.
Print Assumptions T17h_regression_any_sign.

(* ------------------------------------------------------------------ segmentation *)
(* T17i. For distinct segment values: beta_ref + beta_k in segment k, beta_ref in the reference
   segment (and for a value that is no key of the mapping). *)
Theorem T17i_segmentation_value : forall Phi en bv xv bname fixed s ref vk ck,
  (forall n, e_beta en n = Some (bv n)) -> (forall n, e_var en n = Some (xv n)) ->
  NoDup (map fst (sg_map s)) -> seg_reference s = Some ref ->
  xv (sg_var s) = IZR vk -> In (vk, ck) (sg_map s) ->
  exists tree, segmented_beta bname fixed [s] = Some tree /\
    evalX Phi tree en =
    XR (if String.eqb ck ref then bv bname else bv bname + bv (bname ++ "_" ++ ck)%string).
Proof. exact segmentation_value. Qed.
Print Assumptions T17i_segmentation_value.

Example T17i_reference_default :
  let mp := [(1%Z, "m"%string); (2%Z, "f"%string)] in
  seg_reference (mkSeg "g"%string mp None) = Some "m"%string /\
  seg_reference (mkSeg "g"%string mp (Some "f"%string)) = Some "f"%string /\
  seg_reference (mkSeg "g"%string mp (Some "zz"%string)) = None.
Proof. repeat split; reflexivity. Qed.

Theorem T17i_segmentation_value_other : forall Phi en bv xv bname fixed s ref vk,
  (forall n, e_beta en n = Some (bv n)) -> (forall n, e_var en n = Some (xv n)) ->
  seg_reference s = Some ref -> xv (sg_var s) = IZR vk -> ~ In vk (map fst (sg_map s)) ->
  exists tree, segmented_beta bname fixed [s] = Some tree /\ evalX Phi tree en = XR (bv bname).
Proof. exact segmentation_value_other. Qed.
Print Assumptions T17i_segmentation_value_other.

(* several segmentations: the shifts add up *)
Theorem T17i_segmented_beta_value : forall Phi en bv xv,
  (forall n, e_beta en n = Some (bv n)) -> (forall n, e_var en n = Some (xv n)) ->
  forall bname fixed segs tree,
  segmented_beta bname fixed segs = Some tree ->
  evalX Phi tree en = XR (bv bname + seg_total bv xv bname segs).
Proof. exact segmented_beta_value. Qed.
Print Assumptions T17i_segmented_beta_value.

(* ------------------------------------------------------------------ nested-logit correlation *)
(* T17j. nl_corr_entry is translated from NestsForNestedLogit.correlation. *)
Theorem T17j_nested_correlation_within : forall nests i j mu_m alts,
  i <> j -> In (mu_m, alts) nests -> in_Z i alts = true -> in_Z j alts = true ->
  (forall m, In m nests -> in_Z i (snd m) = true -> in_Z j (snd m) = true -> fst m = mu_m) ->
  nl_correlation (nl_corr_entry 1) nests i j = 1 - 1 / (mu_m * mu_m).
Proof. exact nested_correlation_within_mu1. Qed.
Print Assumptions T17j_nested_correlation_within.

Theorem T17j_nested_correlation_across : forall entry nests i j,
  i <> j -> (forall m, In m nests -> in_Z i (snd m) && in_Z j (snd m) = false) ->
  nl_correlation entry nests i j = 0.
Proof. exact nested_correlation_across. Qed.
Print Assumptions T17j_nested_correlation_across.

Theorem T17j_nested_correlation_diagonal : forall entry nests i, nl_correlation entry nests i i = 1.
Proof. exact nested_correlation_diagonal. Qed.
Print Assumptions T17j_nested_correlation_diagonal.

Theorem T17j_general_mu : forall mu nests i j mu_m alts,
  i <> j -> In (mu_m, alts) nests -> in_Z i alts = true -> in_Z j alts = true ->
  (forall m, In m nests -> in_Z i (snd m) = true -> in_Z j (snd m) = true -> fst m = mu_m) ->
  nl_correlation (nl_corr_entry mu) nests i j = 1 - (mu * mu) / (mu_m * mu_m).
Proof. exact nested_correlation_within. Qed.
Print Assumptions T17j_general_mu.

Example T17j_example :
  nl_correlation (nl_corr_entry 1) [(2, [1; 2]%Z); (3, [3; 4]%Z)] 1 2 = 1 - 1 / (2 * 2).
Proof.
  apply (nested_correlation_within_mu1 _ 1%Z 2%Z 2 [1; 2]%Z); try reflexivity; try (left; reflexivity).
  - discriminate.
  - intros m [<-|[<-|[]]]; [reflexivity|discriminate].
Qed.
