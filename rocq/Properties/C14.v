(* C14 -- What is written to disk reads back unchanged and never overwrites earlier output.
   Property theorems only; each is closed by [exact] of a lemma proved in Proofs/. *)
From Coq Require Import ZArith List String.
From BV Require Import Model.PyBase Gen.Files Proofs.FilesP.

(* T14a. get_new_file_name (as translated from /repo/src/biogeme/filenames.py on this run)
   terminates on every directory and returns the least free candidate of
   name.ext, name~00.ext, name~01.ext, ... -- in particular a name that does not exist. *)
Theorem T14a_fresh_name : forall (fs : list string) (name ext : string),
  exists m n, (m <= List.length fs)%nat /\
    (forall fuel, (List.length fs <= fuel)%nat -> get_new_file_name fs fuel name ext = Some n) /\
    n = cand name ext m /\ ~ In n fs /\ (forall j, (j < m)%nat -> In (cand name ext j) fs).
Proof. exact get_new_file_name_fresh. Qed.
Print Assumptions T14a_fresh_name.

(* non-vacuity: a directory where two candidates are taken *)
Example T14a_example :
  get_new_file_name ["m.html"; "m~00.html"; "x"]%string 3 "m" "html" = Some "m~01.html"%string.
Proof. vm_compute. reflexivity. Qed.

(* T14b. every history of output generation in one directory leaves every earlier file
   (and every pre-existing decoy) with its content. *)
Theorem T14b_history_never_overwrites : forall ops d,
  exists d', run_history d ops = Some d' /\
             forall n c, lookup d n = Some c -> lookup d' n = Some c.
Proof. exact history_never_overwrites. Qed.
Print Assumptions T14b_history_never_overwrites.

Theorem T14b_written_content_readable : forall d base ext content,
  exists n d', write_fresh d (base, ext, content) = Some d' /\ ~ In n (names d) /\
               lookup d' n = Some content.
Proof. exact written_content_readable. Qed.
Print Assumptions T14b_written_content_readable.
