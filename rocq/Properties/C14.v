(* C14 -- What is written to disk reads back unchanged and never overwrites earlier output.
   Property theorems only; each is closed by [exact] of a lemma proved in Proofs/. *)
From Coq Require Import ZArith List String Bool.
From BV Require Import Model.PyBase Model.FsOps Model.Params Model.Reports Model.Pickle.
From BV Require Import Gen.Files Gen.Backup Gen.Params Gen.Reports Gen.Results.
From BV Require Import Proofs.FilesP Proofs.BackupP Proofs.ParamsP Proofs.ReportsP Proofs.PickleP.

(* T14a. get_new_file_name (as translated from /repo/src/biogeme/filenames.py on this run)
   terminates on every directory and returns the least free candidate of
   name.ext, name~00.ext, name~01.ext, ... -- in particular a name that does not exist. *)
Theorem T14a_fresh_name : forall (fs : list string) (name ext : string),
  exists m n, (m <= List.length fs)%nat /\
    (forall fuel, (List.length fs <= fuel)%nat -> get_new_file_name fs fuel name ext = Some n) /\
    n = cand name ext m /\ ~ In n fs /\ (forall j, (j < m)%nat -> In (cand name ext j) fs).
Proof. exact get_new_file_name_fresh. Qed.
Print Assumptions T14a_fresh_name.

(* non-vacuity: a directory where two candidates are taken *)
Example T14a_example :
  get_new_file_name ["m.html"; "m~00.html"; "x"]%string 3 "m" "html" = Some "m~01.html"%string.
Proof. vm_compute. reflexivity. Qed.

(* T14b. every history of output generation in one directory leaves every earlier file
   (and every pre-existing decoy) with its content. *)
Theorem T14b_history_never_overwrites : forall ops d,
  exists d', run_history d ops = Some d' /\
             forall n c, lookup d n = Some c -> lookup d' n = Some c.
Proof. exact history_never_overwrites. Qed.
Print Assumptions T14b_history_never_overwrites.

(* non-vacuity: a decoy named like the first candidate survives two writes *)
Example T14b_example :
  run_history [("m.html", "decoy")]%string [("m", "html", "r1"); ("m", "html", "r2")]%string
  = Some [("m.html", "decoy"); ("m~00.html", "r1"); ("m~01.html", "r2")]%string.
Proof. vm_compute. reflexivity. Qed.

Theorem T14b_written_content_readable : forall d base ext content,
  exists n d', write_fresh d (base, ext, content) = Some d' /\ ~ In n (names d) /\
               lookup d' n = Some content.
Proof. exact written_content_readable. Qed.
Print Assumptions T14b_written_content_readable.

(* T14c. create_backup (as translated from /repo/src/biogeme/tools/files.py on this run): when the
   file exists with content c, the backup name is the least free candidate base_1.ext, base_2.ext,
   ... (a name that does not exist), the requested effect is os.rename / shutil.copy of the file to
   that name, after which the new name holds c, no other file changed, and the original is gone
   (rename) or intact (copy). *)
Theorem T14c_backup_fresh : forall (d : dir) (filename : string) (rename : bool) (c : string),
  lookup d filename = Some c ->
  exists k n eff,
    (1 <= k <= S (List.length d))%nat /\
    n = bcand (fst (splitext filename)) (snd (splitext filename)) k /\
    (fst (splitext filename) ++ snd (splitext filename))%string = filename /\
    eff = (if rename then FsRename filename n else FsCopy filename n) /\
    (forall fuel, (S (List.length d) <= fuel)%nat ->
       create_backup (names d) fuel filename rename = Some (Some (eff, n))) /\
    ~ In n (names d) /\
    (forall j, (1 <= j < k)%nat ->
       In (bcand (fst (splitext filename)) (snd (splitext filename)) j) (names d)) /\
    lookup (apply_effect d eff) n = Some c /\
    (forall n0, n0 <> filename -> n0 <> n -> lookup (apply_effect d eff) n0 = lookup d n0) /\
    lookup (apply_effect d eff) filename = (if rename then None else Some c).
Proof. exact create_backup_spec. Qed.
Print Assumptions T14c_backup_fresh.

(* non-vacuity: the file exists and its first backup name is taken *)
Example T14c_example :
  create_backup ["m.tar.gz"; "m.tar_1.gz"; "x"]%string 4 "m.tar.gz" false
  = Some (Some (FsCopy "m.tar.gz" "m.tar_2.gz", "m.tar_2.gz"%string)).
Proof. vm_compute. reflexivity. Qed.

Theorem T14c_backup_absent : forall (d : dir) (filename : string) (rename : bool) (fuel : nat),
  lookup d filename = None -> create_backup (names d) fuel filename rename = Some None.
Proof. exact create_backup_absent. Qed.
Print Assumptions T14c_backup_absent.

Example T14c_absent_example : create_backup ["x"]%string 0 ".hidden" true = Some None.
Proof. vm_compute. reflexivity. Qed.

(* T14d. parse_boolean (translated from parameters.py) accepts exactly the listed spellings, each
   mapped to the right boolean; the coding written by generate_document is read back. *)
Theorem T14d_parse_boolean_spec : forall s b,
  parse_boolean s = Some b <-> In s (if b then TRUE_STR else FALSE_STR).
Proof. exact parse_boolean_spec. Qed.
Print Assumptions T14d_parse_boolean_spec.

Example T14d_spec_example : parse_boolean "yes" = Some true /\ parse_boolean "No" = Some false
                            /\ parse_boolean "TRUE" = None.
Proof. vm_compute. auto. Qed.

Theorem T14d_parse_boolean_code : forall b,
  exists s, encode_value (PBool b) = TStr s /\ parse_boolean s = Some b.
Proof. exact parse_boolean_code. Qed.
Print Assumptions T14d_parse_boolean_code.

(* T14d. the whole parameter file: every admissible, well-typed parameter set written by
   generate_document and read into a fresh dictionary by import_document has the same value for
   every parameter (tomlkit's parse . dumps assumed to preserve the entries). *)
Theorem T14d_toml_roundtrip : forall (tk : tdoc -> tdoc),
  (forall doc k tv, In (k, tv) (tk doc) <-> In (k, tv) doc) ->
  (forall doc, NoDup (map fst doc) -> NoDup (map fst (tk doc))) ->
  forall ps defaults : pdict,
    NoDup (map pkey defaults) -> same_schema ps defaults -> Forall admissible ps ->
    exists d', imp_doc (tk (gen_doc ps)) defaults = Some d' /\
      same_schema d' defaults /\
      forall k, option_map p_value (dict_get d' k) = option_map p_value (dict_get ps k).
Proof. exact toml_roundtrip. Qed.
Print Assumptions T14d_toml_roundtrip.

(* non-vacuity: a boolean and a float changed away from their defaults *)
Example T14d_example :
  let chk := fun _ : pvalue => true in
  let defaults := [mkParam "dogleg" "TrustRegion" TyBool (PBool true) chk;
                   mkParam "tolerance" "SimpleBounds" TyFloat (PFloat 1) chk]%string in
  let ps := [mkParam "dogleg" "TrustRegion" TyBool (PBool false) chk;
             mkParam "tolerance" "SimpleBounds" TyFloat (PFloat 4607182418800017408) chk]%string in
  option_map (map p_value) (imp_doc (rev (gen_doc ps)) defaults)
  = Some [PBool false; PFloat 4607182418800017408].
Proof. vm_compute. reflexivity. Qed.

(* T14d (histories on ONE Parameters object).  dump_file (translated from parameters.py) stores and
   writes the freshly generated document whatever document the object already held (after a
   read_file or an earlier dump_file) ... *)
Theorem T14d_dump_file_regenerates : forall (doc : option tdoc) (g : tdoc),
  dump_file_document doc g = Some g.
Proof. exact dump_file_regenerates. Qed.
Print Assumptions T14d_dump_file_regenerates.

(* ... hence for every history of read_file (existing / missing file), set_value and dump_file on one
   object, every file written reads back, in a fresh object, as the values held when it was written. *)
Theorem T14d_history_roundtrip : forall (tk : tdoc -> tdoc),
  (forall doc k tv, In (k, tv) (tk doc) <-> In (k, tv) doc) ->
  (forall doc, NoDup (map fst doc) -> NoDup (map fst (tk doc))) ->
  forall (defaults : pdict) (ops : list pop) o' out,
    NoDup (map pkey defaults) ->
    o_run ops (mkObj defaults None) = Some (o', out) ->
    forall f d, In (f, d) out -> Forall admissible d ->
      exists d', imp_doc (tk f) defaults = Some d' /\
        forall k, option_map p_value (dict_get d' k) = option_map p_value (dict_get d k).
Proof. exact toml_history_roundtrip. Qed.
Print Assumptions T14d_history_roundtrip.

(* non-vacuity: read a missing file (the default file is created), change a value, dump again: the
   second file holds the changed value *)
Example T14d_history_example :
  let chk := fun _ : pvalue => true in
  let defaults := [mkParam "max_iterations" "SimpleBounds" TyInt (PInt 1000) chk;
                   mkParam "dogleg" "TrustRegion" TyBool (PBool true) chk]%string in
  option_map (fun r => map (fun fd => option_map (map p_value) (imp_doc (fst fd) defaults)) (snd r))
    (o_run [OpRead None; OpSet ("max_iterations", "SimpleBounds")%string (PInt 77);
            OpSet ("dogleg", "TrustRegion")%string (PBool false); OpDump] (mkObj defaults None))
  = Some [Some [PInt 1000; PBool true]; Some [PInt 77; PBool false]].
Proof. vm_compute. reflexivity. Qed.

(* the hypothesis `well_typed` is needed (faithful model): a Python bool stored in a non-boolean
   parameter does not come back *)
Theorem T14d_illtyped_refuted :
  exists ty dv v, decode_value ty dv (Some (encode_value v)) <> Some v.
Proof. exact value_roundtrip_illtyped_refuted. Qed.
Print Assumptions T14d_illtyped_refuted.

(* T14e. statistics of a re-loaded results object = statistics of the saved one, for the input /
   output attribute sets read off _calculate_stats on this run, given loads . dumps = id. *)
Theorem T14e_pickle_roundtrip :
  forall (V Bytes : Type) (derive : list (option V) -> string -> option V)
         (cleared_value : string -> option V)
         (dumps : obj V -> Bytes) (loads : Bytes -> obj V),
  (forall o a, loads (dumps o) a = o a) ->
  forall (raw : obj V) (n : V) (a : string),
    let saved := results_of_raw stats_inputs stats_outputs derive stats_cleared cleared_value raw in
    let '(data', bytes) := write_pickle Bytes dumps pickle_name_attr saved n in
    results_of_pickle stats_inputs stats_outputs derive stats_cleared cleared_value Bytes loads bytes a = data' a.
Proof. exact pickle_roundtrip_results. Qed.
Print Assumptions T14e_pickle_roundtrip.

(* what _clear_stats resets before the statistics are recomputed is derived only: attributes that
   _calculate_stats assigns itself, never one of its inputs (generated lists) *)
Theorem T14e_cleared_are_derived : forall a, In a stats_cleared -> In a stats_outputs /\ ~ In a stats_inputs.
Proof. exact cleared_are_outputs. Qed.
Print Assumptions T14e_cleared_are_derived.

(* non-vacuity: an identity pickle, a statistic computed from an input *)
Example T14e_example :
  let derive := fun (snap : list (option nat)) (a : string) =>
                  if String.eqb a "akaike"
                  then match find (fun x => match x with Some _ => true | None => false end) snap with
                       | Some x => x | None => None end     (* the only input present, wherever it is listed *)
                  else None in
  let raw : obj nat := fun a => if String.eqb a "logLike" then Some 7%nat else None in
  let cleared_value := fun _ : string => @None nat in
  let saved := results_of_raw stats_inputs stats_outputs derive stats_cleared cleared_value raw in
  let '(data', bytes) := write_pickle (obj nat) (fun o => o) pickle_name_attr saved 0%nat in
  results_of_pickle stats_inputs stats_outputs derive stats_cleared cleared_value (obj nat) (fun b => b) bytes "akaike"%string = Some 7%nat.
Proof. vm_compute. reflexivity. Qed.

(* T14f. every report has one row per estimated parameter (names pairwise distinct), in order,
   with its name and its estimate: the DataFrame of get_estimated_parameters (also what LaTeX
   hands to pandas), the HTML rows, the F12 coefficient lines, the printed form. *)
Theorem T14f_table_lists_all : forall (B : Type) (b_name : B -> string) (aab orb boot : bool)
    (nboot : string) (betas : list B),
  NoDup (map b_name betas) ->
  map fst (gep_table b_name aab orb boot nboot betas) = map b_name betas /\
  forall b, In b betas -> exists rest,
    table_loc (gep_table b_name aab orb boot nboot betas) (b_name b) = Some (("Value"%string, (FValue, b)) :: rest).
Proof. exact latex_table_lists_all. Qed.
Print Assumptions T14f_table_lists_all.

Theorem T14f_html_lists_all : forall (B : Type) (b_name : B -> string) (aab orb boot : bool)
    (nboot : string) (betas : list B),
  NoDup (map b_name betas) ->
  exists (spec : string) (cells : B -> list (string * cell B)),
    html_rows (gep_table b_name aab orb boot nboot betas)
    = map (fun b => (b_name b, (spec, (FValue, b)) :: cells b)) betas.
Proof. exact html_rows_list_all. Qed.
Print Assumptions T14f_html_lists_all.

Theorem T14f_f12_lists_all : forall (B : Type) (b_name : B -> string) (aab orb boot : bool)
    (nboot : string) (betas : list B),
  NoDup (map b_name betas) ->
  exists width lspec vspec,
    f12_rows (gep_table b_name aab orb boot nboot betas)
    = map (fun b => (str_take width (b_name b), lspec, Some (vspec, (FValue, b)))) betas.
Proof. exact f12_rows_list_all. Qed.
Print Assumptions T14f_f12_lists_all.

Theorem T14f_str_lists_all : forall (B : Type) (b_name : B -> string) (betas : list B),
  exists nspec vspec,
    str_rows b_name betas = map (fun b => (b_name b, nspec, (vspec, (FValue, b)))) betas.
Proof. exact str_rows_list_all. Qed.
Print Assumptions T14f_str_lists_all.

(* non-vacuity: two parameters, one with a long name (F12 shows its first 10 characters) *)
Example T14f_example :
  f12_rows (gep_table fst false true false "" [("a_very_long_name", 1%nat); ("b-2", 2%nat)]%string)
  = [("a_very_lon", " >10", Some (" >+19.12e", (FValue, ("a_very_long_name", 1%nat))));
     ("b-2", " >10", Some (" >+19.12e", (FValue, ("b-2", 2%nat))))]%string.
Proof. vm_compute. reflexivity. Qed.

(* faithful model: without distinct names two parameters share one row *)
Theorem T14f_duplicate_names_refuted :
  exists (betas : list (string * nat)),
    List.length (gep_table fst false true false ""%string betas) <> List.length betas.
Proof. exact gep_table_duplicate_names_refuted. Qed.
Print Assumptions T14f_duplicate_names_refuted.
