(* C15 -- The saved-iteration file is always a sound restart point.
   Property theorems only; each is closed by [exact] of a lemma proved in Proofs/IterP.v.
   Every theorem is about [the_code], the record regenerated from /repo/src/biogeme/biogeme.py
   on this run (Gen/IterSave.v): save condition, marker updates, write discipline, line format,
   parser, prologues of estimate / quick_estimate, bootstrap suspension and data restoration. *)
From Coq Require Import ZArith List String Ascii Bool.
From BV Require Import Model.PyBase Model.Iter Gen.IterSave Proofs.IterP.
Import ListNotations.
Open Scope string_scope.
Open Scope list_scope.

Section C15.
  (* parameter values are doubles; Python's str / float on them are external *)
  Variable val : Type.
  Variable show : val -> string.            (* str(v), what the f-string prints *)
  Variable read : string -> option val.     (* float(s) after stripping; None = ValueError *)
  Variable os_replace : fs -> string -> string -> fs.

  (* ASSUMPTION A1 (POSIX rename): os.replace is one indivisible step. *)
  Hypothesis os_replace_is_atomic : forall d a b, os_replace d a b = os_replace_atomic d a b.
  (* ASSUMPTION A2: float(str(v)) == v bit for bit (shortest round-trip repr). *)
  Hypothesis float_of_str : forall v, read (show v) = Some v.
  (* ASSUMPTION A3: str(v) has no white space at its ends, no '=' and no line break. *)
  Hypothesis str_stripped : forall v, py_strip (" " ++ show v ++ String nl "")%string = show v.
  Hypothesis str_no_eq : forall v, no_char "=" (show v) = true.
  Hypothesis str_no_nl : forall v, no_char nl (show v) = true.

  Variable cfg : config val.   (* names of the free parameters, model name, save_iterations, defaults *)

  Notation RUN := (run val show read os_replace the_code cfg).
  Notation STEP := (step val show read os_replace the_code cfg).
  Notation FILE := (fname val the_code cfg).
  Notation CONTENT := (file_content val show the_code cfg).

  (* T15a.  While iterations are being saved: after EVERY history of estimations, quick
     estimations, evaluations (improving, worsening, equal, non-finite gradient, wrong length),
     bootstrap loops (completed, or left by an exception with the object used again), and processes
     stopped anywhere and restarted, if at least one evaluation
     counts (finite gradient, outside the bootstrap loop, by the current process since the last
     start of an estimation) then the file holds exactly the lines of the best counted point --
     the latest among equals -- and the marker is its log likelihood. *)
  Theorem T15a_file_is_best_evaluated : forall h d,
    cf_save val cfg = true -> Forall (f_not_nan val) h -> counted val cfg h <> [] ->
    exists x f, best_latest val (counted val cfg h) x f /\
                st_fs val (RUN (fresh val cfg d) h) FILE = Some (CONTENT x) /\
                st_best val (RUN (fresh val cfg d) h) = Some f.
  Proof. exact (file_is_best_evaluated val show read os_replace os_replace_is_atomic the_code the_code_ok cfg). Qed.

  (* T15a'.  The same from ANY earlier state s0 of the object -- a stale marker left by a previous run,
     a file replaced or removed by the user, the file of another name after the model was renamed --
     as soon as estimate() or quick_estimate() starts: both reset the marker. *)
  Theorem T15a_file_is_best_after_any_start : forall s0 o h,
    o = EstimateStart \/ o = QuickStart ->
    (st_other val s0 = true -> st_susp val s0 = true) ->
    cf_save val cfg = true -> Forall (f_not_nan val) h ->
    fst (fold_left (spec_step val cfg) h ([], st_susp val s0)) <> [] ->
    exists x f, best_latest val (fst (fold_left (spec_step val cfg) h ([], st_susp val s0))) x f /\
                st_fs val (RUN (STEP s0 o) h) FILE = Some (CONTENT x) /\
                st_best val (RUN (STEP s0 o) h) = Some f.
  Proof. exact (file_is_best_after_any_start val show read os_replace os_replace_is_atomic the_code the_code_ok cfg). Qed.

  (* shape of that content: one line `name = str(value)` per free parameter, in name order *)
  Theorem T15a_file_shape : forall x, len_ok val cfg x = true ->
    file_lines val show the_code cfg x
      = map (fun nv => (fst nv ++ " = " ++ show (snd nv) ++ String nl "")%string) (combine (cf_names val cfg) x)
    /\ List.length (file_lines val show the_code cfg x) = List.length (cf_names val cfg).
  Proof. exact (file_lines_shape val show the_code the_code_ok cfg). Qed.

  (* T15b.  What is written reads back to exactly the same names and values (A2, A3); names may
     contain '=' but no line break and no white space at their ends. *)
  Theorem T15b_roundtrip_bits :
    Forall (name_ok) (cf_names val cfg) -> forall x,
    load_file val read the_code (CONTENT x) = Some (combine (cf_names val cfg) x).
  Proof. exact (roundtrip_bits val show read the_code the_code_ok float_of_str str_stripped str_no_eq str_no_nl cfg). Qed.

  (* T15c.  The saved point is never below the first counted evaluation of the estimation. *)
  Theorem T15c_restart_not_below_start : forall h d x1 f1 rest,
    cf_save val cfg = true -> Forall (f_not_nan val) h -> counted val cfg h = (x1, f1) :: rest ->
    exists x f, st_fs val (RUN (fresh val cfg d) h) FILE = Some (CONTENT x) /\
                In (x, f) (counted val cfg h) /\ fge f f1 = true.
  Proof. exact (restart_not_below_start val show read os_replace os_replace_is_atomic the_code the_code_ok cfg). Qed.

  (* T15d.  estimate() and quick_estimate() of the same model start from the saved values. *)
  Theorem T15d_restart_uses_file :
    Forall (name_ok) (cf_names val cfg) -> NoDup (cf_names val cfg) ->
    forall s x o, o = EstimateStart \/ o = QuickStart ->
    cf_save val cfg = true -> len_ok val cfg x = true ->
    List.length (st_init val s) = List.length (cf_names val cfg) ->
    st_fs val s FILE = Some (CONTENT x) ->
    st_init val (STEP s o) = x.
  Proof. exact (restart_uses_file val show read os_replace the_code the_code_ok float_of_str str_stripped str_no_eq str_no_nl cfg). Qed.

  (* T15e.  Crash safety (A1): for EVERY history, with the process stopped after any number of
     primitive steps (bytes) of any save, any number of times, the file is absent or complete
     and holds a point that was handed to an evaluation (or its complete initial content). *)
  Theorem T15e_crash_safe : forall h d0,
    (d0 FILE = None \/ exists x0, len_ok val cfg x0 = true /\ d0 FILE = Some (CONTENT x0)) ->
    let d := st_fs val (RUN (fresh val cfg d0) h) in
    d FILE = None \/
    exists x, len_ok val cfg x = true /\ d FILE = Some (CONTENT x) /\
              (In x (evaluated val h) \/ d0 FILE = Some (CONTENT x)).
  Proof. exact (crash_safe val show read os_replace os_replace_is_atomic the_code the_code_ok cfg). Qed.

  (* one save, at every interruption point: old content or complete new content *)
  Theorem T15e_save_old_or_new : forall d x k,
    let d' := run_steps os_replace d (firstn k (atomize (c_steps the_code FILE (file_lines val show the_code cfg x)))) in
    d' FILE = d FILE \/ d' FILE = Some (CONTENT x).
  Proof. exact (save_old_or_new val show os_replace os_replace_is_atomic the_code the_code_ok cfg). Qed.

  (* T15e'.  ... from which the restart succeeds: after any history stopped anywhere, a new
     process reads the file without error and starts from its defaults (no file) or from the
     saved, really evaluated point. *)
  Theorem T15e_restart_after_any_history :
    Forall (name_ok) (cf_names val cfg) -> NoDup (cf_names val cfg) ->
    forall h d0 o, o = EstimateStart \/ o = QuickStart ->
    cf_save val cfg = true ->
    List.length (cf_init0 val cfg) = List.length (cf_names val cfg) ->
    (d0 FILE = None \/ exists x0, len_ok val cfg x0 = true /\ d0 FILE = Some (CONTENT x0)) ->
    let s := STEP (RUN (fresh val cfg d0) h) Kill in
    (st_fs val s FILE = None /\ st_init val (STEP s o) = cf_init0 val cfg) \/
    (exists x, len_ok val cfg x = true /\ st_fs val s FILE = Some (CONTENT x) /\
               load_saved val read the_code cfg (st_fs val s) (st_init val s) = Some x /\
               st_init val (STEP s o) = x /\
               (In x (evaluated val h) \/ d0 FILE = Some (CONTENT x))).
  Proof. exact (restart_after_any_history val show read os_replace os_replace_is_atomic the_code the_code_ok float_of_str str_stripped str_no_eq str_no_nl cfg). Qed.

  (* T15f.  Evaluations of the bootstrap loop never touch the file nor the marker; whenever the
     engine holds other data than the estimation data, saving is suspended. *)
  Theorem T15f_bootstrap_never_touches_file : forall evs s,
    Forall (fun o => exists x f g, o = Eval x f g) evs ->
    st_fs val (RUN (STEP s BootstrapBegin) evs) = st_fs val s /\
    st_best val (RUN (STEP s BootstrapBegin) evs) = st_best val s.
  Proof.
    exact (fun evs s H =>
      bootstrap_never_touches_file val show read os_replace os_replace_is_atomic the_code the_code_ok cfg evs
        (STEP s BootstrapBegin) (begin_suspends val show read os_replace the_code the_code_ok cfg s) H).
  Qed.

  Theorem T15f_other_data_implies_suspended : forall h d,
    st_other val (RUN (fresh val cfg d) h) = true -> st_susp val (RUN (fresh val cfg d) h) = true.
  Proof.
    exact (fun h d => other_data_implies_suspended val show read os_replace os_replace_is_atomic the_code the_code_ok cfg h
                        (fresh val cfg d) (fun H => False_ind _ (Bool.diff_false_true H))).
  Qed.

  (* distinct model names use distinct files (validate() works on <name>_val_est_<k>) *)
  Theorem T15g_file_name_injective : forall m1 m2,
    c_file_name the_code m1 = c_file_name the_code m2 -> m1 = m2.
  Proof. exact (file_name_injective the_code the_code_ok). Qed.
End C15.

Print Assumptions T15a_file_is_best_evaluated.
Print Assumptions T15a_file_is_best_after_any_start.
Print Assumptions T15a_file_shape.
Print Assumptions T15b_roundtrip_bits.
Print Assumptions T15c_restart_not_below_start.
Print Assumptions T15d_restart_uses_file.
Print Assumptions T15e_crash_safe.
Print Assumptions T15e_save_old_or_new.
Print Assumptions T15e_restart_after_any_history.
Print Assumptions T15f_bootstrap_never_touches_file.
Print Assumptions T15f_other_data_implies_suspended.
Print Assumptions T15g_file_name_injective.

(* ---------------------------------------------------------------- non-vacuity *)
(* a history with improving, worsening, equal, non-finite and bootstrap evaluations; the file
   ends with the LATEST of the two best points, and no temporary file is left *)
Example T15a_example :
  st_fs string (run string show_txt read_txt os_replace_atomic the_code cfg2 (fresh string cfg2 empty_fs) h_demo)
    "__m.iter"
  = Some ("b1 = 1.5" ++ String nl ("b2 = 0.5" ++ String nl ""))%string
  /\ st_fs string (run string show_txt read_txt os_replace_atomic the_code cfg2 (fresh string cfg2 empty_fs) h_demo)
       "__m.iter.tmp" = None
  /\ counted string cfg2 h_demo <> [].
Proof. exact demo_file. Qed.

(* a process stopped in the middle of the second line of a save: the final name still holds the
   previous complete content *)
Example T15e_example :
  let d := st_fs string (run string show_txt read_txt os_replace_atomic the_code cfg2 (fresh string cfg2 old_file)
              [EstimateStart; Eval ["0.5"; "0.5"] (FFin (-1225)) true;
               CrashEval ["0.75"; "0.5"] (FFin (-1000)) true 13]) in
  d "__m.iter" = Some ("b1 = 0.5" ++ String nl ("b2 = 0.5" ++ String nl ""))%string /\
  d "__m.iter.tmp" = Some ("b1 = 0.75" ++ String nl "b2")%string.
Proof. exact demo_crash. Qed.

(* ------------------------------------------------- what each repaired line carries *)
(* The same statements are FALSE for variants of the code that differ from [the_code] in one
   field (these were the unrepaired forms found in the repository). *)
Theorem T15e_crash_safe_inplace_refuted :
  exists (d0 : fs) (x : list string) (f : fval) (k : nat),
    complete string show_txt inplace_code cfg2
      (match d0 (fname string inplace_code cfg2) with Some s => s | None => ""%string end) /\
    let s := run string show_txt read_txt os_replace_atomic inplace_code cfg2 (fresh string cfg2 d0) [CrashEval x f true k] in
    exists content0, st_fs string s (fname string inplace_code cfg2) = Some content0 /\
      ~ complete string show_txt inplace_code cfg2 content0 /\
      Some content0 <> d0 (fname string inplace_code cfg2) /\
      content0 <> file_content string show_txt inplace_code cfg2 x /\
      load_saved string read_txt inplace_code cfg2 (st_fs string s) (st_init string s)
        = Some ["0.5"; "-0.5"] /\
      load_saved string read_txt inplace_code cfg2
        (st_fs string (run string show_txt read_txt os_replace_atomic inplace_code cfg2 (fresh string cfg2 d0)
                         [CrashEval x f true (k + 2)]))
        (cf_init0 string cfg2) = None.
Proof. exact crash_safe_inplace_refuted. Qed.
Print Assumptions T15e_crash_safe_inplace_refuted.

Theorem T15a_marker_not_updated_refuted :
  let c0 := with_mark1 the_code (fun b _ => b) in
  let h := [Eval ["0.0"; "0.0"] (FFin (-2400)) true;
            Eval ["0.5"; "0.5"] (FFin (-1225)) true;
            Eval ["0.25"; "0.25"] (FFin (-1756)) true] in
  st_fs string (run string show_txt read_txt os_replace_atomic c0 cfg2 (fresh string cfg2 empty_fs) h) (fname string c0 cfg2)
    = Some (file_content string show_txt c0 cfg2 ["0.25"; "0.25"]) /\
  In (["0.5"; "0.5"], FFin (-1225)) (counted string cfg2 h) /\
  fge (FFin (-1756)) (FFin (-1225)) = false.
Proof. exact marker_not_updated_refuted. Qed.
Print Assumptions T15a_marker_not_updated_refuted.

Theorem T15b_split_parser_refuted :
  let c0 := with_parse the_code (fun line =>
              match nth_error (split_on "=" line) 0, nth_error (split_on "=" line) 1 with
              | Some a, Some b => Some (py_strip a, b) | _, _ => None end) in
  let cfg := {| cf_names := ["a=b"; "b2"]; cf_model := "m"; cf_save := true; cf_init0 := ["0.25"; "-0.5"] |} in
  load_file string read_txt c0 (file_content string show_txt c0 cfg ["0.5"; "0.5"])
    <> Some (combine (cf_names string cfg) ["0.5"; "0.5"]) /\
  load_file string read_txt the_code (file_content string show_txt the_code cfg ["0.5"; "0.5"])
    = Some (combine (cf_names string cfg) ["0.5"; "0.5"]).
Proof. exact split_parser_refuted. Qed.
Print Assumptions T15b_split_parser_refuted.

Theorem T15d_quick_without_prologue_refuted :
  let c0 := with_quick the_code [] in
  let s := step string show_txt read_txt os_replace_atomic c0 cfg2 (fresh string cfg2 old_file) QuickStart in
  st_init string s = ["0.25"; "-0.5"] /\
  st_fs string (step string show_txt read_txt os_replace_atomic c0 cfg2 s (Eval ["0.25"; "-0.5"] (FFin (-3350)) true)) "__m.iter"
    = Some (file_content string show_txt c0 cfg2 ["0.25"; "-0.5"]) /\
  st_init string (step string show_txt read_txt os_replace_atomic the_code cfg2 (fresh string cfg2 old_file) QuickStart)
    = ["1.5"; "2.5"].
Proof. exact quick_without_prologue_refuted. Qed.
Print Assumptions T15d_quick_without_prologue_refuted.

Theorem T15f_bootstrap_not_suspended_refuted :
  let c0 := with_boot the_code false true in
  st_fs string (run string show_txt read_txt os_replace_atomic c0 cfg2 (fresh string cfg2 old_file)
     [EstimateStart; Eval ["1.0"; "2.0"] (FFin 0) true; BootstrapBegin;
      Eval ["0.9"; "2.1"] (FFin 7) true]) "__m.iter"
  = Some (file_content string show_txt c0 cfg2 ["0.9"; "2.1"]).
Proof. exact bootstrap_not_suspended_refuted. Qed.
Print Assumptions T15f_bootstrap_not_suspended_refuted.

Theorem T15f_bootstrap_data_not_restored_refuted :
  let c0 := with_boot the_code true false in
  let s := run string show_txt read_txt os_replace_atomic c0 cfg2 (fresh string cfg2 old_file)
             [EstimateStart; BootstrapBegin; BootstrapEnd; QuickStart] in
  st_other string s = true /\ st_susp string s = false /\
  st_fs string (step string show_txt read_txt os_replace_atomic c0 cfg2 s (Eval ["0.9"; "2.1"] (FFin 7) true)) "__m.iter"
  = Some (file_content string show_txt c0 cfg2 ["0.9"; "2.1"]).
Proof. exact bootstrap_data_not_restored_refuted. Qed.
Print Assumptions T15f_bootstrap_data_not_restored_refuted.

Theorem T15f_abort_data_not_restored_refuted :
  let c0 := with_abort the_code true false in
  let h := [EstimateStart; BootstrapBegin; Eval ["0.9"; "2.0"] (FFin 3) true; BootstrapAbort] in
  let s := run string show_txt read_txt os_replace_atomic c0 cfg2 (fresh string cfg2 old_file) h in
  st_other string s = true /\ st_susp string s = false /\
  st_fs string (step string show_txt read_txt os_replace_atomic c0 cfg2 s (Eval ["0.9"; "2.1"] (FFin 7) true)) "__m.iter"
  = Some (file_content string show_txt c0 cfg2 ["0.9"; "2.1"]) /\
  st_other string (run string show_txt read_txt os_replace_atomic the_code cfg2 (fresh string cfg2 old_file) h) = false /\
  st_susp string (run string show_txt read_txt os_replace_atomic the_code cfg2 (fresh string cfg2 old_file) h) = false.
Proof. exact abort_data_not_restored_refuted. Qed.
Print Assumptions T15f_abort_data_not_restored_refuted.
