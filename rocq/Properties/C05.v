(* C05 -- placeholder while the proofs are being written *)
From BV Require Import Model.BuildersChoice.
