(* C05 -- Choice models return proper probability distributions over the available options.
   Property theorems only; each is closed by [exact] of a lemma proved in Proofs/Choice*.v.

   Reading guide.  The builders (Model/BuildersChoice.v: logit, mev, nested, cnl, ... mirror the
   Python functions node for node, tie = stream C05/build) return a tree; [evalX Phi t en] is its
   mathematical value in the environment [en] (one observation: parameter values, row of data).
   [uval k] / [aval k] are the real values of the utility / availability expressions of
   alternative k in that environment; "computed for one observation" = for a fixed [en], the
   probability of alternative i is the value of the tree built with a choice expression whose
   value is i.  [is_distribution ks aval p]: p in [0,1] on ks, p = 0 where aval = 0, sum = 1. *)
From Coq Require Import Reals List ZArith String.
From BV Require Import Proofs.BuildersChoiceP.
Open Scope R_scope.

(* ------------------------------------------------------------------ logit *)
(* T05a/b/c (+ T05h for logit) *)
Theorem T05a_logit_proper : forall Phi en (util : dict pv) (av : avail) (aval uval : Z -> R),
  av_ok Phi en av aval -> av_covers av (keys util) ->
  (forall k p, In (k, p) util -> aval k <> 0 -> pvX Phi en p = XR (uval k)) ->
  (exists k, In k (keys util) /\ aval k <> 0) ->
  let p := logit_p aval uval (keys util) in
  (forall i ch, In i (keys util) -> pvX Phi en ch = XR (IZR i) ->
     exists t l, logit util av ch = Ok t /\ loglogit util av ch = Ok l /\
                 evalX Phi t en = XR (p i) /\
                 evalX Phi l en = (if Rnz (aval i) then XR (ln (p i)) else XmInf) /\
                 evalX Phi t en = xun Phi Exp (evalX Phi l en)) /\
  is_distribution (keys util) aval p.
Proof. exact logit_proper. Qed.
Print Assumptions T05a_logit_proper.

Definition en0 : env := mkEnv (fun _ => Some 2) (fun _ => Some 0) (fun _ => None) (fun _ => None) [] [].
Definition U0 : dict expr := [(1, EVar "x1"); (2, EVar "x2"); (3, EVar "x3")]%Z.
Definition A0 : avail := Some [(1, PN d_one); (2, PE (EVar "a2")); (3, PN d_one)]%Z.
Definition aval0 (k : Z) : R := if (k =? 2)%Z then 0 else 1.

Ltac in_cases H :=
  simpl in H; repeat (destruct H as [H|H]; [injection H as <- <-|]); try contradiction.

(* non-vacuity: three alternatives, the second one unavailable *)
Example T05a_example : forall Phi,
  av_ok Phi en0 A0 aval0 /\ av_covers A0 (keys (pe_dict U0)) /\
  (forall k p, In (k, p) (pe_dict U0) -> aval0 k <> 0 -> pvX Phi en0 p = XR ((fun _ => 0) k)) /\
  (exists k, In k (keys (pe_dict U0)) /\ aval0 k <> 0).
Proof.
  intros Phi. split; [|split; [|split]].
  - intros k p H. in_cases H; unfold pvX, aval0; simpl; rewrite ?D2R_one; reflexivity.
  - intros k H. exact H.
  - intros k p H _. in_cases H; reflexivity.
  - exists 1%Z. split; [now left|]. unfold aval0. simpl. apply R1_neq_R0.
Qed.

(* ------------------------------------------------------------------ MEV with user-supplied ln G_i *)
Theorem T05d_mev_proper : forall Phi en util (lg : Z -> res pv) av aval,
  NoDup (keys util) ->
  av_ok Phi en av aval -> av_covers av (keys util) ->
  (forall k, In k (keys util) -> exists g, lg k = Ok g) ->
  (forall k v g, In (k, v) util -> lg k = Ok g -> aval k <> 0 ->
                 exists x y, pvX Phi en v = XR x /\ pvX Phi en g = XR y) ->
  (exists k, In k (keys util) /\ aval k <> 0) ->
  exists p,
    (forall i ch, In i (keys util) -> pvX Phi en ch = XR (IZR i) ->
       exists l, logmev_f util lg av ch = Ok l /\
                 evalX Phi (EUn Exp l) en = XR (p i) /\
                 evalX Phi l en = (if Rnz (aval i) then XR (ln (p i)) else XmInf)) /\
    is_distribution (keys util) aval p.
Proof. exact mev_proper. Qed.
Print Assumptions T05d_mev_proper.

Example T05d_example : forall Phi,
  let lg := fun k => of_option 2 (get [(1, PE (EVar "g1")); (2, PN d_zero); (3, PE (EBeta "b" false))]%Z k) in
  NoDup (keys (pe_dict U0)) /\ av_ok Phi en0 A0 aval0 /\
  (forall k, In k (keys (pe_dict U0)) -> exists g, lg k = Ok g) /\
  (forall k v g, In (k, v) (pe_dict U0) -> lg k = Ok g -> aval0 k <> 0 ->
                 exists x y, pvX Phi en0 v = XR x /\ pvX Phi en0 g = XR y).
Proof.
  intros Phi lg. split; [|split; [|split]].
  - simpl. repeat constructor; simpl; intuition congruence.
  - apply T05a_example.
  - intros k H. simpl in H. destruct H as [<-|[<-|[<-|[]]]]; eexists; reflexivity.
  - intros k v g H Hg _. in_cases H; unfold lg in Hg; simpl in Hg; injection Hg as <-;
      eexists; eexists; split; reflexivity.
Qed.

(* MEV with endogenous-sampling correction (logmev_endogenous_sampling / mev_endogenous_sampling):
   a proper distribution for arbitrary ln G_i and correction terms; the probability builder is exp
   of the log builder; with one and the same correction for all alternatives it is the MEV model.
   The builders are functions of their arguments: calling them any number of times with the same
   dictionaries gives the same tree (stream prob_values checks that the implementation leaves the
   caller's dictionaries untouched, one call per alternative and per function, in several orders). *)
Theorem T05d_mev_es_proper : forall Phi en util (lg cr : Z -> res pv) av aval,
  NoDup (keys util) ->
  av_ok Phi en av aval -> av_covers av (keys util) ->
  (forall k, In k (keys util) -> exists g c, lg k = Ok g /\ cr k = Ok c) ->
  (forall k v g c, In (k, v) util -> lg k = Ok g -> cr k = Ok c -> aval k <> 0 ->
                   exists x y z, pvX Phi en v = XR x /\ pvX Phi en g = XR y /\ pvX Phi en c = XR z) ->
  (exists k, In k (keys util) /\ aval k <> 0) ->
  exists p,
    (forall i ch, In i (keys util) -> pvX Phi en ch = XR (IZR i) ->
       exists l, logmev_es_f util lg cr av ch = Ok l /\
                 evalX Phi (EUn Exp l) en = XR (p i) /\
                 evalX Phi l en = (if Rnz (aval i) then XR (ln (p i)) else XmInf)) /\
    is_distribution (keys util) aval p.
Proof. exact mev_es_proper. Qed.
Print Assumptions T05d_mev_es_proper.

Theorem T05d_mev_es_equal_corrections : forall Phi en (U : dict expr) (lg cr : Z -> res pv) av aval
    (uval gval : Z -> R) (c0 : R),
  av_ok Phi en av aval -> av_covers av (keys U) ->
  (forall k e, In (k, e) U -> aval k <> 0 -> evalX Phi e en = XR (uval k)) ->
  (forall k g, lg k = Ok g -> aval k <> 0 -> pvX Phi en g = XR (gval k)) ->
  (forall k c, cr k = Ok c -> aval k <> 0 -> pvX Phi en c = XR c0) ->
  forall i ch l l', In i (keys U) -> pvX Phi en ch = XR (IZR i) ->
    logmev_es_f (pe_dict U) lg cr av ch = Ok l -> logmev_f (pe_dict U) lg av ch = Ok l' ->
    evalX Phi l en = evalX Phi l' en /\ evalX Phi (EUn Exp l) en = evalX Phi (EUn Exp l') en.
Proof. exact mev_es_equal_corrections. Qed.
Print Assumptions T05d_mev_es_equal_corrections.

Theorem T05h_mev_es_is_exp_of_log : forall util g av c ch t,
  mev_endogenous_sampling util g av c ch = Ok t
  <-> exists l, logmev_endogenous_sampling util g av c ch = Ok l /\ t = EUn Exp l.
Proof. exact mev_es_is_exp_of_log. Qed.
Print Assumptions T05h_mev_es_is_exp_of_log.

Example T05d_es_example : forall Phi,
  let G := [(1, PE (EVar "g1")); (2, PN d_zero); (3, PE (EBeta "b" false))]%Z in
  let C := [(1, PN d_one); (2, PE (EBeta "w2" true)); (3, PN (3, -1))]%Z in
  let lg := fun k => of_option 2 (get G k) in
  let cr := fun k => of_option 2 (get C k) in
  (forall k, In k (keys (pe_dict U0)) -> exists g c, lg k = Ok g /\ cr k = Ok c) /\
  (forall k v g c, In (k, v) (pe_dict U0) -> lg k = Ok g -> cr k = Ok c -> aval0 k <> 0 ->
                   exists x y z, pvX Phi en0 v = XR x /\ pvX Phi en0 g = XR y /\ pvX Phi en0 c = XR z) /\
  (exists l t, logmev_endogenous_sampling (pe_dict U0) G A0 C (PN d_one) = Ok l /\
               mev_endogenous_sampling (pe_dict U0) G A0 C (PN d_one) = Ok t).
Proof.
  intros Phi G C lg cr. split; [|split].
  - intros k H. simpl in H. destruct H as [<-|[<-|[<-|[]]]]; eexists; eexists; split; reflexivity.
  - intros k v g c H Hg Hc _. in_cases H; unfold lg in Hg; unfold cr in Hc; simpl in Hg, Hc;
      injection Hg as <-; injection Hc as <-; do 3 eexists; repeat split; reflexivity.
  - do 2 eexists. split; vm_compute; reflexivity.
Qed.

(* ------------------------------------------------------------------ nested logit *)
Theorem T05e_nested_proper : forall Phi en (U : dict expr) (av : avail) (a : nn_arg) (aval uval : Z -> R),
  av_ok Phi en av aval -> av_covers av (keys U) ->
  (forall k e, In (k, e) U -> aval k <> 0 -> evalX Phi e en = XR (uval k)) ->
  nests_ok Phi en (nn_arg_nests a) ->
  (exists k, In k (keys U) /\ aval k <> 0) ->
  (exists ch0 t0, lognested (pe_dict U) av a ch0 = Ok t0) ->
  exists p,
    (forall i ch, In i (keys U) -> pvX Phi en ch = XR (IZR i) ->
       exists l, lognested (pe_dict U) av a ch = Ok l /\
                 nested (pe_dict U) av a ch = Ok (EUn Exp l) /\
                 evalX Phi (EUn Exp l) en = XR (p i) /\
                 evalX Phi l en = (if Rnz (aval i) then XR (ln (p i)) else XmInf)) /\
    is_distribution (keys U) aval p.
Proof. exact nested_proper. Qed.
Print Assumptions T05e_nested_proper.

Definition N0 : nn_arg := NNLegacy [(PE (EBeta "mu1" false), [1; 2]%Z)].

Example T05e_example : forall Phi,
  av_ok Phi en0 A0 aval0 /\ av_covers A0 (keys U0) /\
  (forall k e, In (k, e) U0 -> aval0 k <> 0 -> evalX Phi e en0 = XR ((fun _ => 0) k)) /\
  nests_ok Phi en0 (nn_arg_nests N0) /\
  (exists ch0 t0, lognested (pe_dict U0) A0 N0 ch0 = Ok t0).
Proof.
  intros Phi. split; [apply T05a_example|]. split; [intros k H; exact H|]. split; [|split].
  - intros k e H _. in_cases H; reflexivity.
  - intros m H. in_cases H. destruct H as [<-|[]]. exists 2. split; [reflexivity|]. apply not_eq_sym, Rlt_not_eq, Rlt_0_2.
  - exists (PN d_one). eexists. vm_compute. reflexivity.
Qed.

Theorem T05e_nested_mu_proper : forall Phi en (U : dict expr) (av : avail) (a : nn_arg) (mu : pv) (muv : R)
    (aval uval : Z -> R),
  av_ok Phi en av aval -> av_covers av (keys U) ->
  (forall k e, In (k, e) U -> aval k <> 0 -> evalX Phi e en = XR (uval k)) ->
  pvX Phi en mu = XR muv -> 0 < muv ->
  nests_ok Phi en (nn_arg_nests a) ->
  (exists k, In k (keys U) /\ aval k <> 0) ->
  (exists ch0 t0, lognested_mev_mu (pe_dict U) av a ch0 mu = Ok t0) ->
  exists p,
    (forall i ch, In i (keys U) -> pvX Phi en ch = XR (IZR i) ->
       exists l, lognested_mev_mu (pe_dict U) av a ch mu = Ok l /\
                 nested_mev_mu (pe_dict U) av a ch mu = Ok (EUn Exp l) /\
                 evalX Phi (EUn Exp l) en = XR (p i) /\
                 evalX Phi l en = (if Rnz (aval i) then XR (ln (p i)) else XmInf)) /\
    is_distribution (keys U) aval p.
Proof. exact nested_mu_proper. Qed.
Print Assumptions T05e_nested_mu_proper.

Example T05e_mu_example : forall Phi,
  pvX Phi en0 (PE (EBeta "MU" true)) = XR 2 /\ 0 < 2 /\
  (exists ch0 t0, lognested_mev_mu (pe_dict U0) A0 N0 ch0 (PE (EBeta "MU" true)) = Ok t0).
Proof.
  intros Phi. split; [reflexivity|]. split; [apply Rlt_0_2|].
  exists (PN d_one). eexists. vm_compute. reflexivity.
Qed.

(* ------------------------------------------------------------------ cross-nested logit *)
Theorem T05f_cnl_proper : forall Phi en (U : dict expr) (av : avail) (a : cn_arg) (aval uval : Z -> R),
  av_ok Phi en av aval -> av_covers av (keys U) -> (forall k, 0 <= aval k) ->
  (forall k e, In (k, e) U -> evalX Phi e en = XR (uval k)) ->
  cnests_ok Phi en (cn_arg_nests a) ->
  (exists k, In k (keys U) /\ aval k <> 0) ->
  (exists ch0 t0, logcnl (pe_dict U) av a ch0 = Ok t0) ->
  exists p,
    (forall i ch, In i (keys U) -> pvX Phi en ch = XR (IZR i) ->
       exists l, logcnl (pe_dict U) av a ch = Ok l /\
                 cnl (pe_dict U) av a ch = Ok (EUn Exp l) /\
                 evalX Phi (EUn Exp l) en = XR (p i) /\
                 evalX Phi l en = (if Rnz (aval i) then XR (ln (p i)) else XmInf)) /\
    is_distribution (keys U) aval p.
Proof. exact cnl_proper. Qed.
Print Assumptions T05f_cnl_proper.

Definition C0 : cn_arg :=
  CNLegacy [(PE (EBeta "mu1" false), [(1, PN (1, -1)); (2, PN d_one)]%Z);
            (PE (EBeta "mu2" false), [(1, PN (1, -1)); (3, PE (EBeta "alpha" true))]%Z)].

Lemma half_pos : 0 < D2R (1, -1)%Z.
Proof. unfold D2R. simpl. apply Rmult_lt_0_compat; [apply Rlt_0_1|]. apply Rinv_0_lt_compat. rewrite Rmult_1_r. apply Rlt_0_2. Qed.

Example T05f_example : forall Phi,
  (forall k, 0 <= aval0 k) /\
  (forall k e, In (k, e) U0 -> evalX Phi e en0 = XR ((fun _ => 0) k)) /\
  cnests_ok Phi en0 (cn_arg_nests C0) /\
  (exists ch0 t0, logcnl (pe_dict U0) A0 C0 ch0 = Ok t0).
Proof.
  intros Phi. split; [|split; [|split]].
  - intros k. unfold aval0. destruct (k =? 2)%Z; [apply Rle_refl|apply Rle_0_1].
  - intros k e H. in_cases H; reflexivity.
  - intros m H. simpl in H. destruct H as [<-|[<-|[]]]; (split;
      [exists 2; split; [reflexivity|apply not_eq_sym, Rlt_not_eq, Rlt_0_2]|]);
      intros j p Hin; in_cases Hin; eexists; (split; [reflexivity|]);
      try apply half_pos; try apply Rlt_0_2; rewrite D2R_one; apply Rlt_0_1.
  - exists (PN d_one). eexists. vm_compute. reflexivity.
Qed.

Theorem T05f_cnlmu_proper : forall Phi en (U : dict expr) (av : avail) (a : cn_arg) (mu : pv) (muv : R)
    (aval uval : Z -> R),
  av_ok Phi en av aval -> av_covers av (keys U) -> (forall k, 0 <= aval k) ->
  (forall k e, In (k, e) U -> evalX Phi e en = XR (uval k)) ->
  pvX Phi en mu = XR muv -> 0 < muv ->
  cnests_ok Phi en (cn_arg_nests a) ->
  (exists k, In k (keys U) /\ aval k <> 0) ->
  (exists ch0 t0, logcnlmu (pe_dict U) av a ch0 mu = Ok t0) ->
  exists p,
    (forall i ch, In i (keys U) -> pvX Phi en ch = XR (IZR i) ->
       exists l, logcnlmu (pe_dict U) av a ch mu = Ok l /\
                 cnlmu (pe_dict U) av a ch mu = Ok (EUn Exp l) /\
                 evalX Phi (EUn Exp l) en = XR (p i) /\
                 evalX Phi l en = (if Rnz (aval i) then XR (ln (p i)) else XmInf)) /\
    is_distribution (keys U) aval p.
Proof. exact cnlmu_proper. Qed.
Print Assumptions T05f_cnlmu_proper.

Example T05f_mu_example :
  exists ch0 t0, logcnlmu (pe_dict U0) A0 C0 ch0 (PE (EBeta "MU" true)) = Ok t0.
Proof. exists (PN d_one). eexists. vm_compute. reflexivity. Qed.

(* ------------------------------------------------------------------ shift invariance *)
Theorem T05g_logit_shift_invariant : forall Phi en (util util' : dict pv) (av : avail) (aval uval : Z -> R) (c : R),
  av_ok Phi en av aval -> av_covers av (keys util) -> keys util' = keys util ->
  (forall k p, In (k, p) util -> aval k <> 0 -> pvX Phi en p = XR (uval k)) ->
  (forall k p, In (k, p) util' -> aval k <> 0 -> pvX Phi en p = XR (uval k + c)) ->
  forall i ch, In i (keys util) -> pvX Phi en ch = XR (IZR i) ->
    evalX Phi (EUn Exp (loglogit_e util' av ch)) en = evalX Phi (EUn Exp (loglogit_e util av ch)) en /\
    evalX Phi (loglogit_e util' av ch) en = evalX Phi (loglogit_e util av ch) en.
Proof. exact logit_shift_invariant. Qed.
Print Assumptions T05g_logit_shift_invariant.

Theorem T05g_nested_shift_invariant : forall Phi en (U U' : dict expr) (av : avail) (a : nn_arg)
    (aval uval : Z -> R) (c : R),
  av_ok Phi en av aval -> av_covers av (keys U) -> keys U' = keys U ->
  (forall k e, In (k, e) U -> aval k <> 0 -> evalX Phi e en = XR (uval k)) ->
  (forall k e, In (k, e) U' -> aval k <> 0 -> evalX Phi e en = XR (uval k + c)) ->
  nests_ok Phi en (nn_arg_nests a) -> nests_exact (nn_arg_nests a) ->
  forall i ch l l', In i (keys U) -> pvX Phi en ch = XR (IZR i) ->
    lognested (pe_dict U) av a ch = Ok l -> lognested (pe_dict U') av a ch = Ok l' ->
    evalX Phi l' en = evalX Phi l en /\ evalX Phi (EUn Exp l') en = evalX Phi (EUn Exp l) en.
Proof. exact nested_shift_invariant. Qed.
Print Assumptions T05g_nested_shift_invariant.

Theorem T05g_nested_mu_shift_invariant : forall Phi en (U U' : dict expr) (av : avail) (a : nn_arg)
    (mu : pv) (muv : R) (aval uval : Z -> R) (c : R),
  av_ok Phi en av aval -> av_covers av (keys U) -> keys U' = keys U ->
  (forall k e, In (k, e) U -> aval k <> 0 -> evalX Phi e en = XR (uval k)) ->
  (forall k e, In (k, e) U' -> aval k <> 0 -> evalX Phi e en = XR (uval k + c)) ->
  pvX Phi en mu = XR muv -> 0 < muv ->
  nests_ok Phi en (nn_arg_nests a) -> nests_exact (nn_arg_nests a) -> mus_exact mu (nn_arg_nests a) ->
  forall i ch l l', In i (keys U) -> pvX Phi en ch = XR (IZR i) ->
    lognested_mev_mu (pe_dict U) av a ch mu = Ok l -> lognested_mev_mu (pe_dict U') av a ch mu = Ok l' ->
    evalX Phi l' en = evalX Phi l en /\ evalX Phi (EUn Exp l') en = evalX Phi (EUn Exp l) en.
Proof. exact nested_mu_shift_invariant. Qed.
Print Assumptions T05g_nested_mu_shift_invariant.

Theorem T05g_cnl_shift_invariant : forall Phi en (U U' : dict expr) (av : avail) (a : cn_arg)
    (aval uval : Z -> R) (c : R),
  av_ok Phi en av aval -> av_covers av (keys U) -> (forall k, 0 <= aval k) -> keys U' = keys U ->
  (forall k e, In (k, e) U -> evalX Phi e en = XR (uval k)) ->
  (forall k e, In (k, e) U' -> evalX Phi e en = XR (uval k + c)) ->
  cnests_ok Phi en (cn_arg_nests a) -> cnests_exact (cn_arg_nests a) ->
  forall i ch l l', In i (keys U) -> pvX Phi en ch = XR (IZR i) ->
    logcnl (pe_dict U) av a ch = Ok l -> logcnl (pe_dict U') av a ch = Ok l' ->
    evalX Phi l' en = evalX Phi l en /\ evalX Phi (EUn Exp l') en = evalX Phi (EUn Exp l) en.
Proof. exact cnl_shift_invariant. Qed.
Print Assumptions T05g_cnl_shift_invariant.

Theorem T05g_cnlmu_shift_invariant : forall Phi en (U U' : dict expr) (av : avail) (a : cn_arg)
    (mu : pv) (muv : R) (aval uval : Z -> R) (c : R),
  av_ok Phi en av aval -> av_covers av (keys U) -> (forall k, 0 <= aval k) -> keys U' = keys U ->
  (forall k e, In (k, e) U -> evalX Phi e en = XR (uval k)) ->
  (forall k e, In (k, e) U' -> evalX Phi e en = XR (uval k + c)) ->
  pvX Phi en mu = XR muv -> 0 < muv ->
  cnests_ok Phi en (cn_arg_nests a) -> cnests_exact (cn_arg_nests a) -> cmus_exact mu (cn_arg_nests a) ->
  forall i ch l l', In i (keys U) -> pvX Phi en ch = XR (IZR i) ->
    logcnlmu (pe_dict U) av a ch mu = Ok l -> logcnlmu (pe_dict U') av a ch mu = Ok l' ->
    evalX Phi l' en = evalX Phi l en /\ evalX Phi (EUn Exp l') en = evalX Phi (EUn Exp l) en.
Proof. exact cnlmu_shift_invariant. Qed.
Print Assumptions T05g_cnlmu_shift_invariant.

(* non-vacuity of the shift theorems: the utilities x_k + 5 (value 5) against x_k (value 0);
   the exactness side conditions hold for parameters given as expressions and for the literal 1.0 *)
Definition U0s : dict expr :=
  [(1, EBin Plus (EVar "x1") (ENumD (5, 0))); (2, EBin Plus (EVar "x2") (ENumD (5, 0)));
   (3, EBin Plus (EVar "x3") (ENumD (5, 0)))]%Z.

Example T05g_example : forall Phi,
  keys U0s = keys U0 /\
  (forall k e, In (k, e) U0s -> evalX Phi e en0 = XR ((fun _ => 0) k + 5)) /\
  nests_exact (nn_arg_nests N0) /\ cnests_exact (cn_arg_nests C0) /\
  nests_exact [mkNN (PN d_one) [1; 2]%Z] /\
  (exists l l', lognested (pe_dict U0) A0 N0 (PN d_one) = Ok l /\ lognested (pe_dict U0s) A0 N0 (PN d_one) = Ok l') /\
  (exists l l', logcnl (pe_dict U0) A0 C0 (PN d_one) = Ok l /\ logcnl (pe_dict U0s) A0 C0 (PN d_one) = Ok l').
Proof.
  intros Phi. split; [reflexivity|]. split; [|split; [|split; [|split; [|split]]]].
  - intros k e H. in_cases H; simpl; unfold D2R; simpl; f_equal; ring.
  - intros m H. simpl in H. destruct H as [<-|[]]. exact I.
  - intros m H. simpl in H. destruct H as [<-|[<-|[]]]; exact I.
  - intros m H. simpl in H. destruct H as [<-|[]]. apply nl_exact_one.
  - eexists; eexists; split; vm_compute; reflexivity.
  - eexists; eexists; split; vm_compute; reflexivity.
Qed.

(* ------------------------------------------------------------------ log-probability = log of probability *)
(* T05h: by construction every probability builder returns exp(tree of the log builder), for all
   arguments; the value statements are part of the T05a/d/e/f theorems above
   (value of the log tree = ln (p i), or -inf exactly when p i = 0 by unavailability) *)
Theorem T05h_prob_is_exp_of_log :
  (forall util av ch t, logit util av ch = Ok t <-> exists l, loglogit util av ch = Ok l /\ t = EUn Exp l) /\
  (forall util g av ch t, mev util g av ch = Ok t <-> exists l, logmev util g av ch = Ok l /\ t = EUn Exp l) /\
  (forall util av a ch t, nested util av a ch = Ok t <-> exists l, lognested util av a ch = Ok l /\ t = EUn Exp l) /\
  (forall util av a ch mu t, nested_mev_mu util av a ch mu = Ok t
                             <-> exists l, lognested_mev_mu util av a ch mu = Ok l /\ t = EUn Exp l) /\
  (forall util av a ch t, cnl util av a ch = Ok t <-> exists l, logcnl util av a ch = Ok l /\ t = EUn Exp l) /\
  (forall util av a ch mu t, cnlmu util av a ch mu = Ok t
                             <-> exists l, logcnlmu util av a ch mu = Ok l /\ t = EUn Exp l).
Proof. exact prob_is_exp_of_log. Qed.
Print Assumptions T05h_prob_is_exp_of_log.

Theorem T05h_value_of_exp : forall Phi en l,
  evalX Phi (EUn Exp l) en
  = match evalX Phi l en with XR x => XR (exp x) | XmInf => XR 0 | XNaN => XNaN end.
Proof. exact ev_exp_of_log. Qed.
Print Assumptions T05h_value_of_exp.

(* ------------------------------------------------------------------ ordered logit / probit *)
(* T05i + T05j.  ps lists the values of the probabilities of the categories, in order. *)
Theorem T05i_ordered_logit_proper : forall Phi en x xv tau_name fixed tv (dv : Z -> R) vals D,
  evalX Phi x en = XR xv -> e_beta en tau_name = Some tv ->
  (2 <= List.length vals)%nat -> NoDup vals ->
  (forall it, In it (init (tl vals)) -> e_beta en (diff_name tau_name it) = Some (dv it)) ->
  ordered_logit x vals (EBeta tau_name fixed) = Ok D ->
  exists ps,
    keys D = vals /\
    Forall2 (fun kv p => evalX Phi (snd kv) en = XR p) D ps /\
    Rlsum ps = 1 /\
    ((forall it, In it (init (tl vals)) -> 0 <= dv it) -> Forall in_unit ps).
Proof. exact ordered_logit_proper. Qed.
Print Assumptions T05i_ordered_logit_proper.

(* the normal cdf is external: monotonicity and range are hypotheses on Phi *)
Theorem T05i_ordered_probit_proper : forall Phi en x xv tau_name fixed tv (dv : Z -> R) vals D,
  evalX Phi x en = XR xv -> e_beta en tau_name = Some tv ->
  (2 <= List.length vals)%nat -> NoDup vals ->
  (forall it, In it (init (tl vals)) -> e_beta en (diff_name tau_name it) = Some (dv it)) ->
  ordered_probit x vals (EBeta tau_name fixed) = Ok D ->
  exists ps,
    keys D = vals /\
    Forall2 (fun kv p => evalX Phi (snd kv) en = XR p) D ps /\
    Rlsum ps = 1 /\
    ((forall it, In it (init (tl vals)) -> 0 <= dv it) ->
     (forall a b, a <= b -> Phi a <= Phi b) -> (forall a, 0 <= Phi a <= 1) -> Forall in_unit ps).
Proof. exact ordered_probit_proper. Qed.
Print Assumptions T05i_ordered_probit_proper.

Example T05i_example : forall Phi,
  evalX Phi (EVar "x1") en0 = XR 0 /\ e_beta en0 "tau"%string = Some 2 /\
  (forall it, In it (init (tl [1; 2; 3; 4]%Z)) -> e_beta en0 (diff_name "tau"%string it) = Some ((fun _ => 2) it)) /\
  NoDup [1; 2; 3; 4]%Z /\
  exists D, ordered_logit (EVar "x1") [1; 2; 3; 4]%Z (EBeta "tau" false) = Ok D /\ keys D = [1; 2; 3; 4]%Z.
Proof.
  intros Phi. split; [reflexivity|]. split; [reflexivity|]. split; [intros; reflexivity|]. split.
  - repeat constructor; simpl; intuition congruence.
  - eexists. split; [vm_compute; reflexivity|reflexivity].
Qed.
