(* C08 -- Reported statistics obey their defining formulas.
   Every theorem below is about a definition of Gen/Stats.v, i.e. about Gallina text translated on this run
   from /repo/src/biogeme/results.py and /repo/src/biogeme/tools/likelihood_ratio.py (tie A), or about the
   small matrix model of Model/Stats.v.  External behaviour enters as Section variables of the generated
   file: fmax (np.finfo(float).max), Phi (scipy.stats.norm.cdf), pinv (scipy.linalg.pinv),
   chi2_ppf (scipy.stats.chi2.ppf), fmt_1f (the '.1f' formatter).  Floats are read as reals. *)
From Coq Require Import Reals ZArith List String Bool Lra.
From BV Require Import Model.PyBase Model.Stats Gen.Stats Proofs.StatsP.
Open Scope R_scope.

(* ---- T08a. scalar block of bioResults._calculate_stats:
        LR = -2(L0 - L), rho2 = 1 - L/L0, rhobar2 = 1 - (L - K)/L0 (init and null model),
        AIC = 2K - 2L, BIC = -2L + K ln N. *)
Theorem T08a_scalars : forall lnull l0 L K N, lnull <> 0 -> l0 <> 0 ->
  calculate_stats_scalars (Some lnull) (Some l0) L K N =
    (Some (-2 * (lnull - L)), Some (-2 * (l0 - L)), Some (1 - L / l0), Some (1 - L / lnull),
     Some (1 - (L - IZR K) / l0), Some (1 - (L - IZR K) / lnull),
     2 * IZR K - 2 * L, -2 * L + IZR K * ln (IZR N)).
Proof. exact scalars_formulas. Qed.
Print Assumptions T08a_scalars.

(* with or without null / initial likelihood *)
Theorem T08a_scalars_optional : forall (Lnull L0 : option R) (L : R) (K N : Z),
  (forall l, Lnull = Some l -> l <> 0) -> (forall l, L0 = Some l -> l <> 0) ->
  calculate_stats_scalars Lnull L0 L K N =
    (option_map (fun l => spec_LR l L) Lnull, option_map (fun l => spec_LR l L) L0,
     option_map (fun l => spec_rho2 l L) L0, option_map (fun l => spec_rho2 l L) Lnull,
     option_map (fun l => spec_rhobar2 l L K) L0, option_map (fun l => spec_rhobar2 l L K) Lnull,
     spec_AIC L K, spec_BIC L K N).
Proof. exact scalars_spec. Qed.
Print Assumptions T08a_scalars_optional.

Example T08a_example :
  calculate_stats_scalars None (Some (-120)) (-100) 2 50 =
    (None, Some (spec_LR (-120) (-100)), Some (spec_rho2 (-120) (-100)), None,
     Some (spec_rhobar2 (-120) (-100) 2), None, spec_AIC (-100) 2, spec_BIC (-100) 2 50).
Proof. apply scalars_spec; intros l E; [discriminate|injection E as <-; lra]. Qed.

(* ---- T08b. each family: stdErr recorded, t = value / stdErr, p = 2(1 - Phi|t|) with THAT family's t. *)
Theorem T08b_classical : forall fmax Phi value se, se <> 0 ->
  set_std_err fmax Phi value se = (se, value / se, 2 * (1 - Phi (Rabs (value / se)))).
Proof. exact set_std_err_spec. Qed.
Print Assumptions T08b_classical.

Theorem T08b_robust : forall fmax Phi value se, se <> 0 ->
  set_robust_std_err fmax Phi value se = (se, value / se, 2 * (1 - Phi (Rabs (value / se)))).
Proof. exact set_robust_std_err_spec. Qed.
Print Assumptions T08b_robust.

(* (repaired defect: the bootstrap p-value used the robust t; a regression changes the arity of the
   generated set_bootstrap_std_err and this statement no longer typechecks) *)
Theorem T08b_bootstrap : forall fmax Phi value se, se <> 0 ->
  set_bootstrap_std_err fmax Phi value se = (se, value / se, 2 * (1 - Phi (Rabs (value / se)))).
Proof. exact set_bootstrap_std_err_spec. Qed.
Print Assumptions T08b_bootstrap.

Theorem T08b_p_of_own_t : forall fmax Phi value se,
  (let '(_, t, p) := set_std_err fmax Phi value se in p = spec_p Phi t) /\
  (let '(_, t, p) := set_robust_std_err fmax Phi value se in p = spec_p Phi t) /\
  (let '(_, t, p) := set_bootstrap_std_err fmax Phi value se in p = spec_p Phi t).
Proof. exact family_p_of_own_t. Qed.
Print Assumptions T08b_p_of_own_t.

Example T08b_example : forall fmax Phi, set_bootstrap_std_err fmax Phi 3 2 = (2, 3 / 2, 2 * (1 - Phi (Rabs (3 / 2)))).
Proof. intros. apply set_bootstrap_std_err_spec. lra. Qed.

(* the standard error given to each setter is sqrt(diagonal) of that family's matrix, and each family's
   loop reads its own matrix *)
Theorem T08b_se_is_sqrt_diag : forall fmax (m : matrix) (i : Z), 0 <= m i i ->
  se_arg_set_std_err fmax m i = sqrt (m i i) /\
  se_arg_set_robust_std_err fmax m i = sqrt (m i i) /\
  se_arg_set_bootstrap_std_err fmax m i = sqrt (m i i).
Proof. exact se_arg_spec. Qed.
Print Assumptions T08b_se_is_sqrt_diag.

Theorem T08b_family_wiring :
  family_wiring = [("set_std_err", "varCovar"); ("set_robust_std_err", "robust_varCovar");
                   ("set_bootstrap_std_err", "bootstrap_varCovar")]%string.
Proof. exact family_wiring_spec. Qed.
Print Assumptions T08b_family_wiring.

Example T08b_se_example : forall fmax, se_arg_set_robust_std_err fmax (fun _ _ => 4) 0 = sqrt 4.
Proof. intros. apply se_arg_spec. lra. Qed.

(* ---- T08c. pairwise test = (b_i - b_j) / sqrt(v_ii + v_jj - 2 v_ij) when the radicand is positive. *)
Theorem T08c_pairwise : forall fmax (b : vector) (m : matrix) (i j : Z),
  0 < m i i + m j j - 2 * m i j ->
  calculate_test fmax b i j m = (b i - b j) / sqrt (m i i + m j j - 2 * m i j).
Proof. exact calculate_test_spec. Qed.
Print Assumptions T08c_pairwise.

Example T08c_example : forall fmax,
  calculate_test fmax (fun i => IZR i) 1 0 (fun i j => if Z.eqb i j then 2 else 1) = (1 - 0) / sqrt (2 + 2 - 2 * 1).
Proof. intros. apply calculate_test_spec. simpl. lra. Qed.

(* ---- T08d. sandwich: V symmetric, B positive semi-definite => V.B.V (as generated from
        `varCovar.dot(bhhh.dot(varCovar))`) is symmetric positive semi-definite; hence the radicand of every
        robust pairwise test is >= 0 and the test is the defining formula or the degenerate-case constant. *)
Theorem T08d_sandwich_symmetric_psd : forall n V B, msym n V -> mpsd n B -> mpsd n (robust_varCovar_of n V B).
Proof. exact sandwich_psd. Qed.
Print Assumptions T08d_sandwich_symmetric_psd.

Theorem T08d_robust_radicand : forall n V B i j, msym n V -> mpsd n B -> (i < n)%nat -> (j < n)%nat ->
  let S := robust_varCovar_of n V B in 0 <= S i i + S j j - 2 * S i j.
Proof. exact robust_radicand_nonneg. Qed.
Print Assumptions T08d_robust_radicand.

Theorem T08d_robust_pairwise_defined : forall fmax (b : vector) n V B (i j : Z),
  msym n V -> mpsd n B -> (0 <= i < Z.of_nat n)%Z -> (0 <= j < Z.of_nat n)%Z ->
  let m := matrix_of_nmat (robust_varCovar_of n V B) in
  let r := m i i + m j j - 2 * m i j in
  0 <= r /\ (0 < r -> calculate_test fmax b i j m = (b i - b j) / sqrt r)
         /\ (r = 0 -> calculate_test fmax b i j m = fmax).
Proof. exact robust_pairwise_defined. Qed.
Print Assumptions T08d_robust_pairwise_defined.

(* non-vacuity: the 1 x 1 identity is symmetric and PSD *)
Example T08d_example : msym 1 (fun _ _ => 1) /\ mpsd 1 (fun _ _ => 1).
Proof.
  split; [intros i j _ _; reflexivity|]. split; [intros i j _ _; reflexivity|].
  intros x. unfold quad. simpl. nra.
Qed.

(* V = -pinv(H) is the Moore-Penrose pseudo-inverse of -H, for any pinv satisfying the Penrose equations *)
Theorem T08d_varCovar_pseudo_inverse : forall n (pinv : nmat -> nmat),
  (forall A, penrose n A (pinv A)) -> forall H, penrose n (mopp H) (varCovar_of pinv H).
Proof. exact varCovar_is_pinv_of_minus_H. Qed.
Print Assumptions T08d_varCovar_pseudo_inverse.

(* non-vacuity: a function satisfying the Penrose equations exists (1 x 1: reciprocal, 0 for the zero matrix) *)
Example T08d_pinv_example : forall A, penrose 1 A (pinv1 A).
Proof. exact pinv1_penrose. Qed.

(* ---- T08e. p-values lie in [0,1] and decrease with |t| (hypotheses on Phi listed in the statement). *)
Theorem T08e_p_range : forall Phi : R -> R,
  (forall x y, x <= y -> Phi x <= Phi y) -> (forall x, Phi x <= 1) -> Phi 0 = 1 / 2 ->
  forall t, 0 <= calc_p_value Phi t <= 1.
Proof. exact p_range. Qed.
Print Assumptions T08e_p_range.

Theorem T08e_p_decreasing : forall Phi : R -> R,
  (forall x y, x <= y -> Phi x <= Phi y) ->
  forall t1 t2, Rabs t1 <= Rabs t2 -> calc_p_value Phi t2 <= calc_p_value Phi t1.
Proof. exact p_decreasing. Qed.
Print Assumptions T08e_p_decreasing.

Example T08e_example :
  (forall x y, x <= y -> Phi_ramp x <= Phi_ramp y) /\ (forall x, Phi_ramp x <= 1) /\ Phi_ramp 0 = 1 / 2.
Proof. exact Phi_ramp_ok. Qed.

(* ---- T08f. compile_estimation_results(formatted=False): the row `name (std)` holds robust_stdErr, the row
        `name (ttest)` holds robust_tTest, the row `name` the estimate (repaired defect: both held b.value). *)
Theorem T08f_row_std : forall t name,
  lookup_last (compile_rows true t name) (name ++ " (std)")%string = Some F_robust_stdErr.
Proof. exact compile_rows_std. Qed.
Print Assumptions T08f_row_std.

Theorem T08f_row_ttest : forall s name,
  lookup_last (compile_rows s true name) (name ++ " (ttest)")%string = Some F_robust_tTest.
Proof. exact compile_rows_ttest. Qed.
Print Assumptions T08f_row_ttest.

Theorem T08f_row_value : forall s t name, lookup_last (compile_rows s t name) name = Some F_value.
Proof. exact compile_rows_value. Qed.
Print Assumptions T08f_row_value.

Theorem T08f_rows_only : forall s t name lbl f, In (lbl, f) (compile_rows s t name) ->
  (lbl = name /\ f = F_value) \/ (lbl = (name ++ " (std)")%string /\ f = F_robust_stdErr /\ s = true)
  \/ (lbl = (name ++ " (ttest)")%string /\ f = F_robust_tTest /\ t = true).
Proof. exact compile_rows_labels. Qed.
Print Assumptions T08f_rows_only.

Example T08f_example : In ("asc (std)"%string, F_robust_stdErr) (compile_rows true true "asc").
Proof. simpl. tauto. Qed.

(* ---- T08g. likelihood-ratio test: the model with the larger log likelihood is the unrestricted one,
        statistic = -2 (L_r - L_u) >= 0, degrees of freedom = K_u - K_r >= 0. *)
Theorem T08g_lr_test : forall chi2_ppf fmt_1f L1 K1 L2 K2 alpha msg stat thr,
  likelihood_ratio_test chi2_ppf fmt_1f (L1, K1) (L2, K2) alpha = Some (msg, stat, thr) ->
  exists Lu Ku Lr Kr,
    (((Lu, Ku, Lr, Kr) = (L1, K1, L2, K2) /\ L1 > L2 /\ (K2 <= K1)%Z) \/
     ((Lu, Ku, Lr, Kr) = (L2, K2, L1, K1) /\ L1 <= L2 /\ (K1 < K2)%Z)) /\
    Lr <= Lu /\ (Kr <= Ku)%Z /\
    stat = -2 * (Lr - Lu) /\ 0 <= stat /\
    thr = chi2_ppf (1 - alpha) (Ku - Kr)%Z.
Proof. exact lr_test_spec. Qed.
Print Assumptions T08g_lr_test.

Theorem T08g_lr_refused : forall chi2_ppf fmt_1f L1 K1 L2 K2 alpha,
  likelihood_ratio_test chi2_ppf fmt_1f (L1, K1) (L2, K2) alpha = None <->
  (L1 > L2 /\ (K1 < K2)%Z) \/ (L1 <= L2 /\ (K2 <= K1)%Z).
Proof. exact lr_test_refused. Qed.
Print Assumptions T08g_lr_refused.

Theorem T08g_results_method : forall chi2_ppf fmt_1f selfL otherL selfK otherK alpha,
  results_likelihood_ratio_test chi2_ppf fmt_1f selfL otherL selfK otherK tt alpha =
  likelihood_ratio_test chi2_ppf fmt_1f (otherL, otherK) (selfL, selfK) alpha.
Proof. exact results_lr_test_spec. Qed.
Print Assumptions T08g_results_method.

Example T08g_example : forall chi2_ppf fmt_1f, exists msg,
  likelihood_ratio_test chi2_ppf fmt_1f (-100, 3%Z) (-110, 1%Z) (1 / 20) =
    Some (msg, -2 * (-110 - -100), chi2_ppf (1 - 1 / 20) 2%Z).
Proof.
  intros. unfold likelihood_ratio_test.
  replace (Rgtb (-100) (-110)) with true by (symmetry; apply Rgtb_true; lra).
  simpl. eexists. reflexivity.
Qed.

(* ---- is_bound_active (feeds "Number of free parameters" and the Active bound column) *)
Theorem T08h_bound_active : forall value lb ub thr, 0 <= thr ->
  exists b, is_bound_active value lb ub thr = Some b /\
    (b = true <-> (exists l, lb = Some l /\ Rabs (value - l) <= thr) \/
                  (exists u, ub = Some u /\ Rabs (value - u) <= thr)).
Proof. exact is_bound_active_spec. Qed.
Print Assumptions T08h_bound_active.

Example T08h_example : exists b, is_bound_active 1 (Some 1) None 0 = Some b.
Proof. destruct (is_bound_active_spec 1 (Some 1) None 0) as (b & H & _); [lra|]. exists b. exact H. Qed.

(* ---- T08i. the same raw-results object processed again and again (reported, raw inputs replaced, reported
        again...): with the attributes that bioResults._clear_stats resets (list generated from the source; the
        extractor checks it is called first by _calculate_stats), after every processing a derived attribute
        (std err / t / p of a family, its matrix, its correlation matrix, the second-order table) is present
        iff the matrix of its family is held NOW: classical, robust and the table iff the Hessian is held,
        bootstrap iff Hessian and bootstrap sample are held -- whatever the earlier history. *)
Theorem T08i_reprocessing : forall (st : dstate) (step : bool * bool) (a : attr),
  In a derived_attrs -> process clear_stats_attrs step st a = held_now step a.
Proof. exact process_spec. Qed.
Print Assumptions T08i_reprocessing.

Theorem T08i_history : forall (hist : list (bool * bool)) (st : dstate) (step : bool * bool) (a : attr),
  In a derived_attrs -> run_history clear_stats_attrs (hist ++ [step]) st a = held_now step a.
Proof. exact run_history_spec. Qed.
Print Assumptions T08i_history.

(* non-vacuity, and what goes wrong without the clearing step *)
Example T08i_example :
  run_history clear_stats_attrs [(true, true); (false, false)] (fun _ => false) (A_beta F_bootstrap_tTest) = false /\
  run_history [] [(true, true); (false, false)] (fun _ => false) (A_beta F_bootstrap_tTest) = true.
Proof. split; reflexivity. Qed.
