(* C18 -- MDCEV forecasts solve the consumer problem and model pieces agree.
   Property theorems only; each is closed by [exact] of a lemma proved in Proofs/MdcevP.v.

   U / D / Xopt are the closed forms of Model/Mdcev.v (four variants, outside good = gamma None,
   optional prices and scale); code_u / code_d / code_x are the functions translated on this run from
   /repo/src/biogeme/mdcev/{gamma_profile,translated,generalized,non_monotonic}.py (Gen/MdcevFormulas.v). *)
From Coq Require Import Reals QArith Qreals ZArith List Bool Lra.
From Coquelicot Require Import Coquelicot.
From BV Require Import Model.Expr Model.EvalX Model.Mdcev Gen.MdcevFormulas Proofs.MdcevP.
Import ListNotations.
Open Scope R_scope.

(* tie A: on the admissible domain x > lo the translated utility_one_alternative and
   derivative_utility_one_alternative are the closed forms U and D ... *)
Theorem T18_code_is_closed_form : forall v b scale price gamma alpha V mu x eps,
  lo v price gamma < x -> params_ok v price gamma alpha -> guards_u v gamma x -> (b = true -> x <> 0) ->
  code_u v b scale price gamma alpha V mu x eps = Val (U v scale price gamma alpha V mu x eps) /\
  code_d v b scale price gamma alpha V mu x eps = Val (D v scale price gamma alpha V mu x eps).
Proof. exact code_is_closed_form. Qed.
Print Assumptions T18_code_is_closed_form.

(* ... and the translated optimal_consumption_one_alternative is Xopt *)
Theorem T18_code_optimal_is_closed_form : forall v b scale price gamma alpha V mu lam eps,
  lam_ok v scale mu eps lam -> guards_x v scale alpha V lam eps ->
  code_x v b scale price gamma alpha V mu lam eps = Val (Xopt v scale price gamma alpha V mu lam eps).
Proof. exact code_optimal_is_closed_form. Qed.
Print Assumptions T18_code_optimal_is_closed_form.

(* non-vacuity: a GammaProfile inside good with price and scale at x = 3 *)
Example T18_closed_form_example :
  code_d VG false (Some 2) (Some 3) (Some 1) 0 0 0 3 0 = Val (exp (0 + 0 / 2) * 1 / (3 + 3 * 1)).
Proof. reflexivity. Qed.

(* T18a. the marginal utility is the derivative of the utility on the whole domain x > lo
   (lo = -price*gamma or -gamma; 0 for the outside good) *)
Theorem T18a_derivative : forall v scale price gamma alpha V mu eps x,
  params_ok v price gamma alpha -> lo v price gamma < x ->
  is_derive (fun x => U v scale price gamma alpha V mu x eps) x (D v scale price gamma alpha V mu x eps).
Proof. exact U_is_derive. Qed.
Print Assumptions T18a_derivative.

Theorem T18a_code_derivative : forall v scale price gamma alpha V mu eps x,
  params_ok v price gamma alpha -> lo v price gamma < x ->
  exists d, code_d v false scale price gamma alpha V mu x eps = Val d /\
            is_derive (fun x => U v scale price gamma alpha V mu x eps) x d.
Proof. exact code_derivative_is_derivative. Qed.
Print Assumptions T18a_code_derivative.

Example T18a_example : params_ok VZ (Some 2) (Some 3) (1 / 2) /\ lo VZ (Some 2) (Some 3) < 0.
Proof. unfold params_ok, lo, pr_of. repeat split; try lra. intros g [= <-]. lra. Qed.

(* T18b. the closed-form optimal consumption inverts the marginal utility, for every admissible dual
   variable (lam > 0; lam > mu + eps/scale for NonMonotonic); it always lies in the domain *)
Theorem T18b_inverse : forall v scale price gamma alpha V mu eps lam,
  params_ok v price gamma alpha -> lam_ok v scale mu eps lam ->
  lo v price gamma < Xopt v scale price gamma alpha V mu lam eps /\
  D v scale price gamma alpha V mu (Xopt v scale price gamma alpha V mu lam eps) eps = lam.
Proof. exact Xopt_inverts. Qed.
Print Assumptions T18b_inverse.

Theorem T18b_code_inverse : forall v scale price gamma alpha V mu eps lam,
  params_ok v price gamma alpha -> lam_ok v scale mu eps lam -> guards_x v scale alpha V lam eps ->
  exists x, code_x v false scale price gamma alpha V mu lam eps = Val x /\ lo v price gamma < x /\
            code_d v false scale price gamma alpha V mu x eps = Val lam.
Proof. exact code_optimal_inverts_derivative. Qed.
Print Assumptions T18b_code_inverse.

Example T18b_example : lam_ok VN (Some 2) 1 4 (7 / 2) /\ guards_x VN (Some 2) (1 / 2) 0 (7 / 2) 4.
Proof. unfold lam_ok, guards_x, sc_eps. split; [lra | exact I]. Qed.

(* T18c. concavity: the marginal utility is non-increasing on the domain *)
Theorem T18c_concave : forall v scale price gamma alpha V mu eps x y,
  params_ok v price gamma alpha -> lo v price gamma < x -> x <= y ->
  D v scale price gamma alpha V mu y eps <= D v scale price gamma alpha V mu x eps.
Proof. exact D_decreasing. Qed.
Print Assumptions T18c_concave.

(* hence every alternative of every variant satisfies the supporting-line inequality *)
Theorem T18c_supported : forall v scale price gamma alpha V mu eps,
  params_ok v price gamma alpha -> supported (variant_good v scale price gamma alpha V mu eps).
Proof. exact variant_supported. Qed.
Print Assumptions T18c_supported.

(* T18d. KKT sufficiency, general prices: an allocation x >= 0 that spends B, with
   u_k'(x_k) = lam p_k on the consumed goods and u_k'(0) <= lam p_k on the others, is at least as good as
   ANY feasible allocation that spends B (the brute-force optimiser's included) *)
Theorem T18d_kkt_sufficient : forall gs lam B xs ys,
  Forall supported gs -> feasible gs xs -> kkt_eps 0 lam gs xs -> spend gs xs = B ->
  feasible gs ys -> spend gs ys = B -> total_u gs ys <= total_u gs xs.
Proof. exact kkt_sufficient. Qed.
Print Assumptions T18d_kkt_sufficient.

(* the eps version used by the stream: marginal utilities within eps, budget within delta *)
Theorem T18d_kkt_eps_optimal : forall gs eps lam delta B xs ys,
  Forall supported gs -> 0 <= eps -> feasible gs xs -> kkt_eps eps lam gs xs ->
  Rabs (spend gs xs - B) <= delta -> feasible gs ys -> spend gs ys = B ->
  total_u gs ys <= total_u gs xs + Rabs lam * delta + eps * (2 * B + delta).
Proof. exact kkt_eps_optimal. Qed.
Print Assumptions T18d_kkt_eps_optimal.

(* non-vacuity: two linear-log goods, x = (1, 0) is KKT at lam = 1 with budget 1 *)
Example T18d_example :
  let g1 := variant_good VG None None (Some 1) 0 0 0 0 in       (* u = ln (1 + x),   u'(1) = 1/2 *)
  let g2 := variant_good VG None None (Some 1) 0 (ln (1 / 4)) 0 0 in  (* u'(0) = 1/4 *)
  feasible [g1; g2] [1; 0] /\ kkt_eps 0 (1 / 2) [g1; g2] [1; 0] /\ spend [g1; g2] [1; 0] = 1.
Proof.
  simpl. unfold lo, pr_of, D, sc_eps. rewrite !Rplus_0_r, exp_0, exp_ln by lra.
  repeat split; try lra.
Qed.

(* T18f (partial). the allocation returned by the bisection when its chosen set and root are right --
   closed-form consumption at lam on the chosen alternatives, zero elsewhere -- is optimal.  That the greedy
   identification and the bisection deliver such a set and root is numerical and only checked by the stream. *)
Theorem T18f_root_allocation_optimal_partial : forall (l : list (vgood * bool)) lam B ys,
  Forall (root_ok lam) l ->
  let gs := map (fun ac => good_of (fst ac)) l in
  let xs := map (alloc lam) l in
  spend gs xs = B -> feasible gs ys -> spend gs ys = B ->
  total_u gs ys <= total_u gs xs.
Proof. exact root_allocation_optimal. Qed.
Print Assumptions T18f_root_allocation_optimal_partial.

(* non-vacuity: one GammaProfile inside good chosen at lam = 1/2 (consumption exp 0 * 1 / (1/2) - 1 = 1),
   one unchosen with marginal utility 1/4 at zero *)
Example T18f_example :
  Forall (root_ok (1 / 2))
         [(mkVGood VG None None (Some 1) 0 0 0 0, true); (mkVGood VG None None (Some 1) 0 (ln (1 / 4)) 0 0, false)].
Proof.
  repeat constructor; unfold root_ok, vgood_ok, params_ok, lam_ok, vg_X, vg_D, Xopt, D, pr_of, sc_eps; simpl;
    rewrite ?Rplus_0_r, ?exp_0, ?exp_ln by lra; repeat split; try lra; try discriminate;
    intros g [= <-]; lra.
Qed.

(* T18e. the outside good is always consumed: the code returns np.inf for it at zero consumption, which
   no finite dual variable dominates; mathematically its marginal utility is unbounded near zero in all
   four variants, and zero is outside the feasible set (clo = 0 < x) *)
Theorem T18e_outside_good_code : forall scale price gamma alpha V mu eps lam,
  ~ res_le (gp_derivative true scale price gamma alpha V mu 0 eps) lam.
Proof. exact gp_outside_good_inf. Qed.
Print Assumptions T18e_outside_good_code.

Theorem T18e_outside_good_unbounded : forall v scale price alpha V mu eps lam,
  params_ok v price None alpha ->
  exists delta, 0 < delta /\ forall x, 0 < x < delta -> lam < D v scale price None alpha V mu x eps.
Proof. exact outside_good_unbounded. Qed.
Print Assumptions T18e_outside_good_unbounded.

Example T18e_example : params_ok VT None None (1 / 2) /\ params_ok VN None None (- (1 / 2)).
Proof. unfold params_ok, pr_of. repeat split; try lra; discriminate. Qed.

(* T18g. the symbolic utility used by validation() (the tree built by utility_expression_one_alternative,
   stream `trees`) evaluates to the closed form computed by the numeric utility *)
Theorem T18g_symbolic_equals_numeric :
  forall Phi v en Vx Mx scale_e price_e gamma_e alpha_e xe epsu vV vM scale price gamma alpha x eps,
  evalX Phi Vx en = XR vV -> evalX Phi Mx en = XR vM ->
  opt_val Phi en scale_e scale -> (forall s, scale = Some s -> s <> 0) ->
  opt_val Phi en price_e price -> opt_val Phi en gamma_e gamma ->
  alpha_val Phi en alpha_e alpha -> (v <> VG -> alpha_e <> ANone) ->
  evalX Phi xe en = XR x -> evalX Phi epsu en = XR eps ->
  params_ok v price gamma alpha -> lo v price gamma < x ->
  evalX Phi (uexpr v Vx Mx scale_e price_e gamma_e alpha_e xe epsu) en
  = XR (U v scale price gamma alpha vV vM x eps).
Proof. exact uexpr_value. Qed.
Print Assumptions T18g_symbolic_equals_numeric.

(* non-vacuity: GammaProfile inside good, gamma = Numeric(2), no price, no scale, at consumption 3 *)
Example T18g_example : forall Phi en,
  evalX Phi (uexpr VG (ENumZ 0) (ENumZ 0) None None (Some (ENumZ 2)) ANone (ENumZ 3) (ENumZ 0)) en
  = XR (U VG None None (Some 2) 0 0 0 3 0).
Proof.
  intros Phi en. apply uexpr_value; simpl; auto; try discriminate;
    try (unfold ENumZ; simpl; unfold D2R; simpl; f_equal; lra).
  all: try (unfold params_ok, pr_of; repeat split; try lra; intros g [= <-]; lra).
  all: try (unfold lo, pr_of; lra).
Qed.

(* T18h. labels.  Relabelling the alternatives by any map that is injective on the labels commutes with
   the table of marginal utilities at zero (the ordering key of the forecast) and with the consumption
   table -- for Translated, Generalized, NonMonotonic unconditionally; for GammaProfile when its
   outside-good test compares labels (gp_og_test_by_key, read from the source on this run) *)
Theorem T18h_labels_irrelevant_TZN : forall v scale m eps f, v <> VG -> injective_on f (keys m) ->
  w_table gp_og_test_by_key (code_d v) scale (relabel f m) eps
  = relabel_tab f (w_table gp_og_test_by_key (code_d v) scale m eps).
Proof. exact labels_irrelevant_TZN. Qed.
Print Assumptions T18h_labels_irrelevant_TZN.

(* all four variants, unconditionally, for the source as it is on this run (GammaProfile compares the label
   with outside_good_key; if it compared with the position again this theorem would no longer check) *)
Theorem T18h_labels_irrelevant : forall v scale m eps f, injective_on f (keys m) ->
  w_table gp_og_test_by_key (code_d v) scale (relabel f m) eps
  = relabel_tab f (w_table gp_og_test_by_key (code_d v) scale m eps).
Proof. exact labels_irrelevant. Qed.
Print Assumptions T18h_labels_irrelevant.

(* non-vacuity: labels 1,2,3 (outside good 2) relabelled 11,12,13 -- the former counterexample *)
Example T18h_example :
  injective_on (Z.add 10) (keys confusion_model) /\
  w_table gp_og_test_by_key gp_derivative None (relabel (Z.add 10) confusion_model) [0; 0; 0]
  = relabel_tab (Z.add 10) (w_table gp_og_test_by_key gp_derivative None confusion_model [0; 0; 0]).
Proof.
  assert (H : injective_on (Z.add 10) (keys confusion_model)) by (intros a b _ _ E; apply (Z.add_reg_l 10); exact E).
  split; [exact H | exact (labels_irrelevant VG None confusion_model [0; 0; 0] (Z.add 10) H)].
Qed.

Theorem T18h_labels_irrelevant_G_conditional : forall scale m eps f,
  gp_og_test_by_key = true -> injective_on f (keys m) ->
  w_table gp_og_test_by_key gp_derivative scale (relabel f m) eps
  = relabel_tab f (w_table gp_og_test_by_key gp_derivative scale m eps).
Proof. exact labels_irrelevant_G. Qed.
Print Assumptions T18h_labels_irrelevant_G_conditional.

Theorem T18h_consumption_table : forall opt scale m eps lam chosen f,
  injective_on f (keys m) -> (forall k, In k chosen -> In k (keys m)) ->
  consumption_table opt scale (relabel f m) eps lam (map f chosen)
  = relabel_tab f (consumption_table opt scale m eps lam chosen).
Proof. exact consumption_table_relabel. Qed.
Print Assumptions T18h_consumption_table.

(* Whenever GammaProfile compares the label with the *position* of the outside good, labels matter:
   labels 1,2,3 with the outside good labelled 2 (position 1) give alternative 1 the marginal utility
   +inf at zero; relabelled 11,12,13 they do not.  (The defect repaired by /repo 51eacb0: the hypothesis is
   false for the current source; kept so that the witness stays stated if the repair is reverted.) *)
Theorem T18h_label_position_confusion_refuted : gp_og_test_by_key = false ->
  injective_on (Z.add 10) (keys confusion_model) /\ NoDup (keys confusion_model) /\
  w_table gp_og_test_by_key gp_derivative None (relabel (Z.add 10) confusion_model) [0; 0; 0]
  <> relabel_tab (Z.add 10) (w_table gp_og_test_by_key gp_derivative None confusion_model [0; 0; 0]).
Proof. exact label_position_confusion_refuted. Qed.
Print Assumptions T18h_label_position_confusion_refuted.

(* T18i. the rational checker run by the forecast stream is sound: when it accepts the data
   (x_k, d_k, p_k), and d_k is the marginal utility of good k at x_k, the allocation is within
   |lam| delta + eps (2B + delta) of the optimum of the budget set *)
Theorem T18i_kkt_check_sound : forall gs l B lam eps delta,
  kkt_checkQ l B lam eps delta = true -> matches gs l ->
  let xs := map (fun t => Q2R (fst (fst t))) l in
  0 <= Q2R eps /\
  feasible gs xs /\ kkt_eps (Q2R eps) (Q2R lam) gs xs /\ Rabs (spend gs xs - Q2R B) <= Q2R delta.
Proof. exact kkt_checkQ_sound. Qed.
Print Assumptions T18i_kkt_check_sound.

Theorem T18i_kkt_check_eps_optimal : forall gs l B lam eps delta ys,
  Forall supported gs -> matches gs l -> kkt_checkQ l B lam eps delta = true ->
  feasible gs ys -> spend gs ys = Q2R B ->
  total_u gs ys <= total_u gs (map (fun t => Q2R (fst (fst t))) l)
                   + Rabs (Q2R lam) * Q2R delta + Q2R eps * (2 * Q2R B + Q2R delta).
Proof. exact kkt_check_eps_optimal. Qed.
Print Assumptions T18i_kkt_check_eps_optimal.

Example T18i_example :
  kkt_checkQ [((3 # 2)%Q, (1 # 2)%Q, 1%Q); (0%Q, (1 # 4)%Q, 1%Q)] (3 # 2) (1 # 2) (1 # 1000) (1 # 1000) = true.
Proof. vm_compute. reflexivity. Qed.

(* T18j. lower_bound_dual_variable (translated on this run, four variants) is exactly the infimum of the admissible
   dual variables of the chosen alternatives, given as the list of their (mu_k, eps_k): lam is above the bound
   iff lam > 0 (GammaProfile, Translated, Generalized) resp. lam > mu_k + eps_k/scale for every chosen k
   (NonMonotonic -- in particular NEGATIVE dual variables are inside the bracket when every mu_k + eps_k/scale
   is negative: a budget beyond the satiation point). *)
Theorem T18j_lower_bound_exact : forall v scale l lam,
  Rbar_lt (code_lb v scale l) (Finite lam)
  <-> (v <> VN -> 0 < lam) /\ Forall (fun me => lam_ok v scale (fst me) (snd me) lam) l.
Proof. exact lower_bound_exact. Qed.
Print Assumptions T18j_lower_bound_exact.

(* non-vacuity: two chosen NonMonotonic goods with mu + eps/scale = -1 and -3/2: the dual variable -1/2 is admissible *)
Example T18j_example : Rbar_lt (code_lb VN (Some 2) [(-2, 2); (-1, -1)]) (Finite (- (1 / 2))).
Proof.
  apply lower_bound_exact. split; [intros C; contradiction C; reflexivity|].
  repeat constructor; unfold lam_ok, sc_eps; simpl; lra.
Qed.
