(* C19 -- Sampled choice sets follow the protocol; full sampling equals the full model.
   Property theorems only; each is closed by [exact] of a lemma proved in Proofs/SamplingP.v. *)
From Coq Require Import ZArith List String Reals Permutation Lra Lia.
From BV Require Import Model.Sampling Gen.SamplingFormulas Proofs.SamplingP.
From BV Require Import Model.BuildersChoice Model.SamplingMev Proofs.ChoiceBase Proofs.ChoiceNested Proofs.ChoiceCnl Proofs.SamplingMevP.
Import ListNotations.
Open Scope Z_scope.

(* T19a. For EVERY outcome of the random generator (the oracle), the sample built by
   sample_alternatives lists the chosen alternative first, contains no alternative twice,
   contains from each stratum exactly the requested number of alternatives, each row belongs to a
   stratum and carries that stratum's correction ln(k/n) (and weight n/k). *)
Theorem T19a_sample_follows_protocol : forall strata c oracle,
  wf_strata strata -> In c (full_set strata) ->
  valid_sample strata c (sample_alternatives strata c oracle).
Proof. exact sample_follows_protocol. Qed.
Print Assumptions T19a_sample_follows_protocol.

Example T19a_example :
  sample_alternatives [([10; 11; 12], 2); ([13; 14], 1)] 11 [[5%nat]; [3%nat]]
  = [(11, Some (2, 3)); (12, Some (2, 3)); (14, Some (1, 2))].
Proof. vm_compute. reflexivity. Qed.

Theorem T19a_mev_sample_follows_protocol : forall strata oracle,
  wf_strata strata -> valid_mev_sample strata (sample_mev strata oracle).
Proof. exact mev_sample_follows_protocol. Qed.
Print Assumptions T19a_mev_sample_follows_protocol.

Example T19a_mev_example :
  sample_mev [([10; 11; 12], 2); ([13; 14], 1)] [[4%nat; 0%nat]; [1%nat]]
  = [(11, Some (2, 3)); (10, Some (2, 3)); (14, Some (1, 2))].
Proof. vm_compute. reflexivity. Qed.

(* the oracle model is complete: every duplicate-free ordered selection from the pool is the
   outcome of some oracle *)
Theorem T19a_draw_complete : forall l pool,
  NoDup l -> incl l pool -> exists rs, draw (List.length l) pool rs = l.
Proof. exact draw_complete. Qed.
Print Assumptions T19a_draw_complete.

(* T19b. The executable checker run by the stream on the implementation's output decides the
   protocol. *)
Theorem T19b_check_sample_iff : forall strata c rows,
  wf_strata strata -> (check_sample strata c rows = true <-> valid_sample strata c rows).
Proof. exact check_sample_iff. Qed.
Print Assumptions T19b_check_sample_iff.

Theorem T19b_check_mev_sample_iff : forall strata rows,
  wf_strata strata -> (check_mev_sample strata rows = true <-> valid_mev_sample strata rows).
Proof. exact check_mev_sample_iff. Qed.
Print Assumptions T19b_check_mev_sample_iff.

Theorem T19b_wf_strata_decided : forall strata, wf_stratab strata = true <-> wf_strata strata.
Proof. exact wf_stratab_spec. Qed.
Print Assumptions T19b_wf_strata_decided.

(* non-vacuity: the checker accepts a correct sample and rejects a duplicate / a wrong count /
   a wrong correction / a chosen alternative that is not first *)
Example T19b_example :
  let strata := [([10; 11; 12], 2); ([13; 14], 1)] in
  check_sample strata 11 [(11, Some (2, 3)); (12, Some (4, 6)); (14, Some (1, 2))] = true /\
  check_sample strata 11 [(11, Some (2, 3)); (11, Some (2, 3)); (14, Some (1, 2))] = false /\
  check_sample strata 11 [(11, Some (2, 3)); (14, Some (1, 2))] = false /\
  check_sample strata 11 [(11, Some (2, 3)); (12, Some (1, 3)); (14, Some (1, 2))] = false /\
  check_sample strata 11 [(12, Some (2, 3)); (11, Some (2, 3)); (14, Some (1, 2))] = false.
Proof. vm_compute. repeat split. Qed.

(* T19c. Combined variables: the expression defined for <pre><name>_<j> (the formula renamed by
   rename_elementary), evaluated on the flattened row, equals the original formula evaluated
   with the attributes it uses taken from the j-th sampled alternative and everything else from
   the individual's row. *)
Theorem T19c_combined_variable_correct :
  forall Phi en (columns : list string) pre (j : nat) (formula : expr)
         (sample : list table_row) (alt ind : table_row),
  let attrs := attrs_of formula columns in
  let row := (flatten pre sample ++ ind)%list in
  e_rows en = [] ->
  only_vars_renamed attrs formula = true ->
  NoDup (map fst (flatten pre sample)) -> NoDup (map fst alt) ->
  nth_error sample j = Some alt ->
  (forall a, In a attrs -> In a (map fst alt)) ->
  evalX Phi (combined_expr columns pre j formula) (with_row en (lookup_of row))
  = evalX Phi formula
      (with_row en (fun n => if mem_s n attrs then lookup_of alt n else lookup_of row n)).
Proof. exact combined_variable_correct. Qed.
Print Assumptions T19c_combined_variable_correct.

Theorem T19c_individual_columns_kept : forall pre sample ind n,
  ~ In n (map fst (flatten pre sample)) ->
  lookup_of (flatten pre sample ++ ind)%list n = lookup_of ind n.
Proof. exact merged_row_individual. Qed.
Print Assumptions T19c_individual_columns_kept.

Theorem T19c_rename_semantics : forall Phi f e en en',
  env_relv f en en' -> evalX Phi (rename_vars f e) en = evalX Phi e en'.
Proof. exact evalX_rename_vars. Qed.
Print Assumptions T19c_rename_semantics.

Example T19c_example :
  combined_expr ["alt_id"; "cost"]%string "_MEV_" 2
    (EBin Plus (EBin Times (EVar "age") (EVar "cost")) (EVar "inc"))
  = EBin Plus (EBin Times (EVar "age") (EVar "_MEV_cost_2")) (EVar "inc") /\
  flatten "" [[("alt_id", (5, 0)); ("cost", (3, -1))]; [("alt_id", (7, 0)); ("cost", (1, 2))]]%string
  = [("alt_id_0", (5, 0)); ("cost_0", (3, -1)); ("alt_id_1", (7, 0)); ("cost_1", (1, 2))]%string.
Proof. vm_compute. split; reflexivity. Qed.

(* T19d. Full sampling (k = n in every stratum): every valid sample -- in particular the one
   produced for any oracle, and any implementation output accepted by the checker -- is a
   permutation of the full choice set, all corrections vanish, and the logit on the sample with
   corrected utilities equals the logit on the full choice set; this is the value of the
   expression built by GenerateModel.get_logit. *)
Theorem T19d_full_sample_is_permutation : forall strata rows,
  wf_strata strata -> fully_sampled strata -> valid_mev_sample strata rows ->
  Permutation (ids rows) (full_set strata).
Proof. exact full_sample_permutation. Qed.
Print Assumptions T19d_full_sample_is_permutation.

Theorem T19d_full_sampling_loglik : forall Vf strata c rows,
  wf_strata strata -> fully_sampled strata -> valid_sample strata c rows ->
  sample_loglik Vf rows = loglogit_R Vf c (full_set strata).
Proof. exact full_sampling_loglik. Qed.
Print Assumptions T19d_full_sampling_loglik.

Theorem T19d_get_logit_value : forall Phi en u0 us w0 ws,
  utils_eval Phi en 0 (u0 :: us) (w0 :: ws) ->
  evalX Phi (logit_on_sample (u0 :: us)) en = XR (w0 - ln (sumexp (w0 :: ws))).
Proof. exact get_logit_value. Qed.
Print Assumptions T19d_get_logit_value.

Theorem T19d_full_sampling_equals_full_model : forall Phi en Vf strata c rows us,
  wf_strata strata -> fully_sampled strata -> valid_sample strata c rows ->
  utils_eval Phi en 0 us (map (fun r => (Vf (fst r) - row_corr r)%R) rows) ->
  evalX Phi (logit_on_sample us) en = XR (loglogit_R Vf c (full_set strata)).
Proof. exact full_sampling_equals_full_model. Qed.
Print Assumptions T19d_full_sampling_equals_full_model.

Example T19d_example :
  let strata := [([10; 11; 12], 3); ([13; 14], 2)] in
  check_sample strata 13 (sample_alternatives strata 13 [[7%nat; 2%nat]; [0%nat]]) = true /\
  ids (sample_alternatives strata 13 [[7%nat; 2%nat]; [0%nat]]) = [13; 11; 10; 12; 14] /\
  wf_stratab strata = true.
Proof. vm_compute. repeat split. Qed.

(* T19g / T19h.  Full sampling of the nested and of the cross-nested logit.  [t] is the expression
   built by GenerateModel.get_nested_logit / get_cross_nested_logit on the sample (Gallina mirrors
   in Model/SamplingMev.v, compared node for node with the Python trees by stream `full`), [l] the
   expression built by models.lognested / models.logcnl on the full choice set (mirrors of C05/C06 in
   Model/BuildersChoice.v).  When every stratum of both partitions is sampled completely -- whatever
   permutations the random generator produced ([rows], [mrows] are ANY valid samples) -- the two
   expressions have the same value.  Hypotheses: the flat row holds what T19a-T19c establish
   (sample_holds / alphas_hold: utilities evaluate to V(alternative), id, correction, weight and alpha
   columns); the nest parameters evaluate to non-zero reals (nests_ok / cnests_ok, alphas > 0); the full
   model is accepted by its validators ([lognested ... = Ok l]: nests pairwise disjoint, non-empty,
   inside the choice set, each listing an alternative once); every nest lies in the MEV partition.
   For the cross-nested logit a numeric nest parameter must be one on which Python's double arithmetic
   is exact (cnests_exact: (1/mu - 1) computed by the sample builder vs (1 - mu)/mu by cnl.py);
   trivially true for parameters given as expressions. *)
Theorem T19g_full_sampling_nested :
  forall Phi en Vf (U : dict expr) (a : nn_arg) strata mev c rows mrows idcol pre us j0 ums ch l t,
  wf_strata strata -> fully_sampled strata -> valid_sample strata c rows ->
  wf_strata mev -> fully_sampled mev -> valid_mev_sample mev mrows ->
  Permutation (keys U) (full_set strata) ->
  (forall k e, In (k, e) U -> evalX Phi e en = XR (Vf k)) ->
  nests_ok Phi en (nn_arg_nests a) ->
  (forall m, In m (nn_arg_nests a) -> incl (nn_alts m) (full_set mev)) ->
  sample_holds Phi en Vf "" idcol log_proba_col 0 (ids rows) (map row_corr rows) us ->
  sample_holds Phi en Vf pre idcol mev_weight_col j0 (ids mrows) (map row_weight mrows) ums ->
  pvX Phi en ch = XR (IZR c) ->
  lognested (pe_dict U) None a ch = Ok l ->
  get_nested_logit pre idcol us j0 ums (nn_arg_nests a) = Ok t ->
  evalX Phi t en = evalX Phi l en.
Proof. exact full_sampling_nested. Qed.
Print Assumptions T19g_full_sampling_nested.

Theorem T19h_full_sampling_cnl :
  forall Phi en Vf (U : dict expr) (a : cn_arg) (nests : list ncnest)
         strata mev c rows mrows idcol pre us j0 ums ch l t,
  wf_strata strata -> fully_sampled strata -> valid_sample strata c rows ->
  wf_strata mev -> fully_sampled mev -> valid_mev_sample mev mrows ->
  Permutation (keys U) (full_set strata) ->
  (forall k e, In (k, e) U -> evalX Phi e en = XR (Vf k)) ->
  map snd nests = cn_arg_nests a -> NoDup (map fst nests) ->
  cnests_ok Phi en (cn_arg_nests a) -> cnests_exact (cn_arg_nests a) ->
  (forall nm, In nm nests ->
     NoDup (keys (cn_alpha (snd nm))) /\ incl (keys (cn_alpha (snd nm))) (full_set mev)) ->
  sample_holds Phi en Vf "" idcol log_proba_col 0 (ids rows) (map row_corr rows) us ->
  alphas_hold en (alpha_of Phi en) "" nests 0 (ids rows) ->
  sample_holds Phi en Vf pre idcol mev_weight_col j0 (ids mrows) (map row_weight mrows) ums ->
  alphas_hold en (alpha_of Phi en) pre nests j0 (ids mrows) ->
  pvX Phi en ch = XR (IZR c) ->
  logcnl (pe_dict U) None a ch = Ok l ->
  get_cross_nested_logit pre us j0 ums nests = Ok t ->
  evalX Phi t en = evalX Phi l en.
Proof. exact full_sampling_cnl. Qed.
Print Assumptions T19h_full_sampling_cnl.

(* non-vacuity of T19g / T19h: two alternatives 1, 2 in one stratum sampled completely (the generator
   returned them in the order 2, 1 in the MEV sample), one nest {1, 2} with parameter mu = 2 *)
Fixpoint assocR (n : string) (l : list (string * R)) : option R :=
  match l with [] => None | (k, v) :: r => if String.eqb n k then Some v else assocR n r end.
Definition ex_rows : list srow := [(1, Some (2, 2)); (2, Some (2, 2))].
Definition ex_mrows : list srow := [(2, Some (2, 2)); (1, Some (2, 2))].
Definition ex_strata : list stratum := [([1; 2], 2)].
Definition ex_vars : list (string * R) :=
  [("v_0", IZR 1); ("v_1", IZR 2); ("alt_id_0", IZR 1); ("alt_id_1", IZR 2);
   ("_log_proba_0", corr_value (2, 2)); ("_log_proba_1", corr_value (2, 2));
   ("_MEV_v_0", IZR 2); ("_MEV_v_1", IZR 1); ("_MEV_alt_id_0", IZR 2); ("_MEV_alt_id_1", IZR 1);
   ("_MEV__mev_weight_0", weight_value (2, 2)); ("_MEV__mev_weight_1", weight_value (2, 2));
   ("_CNL_n1_0", D2R d_one); ("_CNL_n1_1", D2R d_one);
   ("_MEV__CNL_n1_0", D2R d_one); ("_MEV__CNL_n1_1", D2R d_one);
   ("V1", IZR 1); ("V2", IZR 2)]%string.
Definition ex_en : env :=
  mkEnv (fun n => if String.eqb n "mu" then Some 2%R else None) (fun n => assocR n ex_vars)
        (fun _ => None) (fun _ => None) [] [].
Definition ex_U : dict expr := [(1, EVar "V1"); (2, EVar "V2")].
Definition ex_us : list expr := [EVar "v_0"; EVar "v_1"].
Definition ex_ums : list expr := [EVar "_MEV_v_0"; EVar "_MEV_v_1"].
Definition ex_nn : nn_arg := NNObj [1; 2] [mkNN (PE (EBeta "mu" false)) [1; 2]].
Definition ex_cn : cn_arg := CNObj [1; 2] [mkCN (PE (EBeta "mu" false)) [(1, PN d_one); (2, PN d_one)]].
Definition ex_ncn : list ncnest := [("n1"%string, mkCN (PE (EBeta "mu" false)) [(1, PN d_one); (2, PN d_one)])].

Example T19g_example : forall Phi,
  wf_strata ex_strata /\ fully_sampled ex_strata /\ valid_sample ex_strata 1 ex_rows /\
  valid_mev_sample ex_strata ex_mrows /\
  Permutation (keys ex_U) (full_set ex_strata) /\
  (forall k e, In (k, e) ex_U -> evalX Phi e ex_en = XR (IZR k)) /\
  nests_ok Phi ex_en (nn_arg_nests ex_nn) /\
  (forall m, In m (nn_arg_nests ex_nn) -> incl (nn_alts m) (full_set ex_strata)) /\
  sample_holds Phi ex_en IZR "" "alt_id" log_proba_col 0 (ids ex_rows) (map row_corr ex_rows) ex_us /\
  sample_holds Phi ex_en IZR mev_prefix "alt_id" mev_weight_col 0 (ids ex_mrows) (map row_weight ex_mrows) ex_ums /\
  pvX Phi ex_en (PN d_one) = XR (IZR 1) /\
  (exists l, lognested (pe_dict ex_U) None ex_nn (PN d_one) = Ok l) /\
  (exists t, get_nested_logit mev_prefix "alt_id" ex_us 0 ex_ums (nn_arg_nests ex_nn) = Ok t).
Proof.
  intros Phi.
  assert (Hwf : wf_strata ex_strata) by (apply wf_stratab_spec; reflexivity).
  split; [exact Hwf|]. split; [repeat constructor|].
  split; [apply (check_sample_iff _ _ _ Hwf); reflexivity|].
  split; [apply (check_mev_sample_iff _ _ Hwf); reflexivity|].
  split; [apply Permutation_refl|].
  split; [intros k e [[= <- <-]|[[= <- <-]|[]]]; reflexivity|].
  split; [intros m [<-|[]]; exists 2%R; split; [reflexivity | lra]|].
  split; [intros m [<-|[]]; apply incl_refl|].
  split; [simpl; repeat split; reflexivity|].
  split; [simpl; repeat split; reflexivity|].
  split; [unfold pvX; simpl; now rewrite D2R_one|].
  split; [eexists; vm_compute; reflexivity|].
  eexists; vm_compute; reflexivity.
Qed.

Example T19h_example : forall Phi,
  map snd ex_ncn = cn_arg_nests ex_cn /\ NoDup (map fst ex_ncn) /\
  cnests_ok Phi ex_en (cn_arg_nests ex_cn) /\ cnests_exact (cn_arg_nests ex_cn) /\
  (forall nm, In nm ex_ncn ->
     NoDup (keys (cn_alpha (snd nm))) /\ incl (keys (cn_alpha (snd nm))) (full_set ex_strata)) /\
  alphas_hold ex_en (alpha_of Phi ex_en) "" ex_ncn 0 (ids ex_rows) /\
  alphas_hold ex_en (alpha_of Phi ex_en) mev_prefix ex_ncn 0 (ids ex_mrows) /\
  (exists l, logcnl (pe_dict ex_U) None ex_cn (PN d_one) = Ok l) /\
  (exists t, get_cross_nested_logit mev_prefix ex_us 0 ex_ums ex_ncn = Ok t).
Proof.
  intros Phi.
  split; [reflexivity|]. split; [repeat constructor; simpl; tauto|].
  split.
  { intros m [<-|[]]. split.
    - exists 2%R. split; [reflexivity | lra].
    - intros j p [[= <- <-]|[[= <- <-]|[]]]; exists (D2R d_one); (split; [reflexivity | rewrite D2R_one; lra]). }
  split; [intros m [<-|[]]; exact I|].
  split; [intros nm [<-|[]]; split; [repeat constructor; simpl; intuition lia | apply incl_refl]|].
  split; [simpl; repeat split; intros nm [<-|[]]; reflexivity|].
  split; [simpl; repeat split; intros nm [<-|[]]; reflexivity|].
  split; [eexists; vm_compute; reflexivity|].
  eexists; vm_compute; reflexivity.
Qed.

(* the two theorems applied to the instance: the values coincide *)
Example T19gh_instance : forall Phi l t l' t',
  lognested (pe_dict ex_U) None ex_nn (PN d_one) = Ok l ->
  get_nested_logit mev_prefix "alt_id" ex_us 0 ex_ums (nn_arg_nests ex_nn) = Ok t ->
  logcnl (pe_dict ex_U) None ex_cn (PN d_one) = Ok l' ->
  get_cross_nested_logit mev_prefix ex_us 0 ex_ums ex_ncn = Ok t' ->
  evalX Phi t ex_en = evalX Phi l ex_en /\ evalX Phi t' ex_en = evalX Phi l' ex_en.
Proof.
  intros Phi l t l' t' E1 E2 E3 E4.
  destruct (T19g_example Phi) as (H1 & H2 & H3 & H4 & H5 & H6 & H7 & H8 & H9 & H10 & H11 & _).
  destruct (T19h_example Phi) as (G1 & G2 & G3 & G4 & G5 & G6 & G7 & _).
  split.
  - exact (T19g_full_sampling_nested Phi ex_en IZR ex_U ex_nn ex_strata ex_strata 1 ex_rows ex_mrows "alt_id"
             mev_prefix ex_us 0%nat ex_ums (PN d_one) l t H1 H2 H3 H1 H2 H4 H5 H6 H7 H8 H9 H10 H11 E1 E2).
  - exact (T19h_full_sampling_cnl Phi ex_en IZR ex_U ex_cn ex_ncn ex_strata ex_strata 1 ex_rows ex_mrows "alt_id"
             mev_prefix ex_us 0%nat ex_ums (PN d_one) l' t' H1 H2 H3 H1 H2 H4 H5 H6 G1 G2 G3 G4 G5 H9 G6 H10 G7 H11 E3 E4).
Qed.

(* A nest whose list repeats an alternative is refused by the validators of nests.py (models.lognested
   raises BiogemeError = Err 1) although the sample builder would build an expression: this is why T19g
   needs no separate "each nest lists an alternative once" hypothesis (it follows from [lognested = Ok]).
   Before the repair of the validators the two log likelihoods differed on this witness (the nest sum of
   lognested counted the alternative twice); replayed on the implementation by
   corpus/C19/full_nest_repeats_alternative.json. *)
Theorem T19g_nest_repeating_an_alternative_refused :
  (forall ch, lognested (pe_dict rf_U) None rf_nn ch = Err 1) /\
  exists t, get_nested_logit mev_prefix "alt_id" rf_us 0 rf_ums (nn_arg_nests rf_nn) = Ok t.
Proof. exact nested_repeated_alternative_refused. Qed.
Print Assumptions T19g_nest_repeating_an_alternative_refused.

(* the closed form of the sample builder alone (no reference to the full model): on the sample a nest
   is the SET of its alternatives *)
Theorem T19g_sampled_nested_value :
  forall Phi en Vf strata mev c rows mrows idcol pre us j0 ums (nests : list nnest) t,
  wf_strata strata -> fully_sampled strata -> valid_sample strata c rows ->
  wf_strata mev -> fully_sampled mev -> valid_mev_sample mev mrows ->
  pairwise_disjoint (map nn_alts nests) = true -> (forall m, In m nests -> nn_alts m <> []) ->
  nests_ok Phi en nests ->
  (forall m, In m nests -> incl (nn_alts m) (full_set mev)) ->
  sample_holds Phi en Vf "" idcol log_proba_col 0 (ids rows) (map row_corr rows) us ->
  sample_holds Phi en Vf pre idcol mev_weight_col j0 (ids mrows) (map row_weight mrows) ums ->
  get_nested_logit pre idcol us j0 ums nests = Ok t ->
  let h := hsample Phi en Vf nests (full_set mev) in
  evalX Phi t en = XR (h c - ln (sumexp (map h (ids rows)))).
Proof. exact sampled_nested_value. Qed.
Print Assumptions T19g_sampled_nested_value.

(* T19e. Validation: Partition(...) accepts exactly the partitions of its (effective) full set;
   check_partition accepts exactly the strata that are non-empty, with 0 <> k <= n and known
   alternatives; a validated configuration with non-negative sizes satisfies the hypotheses of
   T19a-T19d. *)
Theorem T19e_partition_accepts_iff : forall segments full,
  partition_accepts segments full = true <-> is_partition segments (effective_full segments full).
Proof. exact partition_accepts_iff. Qed.
Print Assumptions T19e_partition_accepts_iff.

Theorem T19e_check_partition_accepts_iff : forall table strata,
  check_partition_accepts table strata = true <->
  Forall (fun s : stratum => fst s <> [] /\ snd s <= lenZ (fst s) /\ snd s <> 0 /\ incl (fst s) table) strata.
Proof. exact check_partition_accepts_iff. Qed.
Print Assumptions T19e_check_partition_accepts_iff.

Theorem T19e_validated_strata_wf : forall table strata full,
  partition_accepts (map fst strata) full = true ->
  check_partition_accepts table strata = true ->
  Forall (fun s : stratum => NoDup (fst s) /\ 0 <= snd s) strata ->
  wf_strata strata.
Proof. exact validated_strata_wf. Qed.
Print Assumptions T19e_validated_strata_wf.

(* the sample size is not checked for sign by check_partition (pandas refuses it later) *)
Theorem T19e_negative_size_not_refused_partial :
  check_partition_accepts [1] [([1], -1)] = true /\ ~ wf_strata [([1], -1)].
Proof. exact check_partition_accepts_negative_size. Qed.
Print Assumptions T19e_negative_size_not_refused_partial.

Example T19e_example :
  partition_accepts [[1; 2]; [3]] [1; 2; 3] = true /\ partition_accepts [[1; 2]; [2; 3]] [1; 2; 3] = false /\
  partition_accepts [[1; 2]; [3]] [1; 2; 3; 4] = false /\ partition_accepts [[1; 2]; []] [1; 2] = false /\
  check_partition_accepts [1; 2; 3] [([1; 2], 2); ([3], 1)] = true /\
  check_partition_accepts [1; 2; 3] [([1; 2], 3)] = false /\ check_partition_accepts [1; 2] [([1; 2; 3], 1)] = false.
Proof. vm_compute. repeat split. Qed.

(* T19f (tie A). About the definitions regenerated from the source on every run. *)
Theorem T19f_generate_segment_size_spec : forall s m,
  0 <= s -> 0 < m ->
  exists l, generate_segment_size s m = Some l /\
    lenZ l = m /\ sumZ l = s /\ (forall x, In x l -> x = s / m \/ x = s / m + 1) /\
    (forall i j, (i < j)%nat -> nth j l 0 <= nth i l 0).
Proof. exact generate_segment_size_spec. Qed.
Print Assumptions T19f_generate_segment_size_spec.

Theorem T19f_generate_segment_size_refuses : forall s m,
  s < 0 \/ m <= 0 -> generate_segment_size s m = None.
Proof. exact generate_segment_size_refuses. Qed.
Print Assumptions T19f_generate_segment_size_refuses.

Example T19f_example : generate_segment_size 10 4 = Some [3; 3; 2; 2].
Proof. vm_compute. reflexivity. Qed.

Theorem T19f_formulas : forall k n,
  0 < k -> 0 < n ->
  corr_value (k, n) = logproba_formula (IZR k) (IZR n) /\
  weight_value (k, n) = mev_weight_formula (IZR k) (IZR n) /\
  (forall c sub rs, memZ c sub = true ->
     List.length (stratum_sample c (sub, k) rs)
     = List.length (draw (Z.to_nat (sample_size_in_chosen_stratum k)) (removeZ c sub) rs)).
Proof. exact tie_formulas. Qed.
Print Assumptions T19f_formulas.

Theorem T19f_column_names : forall a j,
  flat_name a (dec j) = colname "" a j /\ mev_flat_name a (dec j) = colname mev_prefix a j /\
  LOG_PROBA_COL = log_proba_col /\ MEV_WEIGHT = mev_weight_col /\ MEV_PREFIX = mev_prefix.
Proof. exact column_names_spec. Qed.
Print Assumptions T19f_column_names.
