(* C19 -- Sampled choice sets follow the protocol; full sampling equals the full model.
   Property theorems only; each is closed by [exact] of a lemma proved in Proofs/SamplingP.v. *)
From Coq Require Import ZArith List String Reals Permutation.
From BV Require Import Model.Sampling Gen.SamplingFormulas Proofs.SamplingP.
Import ListNotations.
Open Scope Z_scope.

(* T19a. For EVERY outcome of the random generator (the oracle), the sample built by
   sample_alternatives lists the chosen alternative first, contains no alternative twice,
   contains from each stratum exactly the requested number of alternatives, each row belongs to a
   stratum and carries that stratum's correction ln(k/n) (and weight n/k). *)
Theorem T19a_sample_follows_protocol : forall strata c oracle,
  wf_strata strata -> In c (full_set strata) ->
  valid_sample strata c (sample_alternatives strata c oracle).
Proof. exact sample_follows_protocol. Qed.
Print Assumptions T19a_sample_follows_protocol.

Example T19a_example :
  sample_alternatives [([10; 11; 12], 2); ([13; 14], 1)] 11 [[5%nat]; [3%nat]]
  = [(11, Some (2, 3)); (12, Some (2, 3)); (14, Some (1, 2))].
Proof. vm_compute. reflexivity. Qed.

Theorem T19a_mev_sample_follows_protocol : forall strata oracle,
  wf_strata strata -> valid_mev_sample strata (sample_mev strata oracle).
Proof. exact mev_sample_follows_protocol. Qed.
Print Assumptions T19a_mev_sample_follows_protocol.

Example T19a_mev_example :
  sample_mev [([10; 11; 12], 2); ([13; 14], 1)] [[4%nat; 0%nat]; [1%nat]]
  = [(11, Some (2, 3)); (10, Some (2, 3)); (14, Some (1, 2))].
Proof. vm_compute. reflexivity. Qed.

(* the oracle model is complete: every duplicate-free ordered selection from the pool is the
   outcome of some oracle *)
Theorem T19a_draw_complete : forall l pool,
  NoDup l -> incl l pool -> exists rs, draw (List.length l) pool rs = l.
Proof. exact draw_complete. Qed.
Print Assumptions T19a_draw_complete.

(* T19b. The executable checker run by the stream on the implementation's output decides the
   protocol. *)
Theorem T19b_check_sample_iff : forall strata c rows,
  wf_strata strata -> (check_sample strata c rows = true <-> valid_sample strata c rows).
Proof. exact check_sample_iff. Qed.
Print Assumptions T19b_check_sample_iff.

Theorem T19b_check_mev_sample_iff : forall strata rows,
  wf_strata strata -> (check_mev_sample strata rows = true <-> valid_mev_sample strata rows).
Proof. exact check_mev_sample_iff. Qed.
Print Assumptions T19b_check_mev_sample_iff.

Theorem T19b_wf_strata_decided : forall strata, wf_stratab strata = true <-> wf_strata strata.
Proof. exact wf_stratab_spec. Qed.
Print Assumptions T19b_wf_strata_decided.

(* non-vacuity: the checker accepts a correct sample and rejects a duplicate / a wrong count /
   a wrong correction / a chosen alternative that is not first *)
Example T19b_example :
  let strata := [([10; 11; 12], 2); ([13; 14], 1)] in
  check_sample strata 11 [(11, Some (2, 3)); (12, Some (4, 6)); (14, Some (1, 2))] = true /\
  check_sample strata 11 [(11, Some (2, 3)); (11, Some (2, 3)); (14, Some (1, 2))] = false /\
  check_sample strata 11 [(11, Some (2, 3)); (14, Some (1, 2))] = false /\
  check_sample strata 11 [(11, Some (2, 3)); (12, Some (1, 3)); (14, Some (1, 2))] = false /\
  check_sample strata 11 [(12, Some (2, 3)); (11, Some (2, 3)); (14, Some (1, 2))] = false.
Proof. vm_compute. repeat split. Qed.

(* T19c. Combined variables: the expression defined for <pre><name>_<j> (the formula renamed by
   rename_elementary), evaluated on the flattened row, equals the original formula evaluated
   with the attributes it uses taken from the j-th sampled alternative and everything else from
   the individual's row. *)
Theorem T19c_combined_variable_correct :
  forall Phi en (columns : list string) pre (j : nat) (formula : expr)
         (sample : list table_row) (alt ind : table_row),
  let attrs := attrs_of formula columns in
  let row := (flatten pre sample ++ ind)%list in
  e_rows en = [] ->
  only_vars_renamed attrs formula = true ->
  NoDup (map fst (flatten pre sample)) -> NoDup (map fst alt) ->
  nth_error sample j = Some alt ->
  (forall a, In a attrs -> In a (map fst alt)) ->
  evalX Phi (combined_expr columns pre j formula) (with_row en (lookup_of row))
  = evalX Phi formula
      (with_row en (fun n => if mem_s n attrs then lookup_of alt n else lookup_of row n)).
Proof. exact combined_variable_correct. Qed.
Print Assumptions T19c_combined_variable_correct.

Theorem T19c_individual_columns_kept : forall pre sample ind n,
  ~ In n (map fst (flatten pre sample)) ->
  lookup_of (flatten pre sample ++ ind)%list n = lookup_of ind n.
Proof. exact merged_row_individual. Qed.
Print Assumptions T19c_individual_columns_kept.

Theorem T19c_rename_semantics : forall Phi f e en en',
  env_relv f en en' -> evalX Phi (rename_vars f e) en = evalX Phi e en'.
Proof. exact evalX_rename_vars. Qed.
Print Assumptions T19c_rename_semantics.

Example T19c_example :
  combined_expr ["alt_id"; "cost"]%string "_MEV_" 2
    (EBin Plus (EBin Times (EVar "age") (EVar "cost")) (EVar "inc"))
  = EBin Plus (EBin Times (EVar "age") (EVar "_MEV_cost_2")) (EVar "inc") /\
  flatten "" [[("alt_id", (5, 0)); ("cost", (3, -1))]; [("alt_id", (7, 0)); ("cost", (1, 2))]]%string
  = [("alt_id_0", (5, 0)); ("cost_0", (3, -1)); ("alt_id_1", (7, 0)); ("cost_1", (1, 2))]%string.
Proof. vm_compute. split; reflexivity. Qed.

(* T19d. Full sampling (k = n in every stratum): every valid sample -- in particular the one
   produced for any oracle, and any implementation output accepted by the checker -- is a
   permutation of the full choice set, all corrections vanish, and the logit on the sample with
   corrected utilities equals the logit on the full choice set; this is the value of the
   expression built by GenerateModel.get_logit. *)
Theorem T19d_full_sample_is_permutation : forall strata rows,
  wf_strata strata -> fully_sampled strata -> valid_mev_sample strata rows ->
  Permutation (ids rows) (full_set strata).
Proof. exact full_sample_permutation. Qed.
Print Assumptions T19d_full_sample_is_permutation.

Theorem T19d_full_sampling_loglik : forall Vf strata c rows,
  wf_strata strata -> fully_sampled strata -> valid_sample strata c rows ->
  sample_loglik Vf rows = loglogit_R Vf c (full_set strata).
Proof. exact full_sampling_loglik. Qed.
Print Assumptions T19d_full_sampling_loglik.

Theorem T19d_get_logit_value : forall Phi en u0 us w0 ws,
  utils_eval Phi en 0 (u0 :: us) (w0 :: ws) ->
  evalX Phi (logit_on_sample (u0 :: us)) en = XR (w0 - ln (sumexp (w0 :: ws))).
Proof. exact get_logit_value. Qed.
Print Assumptions T19d_get_logit_value.

Theorem T19d_full_sampling_equals_full_model : forall Phi en Vf strata c rows us,
  wf_strata strata -> fully_sampled strata -> valid_sample strata c rows ->
  utils_eval Phi en 0 us (map (fun r => (Vf (fst r) - row_corr r)%R) rows) ->
  evalX Phi (logit_on_sample us) en = XR (loglogit_R Vf c (full_set strata)).
Proof. exact full_sampling_equals_full_model. Qed.
Print Assumptions T19d_full_sampling_equals_full_model.

Example T19d_example :
  let strata := [([10; 11; 12], 3); ([13; 14], 2)] in
  check_sample strata 13 (sample_alternatives strata 13 [[7%nat; 2%nat]; [0%nat]]) = true /\
  ids (sample_alternatives strata 13 [[7%nat; 2%nat]; [0%nat]]) = [13; 11; 10; 12; 14] /\
  wf_stratab strata = true.
Proof. vm_compute. repeat split. Qed.

(* T19e. Validation: Partition(...) accepts exactly the partitions of its (effective) full set;
   check_partition accepts exactly the strata that are non-empty, with 0 <> k <= n and known
   alternatives; a validated configuration with non-negative sizes satisfies the hypotheses of
   T19a-T19d. *)
Theorem T19e_partition_accepts_iff : forall segments full,
  partition_accepts segments full = true <-> is_partition segments (effective_full segments full).
Proof. exact partition_accepts_iff. Qed.
Print Assumptions T19e_partition_accepts_iff.

Theorem T19e_check_partition_accepts_iff : forall table strata,
  check_partition_accepts table strata = true <->
  Forall (fun s : stratum => fst s <> [] /\ snd s <= lenZ (fst s) /\ snd s <> 0 /\ incl (fst s) table) strata.
Proof. exact check_partition_accepts_iff. Qed.
Print Assumptions T19e_check_partition_accepts_iff.

Theorem T19e_validated_strata_wf : forall table strata full,
  partition_accepts (map fst strata) full = true ->
  check_partition_accepts table strata = true ->
  Forall (fun s : stratum => NoDup (fst s) /\ 0 <= snd s) strata ->
  wf_strata strata.
Proof. exact validated_strata_wf. Qed.
Print Assumptions T19e_validated_strata_wf.

(* the sample size is not checked for sign by check_partition (pandas refuses it later) *)
Theorem T19e_negative_size_not_refused_partial :
  check_partition_accepts [1] [([1], -1)] = true /\ ~ wf_strata [([1], -1)].
Proof. exact check_partition_accepts_negative_size. Qed.
Print Assumptions T19e_negative_size_not_refused_partial.

Example T19e_example :
  partition_accepts [[1; 2]; [3]] [1; 2; 3] = true /\ partition_accepts [[1; 2]; [2; 3]] [1; 2; 3] = false /\
  partition_accepts [[1; 2]; [3]] [1; 2; 3; 4] = false /\ partition_accepts [[1; 2]; []] [1; 2] = false /\
  check_partition_accepts [1; 2; 3] [([1; 2], 2); ([3], 1)] = true /\
  check_partition_accepts [1; 2; 3] [([1; 2], 3)] = false /\ check_partition_accepts [1; 2] [([1; 2; 3], 1)] = false.
Proof. vm_compute. repeat split. Qed.

(* T19f (tie A). About the definitions regenerated from the source on every run. *)
Theorem T19f_generate_segment_size_spec : forall s m,
  0 <= s -> 0 < m ->
  exists l, generate_segment_size s m = Some l /\
    lenZ l = m /\ sumZ l = s /\ (forall x, In x l -> x = s / m \/ x = s / m + 1) /\
    (forall i j, (i < j)%nat -> nth j l 0 <= nth i l 0).
Proof. exact generate_segment_size_spec. Qed.
Print Assumptions T19f_generate_segment_size_spec.

Theorem T19f_generate_segment_size_refuses : forall s m,
  s < 0 \/ m <= 0 -> generate_segment_size s m = None.
Proof. exact generate_segment_size_refuses. Qed.
Print Assumptions T19f_generate_segment_size_refuses.

Example T19f_example : generate_segment_size 10 4 = Some [3; 3; 2; 2].
Proof. vm_compute. reflexivity. Qed.

Theorem T19f_formulas : forall k n,
  0 < k -> 0 < n ->
  corr_value (k, n) = logproba_formula (IZR k) (IZR n) /\
  weight_value (k, n) = mev_weight_formula (IZR k) (IZR n) /\
  (forall c sub rs, memZ c sub = true ->
     List.length (stratum_sample c (sub, k) rs)
     = List.length (draw (Z.to_nat (sample_size_in_chosen_stratum k)) (removeZ c sub) rs)).
Proof. exact tie_formulas. Qed.
Print Assumptions T19f_formulas.

Theorem T19f_column_names : forall a j,
  flat_name a (dec j) = colname "" a j /\ mev_flat_name a (dec j) = colname mev_prefix a j /\
  LOG_PROBA_COL = log_proba_col /\ MEV_WEIGHT = mev_weight_col /\ MEV_PREFIX = mev_prefix.
Proof. exact column_names_spec. Qed.
Print Assumptions T19f_column_names.
