(* C03 -- parameters are identified by name everywhere, never by position of appearance.
   (theorems are added as Proofs/IdMgrP.v lands) *)
From BV Require Import Model.Expr Model.IdMgr.
Open Scope string_scope.

(* sorted(dict) on the names met in any order: canonical list (non-vacuity example) *)
Theorem T03_sorted_example :
  sorted_names ["B_z"; "a9"; "B_10"; "b_2"; "a9"] = ["B_10"; "B_z"; "a9"; "b_2"]
  /\ sorted_names ["b_2"; "a9"; "B_10"; "B_z"] = ["B_10"; "B_z"; "a9"; "b_2"].
Proof. vm_compute. split; reflexivity. Qed.
Print Assumptions T03_sorted_example.
