(* C03 -- parameters are identified by name everywhere, never by position of appearance. *)
From Coq Require Import Reals Permutation Sorting.Sorted.
From BV Require Import Model.Expr Model.IdMgr Model.EvalX Proofs.IdMgrP.
Open Scope string_scope.

(* non-vacuity: sorted(dict) on names met in two different orders *)
Example T03_sorted_example :
  sorted_names ["B_z"; "a9"; "B_10"; "b_2"; "a9"] = ["B_10"; "B_z"; "a9"; "b_2"]
  /\ sorted_names ["b_2"; "a9"; "B_10"; "B_z"] = ["B_10"; "B_z"; "a9"; "b_2"].
Proof. vm_compute. split; reflexivity. Qed.

(* T03a. The reported list of names of a class is strictly sorted, without duplicates, and
   contains exactly the names used; the numbering is a bijection names <-> [0,n). *)
Theorem T03a_numbering_sorted : forall l : list string,
  StronglySorted slt (sorted_names l) /\ NoDup (sorted_names l) /\ (forall x, In x (sorted_names l) <-> In x l).
Proof. intro l. split; [apply sorted_names_sorted|split; [apply sorted_names_NoDup|intro x; apply sorted_names_In]]. Qed.
Print Assumptions T03a_numbering_sorted.

Theorem T03a_numbering_bijection : forall (x : string) (l : list string) (i : nat),
  NoDup l -> index_of x l = Some (Z.of_nat i) <-> nth_error l i = Some x.
Proof. exact index_of_nth_error. Qed.
Print Assumptions T03a_numbering_bijection.

(* T03d. The id table does not depend on the order in which parameters are met / formulas are given. *)
Theorem T03d_order_of_appearance_irrelevant : forall l l' : list string,
  (forall x : string, In x l <-> In x l') -> sorted_names l = sorted_names l'.
Proof. exact sorted_names_canonical. Qed.
Print Assumptions T03d_order_of_appearance_irrelevant.

Theorem T03d_formula_order_irrelevant : forall (fs fs' : list expr) (cols : list string),
  Permutation fs fs' -> prepare fs cols = prepare fs' cols.
Proof. exact prepare_perm. Qed.
Print Assumptions T03d_formula_order_irrelevant.

(* T03c. Renaming all parameters through any map rho: the numbering is transported, and every
   value handed over by position stays attached to its (renamed) name. *)
Theorem T03c_rename_numbering : forall (rho : string -> string) (k : ekind) (fs : list expr),
  beta_kind k -> collect k (map (rename rho) fs) = sorted_names (map rho (collect k fs)).
Proof. exact collect_rename. Qed.
Print Assumptions T03c_rename_numbering.

Theorem T03c_values_follow_names :
  forall (rho : string -> string) (fs : list expr) (cols : list string) (t t' : idtable)
         (vals vals' : string -> option R),
    prepare fs cols = Some t -> prepare (map (rename rho) fs) cols = Some t' ->
    (forall n : string, vals' (rho n) = vals n) ->
    t_rv t' = t_rv t /\ t_draws t' = t_draws t /\ t_vars t' = t_vars t /\
    (forall (n : string) (i : Z), index_of n (t_free t) = Some i ->
       exists j : Z, index_of (rho n) (t_free t') = Some j /\
         nth_error (vector vals' (t_free t')) (Z.to_nat j) = nth_error (vector vals (t_free t)) (Z.to_nat i)) /\
    (forall (n : string) (i : Z), index_of n (t_fixed t) = Some i ->
       exists j : Z, index_of (rho n) (t_fixed t') = Some j /\
         nth_error (vector vals' (t_fixed t')) (Z.to_nat j) = nth_error (vector vals (t_fixed t)) (Z.to_nat i)).
Proof. intros; eapply prepare_rename_follows; eassumption. Qed.
Print Assumptions T03c_values_follow_names.

(* ... and the value of every formula (hence every log likelihood) is unchanged. *)
Theorem T03c_value_invariant_under_renaming :
  forall (Phi : R -> R) (rho : string -> string) (e : expr) (en en' : env),
    env_ren rho en en' -> evalX Phi (rename rho e) en' = evalX Phi e en.
Proof. exact evalX_rename. Qed.
Print Assumptions T03c_value_invariant_under_renaming.

(* T03h. A name used for two different kinds of element is refused -- and nothing else is. *)
Theorem T03h_duplicate_kinds_refused : forall (fs : list expr) (cols : list string),
  prepare fs cols = None <->
  (exists (n : string) (k1 k2 : ekind), k1 <> k2 /\ In n (raw_class fs cols k1) /\ In n (raw_class fs cols k2))
  \/ ~ NoDup cols.
Proof. exact prepare_refuses_iff. Qed.
Print Assumptions T03h_duplicate_kinds_refused.

Example T03h_example : prepare [EBin Plus (EBeta "x1" false) (EVar "x1")] ["x1"] = None.
Proof. vm_compute. reflexivity. Qed.
