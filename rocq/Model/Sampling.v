(* C19 -- model of src/biogeme/sampling_of_alternatives/{sampling_of_alternatives,
   choice_set_generation,generate_model,sampling_context}.py and src/biogeme/partition.py.

   Definitions only (executable Gallina wherever possible); lemmas are in Proofs/SamplingP.v.

   * A stratum is (subset of alternative ids, requested sample size k).
   * One sample for an individual = the chosen alternative first, then, stratum after stratum, a
     draw without replacement of k alternatives (k - 1 in the stratum that contains the chosen
     one, from which the chosen one has been discarded).  The random generator is an INPUT: an
     arbitrary list of naturals per stratum (`oracle`); theorems hold for every oracle.
   * Every sampled row carries the pair (k, n) of its stratum: the correction term is
     ln(k / n) and, in the second (MEV) sample, the weight is n / k.
   * Flattening: column <attr> of the j-th sampled alternative becomes <prefix><attr>_<j>.
   * Combined variables / utilities: the formula with every elementary expression whose name
     is in a given set renamed to <prefix><name><suffix>. *)
From Coq Require Export ZArith List String Bool Reals.
From BV Require Export Model.Expr Model.EvalX.
From BV Require Import Model.PyBase.
Export ListNotations.
Open Scope Z_scope.

(* ------------------------------------------------------------------ small list primitives *)
Definition memZ (x : Z) (l : list Z) : bool := existsb (Z.eqb x) l.
Definition removeZ (x : Z) (l : list Z) : list Z := filter (fun a => negb (a =? x)) l.
Definition lenZ {A} (l : list A) : Z := Z.of_nat (List.length l).
Fixpoint nodupb (l : list Z) : bool :=
  match l with [] => true | x :: r => negb (memZ x r) && nodupb r end.
Definition count_in (sub l : list Z) : Z := lenZ (filter (fun a => memZ a sub) l).

Definition mem_s (x : string) (l : list string) : bool := existsb (String.eqb x) l.
Fixpoint nodup_sb (l : list string) : bool :=
  match l with [] => true | x :: r => negb (mem_s x r) && nodup_sb r end.
Fixpoint assoc_s {A} (k : string) (l : list (string * A)) : option A :=
  match l with [] => None | (k', v) :: r => if String.eqb k k' then Some v else assoc_s k r end.

(* ------------------------------------------------------------------ strata and samples *)
Definition stratum : Type := (list Z * Z)%type.        (* (subset, requested sample size k) *)
Definition corr : Type := (Z * Z)%type.                (* (k, n) of the stratum of the row *)
Definition srow : Type := (Z * option corr)%type.      (* (alternative id, its (k, n)) *)

Definition ids (rows : list srow) : list Z := map fst rows.
Definition full_set (strata : list stratum) : list Z := List.concat (map fst strata).

(* the correction term (column _log_proba) and the MEV weight (column _mev_weight) *)
Definition corr_value (kn : corr) : R := ln (IZR (fst kn) / IZR (snd kn)).
Definition weight_value (kn : corr) : R := (IZR (snd kn) / IZR (fst kn))%R.

(* subset.sample(n = m, replace = False): m draws without replacement; the r-th remaining
   element is taken, r given by the oracle (reduced modulo the number of remaining elements). *)
Fixpoint draw (m : nat) (pool : list Z) (rs : list nat) : list Z :=
  match m with
  | O => []
  | S m' =>
      match pool with
      | [] => []
      | d :: _ =>
          let r := (hd 0%nat rs mod List.length pool)%nat in
          let x := nth r pool d in
          x :: draw m' (removeZ x pool) (tl rs)
      end
  end.

(* one iteration of the loop `for stratum in self.partition` of sample_alternatives *)
Definition stratum_sample (c : Z) (s : stratum) (rs : list nat) : list srow :=
  let '(sub, k) := s in
  let inside := memZ c sub in
  let pool := if inside then removeZ c sub else sub in
  let m := if inside then k - 1 else k in
  map (fun a => (a, Some (k, lenZ sub))) (draw (Z.to_nat m) pool rs).

(* chosen_alternative[LOG_PROBA_COL] = logproba is executed in every stratum containing the
   chosen alternative: the last one wins; None = the column stays empty (NaN). *)
Fixpoint chosen_corr (c : Z) (strata : list stratum) (acc : option corr) : option corr :=
  match strata with
  | [] => acc
  | (sub, k) :: r => chosen_corr c r (if memZ c sub then Some (k, lenZ sub) else acc)
  end.

Fixpoint strata_samples (c : Z) (strata : list stratum) (oracle : list (list nat)) : list srow :=
  match strata with
  | [] => []
  | s :: r => stratum_sample c s (hd [] oracle) ++ strata_samples c r (tl oracle)
  end.

Definition sample_alternatives (strata : list stratum) (c : Z) (oracle : list (list nat))
  : list srow :=
  (c, chosen_corr c strata None) :: strata_samples c strata oracle.

(* sample_mev_alternatives: the chosen alternative is ignored *)
Fixpoint sample_mev (strata : list stratum) (oracle : list (list nat)) : list srow :=
  match strata with
  | [] => []
  | (sub, k) :: r =>
      map (fun a => (a, Some (k, lenZ sub))) (draw (Z.to_nat k) sub (hd [] oracle))
      ++ sample_mev r (tl oracle)
  end.

(* ------------------------------------------------------------------ the protocol (specification) *)
Definition wf_strata (strata : list stratum) : Prop :=
  NoDup (full_set strata) /\ Forall (fun s : stratum => 1 <= snd s <= lenZ (fst s)) strata.

(* the row's correction term equals ln(k/n) [and its weight n/k] *)
Definition corr_is (o : option corr) (k n : Z) : Prop :=
  match o with
  | Some (k', n') => 0 < k' /\ 0 < n' /\ corr_value (k', n') = corr_value (k, n)
                     /\ weight_value (k', n') = weight_value (k, n)
  | None => False
  end.

Definition row_ok (strata : list stratum) (r : srow) : Prop :=
  exists sub k, In (sub, k) strata /\ In (fst r) sub /\ corr_is (snd r) k (lenZ sub).

Definition valid_mev_sample (strata : list stratum) (rows : list srow) : Prop :=
  NoDup (ids rows) /\
  (forall sub k, In (sub, k) strata -> count_in sub (ids rows) = k) /\
  Forall (row_ok strata) rows.

Definition valid_sample (strata : list stratum) (c : Z) (rows : list srow) : Prop :=
  (exists o rest, rows = (c, o) :: rest) /\ valid_mev_sample strata rows.

(* the executable checker run on the implementation's output *)
Definition corr_eqb (o : option corr) (k n : Z) : bool :=
  match o with
  | Some (k', n') => (0 <? k') && (0 <? n') && (k' * n =? k * n')
  | None => false
  end.

Definition row_okb (strata : list stratum) (r : srow) : bool :=
  existsb (fun s : stratum => memZ (fst r) (fst s) && corr_eqb (snd r) (snd s) (lenZ (fst s))) strata.

Definition check_mev_sample (strata : list stratum) (rows : list srow) : bool :=
  nodupb (ids rows)
  && forallb (fun s : stratum => count_in (fst s) (ids rows) =? snd s) strata
  && forallb (row_okb strata) rows.

Definition check_sample (strata : list stratum) (c : Z) (rows : list srow) : bool :=
  match rows with (c', _) :: _ => c' =? c | [] => false end && check_mev_sample strata rows.

Definition wf_stratab (strata : list stratum) : bool :=
  nodupb (full_set strata) && forallb (fun s : stratum => (1 <=? snd s) && (snd s <=? lenZ (fst s))) strata.

Definition fully_sampled (strata : list stratum) : Prop :=
  Forall (fun s : stratum => snd s = lenZ (fst s)) strata.

(* ------------------------------------------------------------------ validation *)
(* biogeme.partition.Partition(segments, full_set): sets are lists read up to membership.
   `if full_set:` -- an empty (or absent) full set is replaced by the union of the segments. *)
Definition union_of (segments : list (list Z)) : list Z := List.concat segments.
Definition effective_full (segments : list (list Z)) (full : list Z) : list Z :=
  match full with [] => union_of segments | _ => full end.
Definition disjointb (a b : list Z) : bool := forallb (fun x => negb (memZ x b)) a.
Fixpoint pairwise_disjointb (segments : list (list Z)) : bool :=
  match segments with
  | [] => true
  | s :: r => forallb (disjointb s) r && pairwise_disjointb r
  end.
Definition subsetb (a b : list Z) : bool := forallb (fun x => memZ x b) a.
Definition is_nilb {A} (l : list A) : bool := match l with [] => true | _ => false end.

(* validate_segments (emptiness) then validate_partition (intersections, union = full set) *)
Definition partition_accepts (segments : list (list Z)) (full : list Z) : bool :=
  forallb (fun s => negb (is_nilb s)) segments
  && pairwise_disjointb segments
  && subsetb (union_of segments) (effective_full segments full)
  && subsetb (effective_full segments full) (union_of segments).

(* SamplingContext.check_partition: table = ids present in the database of alternatives *)
Definition check_partition_accepts (table : list Z) (strata : list stratum) : bool :=
  forallb (fun s : stratum =>
             let n := lenZ (fst s) in let k := snd s in
             negb (n =? 0) && negb (n <? k) && negb (k =? 0) && subsetb (fst s) table) strata.

(* ------------------------------------------------------------------ tie A support (Gen/SamplingFormulas.v) *)
Definition py_list_repeat (x : Z) (n : Z) : list Z := repeat x (Z.to_nat n).
Definition py_range (n : Z) : list Z := map Z.of_nat (seq 0 (Z.to_nat n)).
Fixpoint add_nth (l : list Z) (i : nat) (d : Z) : list Z :=
  match l, i with
  | [], _ => []
  | x :: r, O => (x + d) :: r
  | x :: r, S i' => x :: add_nth r i' d
  end.
Definition py_list_add_at (l : list Z) (i : Z) (d : Z) : list Z := add_nth l (Z.to_nat i) d.
Definition sumZ (l : list Z) : Z := fold_right Z.add 0 l.

(* ------------------------------------------------------------------ flattening *)
Definition table_row : Type := list (string * dyadic).   (* one row: column name -> double *)

Definition dec (j : nat) : string := string_of_Z (Z.of_nat j).
Definition suffix_of (j : nat) : string := ("_" ++ dec j)%string.
Definition colname (pre a : string) (j : nat) : string := (pre ++ a ++ suffix_of j)%string.

(* {f'{prefix}{col_name}_{row}': value for (row, col_name), value in sample.stack().items()} *)
Fixpoint flatten_from (pre : string) (j : nat) (sample : list table_row) : table_row :=
  match sample with
  | [] => []
  | r :: t => map (fun cv : string * dyadic => (colname pre (fst cv) j, snd cv)) r
              ++ flatten_from pre (S j) t
  end.
Definition flatten (pre : string) (sample : list table_row) : table_row := flatten_from pre 0 sample.

(* row_data = individual_row.to_dict(); row_data.update(first); row_data.update(second):
   later updates win, so they come first in a first-match association list *)
Definition merged_row (ind first second : table_row) : table_row := second ++ first ++ ind.

Definition lookup_of (row : table_row) : lookup := fun n => option_map D2R (assoc_s n row).

Definition dyadic_opt_eqb (a b : option dyadic) : bool :=
  match a, b with Some x, Some y => dyadic_eqb x y | None, None => true | _, _ => false end.

(* integer value of a cell (the id column) *)
Definition cell_Z (o : option dyadic) : option Z :=
  match o with Some d => dyadic_is_int d | None => None end.

(* the ids of the J sampled alternatives read from the flat row *)
Definition flat_ids (pre idcol : string) (row : table_row) (J : nat) : list (option Z) :=
  map (fun j => cell_Z (assoc_s (colname pre idcol j) row)) (seq 0 J).

Fixpoint find_alt (idcol : string) (table : list table_row) (a : Z) : option table_row :=
  match table with
  | [] => None
  | r :: t => match cell_Z (assoc_s idcol r) with
              | Some a' => if a' =? a then Some r else find_alt idcol t a
              | None => find_alt idcol t a
              end
  end.

(* every column <pre><attr>_<j> of the flat row holds the value of <attr> of the alternative
   whose id is in <pre><idcol>_<j> *)
Definition check_flat (pre idcol : string) (table : list table_row) (row : table_row) (J : nat) : bool :=
  forallb (fun j =>
    match cell_Z (assoc_s (colname pre idcol j) row) with
    | Some a =>
        match find_alt idcol table a with
        | Some alt => forallb (fun cv : string * dyadic =>
                        dyadic_opt_eqb (assoc_s (colname pre (fst cv) j) row) (Some (snd cv))) alt
        | None => false
        end
    | None => false
    end) (seq 0 J).

(* the individual's own columns are kept *)
Definition check_ind (ind row : table_row) : bool :=
  forallb (fun cv : string * dyadic => dyadic_opt_eqb (assoc_s (fst cv) row) (Some (snd cv))) ind.

(* ------------------------------------------------------------------ renaming (rename_elementary) *)
Definition rename_head (f : string -> string) (h : Expr.head) : Expr.head :=
  match h with
  | HBeta n b => HBeta (f n) b
  | HVar n => HVar (f n)
  | HDraws n t => HDraws (f n) t
  | HRV n => HRV (f n)
  | _ => h
  end.

Fixpoint rename_expr (f : string -> string) (e : expr) : expr :=
  match e with Node h kids => Node (rename_head f h) (map (rename_expr f) kids) end.

Definition ren_name (names : list string) (pre suf : string) (n : string) : string :=
  if mem_s n names then (pre ++ n ++ suf)%string else n.

(* get_attributes_from_expression: Variables of the formula that are columns of the table *)
Definition attrs_of (e : expr) (columns : list string) : list string :=
  filter (fun n => mem_s n columns) (names_of_kind KVar e).

(* define_new_variables: the expression defining <pre><name>_<j> *)
Definition combined_expr (columns : list string) (pre : string) (j : nat) (formula : expr) : expr :=
  rename_expr (ren_name (attrs_of formula columns) pre (suffix_of j)) formula.

(* no parameter / draw / random variable of the formula bears the name of a renamed attribute *)
Definition only_vars_renamed (names : list string) (e : expr) : bool :=
  forallb (fun n => negb (mem_s n names))
          (names_of_kind KFreeBeta e ++ names_of_kind KFixedBeta e
           ++ names_of_kind KDraws e ++ names_of_kind KRV e).

(* ------------------------------------------------------------------ GenerateModel *)
Definition log_proba_col : string := "_log_proba".
Definition mev_weight_col : string := "_mev_weight".
Definition mev_prefix : string := "_MEV_".

(* generate_utility(prefix, suffix = _j): `attributes` = columns of the table + combined names *)
Definition utility_j (attributes : list string) (pre : string) (V : expr) (j : nat) : expr :=
  rename_expr (ren_name attributes pre (suffix_of j)) V.

(* loglogit({j: U_j - Variable(_log_proba_j)}, None, 0) *)
Fixpoint corrected_from (j : nat) (us : list expr) : list (Z * expr) :=
  match us with
  | [] => []
  | u :: r => (Z.of_nat j, EBin Minus u (EVar (colname "" log_proba_col j))) :: corrected_from (S j) r
  end.
Fixpoint avail_from (j : nat) (us : list expr) : list (Z * expr) :=
  match us with [] => [] | _ :: r => (Z.of_nat j, ENumZ 1) :: avail_from (S j) r end.
Definition logit_on_sample (us : list expr) : expr :=
  ELogLogit (ENumZ 0) (corrected_from 0 us) (avail_from 0 us).

Definition get_logit (attributes : list string) (V : expr) (J : nat) : expr :=
  logit_on_sample (map (utility_j attributes "" V) (seq 0 J)).

(* ------------------------------------------------------------------ glue used by the stream `sample` *)
Definition isSomeb {A} (o : option A) : bool := match o with Some _ => true | None => false end.

Definition ids_readable (pre idcol : string) (row : table_row) (J : nat) : bool :=
  forallb isSomeb (flat_ids pre idcol row J).

(* the sample read back from the flat row: ids from <pre><idcol>_<j>, (k, n) as decoded by the harness *)
Definition rows_of_flat (pre idcol : string) (row : table_row) (cs : list corr) : list srow :=
  map (fun jc : nat * corr =>
         (match cell_Z (assoc_s (colname pre idcol (fst jc)) row) with Some a => a | None => 0 end,
          Some (snd jc)))
      (combine (seq 0 (List.length cs)) cs).

Definition check_individual (idcol choicecol : string) (strata mev : list stratum) (table : list table_row)
           (x : table_row * table_row * list corr * list corr) : list bool :=
  let '(ind, row, cs, ws) := x in
  let J := List.length cs in
  let JM := List.length ws in
  [ match cell_Z (assoc_s choicecol ind) with
    | Some c => ids_readable "" idcol row J && check_sample strata c (rows_of_flat "" idcol row cs)
    | None => false
    end;
    check_flat "" idcol table row J;
    check_ind ind row;
    nodup_sb (map fst row);
    ids_readable mev_prefix idcol row JM && check_mev_sample mev (rows_of_flat mev_prefix idcol row ws);
    check_flat mev_prefix idcol table row JM ].

Definition check_formula (columns : list string) (J JM : nat) (x : expr * list expr * list expr) : list bool :=
  let '(f, cap1, cap2) := x in
  [ only_vars_renamed (attrs_of f columns) f;
    list_eqb expr_eqb (map (fun j => combined_expr columns "" j f) (seq 0 J)) cap1;
    list_eqb expr_eqb (map (fun j => combined_expr columns mev_prefix j f) (seq 0 JM)) cap2 ].

(* ------------------------------------------------------------------ likelihoods over the reals *)
Definition sumexp (l : list R) : R := fold_right (fun v s => (exp v + s)%R) 0%R l.

(* plain logit on the choice set [alts] with utilities [Vf] *)
Definition loglogit_R (Vf : Z -> R) (c : Z) (alts : list Z) : R :=
  (Vf c - ln (sumexp (map Vf alts)))%R.

Definition row_corr (r : srow) : R := match snd r with Some kn => corr_value kn | None => 0%R end.

(* logit on the sampled rows with corrected utilities V - ln(k/n) *)
Definition sample_loglik (Vf : Z -> R) (rows : list srow) : R :=
  match rows with
  | [] => 0%R
  | r0 :: _ => (Vf (fst r0) - row_corr r0
                - ln (sumexp (map (fun r => Vf (fst r) - row_corr r) rows)))%R
  end.
