(* An executable interval extension of the standard normal CDF, used by the correspondence
   streams for bioNormalCdf:

      Phi(x) = 1/2 + phi(x) * sum_{k>=0} x^(2k+1) / (2k+1)!!        phi(x) = exp(-x^2/2)/sqrt(2 pi)

   truncated after N = 220 terms with the geometric tail bound 2*|t_N| (valid for |x| <= 8, where
   the ratio of consecutive terms x^2/(2k+3) is below 1/2 for k >= N), and the crude bounds
   [-2^-50, 2^-50] / [1 - 2^-50, 1 + 2^-50] beyond |x| > 8.

   PROVED, no longer trusted: Proofs/PhiP.v [PhiI_series_correct] shows that this function
   encloses the concrete function Model/PhiDef.v [Phi_def] x = 1/2 + RInt npdf 0 x (Coquelicot's
   Riemann integral of the normal density) for every input interval; it discharges the hypothesis
   [PhiI_correct] of the soundness theorem Proofs/EvalIP.v [evalI_sound] (Properties/C01.v,
   T01f_PhiI_series_correct / T01f_evalI_sound_concrete).  The result is NOT intersected with
   [0,1] and the far branches are two-sided: 0 <= Phi_def <= 1 would need the Gaussian integral,
   which is not proved.  The C01 stream `phi_grid` still cross-checks it against scipy's
   norm.cdf / math.erfc on a grid (this ties scipy to the proved enclosure, not the reverse).
   Definitions only. *)
From Coq Require Import ZArith List.
From Interval Require Import Xreal Specific_bigint Specific_ops Float_full Interval Basic.
From BV Require Import Model.Expr Model.EvalI.

Fixpoint phi_terms (n : nat) (k : Z) (t x2 acc : I.type) : I.type * I.type :=
  match n with
  | O => (acc, t)
  | S n' =>
      let t' := I.div prec (I.mul prec t x2) (I.fromZ prec (2 * k + 3)) in
      phi_terms n' (k + 1) t' x2 (I.add prec acc t')
  end.

Definition i_eight : I.type := I.fromZ prec 8.
Definition i_tiny : I.type := I.power_int prec (I.fromZ prec 2) (-50).

(* enclosure of the density phi, given an enclosure of x^2 *)
Definition npdfI (x2 : I.type) : I.type :=
  I.div prec (I.exp prec (I.neg (I.div prec x2 (I.fromZ prec 2))))
             (I.sqrt prec (I.mul prec (I.fromZ prec 2) (I.pi prec))).

(* the series with its tail bound; encloses Phi for |x| <= 8 *)
Definition PhiI_main (x : I.type) : I.type :=
  let x2 := I.sqr prec x in
  let '(s, tN) := phi_terms 220 0 x x2 x in
  let b := I.mul prec (I.fromZ prec 2) (I.abs tN) in
  let tail := I.join (I.neg b) b in
  I.add prec (I.div prec (I.fromZ prec 1) (I.fromZ prec 2)) (I.mul prec (npdfI x2) (I.add prec s tail)).

Definition PhiI_series (x : I.type) : I.type :=
  match isign (I.sub prec i_eight (I.abs x)) with
  | SPos | SZero => PhiI_main x
  | SNeg =>
      match isign x with
      | SNeg => I.join (I.neg i_tiny) i_tiny
      | SPos => I.join (I.sub prec (I.fromZ prec 1) i_tiny) (I.add prec (I.fromZ prec 1) i_tiny)
      | _ => I.nai
      end
  | SUnk => I.nai
  end.

(* What the external engine computes INSTEAD of Phi for x >= 6 (known defect: sign error in the
   upper-tail branch, it returns 1 + (1 - Phi x)).  Used only to CLASSIFY a disagreement found by
   the streams as an occurrence of that known finding; never used as the reference. *)
Definition PhiI_engine_defect (x : I.type) : I.type :=
  match isign (I.sub prec x (I.fromZ prec 6)) with
  | SPos | SZero => I.sub prec (I.fromZ prec 2) (PhiI_series x)
  | SNeg => PhiI_series x
  | SUnk => I.nai
  end.
