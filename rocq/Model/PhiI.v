(* An executable interval extension of the standard normal CDF, used by the correspondence
   streams for bioNormalCdf:

      Phi(x) = 1/2 + phi(x) * sum_{k>=0} x^(2k+1) / (2k+1)!!        phi(x) = exp(-x^2/2)/sqrt(2 pi)

   truncated after N = 220 terms with the geometric tail bound 2*|t_N| (valid for |x| <= 8, where
   the ratio of consecutive terms x^2/(2k+3) is below 1/2 for k >= N), and the crude bounds
   [0, 2^-50] / [1 - 2^-50, 1] beyond |x| > 8.

   TRUST: that this function encloses Phi is NOT proved here (the Interval library has no erf);
   it is a hypothesis of the soundness theorem (Proofs/EvalIP.v, [PhiI_correct]) and is listed in
   the trusted base of every check that evaluates a normal CDF.  It is cross-checked against
   scipy's norm.cdf / math.erfc on a grid by the C01 stream `phi_grid`.
   Definitions only. *)
From Coq Require Import ZArith List.
From Interval Require Import Xreal Specific_bigint Specific_ops Float_full Interval Basic.
From BV Require Import Model.Expr Model.EvalI.

Fixpoint phi_terms (n : nat) (k : Z) (t x2 acc : I.type) : I.type * I.type :=
  match n with
  | O => (acc, t)
  | S n' =>
      let t' := I.div prec (I.mul prec t x2) (I.fromZ prec (2 * k + 3)) in
      phi_terms n' (k + 1) t' x2 (I.add prec acc t')
  end.

Definition i_eight : I.type := I.fromZ prec 8.
Definition i_tiny : I.type := I.power_int prec (I.fromZ prec 2) (-50).

Definition PhiI_series (x : I.type) : I.type :=
  match isign (I.sub prec i_eight (I.abs x)) with
  | SPos | SZero =>
      let x2 := I.sqr prec x in
      let '(s, tN) := phi_terms 220 0 x x2 x in
      let b := I.mul prec (I.fromZ prec 2) (I.abs tN) in
      let tail := I.join (I.neg b) b in
      let dens := I.div prec (I.exp prec (I.neg (I.div prec x2 (I.fromZ prec 2))))
                         (I.sqrt prec (I.mul prec (I.fromZ prec 2) (I.pi prec))) in
      I.meet (I.add prec (I.div prec (I.fromZ prec 1) (I.fromZ prec 2)) (I.mul prec dens (I.add prec s tail)))
             (I.join (I.fromZ prec 0) (I.fromZ prec 1))
  | SNeg =>
      match isign x with
      | SNeg => I.join (I.fromZ prec 0) i_tiny
      | SPos => I.join (I.sub prec (I.fromZ prec 1) i_tiny) (I.fromZ prec 1)
      | _ => I.nai
      end
  | SUnk => I.nai
  end.

(* What the external engine computes INSTEAD of Phi for x >= 6 (known defect: sign error in the
   upper-tail branch, it returns 1 + (1 - Phi x)).  Used only to CLASSIFY a disagreement found by
   the streams as an occurrence of that known finding; never used as the reference. *)
Definition PhiI_engine_defect (x : I.type) : I.type :=
  match isign (I.sub prec x (I.fromZ prec 6)) with
  | SPos | SZero => I.sub prec (I.fromZ prec 2) (PhiI_series x)
  | SNeg => PhiI_series x
  | SUnk => I.nai
  end.
