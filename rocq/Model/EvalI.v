(* Executable interval evaluator [evalI] for expressions, over the Interval library's
   arbitrary-precision floating-point intervals.  It is what the correspondence streams run
   (vm_compute); Proofs/EvalIP.v proves that what it returns encloses [evalX].

   Outcomes:
     VI i    the value is a real number lying in the interval i
     VMInf   the value is minus infinity (logit of an unavailable chosen alternative)
     VNaN    the value is NaN for a structural reason (unknown name / missing datum read,
             absent key, ill-formed node)
     VUnk    undecided (a comparison of overlapping enclosures, a domain test that the
             enclosures cannot settle, an operator without interval extension)
   Definitions only. *)
From Coq Require Import Reals ZArith List String Bool.
From Interval Require Import Xreal Specific_bigint Specific_ops Float_full Interval Basic.
From BV Require Import Model.Expr.
Import ListNotations.


Module F := SpecificFloat BigIntRadix2.
Module I := FloatIntervalFull F.

Definition prec : F.precision := F.PtoP 90.

Inductive ival := VI (i : I.type) | VMInf | VNaN | VUnk.

(* exact enclosure of the dyadic m * 2^e *)
Definition I_of_dyadic (d : dyadic) : I.type :=
  I.mul prec (I.fromZ prec (fst d)) (I.power_int prec (I.fromZ prec 2) (snd d)).

Definition I_of_Z (z : Z) : I.type := I.fromZ prec z.

(* ------------------------------------------------------------------ environments *)
Definition dlookup := list (string * dyadic).

Fixpoint dfind (n : string) (l : dlookup) : option dyadic :=
  match l with
  | [] => None
  | (k, v) :: r => if String.eqb n k then Some v else dfind n r
  end.

Record denv := mkDenv {
  d_beta : dlookup;
  d_var : dlookup;
  d_draw : dlookup;
  d_rv : dlookup;
  d_draws : list dlookup;
  d_rows : list dlookup
}.

Definition dwith_draw (en : denv) (d : dlookup) : denv :=
  mkDenv (d_beta en) (d_var en) d (d_rv en) (d_draws en) (d_rows en).
Definition dwith_row (en : denv) (r : dlookup) : denv :=
  mkDenv (d_beta en) r (d_draw en) (d_rv en) (d_draws en) (d_rows en).

Definition ilook (n : string) (l : dlookup) : ival :=
  match dfind n l with Some d => VI (I_of_dyadic d) | None => VNaN end.

(* ------------------------------------------------------------------ decisions *)
Inductive sgn := SNeg | SZero | SPos | SUnk.

Definition isign (i : I.type) : sgn :=
  match I.sign_strict i with
  | Xlt => SNeg | Xeq => SZero | Xgt => SPos | Xund => SUnk
  end.

(* is the value non-zero?  Some true / Some false / None = undecided *)
Definition inz (i : I.type) : option bool :=
  match isign i with SNeg | SPos => Some true | SZero => Some false | SUnk => None end.

Definition ione : I.type := I.fromZ prec 1.
Definition izero : I.type := I.fromZ prec 0.
Definition ib (b : bool) : I.type := if b then ione else izero.

(* integer value of an enclosure, when it is a point at an integer *)
Definition Z_of_float (f : float radix2) : option Z :=
  match f with
  | Fzero => Some 0%Z
  | Basic.Float s m e =>
      let v := match e with
               | Z0 => Some (Zpos m)
               | Zpos p => Some (Zpos m * 2 ^ Zpos p)%Z
               | Zneg p => if (Zpos m mod 2 ^ Zpos p =? 0)%Z then Some (Zpos m / 2 ^ Zpos p)%Z else None
               end in
      match v with Some z => Some (if s then (- z)%Z else z) | None => None end
  | Basic.Fnan => None
  end.

Definition iint (i : I.type) : option Z :=
  match Z_of_float (F.toF (I.lower i)) with
  | Some z => match isign (I.sub prec i (I_of_Z z)) with SZero => Some z | _ => None end
  | None => None
  end.

(* ------------------------------------------------------------------ lifting *)
Definition il1 (f : I.type -> I.type) (a : ival) : ival :=
  match a with VI x => VI (f x) | VNaN => VNaN | VMInf => VNaN | VUnk => VUnk end.

Definition il2 (f : I.type -> I.type -> I.type) (a b : ival) : ival :=
  match a, b with
  | VI x, VI y => VI (f x y)
  | VUnk, _ | _, VUnk => VUnk
  | _, _ => VNaN
  end.

(* comparison x ? y through the sign of x - y *)
Definition icmp (test : sgn -> option bool) (a b : ival) : ival :=
  match a, b with
  | VI x, VI y => match test (isign (I.sub prec x y)) with
                  | Some r => VI (ib r)
                  | None => VUnk
                  end
  | VUnk, _ | _, VUnk => VUnk
  | _, _ => VNaN
  end.

Definition t_eq (s : sgn) := match s with SZero => Some true | SNeg | SPos => Some false | SUnk => None end.
Definition t_ne (s : sgn) := match s with SZero => Some false | SNeg | SPos => Some true | SUnk => None end.
(* x <= y iff x - y <= 0 *)
Definition t_le (s : sgn) := match s with SZero | SNeg => Some true | SPos => Some false | SUnk => None end.
Definition t_ge (s : sgn) := match s with SZero | SPos => Some true | SNeg => Some false | SUnk => None end.
Definition t_lt (s : sgn) := match s with SNeg => Some true | SZero | SPos => Some false | SUnk => None end.
Definition t_gt (s : sgn) := match s with SPos => Some true | SZero | SNeg => Some false | SUnk => None end.

Definition imin (a b : ival) : ival :=
  match a, b with
  | VI x, VI y => match isign (I.sub prec x y) with
                  | SNeg | SZero => VI x | SPos => VI y | SUnk => VUnk end
  | VUnk, _ | _, VUnk => VUnk
  | _, _ => VNaN
  end.
Definition imax (a b : ival) : ival :=
  match a, b with
  | VI x, VI y => match isign (I.sub prec x y) with
                  | SNeg | SZero => VI y | SPos => VI x | SUnk => VUnk end
  | VUnk, _ | _, VUnk => VUnk
  | _, _ => VNaN
  end.

Definition ipow_real (x y : I.type) : ival :=
  match isign x with
  | SPos => VI (I.exp prec (I.mul prec y (I.ln prec x)))
  | SUnk => VUnk
  | _ => VNaN
  end.

Definition ibin (op : binop) (a b : ival) : ival :=
  match op with
  | Plus => il2 (I.add prec) a b
  | Minus => il2 (I.sub prec) a b
  | Times => il2 (I.mul prec) a b
  | Divide => match a, b with
              | VI x, VI y => match inz y with
                              | Some true => VI (I.div prec x y)
                              | Some false => VNaN
                              | None => VUnk end
              | VUnk, _ | _, VUnk => VUnk
              | _, _ => VNaN end
  | Power => match a, b with
             | VI x, VI y => ipow_real x y
             | VUnk, _ | _, VUnk => VUnk
             | _, _ => VNaN end
  | BMin => imin a b
  | BMax => imax a b
  | And => match a with
           | VI x => match inz x with
                     | Some true => match b with
                                    | VI y => match inz y with Some r => VI (ib r) | None => VUnk end
                                    | VUnk => VUnk
                                    | _ => VNaN end
                     | Some false => VI izero
                     | None => VUnk end
           | VUnk => VUnk
           | _ => VNaN end
  | Or => match a with
          | VI x => match inz x with
                    | Some true => VI ione
                    | Some false => match b with
                                    | VI y => match inz y with Some r => VI (ib r) | None => VUnk end
                                    | VUnk => VUnk
                                    | _ => VNaN end
                    | None => VUnk end
          | VUnk => VUnk
          | _ => VNaN end
  | Eq => icmp t_eq a b
  | Ne => icmp t_ne a b
  | Le => icmp t_le a b
  | Ge => icmp t_ge a b
  | Lt => icmp t_lt a b
  | Gt => icmp t_gt a b
  end.

Section WithPhiI.
  (* interval extension of the normal CDF (external; see Model/PhiI.v for the one used) *)
  Variable PhiI : I.type -> I.type.

  Definition ilog (x : I.type) : ival :=
    match isign x with SPos => VI (I.ln prec x) | SUnk => VUnk | _ => VNaN end.

  Definition iun (op : unop) (a : ival) : ival :=
    match op with
    | UMinus => il1 I.neg a
    | Exp => match a with
             | VI x => VI (I.exp prec x) | VMInf => VI izero | VNaN => VNaN | VUnk => VUnk end
    | Log => match a with VI x => ilog x | VUnk => VUnk | _ => VNaN end
    | Logzero => match a with
                 | VI x => match inz x with
                           | Some false => VI izero
                           | Some true => ilog x
                           | None => VUnk end
                 | VUnk => VUnk | _ => VNaN end
    | Sin => il1 (I.sin prec) a
    | Cos => il1 (I.cos prec) a
    | NormalCdf => il1 PhiI a
    | MonteCarlo | PanelTraj => VNaN
    end.

  Definition ipowc (c : dyadic) (a : ival) : ival :=
    match a with
    | VI x =>
        match
          (let '(m, e) := c in
           if (0 <=? e)%Z then Some (m * 2 ^ e)%Z
           else if (m mod 2 ^ (- e) =? 0)%Z then Some (m / 2 ^ (- e))%Z else None)
        with
        | Some n => if (0 <=? n)%Z then VI (I.power_int prec x n)
                    else match inz x with
                         | Some true => VI (I.power_int prec x n)
                         | Some false => VNaN
                         | None => VUnk end
        | None => ipow_real x (I_of_dyadic c)
        end
    | VUnk => VUnk
    | _ => VNaN
    end.

  Definition isum (l : list ival) : ival := fold_right (il2 (I.add prec)) (VI izero) l.
  Definition iprod (l : list ival) : ival := fold_right (il2 (I.mul prec)) (VI ione) l.

  Fixpoint icondsum (l : list ival) : ival :=
    match l with
    | [] => VI izero
    | c :: t :: r =>
        match c with
        | VI x => match inz x with
                  | Some true => il2 (I.add prec) t (icondsum r)
                  | Some false => icondsum r
                  | None => VUnk end
        | VUnk => VUnk
        | _ => VNaN
        end
    | _ => VNaN
    end.

  Fixpoint ilinutil (l : list ival) : ival :=
    match l with
    | [] => VI izero
    | b :: v :: r => il2 (I.add prec) (il2 (I.mul prec) b v) (ilinutil r)
    | _ => VNaN
    end.

  Fixpoint iassoc {A} (k : Z) (keys : list Z) (vals : list A) : option A :=
    match keys, vals with
    | k' :: ks, v :: vs => if (k =? k')%Z then Some v else iassoc k ks vs
    | _, _ => None
    end.

  Definition ielem (keys : list Z) (vs : list ival) : ival :=
    match vs with
    | VI k :: entries =>
        match iint k with
        | Some z => match iassoc z keys entries with
                    | Some (VI v) => VI v
                    | Some VUnk => VUnk
                    | _ => VNaN
                    end
        | None => VUnk
        end
    | VUnk :: _ => VUnk
    | _ => VNaN
    end.

  Fixpoint ilogit_den (ukeys : list Z) (us : list ival) (akeys : list Z) (avs : list ival) : ival :=
    match ukeys, us with
    | k :: ks, u :: r =>
        match iassoc k akeys avs with
        | Some (VI a) =>
            match inz a with
            | Some true =>
                il2 (I.add prec)
                    (match u with VI x => VI (I.exp prec x) | VUnk => VUnk | _ => VNaN end)
                    (ilogit_den ks r akeys avs)
            | Some false => ilogit_den ks r akeys avs
            | None => VUnk
            end
        | Some VUnk => VUnk
        | Some _ => VNaN
        | None => ilogit_den ks r akeys avs
        end
    | [], [] => VI izero
    | _, _ => VNaN
    end.

  Definition iloglogit (ukeys akeys : list Z) (vs : list ival) : ival :=
    match vs with
    | VI c :: rest =>
        let us := firstn (List.length ukeys) rest in
        let avs := skipn (List.length ukeys) rest in
        if negb (Nat.eqb (List.length avs) (List.length akeys)) then VNaN else
        match iint c with
        | Some z =>
            match iassoc z akeys avs, iassoc z ukeys us with
            | Some (VI a), Some vc =>
                match inz a with
                | Some true =>
                    match vc, ilogit_den ukeys us akeys avs with
                    | VI v, VI d => match isign d with
                                    | SPos => VI (I.sub prec v (I.ln prec d))
                                    | SUnk => VUnk
                                    | _ => VNaN end
                    | VUnk, _ | _, VUnk => VUnk
                    | _, _ => VNaN
                    end
                | Some false => VMInf
                | None => VUnk
                end
            | Some VUnk, Some _ => VUnk
            | _, _ => VNaN
            end
        | None => VUnk
        end
    | VUnk :: _ => VUnk
    | _ => VNaN
    end.

  Fixpoint ibelongs_aux (x : I.type) (set : list dyadic) : option bool :=
    match set with
    | [] => Some false
    | d :: r =>
        match isign (I.sub prec x (I_of_dyadic d)) with
        | SZero => Some true
        | SNeg | SPos => ibelongs_aux x r
        | SUnk => None
        end
    end.

  Definition ibelongs (set : list dyadic) (a : ival) : ival :=
    match a with
    | VI x => match ibelongs_aux x set with Some b => VI (ib b) | None => VUnk end
    | VUnk => VUnk
    | _ => VNaN
    end.

  Definition imean (l : list ival) : ival :=
    match l with
    | [] => VNaN
    | _ => il2 (I.div prec) (isum l) (VI (I_of_Z (Z.of_nat (List.length l))))
    end.

  Fixpoint evalI (e : expr) (en : denv) {struct e} : ival :=
    match e with
    | Node h kids =>
        let vs := map (fun k => evalI k en) kids in
        match h, vs with
        | HNum d, [] => VI (I_of_dyadic d)
        | HBeta n _, [] => ilook n (d_beta en)
        | HVar n, [] => ilook n (d_var en)
        | HDraws n _, [] => ilook n (d_draw en)
        | HRV n, [] => ilook n (d_rv en)
        | HBin op, [a; b] => ibin op a b
        | HUn MonteCarlo, [_] =>
            match kids with
            | [k] => imean (map (fun d => evalI k (dwith_draw en d)) (d_draws en))
            | _ => VNaN
            end
        | HUn PanelTraj, [_] =>
            match kids with
            | [k] => match d_rows en with
                     | [] => VNaN
                     | rows => iprod (map (fun r => evalI k (dwith_row en r)) rows)
                     end
            | _ => VNaN
            end
        | HUn op, [a] => iun op a
        | HPowC c, [a] => ipowc c a
        | HBelongs s, [a] => ibelongs s a
        | HMultSum, _ => isum vs
        | HCondSum, _ => icondsum vs
        | HElem keys, _ => ielem keys vs
        | HLinUtil, _ => ilinutil vs
        | HLogLogit uk ak, _ => iloglogit uk ak vs
        | _, _ => VNaN
        end
    end.
End WithPhiI.

(* ------------------------------------------------------------------ the differ *)
(* Does the double [y] agree with the enclosure [i] up to the tolerance
   2^relbits * max(|y|, 1)   (relbits is negative, e.g. -30)?  Exact arithmetic on bounds. *)
Definition in_tol (i : I.type) (y : dyadic) (relbits : Z) : bool :=
  let yi := I_of_dyadic y in
  let scale := I.add prec (I.abs yi) ione in
  let tol := I.mul prec scale (I.power_int prec (I.fromZ prec 2) relbits) in
  let d := I.abs (I.sub prec yi i) in
  (* d <= tol  iff  sign (tol - d) is not negative for every point: use the lower bound test *)
  match isign (I.sub prec tol d) with
  | SPos | SZero => true
  | _ => false
  end.

Inductive verdict := Agree | Differ | Undecided | ModelNaN | ModelMInf | Huge.

(* |value| may exceed 2^200: outside the range where doubles are compared *)
Definition is_huge (i : I.type) : bool :=
  match isign (I.sub prec (I.power_int prec (I.fromZ prec 2) 200) (I.abs i)) with
  | SPos => false | _ => true end.

Definition judge (v : ival) (y : dyadic) (relbits : Z) : verdict :=
  match v with
  | VI Float.Inan => Undecided
  | VI i => if is_huge i then Huge else if in_tol i y relbits then Agree else Differ
  | VMInf => ModelMInf
  | VNaN => ModelNaN
  | VUnk => Undecided
  end.

(* no interval extension of the normal CDF: every enclosure is the whole line (=> Undecided) *)
Definition PhiI_none (x : I.type) : I.type := I.nai.
