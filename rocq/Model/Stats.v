(* C08 -- support definitions for the Gallina text generated from
   /repo/src/biogeme/results.py and tools/likelihood_ratio.py (Gen/Stats.v), and the
   specification side of the reported statistics.  Definitions only. *)
From Coq Require Export Reals ZArith List String Bool.
From BV Require Export Model.PyBase.
Export ListNotations.

(* ------------------------------------------------------------------ *)
(* Python comparisons on floats, read over the reals (py2v emits these names). *)
Definition Reqb (a b : R) : bool := if Req_EM_T a b then true else false.
Definition Rneqb (a b : R) : bool := negb (Reqb a b).
Definition Rltb (a b : R) : bool := if Rlt_dec a b then true else false.
Definition Rleb (a b : R) : bool := if Rle_dec a b then true else false.
Definition Rgtb (a b : R) : bool := Rltb b a.
Definition Rgeb (a b : R) : bool := Rleb b a.

(* np.nan_to_num is the identity on finite input (the finite-input guard is an assumption
   of the check, recorded in the evidence). *)
Definition nan_to_num (x : R) : R := x.

(* numpy vectors / matrices indexed by Python ints, as the translated scalar code sees them *)
Definition vector := Z -> R.
Definition matrix := Z -> Z -> R.
Definition vget (v : vector) (i : Z) : R := v i.
Definition mget (m : matrix) (ij : Z * Z) : R := m (fst ij) (snd ij).

(* tokens for `np.finfo(float)` *)
Inductive pytype := py_float.
Inductive finfo := finfo_float.

(* ------------------------------------------------------------------ *)
(* Attributes of results.Beta, for the label -> attribute tables of the tabular views. *)
Inductive beta_field :=
| F_name | F_value | F_lb | F_ub
| F_stdErr | F_tTest | F_pValue
| F_robust_stdErr | F_robust_tTest | F_robust_pValue
| F_bootstrap_stdErr | F_bootstrap_tTest | F_bootstrap_pValue.

(* `df.loc[label, col] = v` executed in sequence: the last assignment to a label wins *)
Fixpoint lookup_last {A} (l : list (string * A)) (k : string) : option A :=
  match l with
  | [] => None
  | (k', v) :: r =>
      match lookup_last r k with
      | Some w => Some w
      | None => if String.eqb k k' then Some v else None
      end
  end.

(* ------------------------------------------------------------------ *)
(* Small matrix model: n x n matrices as functions on indices < n. *)
Definition nmat := nat -> nat -> R.
Definition nvec := nat -> R.

Fixpoint rsum (n : nat) (f : nat -> R) : R :=
  match n with O => 0%R | S k => (rsum k f + f k)%R end.

Definition mmul (n : nat) (A B : nmat) : nmat := fun i j => rsum n (fun k => (A i k * B k j)%R).
Definition mvec (n : nat) (A : nmat) (x : nvec) : nvec := fun i => rsum n (fun k => (A i k * x k)%R).
Definition mopp (A : nmat) : nmat := fun i j => (- A i j)%R.
Definition mtrans (A : nmat) : nmat := fun i j => A j i.
Definition nan_to_num_m (A : nmat) : nmat := A.

Definition meq (n : nat) (A B : nmat) : Prop := forall i j, (i < n)%nat -> (j < n)%nat -> A i j = B i j.
Definition msym (n : nat) (A : nmat) : Prop := forall i j, (i < n)%nat -> (j < n)%nat -> A i j = A j i.
Definition quad (n : nat) (A : nmat) (x : nvec) : R :=
  rsum n (fun i => rsum n (fun j => (x i * A i j * x j)%R)).
(* positive semi-definite = symmetric with non-negative quadratic form *)
Definition mpsd (n : nat) (A : nmat) : Prop := msym n A /\ forall x, (0 <= quad n A x)%R.

(* the four Moore-Penrose equations: P is the pseudo-inverse of A *)
Definition penrose (n : nat) (A P : nmat) : Prop :=
  meq n (mmul n A (mmul n P A)) A /\
  meq n (mmul n P (mmul n A P)) P /\
  msym n (mmul n A P) /\
  msym n (mmul n P A).

(* unit vector difference e_i - e_j *)
Definition ediff (i j : nat) : nvec :=
  fun k => ((if Nat.eqb k i then 1 else 0) - (if Nat.eqb k j then 1 else 0))%R.

(* ------------------------------------------------------------------ *)
(* Specification side (what the property text says). *)
Definition spec_LR (L0 L : R) : R := (-2 * (L0 - L))%R.
Definition spec_rho2 (L0 L : R) : R := (1 - L / L0)%R.
Definition spec_rhobar2 (L0 L : R) (K : Z) : R := (1 - (L - IZR K) / L0)%R.
Definition spec_AIC (L : R) (K : Z) : R := (2 * IZR K - 2 * L)%R.
Definition spec_BIC (L : R) (K N : Z) : R := (-2 * L + IZR K * ln (IZR N))%R.
Definition spec_t (value se : R) : R := (value / se)%R.
Definition spec_p (Phi : R -> R) (t : R) : R := (2 * (1 - Phi (Rabs t)))%R.
Definition spec_pair (bi bj vii vjj vij : R) : R := ((bi - bj) / sqrt (vii + vjj - 2 * vij))%R.

(* ------------------------------------------------------------------ *)
(* Histories of one raw-results object: which DERIVED attributes it carries.
   bioResults._calculate_stats writes the statistics it derives into the raw-results object itself; the
   same object can be processed again after its raw inputs changed (same object, pickle read back...).
   State = which derived attributes are present (not None / existing).  [clear] is applied with the list
   GENERATED from _clear_stats (Gen/Stats.v: clear_stats_attrs); [recompute] is the hand-written model of
   the block `if self.data.H is not None:` (tied to the code by stream history). *)
Inductive attr := A_beta (f : beta_field) | A_data (name : string).

Definition beta_field_eqb (a b : beta_field) : bool :=
  match a, b with
  | F_name, F_name | F_value, F_value | F_lb, F_lb | F_ub, F_ub
  | F_stdErr, F_stdErr | F_tTest, F_tTest | F_pValue, F_pValue
  | F_robust_stdErr, F_robust_stdErr | F_robust_tTest, F_robust_tTest | F_robust_pValue, F_robust_pValue
  | F_bootstrap_stdErr, F_bootstrap_stdErr | F_bootstrap_tTest, F_bootstrap_tTest
  | F_bootstrap_pValue, F_bootstrap_pValue => true
  | _, _ => false
  end.

Definition attr_eqb (a b : attr) : bool :=
  match a, b with
  | A_beta f, A_beta g => beta_field_eqb f g
  | A_data s, A_data t => String.eqb s t
  | _, _ => false
  end.

Definition dstate := attr -> bool.
Definition amem (a : attr) (l : list attr) : bool := existsb (attr_eqb a) l.
Definition clear (l : list attr) (st : dstate) : dstate := fun a => if amem a l then false else st a.
Definition set_all (l : list attr) (st : dstate) : dstate := fun a => if amem a l then true else st a.

Definition classical_attrs : list attr :=
  [A_beta F_stdErr; A_beta F_tTest; A_beta F_pValue; A_data "varCovar"; A_data "correlation"].
Definition robust_attrs : list attr :=
  [A_beta F_robust_stdErr; A_beta F_robust_tTest; A_beta F_robust_pValue;
   A_data "robust_varCovar"; A_data "robust_correlation"].
Definition bootstrap_attrs : list attr :=
  [A_beta F_bootstrap_stdErr; A_beta F_bootstrap_tTest; A_beta F_bootstrap_pValue;
   A_data "bootstrap_varCovar"; A_data "bootstrap_correlation"].
Definition table_attrs : list attr := [A_data "secondOrderTable"].
Definition derived_attrs : list attr := classical_attrs ++ robust_attrs ++ bootstrap_attrs ++ table_attrs.

(* the block guarded by `if self.data.H is not None:` (bootstrap part guarded by `bootstrap is not None`) *)
Definition recompute (hasH hasBoot : bool) (st : dstate) : dstate :=
  if hasH then
    set_all (classical_attrs ++ robust_attrs ++ table_attrs ++ (if hasBoot then bootstrap_attrs else [])) st
  else st.

(* one processing of the object, [cl] = the attributes cleared first *)
Definition process (cl : list attr) (step : bool * bool) (st : dstate) : dstate :=
  recompute (fst step) (snd step) (clear cl st).
Definition run_history (cl : list attr) (hist : list (bool * bool)) (st : dstate) : dstate :=
  fold_left (fun s step => process cl step s) hist st.

(* what the property asks: a family is reported iff its matrix is held NOW *)
Definition held_now (step : bool * bool) (a : attr) : bool :=
  if amem a bootstrap_attrs then fst step && snd step else fst step.
