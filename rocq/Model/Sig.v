(* Model of the serialisation of a formula for the compiled engine.

   Python side (Expression.get_signature and its 12 overrides): a post-order list of "lines",
   one per VISIT of a node (a shared sub-formula is visited, hence emitted, once per parent).
   Engine side (bioFormula::processFormula in cythonbiogeme): lines are read in order into a
   map  object-id -> expression ; a line whose id is already in the map is ignored (first
   definition wins) ; children are looked up by id ; the LAST line is the formula.

   Object identity is modelled by a label on every node: [lexpr].  A Python DAG satisfies
   [wf_dag]: equal labels => equal sub-trees.

   The byte format of one line (decimal printing of ids, repr() of floats, strtod in the engine)
   is outside this model: the correspondence stream parses the real bytes into [line]s.

   Definitions only; proofs in Proofs/SigP.v. *)
From BV Require Import Model.PyBase.
From BV Require Export Model.Expr Model.IdMgr.
Open Scope Z_scope.

Inductive lexpr := LNode (id : positive) (h : head) (kids : list lexpr).

Definition lid (l : lexpr) : positive := match l with LNode i _ _ => i end.
Definition lhead (l : lexpr) : head := match l with LNode _ h _ => h end.
Definition lkids (l : lexpr) : list lexpr := match l with LNode _ _ k => k end.

Fixpoint erase (l : lexpr) : expr :=
  match l with LNode _ h k => Node h (map erase k) end.

Fixpoint lsubterms (l : lexpr) : list lexpr :=
  match l with LNode _ _ k => l :: flat_map lsubterms k end.

(* ------------------------------------------------------------------ lines *)
(* The fields of a line as the engine's reader extracts them. *)
Inductive line :=
| LLit (id : positive) (k : ekind) (name : string) (uid cid : Z)   (* Beta/Variable/bioDraws/RandomVariable *)
| LNum (id : positive) (v : dyadic)
| LGen (id : positive) (h : head) (kids : list positive)            (* <cls>{id}(n),k1,..,kn *)
| LPowC (id : positive) (kid : positive) (c : dyadic)               (* <PowerConstant>{id},kid,c *)
| LIdx (id : positive) (h : head) (kid : positive) (idx : Z)        (* Derive / Integrate *)
| LBel (id : positive) (kid : positive) (set : list dyadic)
| LCond (id : positive) (pairs : list (positive * positive))
| LElem (id : positive) (key : positive) (entries : list (Z * positive))
| LLin (id : positive) (terms : list ((positive * Z * string) * (positive * Z * string)))
| LLogit (id : positive) (choice : positive) (alts : list (Z * positive * positive)).

Definition line_id (l : line) : positive :=
  match l with
  | LLit i _ _ _ _ | LNum i _ | LGen i _ _ | LPowC i _ _ | LIdx i _ _ _ | LBel i _ _
  | LCond i _ | LElem i _ _ | LLin i _ | LLogit i _ _ => i
  end.

Fixpoint pairs_of {A} (l : list A) : option (list (A * A)) :=
  match l with
  | [] => Some []
  | a :: b :: r => match pairs_of r with Some p => Some ((a, b) :: p) | None => None end
  | _ => None
  end.

Definition lit_ids (t : idtable) (e : lexpr) : option (positive * Z * string) :=
  match kind_of_head (lhead e) with
  | Some (k, n) => match ids_of t k n with Some (u, _) => Some (lid e, u, n) | None => None end
  | None => None
  end.

Fixpoint lin_terms (t : idtable) (ps : list (lexpr * lexpr))
  : option (list ((positive * Z * string) * (positive * Z * string))) :=
  match ps with
  | [] => Some []
  | (b, v) :: r =>
      match lit_ids t b, lit_ids t v, lin_terms t r with
      | Some x, Some y, Some rest => Some ((x, y) :: rest)
      | _, _, _ => None
      end
  end.

Fixpoint find_key {A} (k : Z) (keys : list Z) (vals : list A) : option A :=
  match keys, vals with
  | a :: keys', v :: vals' => if (k =? a) then Some v else find_key k keys' vals'
  | _, _ => None
  end.

(* for i, e in util.items(): ",i,e.id,av[i].id"  -- the availability is looked up BY KEY *)
Fixpoint logit_alts (uk : list Z) (us : list lexpr) (ak : list Z) (avs : list lexpr)
  : option (list (Z * positive * positive)) :=
  match uk, us with
  | [], [] => Some []
  | k :: uk', e :: us' =>
      match find_key k ak avs, logit_alts uk' us' ak avs with
      | Some av, Some r => Some ((k, lid e, lid av) :: r)
      | _, _ => None
      end
  | _, _ => None
  end.

(* the line of one node (None = the Python code raises: an id is missing, ill-formed node) *)
Definition own_line (t : idtable) (e : lexpr) : option line :=
  match e with
  | LNode i h ks =>
      let kid := map lid ks in
      match h, ks with
      | HNum d, [] => Some (LNum i d)
      | HBeta n f, [] =>
          let k := if f then KFixedBeta else KFreeBeta in
          match ids_of t k n with Some (u, c) => Some (LLit i k n u c) | None => None end
      | HVar n, [] => match ids_of t KVar n with Some (u, c) => Some (LLit i KVar n u c) | None => None end
      | HDraws n _, [] => match ids_of t KDraws n with Some (u, c) => Some (LLit i KDraws n u c) | None => None end
      | HRV n, [] => match ids_of t KRV n with Some (u, c) => Some (LLit i KRV n u c) | None => None end
      | HBin _, [_; _] => Some (LGen i h kid)
      | HUn _, [_] => Some (LGen i h kid)
      | HMultSum, _ => Some (LGen i h kid)
      | HPowC c, [a] => Some (LPowC i (lid a) c)
      | HDerive n, [a] =>
          match index_of n (all_names t) with Some u => Some (LIdx i h (lid a) u) | None => None end
      | HIntegrate n, [a] =>
          match index_of n (t_rv t) with Some u => Some (LIdx i h (lid a) u) | None => None end
      | HBelongs s, [a] => Some (LBel i (lid a) s)
      | HCondSum, _ => match pairs_of kid with Some p => Some (LCond i p) | None => None end
      | HElem keys, key :: entries =>
          if Nat.eqb (List.length keys) (List.length entries)
          then Some (LElem i (lid key) (combine keys (map lid entries))) else None
      | HLinUtil, _ =>
          match pairs_of ks with
          | Some ps => match lin_terms t ps with Some ts => Some (LLin i ts) | None => None end
          | None => None
          end
      | HLogLogit uk ak, choice :: rest =>
          let us := firstn (List.length uk) rest in
          let avs := skipn (List.length uk) rest in
          if negb (Nat.eqb (List.length us) (List.length uk))
             || negb (Nat.eqb (List.length avs) (List.length ak))
          then None
          else match logit_alts uk us ak avs with
               | Some alts => Some (LLogit i (lid choice) alts)
               | None => None
               end
      | _, _ => None
      end
  end.

(* Expression.get_signature: signatures of the children (in get_children() order), then the
   node's own line.  ConditionalSum / Elem / LogLogit / LinearUtility list their children in
   the same order as our [kids]. *)
Fixpoint evens {A} (l : list A) : list A :=
  match l with [] => [] | a :: r => a :: match r with [] => [] | _ :: r' => evens r' end end.
Fixpoint odds {A} (l : list A) : list A :=
  match l with [] => [] | _ :: r => match r with [] => [] | b :: r' => b :: odds r' end end.

Fixpoint signature (t : idtable) (e : lexpr) : option (list line) :=
  match e with
  | LNode _ h ks =>
      match (fix go (l : list lexpr) : option (list (list line)) :=
               match l with
               | [] => Some []
               | k :: r => match signature t k, go r with
                           | Some a, Some b => Some (a :: b)
                           | _, _ => None
                           end
               end) ks, own_line t e with
      | Some per_kid, Some own =>
          (* bioLinearUtility.get_children() = all the betas, then all the variables *)
          let ordered := match h with HLinUtil => evens per_kid ++ odds per_kid | _ => per_kid end in
          Some (List.concat ordered ++ [own])
      | _, _ => None
      end
  end.

(* ------------------------------------------------------------------ the engine's reader *)
(* index-resolved leaves: the engine evaluates a literal through its CLASS index (position in
   the vector of free parameters / fixed parameters / row / draws / integration variables);
   we keep the tree type [expr] and write the index in place of the name. *)
Definition idx_name (c : Z) : string := string_of_Z c.

Definition store := list (positive * expr).

Fixpoint sfind (i : positive) (s : store) : option expr :=
  match s with
  | [] => None
  | (j, e) :: r => if Pos.eqb i j then Some e else sfind i r
  end.

Fixpoint sfind_all (is : list positive) (s : store) : option (list expr) :=
  match is with
  | [] => Some []
  | i :: r => match sfind i s, sfind_all r s with
              | Some e, Some es => Some (e :: es)
              | _, _ => None
              end
  end.

Definition lit_head (k : ekind) (c : Z) : head :=
  match k with
  | KFreeBeta => HBeta (idx_name c) false
  | KFixedBeta => HBeta (idx_name c) true
  | KVar => HVar (idx_name c)
  | KDraws => HDraws (idx_name c) ""
  | KRV => HRV (idx_name c)
  end.

Fixpoint flat2 (l : list (positive * positive)) : list positive :=
  match l with [] => [] | (a, b) :: r => a :: b :: flat2 r end.

Fixpoint dedup_last (ps : list (positive * positive)) : list (positive * positive) :=
  match ps with
  | [] => []
  | (c, t) :: r => if existsb (fun q => Pos.eqb (fst q) c) r then dedup_last r else (c, t) :: dedup_last r
  end.

(* one line -> the expression it denotes, given the map built so far (None = the engine fails) *)
Definition read_line (s : store) (l : line) : option expr :=
  match l with
  | LLit _ k _ _ c => Some (Node (lit_head k c) [])
  | LNum _ d => Some (Node (HNum d) [])
  | LGen _ h ks => match sfind_all ks s with Some es => Some (Node h es) | None => None end
  | LPowC _ k c => match sfind k s with Some e => Some (Node (HPowC c) [e]) | None => None end
  | LIdx _ h k u =>
      match sfind k s with
      | Some e => match h with
                  | HDerive _ => Some (Node (HDerive (idx_name u)) [e])
                  | HIntegrate _ => Some (Node (HIntegrate (idx_name u)) [e])
                  | _ => None
                  end
      | None => None
      end
  | LBel _ k st => match sfind k s with Some e => Some (Node (HBelongs st) [e]) | None => None end
  | LCond _ ps =>
      (* the engine stores the terms in a map keyed by the CONDITION OBJECT: when one object is
         the condition of several terms only the last of them survives *)
      match sfind_all (flat2 (dedup_last ps)) s with Some es => Some (Node HCondSum es) | None => None end
  | LElem _ key entries =>
      match sfind key s, sfind_all (map snd entries) s with
      | Some k, Some es => Some (Node (HElem (map fst entries)) (k :: es))
      | _, _ => None
      end
  | LLin _ ts =>
      (* the engine rebuilds each term from the ids of the two literals *)
      match sfind_all (flat2 (map (fun t => (fst (fst (fst t)), fst (fst (snd t)))) ts)) s with
      | Some es => Some (Node HLinUtil es)
      | None => None
      end
  | LLogit _ c alts =>
      match sfind c s, sfind_all (map (fun a => snd (fst a)) alts) s,
            sfind_all (map snd alts) s with
      | Some ce, Some us, Some avs =>
          Some (Node (HLogLogit (map (fun a => fst (fst a)) alts) (map (fun a => fst (fst a)) alts))
                     (ce :: us ++ avs))
      | _, _, _ => None
      end
  end.

(* bioFormula::setExpression: process every line; an id already present is not redefined;
   the result is the expression of the last line. *)
Fixpoint read_lines (s : store) (ls : list line) (last : option expr) : option (store * option expr) :=
  match ls with
  | [] => Some (s, last)
  | l :: r =>
      match sfind (line_id l) s with
      | Some e => read_lines s r (Some e)
      | None => match read_line s l with
                | Some e => read_lines ((line_id l, e) :: s) r (Some e)
                | None => None
                end
      end
  end.

Definition decode (ls : list line) : option expr :=
  match read_lines [] ls None with
  | Some (_, Some e) => Some e
  | _ => None
  end.

(* ------------------------------------------------------------------ what decode should give *)
(* [resolve t e]: the tree with every elementary name replaced by its class index. *)
Definition resolve_head (t : idtable) (h : head) : option head :=
  match h with
  | HBeta n f =>
      let k := if f then KFixedBeta else KFreeBeta in
      match ids_of t k n with Some (_, c) => Some (lit_head k c) | None => None end
  | HVar n => match ids_of t KVar n with Some (_, c) => Some (lit_head KVar c) | None => None end
  | HDraws n _ => match ids_of t KDraws n with Some (_, c) => Some (lit_head KDraws c) | None => None end
  | HRV n => match ids_of t KRV n with Some (_, c) => Some (lit_head KRV c) | None => None end
  | HDerive n => match index_of n (all_names t) with Some u => Some (HDerive (idx_name u)) | None => None end
  | HIntegrate n => match index_of n (t_rv t) with Some u => Some (HIntegrate (idx_name u)) | None => None end
  | _ => Some h
  end.

(* the signature of a logit lists, for each utility key, the availability with THAT key: the
   engine's tree has the availabilities in the order of the utilities *)
Fixpoint pick_all {A} (ks : list Z) (keys : list Z) (vals : list A) : option (list A) :=
  match ks with
  | [] => Some []
  | k :: r => match find_key k keys vals, pick_all r keys vals with
              | Some v, Some vs => Some (v :: vs)
              | _, _ => None
              end
  end.

Definition canon_logit (h : head) (ks : list expr) : option expr :=
  match h, ks with
  | HLogLogit uk ak, choice :: rest =>
      let us := firstn (List.length uk) rest in
      let avs := skipn (List.length uk) rest in
      match pick_all uk ak avs with
      | Some avs' => Some (Node (HLogLogit uk uk) (choice :: us ++ avs'))
      | None => None
      end
  | _, _ => Some (Node h ks)
  end.

Fixpoint resolve (t : idtable) (e : expr) : option expr :=
  match e with
  | Node h ks =>
      match resolve_head t h,
            (fix go (l : list expr) : option (list expr) :=
               match l with
               | [] => Some []
               | k :: r => match resolve t k, go r with
                           | Some a, Some b => Some (a :: b)
                           | _, _ => None
                           end
               end) ks with
      | Some h', Some ks' => canon_logit h' ks'
      | _, _ => None
      end
  end.

(* A Python object graph: nodes with the same identity are the same object. *)
Definition wf_dag (e : lexpr) : Prop :=
  forall a b, In a (lsubterms e) -> In b (lsubterms e) -> lid a = lid b -> a = b.

(* no ConditionalSum uses one condition OBJECT for two of its terms *)
Fixpoint cond_labels (ks : list lexpr) : list positive :=
  match ks with c :: _ :: r => lid c :: cond_labels r | _ => [] end.
Definition cond_ids_distinct (e : lexpr) : Prop :=
  forall s, In s (lsubterms e) -> lhead s = HCondSum -> NoDup (cond_labels (lkids s)).

(* ------------------------------------------------------------------ executable equality on lines *)
Definition pos_list_eqb := list_eqb Pos.eqb.
Definition lit3_eqb (a b : positive * Z * string) : bool :=
  Pos.eqb (fst (fst a)) (fst (fst b)) && (snd (fst a) =? snd (fst b)) && String.eqb (snd a) (snd b).

Definition line_eqb (a b : line) : bool :=
  match a, b with
  | LLit i k n u c, LLit i' k' n' u' c' =>
      Pos.eqb i i' && ekind_eqb k k' && String.eqb n n' && (u =? u') && (c =? c')
  | LNum i d, LNum i' d' => Pos.eqb i i' && dyadic_eqb d d'
  | LGen i h ks, LGen i' h' ks' => Pos.eqb i i' && head_eqb h h' && pos_list_eqb ks ks'
  | LPowC i k c, LPowC i' k' c' => Pos.eqb i i' && Pos.eqb k k' && dyadic_eqb c c'
  | LIdx i h k u, LIdx i' h' k' u' =>
      Pos.eqb i i' && Pos.eqb k k' && (u =? u') &&
      match h, h' with HDerive _, HDerive _ | HIntegrate _, HIntegrate _ => true | _, _ => false end
  | LBel i k s, LBel i' k' s' => Pos.eqb i i' && Pos.eqb k k' && list_eqb dyadic_eqb s s'
  | LCond i p, LCond i' p' =>
      Pos.eqb i i' && list_eqb (fun x y => Pos.eqb (fst x) (fst y) && Pos.eqb (snd x) (snd y)) p p'
  | LElem i k e, LElem i' k' e' =>
      Pos.eqb i i' && Pos.eqb k k' &&
      list_eqb (fun x y => (fst x =? fst y) && Pos.eqb (snd x) (snd y)) e e'
  | LLin i t, LLin i' t' =>
      Pos.eqb i i' && list_eqb (fun x y => lit3_eqb (fst x) (fst y) && lit3_eqb (snd x) (snd y)) t t'
  | LLogit i c al, LLogit i' c' al' =>
      Pos.eqb i i' && Pos.eqb c c' &&
      list_eqb (fun x y => (fst (fst x) =? fst (fst y)) && Pos.eqb (snd (fst x)) (snd (fst y))
                           && Pos.eqb (snd x) (snd y)) al al'
  | _, _ => false
  end.

Definition sig_agrees (t : idtable) (e : lexpr) (observed : list line) : bool :=
  match signature t e with
  | Some ls => list_eqb line_eqb ls observed
  | None => false
  end.

Definition idtable_eqb (a b : idtable) : bool :=
  list_eqb String.eqb (t_free a) (t_free b) && list_eqb String.eqb (t_fixed a) (t_fixed b) &&
  list_eqb String.eqb (t_rv a) (t_rv b) && list_eqb String.eqb (t_draws a) (t_draws b) &&
  list_eqb String.eqb (t_vars a) (t_vars b).

(* decode (signature) = resolve (erase): checked on concrete cases by the stream, proved in SigP *)
Definition decode_agrees (t : idtable) (e : lexpr) : bool :=
  match signature t e with
  | Some ls => match decode ls, resolve t (erase e) with
               | Some a, Some b => expr_eqb a b
               | _, _ => false
               end
  | None => false
  end.
