(* C18 -- MDCEV: one-alternative utilities of the four variants (closed forms), the consumer problem,
   KKT predicates, the rational KKT checker used by the forecast stream, the label <-> position layer and
   the Gallina builders of the symbolic utilities.

   Definitions only; lemmas are in Proofs/MdcevP.v.  The functions generated from
   /repo/src/biogeme/mdcev/*.py are in Gen/MdcevFormulas.v (which imports this file for [res] etc.). *)
From Coq Require Import Reals QArith Qreals ZArith List Bool.
From BV Require Import Model.Expr Model.EvalX.
Import ListNotations.
Open Scope R_scope.

(* ---------------------------------------------------------------------------------------------
   1. vocabulary of the generated functions *)

(* outcome of a numeric method: a double (as a real), np.inf, or an exception *)
Inductive res := Val (r : R) | Inf | Raise.

Definition Reqb (a b : R) : bool := if Req_EM_T a b then true else false.

(* np.isclose(a, b) with the default rtol = 1e-5, atol = 1e-8 *)
Definition isclose_b (a b : R) : bool :=
  if Rle_dec (Rabs (a - b)) (1 / 100000000 + 1 / 100000 * Rabs b) then true else false.

Definition is_none {A} (o : option A) : bool := match o with None => true | Some _ => false end.

(* ---------------------------------------------------------------------------------------------
   2. closed forms.  scale / price = None : the model has no scale parameter / no prices;
      gamma = None : the alternative is the outside good.  [x] is the expenditure. *)

Inductive variant := VG (* GammaProfile *) | VT (* Translated *) | VZ (* Generalized *) | VN (* NonMonotonic *).

Definition sc_eps (scale : option R) (eps : R) : R := match scale with Some s => eps / s | None => eps end.
Definition pr_of (price : option R) : R := match price with Some p => p | None => 1 end.

Definition U (v : variant) (scale price gamma : option R) (alpha V mu x eps : R) : R :=
  let e := sc_eps scale eps in
  let p := pr_of price in
  match v, gamma with
  | VG, None => exp (V + e) * ln (x / p)
  | VG, Some g => exp (V + e) * g * ln (1 + x / (p * g))
  | VT, None => exp (V + e + alpha * ln x)
  | VT, Some g => exp (V + e + alpha * ln (x + g))
  | VZ, None => exp (V + e) * Rpower (x / p) alpha / alpha
  | VZ, Some g => exp (V + e) * g * (Rpower (1 + x / (p * g)) alpha - 1) / alpha
  | VN, None => exp V * Rpower x alpha / alpha + (mu + e) * x
  | VN, Some g => g * exp V * (Rpower (1 + x / g) alpha - 1) / alpha + (mu + e) * x
  end.

(* marginal utility *)
Definition D (v : variant) (scale price gamma : option R) (alpha V mu x eps : R) : R :=
  let e := sc_eps scale eps in
  let p := pr_of price in
  match v, gamma with
  | VG, None => exp (V + e) / x
  | VG, Some g => exp (V + e) * g / (x + p * g)
  | VT, None => exp (V + e + ln alpha + (alpha - 1) * ln x)
  | VT, Some g => exp (V + e + ln alpha + (alpha - 1) * ln (x + g))
  | VZ, None => exp (V + e) * Rpower (x / p) (alpha - 1) / p
  | VZ, Some g => exp (V + e) * Rpower (1 + x / (p * g)) (alpha - 1) / p
  | VN, None => exp V * Rpower x (alpha - 1) + mu + e
  | VN, Some g => exp V * Rpower (1 + x / g) (alpha - 1) + mu + e
  end.

(* consumption at which the marginal utility equals the dual variable [lam] *)
Definition Xopt (v : variant) (scale price gamma : option R) (alpha V mu lam eps : R) : R :=
  let e := sc_eps scale eps in
  let p := pr_of price in
  match v, gamma with
  | VG, None => exp (V + e) / lam
  | VG, Some g => exp (V + e) * g / lam - p * g
  | VT, None => exp ((ln lam - V - e - ln alpha) / (alpha - 1))
  | VT, Some g => exp ((ln lam - V - e - ln alpha) / (alpha - 1)) - g
  | VZ, None => p * Rpower (p * lam / exp (V + e)) (1 / (alpha - 1))
  | VZ, Some g => p * g * (Rpower (p * lam / exp (V + e)) (1 / (alpha - 1)) - 1)
  | VN, None => Rpower ((lam - mu - e) * exp (- V)) (1 / (alpha - 1))
  | VN, Some g => g * (Rpower ((lam - mu - e) * exp (- V)) (1 / (alpha - 1)) - 1)
  end.

(* the utility is defined (and differentiable) for x > lo *)
Definition lo (v : variant) (price gamma : option R) : R :=
  match gamma with
  | None => 0
  | Some g => match v with VG | VZ => - (pr_of price * g) | VT | VN => - g end
  end.

(* admissible parameters *)
Definition params_ok (v : variant) (price gamma : option R) (alpha : R) : Prop :=
  0 < pr_of price /\ (forall g, gamma = Some g -> 0 < g) /\
  match v with VG => True | VT => 0 < alpha < 1 | VZ | VN => alpha < 1 /\ alpha <> 0 end.

(* admissible dual variables: lam > lam_min *)
Definition lam_ok (v : variant) (scale : option R) (mu eps lam : R) : Prop :=
  match v with VN => mu + sc_eps scale eps < lam | _ => 0 < lam end.

(* ---------------------------------------------------------------------------------------------
   3. the consumer problem over a list of goods *)

Record cgood := mkCGood {
  cu : R -> R;      (* utility of the expenditure *)
  cdu : R -> R;     (* marginal utility *)
  cp : R;           (* price normalising the marginal utility (1 in the code: x is an expenditure) *)
  clo : R           (* the good is defined for x > clo ; clo = 0 for an outside good *)
}.

Fixpoint total_u (gs : list cgood) (xs : list R) : R :=
  match gs, xs with g :: gs', x :: xs' => cu g x + total_u gs' xs' | _, _ => 0 end.

Fixpoint spend (gs : list cgood) (xs : list R) : R :=
  match gs, xs with g :: gs', x :: xs' => cp g * x + spend gs' xs' | _, _ => 0 end.

(* a feasible allocation: non-negative, inside the domain of every utility *)
Fixpoint feasible (gs : list cgood) (xs : list R) : Prop :=
  match gs, xs with
  | [], [] => True
  | g :: gs', x :: xs' => 0 <= x /\ clo g < x /\ feasible gs' xs'
  | _, _ => False
  end.

(* supporting-line inequality of a concave differentiable utility on its domain *)
Definition supported (g : cgood) : Prop :=
  0 < cp g /\ clo g <= 0 /\
  forall x y, clo g < x -> clo g < y -> cu g y <= cu g x + cdu g x * (y - x).

(* eps-KKT at multiplier lam: marginal utility per unit of price within eps of lam on the consumed goods,
   not above lam + eps at zero on the others.  (eps = 0: KKT.) *)
Fixpoint kkt_eps (eps lam : R) (gs : list cgood) (xs : list R) : Prop :=
  match gs, xs with
  | [], [] => True
  | g :: gs', x :: xs' =>
      cdu g x <= (lam + eps) * cp g /\ (0 < x -> (lam - eps) * cp g <= cdu g x) /\ kkt_eps eps lam gs' xs'
  | _, _ => False
  end.

(* the good of one alternative of a variant: prices are inside the utility (cp = 1) *)
Definition variant_good (v : variant) (scale price gamma : option R) (alpha V mu eps : R) : cgood :=
  mkCGood (fun x => U v scale price gamma alpha V mu x eps) (fun x => D v scale price gamma alpha V mu x eps)
          1 (lo v price gamma).

(* one alternative with its draw *)
Record vgood := mkVGood {
  vg_v : variant; vg_scale : option R; vg_price : option R; vg_gamma : option R;
  vg_alpha : R; vg_V : R; vg_mu : R; vg_eps : R }.

Definition good_of (a : vgood) : cgood :=
  variant_good (vg_v a) (vg_scale a) (vg_price a) (vg_gamma a) (vg_alpha a) (vg_V a) (vg_mu a) (vg_eps a).
Definition vgood_ok (a : vgood) : Prop := params_ok (vg_v a) (vg_price a) (vg_gamma a) (vg_alpha a).
Definition vg_D (a : vgood) (x : R) : R :=
  D (vg_v a) (vg_scale a) (vg_price a) (vg_gamma a) (vg_alpha a) (vg_V a) (vg_mu a) x (vg_eps a).
Definition vg_X (a : vgood) (lam : R) : R :=
  Xopt (vg_v a) (vg_scale a) (vg_price a) (vg_gamma a) (vg_alpha a) (vg_V a) (vg_mu a) lam (vg_eps a).

(* what forecast_bisection_one_draw returns when its chosen set and its root are right: the closed-form
   consumption at the dual variable on the chosen alternatives, zero elsewhere *)
Definition alloc (lam : R) (ac : vgood * bool) : R := if snd ac then vg_X (fst ac) lam else 0.

Definition root_ok (lam : R) (ac : vgood * bool) : Prop :=
  let a := fst ac in
  vgood_ok a /\
  if snd ac then lam_ok (vg_v a) (vg_scale a) (vg_mu a) (vg_eps a) lam /\ 0 <= vg_X a lam
  else vg_gamma a <> None /\ vg_D a 0 <= lam.

(* comparison of an outcome of the code with a finite dual variable *)
Definition res_le (r : res) (lam : R) : Prop :=
  match r with Val d => d <= lam | Inf => False | Raise => False end.

(* ---------------------------------------------------------------------------------------------
   4. the rational checker evaluated by the forecast stream (vm_compute on exact dyadic rationals):
      entries (x_k, d_k, p_k) with d_k the marginal utility reported at x_k *)

Open Scope Q_scope.
Fixpoint spendQ (l : list (Q * Q * Q)) : Q :=
  match l with [] => 0 | (x, _, p) :: r => p * x + spendQ r end.

Definition entry_okQ (lam eps : Q) (t : Q * Q * Q) : bool :=
  let '(x, d, p) := t in
  Qle_bool 0 x && Qle_bool 0 p && Qle_bool d ((lam + eps) * p) &&
  (Qle_bool x 0 || Qle_bool ((lam - eps) * p) d).

Definition kkt_checkQ (l : list (Q * Q * Q)) (B lam eps delta : Q) : bool :=
  Qle_bool 0 eps &&
  (forallb (entry_okQ lam eps) l && Qle_bool (spendQ l - B) delta && Qle_bool (B - spendQ l) delta).
Close Scope Q_scope.

(* the real data a checked list stands for *)
Definition entryR (t : Q * Q * Q) : R * R * R := let '(x, d, p) := t in (Q2R x, Q2R d, Q2R p).

(* "the reported d_k is the marginal utility of good k at x_k and p_k its price" *)
Fixpoint matches (gs : list cgood) (l : list (Q * Q * Q)) : Prop :=
  match gs, l with
  | [], [] => True
  | g :: gs', (x, d, p) :: l' => cdu g (Q2R x) = Q2R d /\ cp g = Q2R p /\ (0 < Q2R x -> clo g < Q2R x) /\
                                 (Q2R x = 0 -> clo g < 0) /\ matches gs' l'
  | _, _ => False
  end.

(* ---------------------------------------------------------------------------------------------
   5. labels and positions.  A model is the list of (label, parameters) in index_to_key order
      (the iteration order of a CPython set: an arbitrary duplicate-free list here). *)

Record gparams := mkGP { gp_price : option R; gp_gamma : option R; gp_alpha : R; gp_V : R; gp_mu : R }.
Definition lmodel := list (Z * gparams).

Definition keys (m : lmodel) : list Z := map fst m.

Fixpoint index_of (k : Z) (l : list Z) : option nat :=
  match l with
  | [] => None
  | k' :: r => if (k =? k')%Z then Some O else option_map S (index_of k r)
  end.

Definition key_to_index (m : lmodel) (k : Z) : option nat := index_of k (keys m).

(* gamma_parameters[k] is None *)
Definition is_outside (a : Z * gparams) : bool := is_none (gp_gamma (snd a)).

Definition og_key (m : lmodel) : option Z := option_map fst (find is_outside m).
Definition og_index (m : lmodel) : option nat :=
  match og_key m with Some k => key_to_index m k | None => None end.

(* the test  `the_id == self.outside_good_<key|index>`  of GammaProfile.derivative_utility_one_alternative *)
Definition og_test (by_key : bool) (m : lmodel) (k : Z) : bool :=
  if by_key then match og_key m with Some k' => (k =? k')%Z | None => false end
  else match og_index m with Some i => (k =? Z.of_nat i)%Z | None => false end.

(* the_unsorted_w of identification_chosen_alternatives: marginal utility at zero of every alternative
   but the outside good, epsilon read at the alternative's position *)
Definition deriv_fn := bool -> option R -> option R -> option R -> R -> R -> R -> R -> R -> res.

Definition w_entry (by_key : bool) (deriv : deriv_fn) (scale : option R) (m : lmodel) (eps : list R)
  (a : Z * gparams) : Z * res :=
  let '(k, g) := a in
  (k, match key_to_index m k with
      | Some i => deriv (og_test by_key m k) scale (gp_price g) (gp_gamma g) (gp_alpha g) (gp_V g) (gp_mu g) 0
                        (nth i eps 0)
      | None => Raise     (* KeyError *)
      end).

Definition w_table (by_key : bool) (deriv : deriv_fn) (scale : option R) (m : lmodel) (eps : list R)
  : list (Z * res) :=
  map (w_entry by_key deriv scale m eps)
      (filter (fun a => negb (match og_key m with Some k' => (fst a =? k')%Z | None => false end)) m).

(* optimal_consumption: {alt_id: optimal_consumption_one_alternative(alt_id, dual, epsilon[key_to_index[alt_id]])} *)
Definition opt_fn := bool -> option R -> option R -> option R -> R -> R -> R -> R -> R -> res.

Definition lookup_alt (m : lmodel) (k : Z) : option gparams :=
  option_map snd (find (fun a => (fst a =? k)%Z) m).

Definition consumption_table (opt : opt_fn) (scale : option R) (m : lmodel) (eps : list R) (lam : R)
  (chosen : list Z) : list (Z * res) :=
  map (fun k => (k, match key_to_index m k, lookup_alt m k with
                    | Some i, Some g => opt false scale (gp_price g) (gp_gamma g) (gp_alpha g) (gp_V g) (gp_mu g)
                                            lam (nth i eps 0)
                    | _, _ => Raise
                    end)) chosen.

Definition relabel (f : Z -> Z) (m : lmodel) : lmodel := map (fun a => (f (fst a), snd a)) m.
Definition relabel_tab {A} (f : Z -> Z) (t : list (Z * A)) : list (Z * A) := map (fun a => (f (fst a), snd a)) t.

Definition injective_on (f : Z -> Z) (l : list Z) : Prop :=
  forall a b, In a l -> In b l -> f a = f b -> a = b.

(* ---------------------------------------------------------------------------------------------
   6. the symbolic utilities (utility_expression_one_alternative) as trees of Model/Expr.v *)

Inductive aparam := ANone | AConst (d : dyadic) | AExpr (e : expr).

(* base ** alpha : PowerConstant when alpha is a Numeric, Power otherwise *)
Definition epow (base : expr) (a : aparam) : expr :=
  match a with AConst d => EPowC base d | AExpr e => EBin Power base e | ANone => base end.
Definition a_expr (a : aparam) : expr :=
  match a with AConst d => Node (HNum d) [] | AExpr e => e | ANone => ENumZ 0 end.

Definition uexpr (v : variant) (V M : expr) (scale price gamma : option expr) (alpha : aparam)
  (x epsu : expr) : expr :=
  let eps := match scale with None => epsu | Some s => EBin Divide epsu s end in
  let p := match price with None => ENumZ 1 | Some p => p end in
  let one := ENumZ 1 in
  match v, gamma with
  | VG, None => EBin Times (EUn Exp (EBin Plus V eps)) (EUn Log (EBin Divide x p))
  | VG, Some g => EBin Times (EBin Times (EUn Exp (EBin Plus V eps)) g)
                             (EUn Log (EBin Plus one (EBin Divide x (EBin Times p g))))
  | VT, None => EUn Exp (EBin Plus (EBin Plus V eps) (EBin Times (a_expr alpha) (EUn Log x)))
  | VT, Some g => EUn Exp (EBin Plus (EBin Plus V eps) (EBin Times (a_expr alpha) (EUn Log (EBin Plus x g))))
  | VZ, None => EBin Divide (EBin Times (EUn Exp (EBin Plus V eps)) (epow (EBin Divide x p) alpha)) (a_expr alpha)
  | VZ, Some g => EBin Divide
                    (EBin Times (EBin Times (EUn Exp (EBin Plus V eps)) g)
                                (EBin Minus (epow (EBin Plus one (EBin Divide x (EBin Times p g))) alpha) one))
                    (a_expr alpha)
  | VN, None => EBin Plus (EBin Divide (EBin Times (EUn Exp V) (epow x alpha)) (a_expr alpha))
                          (EBin Times (EBin Plus M eps) x)
  | VN, Some g => EBin Plus
                    (EBin Divide (EBin Times (EBin Times g (EUn Exp V))
                                             (EBin Minus (epow (EBin Plus one (EBin Divide x g)) alpha) one))
                                 (a_expr alpha))
                    (EBin Times (EBin Plus M eps) x)
  end.

(* the value of an optional parameter expression *)
Definition opt_val (Phi : R -> R) (en : env) (o : option expr) (r : option R) : Prop :=
  match o, r with
  | None, None => True
  | Some e, Some x => evalX Phi e en = XR x
  | _, _ => False
  end.

(* the value of the alpha parameter; a Numeric alpha is a PowerConstant exponent: the engine takes the
   integer-power path when the double is an integer, which never is the case for 0 < alpha < 1 *)
Definition alpha_val (Phi : R -> R) (en : env) (a : aparam) (r : R) : Prop :=
  match a with
  | ANone => True
  | AConst d => D2R d = r /\ dyadic_is_int d = None
  | AExpr e => evalX Phi e en = XR r
  end.
