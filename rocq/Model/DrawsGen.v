(* C11 -- model of the draw generators of biogeme (src/biogeme/draws.py, native_draws.py).
   Definitions only (all executable: exact rationals Q, lists); proofs are in Proofs/DrawsGenP.v.

   What is modelled, and from where:
   * radical_inverse b n          -- the mathematical radical inverse (van der Corput) of n in base b;
   * halton_py b len skip         -- draws.get_halton_draws as it is CODED: the array `numbers` is grown by
                                     rounds t = 1, 2, ...; in round t the already filled prefix is copied
                                     (truncated to the room left) base-1 times, adding i/base**t;
                                     the result is the slice [skip+1 : len+skip+1];
   * mlhs us perm sym             -- draws.get_latin_hypercube_draws: (i + u_i)/N, optional 2x-1, then a
                                     shuffle.  The uniform numbers u_i and the permutation are INPUTS;
   * anti_row / mirror_*          -- np.concatenate((d, 1 - d), axis=1) resp. (d, -d): per ROW, first half
                                     followed by its mirror image;
   * sym                          -- 2.0 * u - 1.0;
   * entry / gen_rows / gen_output-- a catalogue entry of native_draws.native_random_number_generators
                                     (the table itself is GENERATED into Gen/DrawCatalogue.v) and the
                                     array it produces, as a list of rows;
   * wichura branch structure     -- which formula draws.get_normal_wichura_draws applies to which u
                                     (the constants and the compared quantity are GENERATED), next to the
                                     branch structure of algorithm AS241 (PPND16) as published. *)
From Coq Require Import ZArith QArith Qround Qabs Qminmax List Bool String Ascii.
Import ListNotations.
Local Open Scope Q_scope.

Definition Qz (z : Z) : Q := inject_Z z.
Definition Qn (n : nat) : Q := inject_Z (Z.of_nat n).

(* a binary64 value m * 2^-k, as sent by the harness *)
Definition dy (m : Z) (k : N) : Q :=
  match k with N0 => Qmake m 1 | Npos p => Qmake m (Pos.pow 2 p) end.

(* ------------------------------------------------------------------ radical inverse *)
(* phi_b(n) = sum_k d_k b^(-k-1)  where n = sum_k d_k b^k;  phi_b(n) = (n mod b + phi_b(n / b)) / b *)
Fixpoint radinv (fuel : nat) (b n : Z) : Q :=
  match fuel with
  | O => 0
  | S f => if (n <=? 0)%Z then 0 else (Qz (n mod b) + radinv f b (n / b)) / Qz b
  end.
Definition radical_inverse (b n : Z) : Q := radinv (S (Z.to_nat n)) b n.

(* the same number from an explicit digit list (least significant first): the mirror image *)
Fixpoint from_digits (b : Z) (ds : list Z) : Z :=
  match ds with [] => 0%Z | d :: r => (d + b * from_digits b r)%Z end.
Fixpoint mirror_digits (b : Z) (ds : list Z) : Q :=
  match ds with [] => 0 | d :: r => (Qz d + mirror_digits b r) / Qz b end.

(* ------------------------------------------------------------------ Halton, as coded *)
(* numbers[idx : idx+m] = numbers[:m] + d * i *)
Definition halton_append (d : Q) (i : Z) (m : nat) (nums : list Q) : list Q :=
  nums ++ map (fun x => x + d * Qz i) (firstn m nums).

(* while i < base and numbers_idx < req_length: ...   (numbers_idx = length of the filled prefix) *)
Fixpoint halton_inner (fuel : nat) (b : Z) (req : nat) (d : Q) (size : nat) (i : Z) (nums : list Q)
  : list Q :=
  match fuel with
  | O => nums
  | S f =>
      if ((i <? b)%Z && (List.length nums <? req)%nat)%bool then
        halton_inner f b req d size (i + 1)%Z
          (halton_append d i (Nat.min (req - List.length nums) size) nums)
      else nums
  end.

(* while numbers_idx < req_length: d = 1 / base**t; numbers_size = numbers_idx; i = 1; <inner>; t += 1 *)
Fixpoint halton_outer (fuel : nat) (b : Z) (req : nat) (t : Z) (nums : list Q) : list Q :=
  match fuel with
  | O => nums
  | S f =>
      if (List.length nums <? req)%nat then
        halton_outer f b req (t + 1)%Z
          (halton_inner (Z.to_nat b) b req (1 / Qz (b ^ t)) (List.length nums) 1%Z nums)
      else nums
  end.

(* numbers[0] = 0; numbers_idx = 1; t = 1 *)
Definition halton_numbers (b : Z) (req : nat) : list Q := halton_outer req b req 1%Z [0].

(* numbers[skip + 1 : length + skip + 1] *)
Definition halton_py (b : Z) (len skip : nat) : list Q :=
  firstn len (skipn (skip + 1) (halton_numbers b (len + skip + 1))).

(* ------------------------------------------------------------------ symmetric map, MLHS, shuffle *)
Definition sym (x : Q) : Q := 2 * x - 1.
Definition symopt (s : bool) (x : Q) : Q := if s then sym x else x.

(* [(float(i) + u[i]) / float(N) for i in range(N)] *)
Fixpoint mlhs_from (i : nat) (N : Q) (us : list Q) : list Q :=
  match us with [] => [] | u :: r => ((Qn i + u) / N) :: mlhs_from (S i) N r end.
Definition mlhs_base (us : list Q) : list Q := mlhs_from 0 (Qn (List.length us)) us.

(* np.random.shuffle: out[k] = in[perm[k]] for the permutation drawn by numpy
   (indices are data: binary numbers) *)
Definition permute (perm : list N) (ys : list Q) : list Q :=
  map (fun j => nth (N.to_nat j) ys 0) perm.

Definition mlhs (us : list Q) (perm : list N) (s : bool) : list Q :=
  permute perm (map (symopt s) (mlhs_base us)).

(* index of the stratum (of [0,1), or of [-1,1) for symmetric draws) holding x, N strata *)
Definition stratum (N : nat) (s : bool) (x : Q) : Z :=
  Qfloor (Qn N * (if s then (x + 1) / 2 else x)).

(* ------------------------------------------------------------------ antithetic completion *)
Definition mirror_unit (x : Q) : Q := 1 - x.
Definition mirror_neg (x : Q) : Q := - x.
Definition anti_row (mirror : Q -> Q) (xs : list Q) : list Q := xs ++ map mirror xs.

(* flat.shape = (rows, cols) *)
Fixpoint reshape (rows cols : nat) (flat : list Q) : list (list Q) :=
  match rows with
  | O => []
  | S r => firstn cols flat :: reshape r cols (skipn cols flat)
  end.

(* ------------------------------------------------------------------ catalogue entries *)
Inductive family := FUniform | FHalton | FMLHS.
Inductive mirror_kind := MNone | MOneMinus | MNeg.

Record entry := mkEntry {
  e_key : string;          (* key of native_random_number_generators *)
  e_descr : string;        (* its description string *)
  e_helper : string;       (* function the entry points to *)
  e_family : family;       (* generator of the uniform stage *)
  e_base : Z;              (* base= passed to get_halton_draws (0 when not Halton) *)
  e_skip : Z;              (* skip= passed to get_halton_draws (0 when not Halton) *)
  e_symmetric : bool;      (* symmetric= of the uniform stage *)
  e_shuffled : bool;       (* shuffled= of get_halton_draws *)
  e_normal : bool;         (* output goes through get_normal_wichura_draws *)
  e_antithetic : bool;     (* output is concatenate((d, mirror d), axis) *)
  e_mirror : mirror_kind;  (* which mirror image *)
  e_axis : Z;              (* axis of the concatenation (0 when not antithetic) *)
  e_half : bool            (* the generating stage is asked for int(number_of_draws / 2) draws *)
}.

Definition family_eqb (a b : family) : bool :=
  match a, b with FUniform, FUniform | FHalton, FHalton | FMLHS, FMLHS => true | _, _ => false end.
Definition mirror_eqb (a b : mirror_kind) : bool :=
  match a, b with MNone, MNone | MOneMinus, MOneMinus | MNeg, MNeg => true | _, _ => false end.
Definition mirror_fun (k : mirror_kind) : Q -> Q :=
  match k with MOneMinus => mirror_unit | MNeg => mirror_neg | MNone => fun x => x end.

(* the flat uniform stage: `count` numbers; us = what numpy's uniform generator returned,
   perm = what numpy's shuffle did (both arbitrary inputs) *)
Definition stage (e : entry) (count : nat) (us : list Q) (perm : list N) : list Q :=
  match e_family e with
  | FUniform => map (symopt (e_symmetric e)) us
  | FHalton =>
      let h := halton_py (e_base e) count (Z.to_nat (e_skip e)) in
      map (symopt (e_symmetric e)) (if e_shuffled e then permute perm h else h)
  | FMLHS => mlhs us perm (e_symmetric e)
  end.

Definition gen_cols (e : entry) (n : nat) : nat := if e_half e then Nat.div n 2 else n.

(* the generated part, shape (ss, gen_cols) *)
Definition gen_rows (e : entry) (ss n : nat) (us : list Q) (perm : list N) : list (list Q) :=
  reshape ss (gen_cols e n) (stage e (ss * gen_cols e n) us perm).

(* the returned array; [quant] stands for the normal quantile transform (applied elementwise) *)
Definition gen_output (quant : Q -> Q) (e : entry) (ss n : nat) (us : list Q) (perm : list N)
  : list (list Q) :=
  let rows := gen_rows e ss n us perm in
  let rows := if e_normal e then map (map quant) rows else rows in
  if e_antithetic e then map (anti_row (mirror_fun (e_mirror e))) rows else rows.

(* ------------------------------------------------------------------ comparing with doubles *)
Definition closeb (tol a b : Q) : bool := Qle_bool (Qabs (a - b)) tol.
Fixpoint close_list (tol : Q) (xs ys : list Q) : bool :=
  match xs, ys with
  | [], [] => true
  | x :: xr, y :: yr => closeb tol x y && close_list tol xr yr
  | _, _ => false
  end.
Fixpoint close_rows (tol : Q) (xs ys : list (list Q)) : bool :=
  match xs, ys with
  | [], [] => true
  | x :: xr, y :: yr => close_list tol x y && close_rows tol xr yr
  | _, _ => false
  end.

(* ------------------------------------------------------------------ strings of the catalogue *)
Fixpoint containsb (p s : string) : bool :=
  String.prefix p s || match s with EmptyString => false | String _ r => containsb p r end.

Fixpoint drop (n : nat) (s : string) : string :=
  match n, s with O, _ => s | S k, String _ r => drop k r | S _, EmptyString => EmptyString end.

(* the text following the first occurrence of p *)
Fixpoint after (p s : string) : option string :=
  if String.prefix p s then Some (drop (String.length p) s)
  else match s with EmptyString => None | String _ r => after p r end.

Definition suffixb (p s : string) : bool :=
  (String.length p <=? String.length s)%nat &&
  String.eqb p (drop (String.length s - String.length p) s).

Definition digit_of (c : ascii) : option Z :=
  let n := Z.of_nat (nat_of_ascii c) in
  if ((48 <=? n) && (n <=? 57))%Z then Some (n - 48)%Z else None.

Fixpoint read_digits (s : string) (acc : option Z) : option Z :=
  match s with
  | EmptyString => acc
  | String c r =>
      match digit_of c with
      | Some d => read_digits r (Some (match acc with Some a => 10 * a + d | None => d end)%Z)
      | None => acc
      end
  end.

(* the decimal number written right after the first occurrence of p *)
Definition number_after (p s : string) : option Z :=
  match after p s with Some r => read_digits r None | None => None end.

Definition optZ_eqb (a b : option Z) : bool :=
  match a, b with Some x, Some y => (x =? y)%Z | None, None => true | _, _ => false end.

Fixpoint no_divisor (fuel : nat) (d n : Z) : bool :=
  match fuel with
  | O => true
  | S f => if (d * d >? n)%Z then true else if (n mod d =? 0)%Z then false else no_divisor f (d + 1)%Z n
  end.
Definition primeb (n : Z) : bool := (2 <=? n)%Z && no_divisor (Z.to_nat n) 2 n.

(* What an entry advertises (description and key) against what its helper does. *)
Record entry_consistent (e : entry) : Prop := mkConsistent {
  (* description *)
  ec_halton : containsb "Halton" (e_descr e) = family_eqb (e_family e) FHalton;
  ec_mlhs : containsb "Latin Hypercube" (e_descr e) = family_eqb (e_family e) FMLHS;
  ec_base : number_after "base " (e_descr e)
            = if family_eqb (e_family e) FHalton then Some (e_base e) else None;
  ec_prime : family_eqb (e_family e) FHalton = true -> primeb (e_base e) = true;
  ec_skip : forall k, number_after "skipping the first " (e_descr e) = Some k ->
            family_eqb (e_family e) FHalton = true /\ e_skip e = k;
  ec_skip_nonneg : (0 <= e_skip e)%Z;
  ec_symmetric : containsb "[-1, 1]" (e_descr e) = e_symmetric e;
  ec_unit : containsb "[0, 1]" (e_descr e) = true -> e_symmetric e = false /\ e_normal e = false;
  ec_antithetic : (containsb "Antithetic" (e_descr e) || containsb "antithetic" (e_descr e))%bool
                  = e_antithetic e;
  ec_normal : (containsb "Normal" (e_descr e) || containsb "normal" (e_descr e))%bool = e_normal e;
  (* the quantile transform is fed numbers of the unit interval, in sequence order *)
  ec_normal_unit : e_normal e = true -> e_symmetric e = false;
  ec_unshuffled : e_shuffled e = false;
  (* antithetic structure: half the draws are generated, completed along the draws axis by the
     mirror image that suits the support *)
  ec_half : e_half e = e_antithetic e;
  ec_mirror : e_mirror e = if e_antithetic e
                           then (if (e_symmetric e || e_normal e)%bool then MNeg else MOneMinus)
                           else MNone;
  ec_axis : e_antithetic e = true -> e_axis e = 1%Z;
  (* key *)
  ec_key_sym : String.prefix "UNIFORMSYM" (e_key e) = e_symmetric e;
  ec_key_normal : String.prefix "NORMAL" (e_key e) = e_normal e;
  ec_key_uniform : String.prefix "UNIFORM" (e_key e) = negb (e_normal e);
  ec_key_anti : suffixb "_ANTI" (e_key e) = e_antithetic e;
  ec_key_halton : containsb "HALTON" (e_key e) = family_eqb (e_family e) FHalton;
  ec_key_base : number_after "HALTON" (e_key e)
                = if family_eqb (e_family e) FHalton then Some (e_base e) else None;
  ec_key_mlhs : containsb "MLHS" (e_key e) = family_eqb (e_family e) FMLHS
}.

Fixpoint distinct_keys (l : list string) : bool :=
  match l with [] => true | k :: r => negb (existsb (String.eqb k) r) && distinct_keys r end.

(* ------------------------------------------------------------------ Wichura AS241: branch structure *)
Inductive wregion := WCentral | WTailLow | WTailHigh | WUnassigned.
Inductive warg := ArgU | ArgQ.             (* np.abs(uniform_numbers)  |  np.abs(q) *)
Inductive wcmp := CLe | CLt | CGe | CGt.
Inductive wsrc := SrcU | SrcOneMinusU.     (* r[...] = uniform_numbers[...]  |  1 - uniform_numbers[...] *)

Definition wcmp_eval (c : wcmp) (a b : Q) : bool :=
  match c with
  | CLe => Qle_bool a b
  | CLt => negb (Qle_bool b a)
  | CGe => Qle_bool b a
  | CGt => negb (Qle_bool a b)
  end.

Definition wregion_eqb (a b : wregion) : bool :=
  match a, b with
  | WCentral, WCentral | WTailLow, WTailLow | WTailHigh, WTailHigh | WUnassigned, WUnassigned => true
  | _, _ => false
  end.

(* the branch structure of the implementation, from the extracted pieces:
     q = u - shift
     cond1 = abs(arg1) op1 c1           -> central rational approximation in q
     cond2 = abs(arg2) op2 c2
     cond2a = cond2 and q opa ca        -> tail, r from src_a, result negated iff neg_a
     cond2b = cond2 and q opb cb        -> tail, r from src_b, result negated iff neg_b
   the tail assignments come later in the code and overwrite the central one *)
Record wbranches := mkW {
  w_shift : Q;
  w_arg1 : warg; w_op1 : wcmp; w_c1 : Q;
  w_arg2 : warg; w_op2 : wcmp; w_c2 : Q;
  w_opa : wcmp; w_ca : Q; w_srca : wsrc; w_nega : bool;
  w_opb : wcmp; w_cb : Q; w_srcb : wsrc; w_negb : bool;
  w_const1 : Q; w_split2 : Q; w_const2 : Q
}.

Definition warg_eval (w : wbranches) (a : warg) (u : Q) : Q :=
  match a with ArgU => u | ArgQ => u - w_shift w end.

Definition impl_region (w : wbranches) (u : Q) : wregion :=
  let q := u - w_shift w in
  let cond1 := wcmp_eval (w_op1 w) (Qabs (warg_eval w (w_arg1 w) u)) (w_c1 w) in
  let cond2 := wcmp_eval (w_op2 w) (Qabs (warg_eval w (w_arg2 w) u)) (w_c2 w) in
  if (cond2 && wcmp_eval (w_opb w) q (w_cb w))%bool then WTailHigh
  else if (cond2 && wcmp_eval (w_opa w) q (w_ca w))%bool then WTailLow
  else if cond1 then WCentral else WUnassigned.

(* tail area handed to sqrt(-log(.)) and sign of the result, in the two tails *)
Definition wsrc_eval (s : wsrc) (u : Q) : Q := match s with SrcU => u | SrcOneMinusU => 1 - u end.
Definition impl_tail_area (w : wbranches) (u : Q) : Q :=
  match impl_region w u with
  | WTailLow => wsrc_eval (w_srca w) u
  | WTailHigh => wsrc_eval (w_srcb w) u
  | _ => 0
  end.
Definition impl_tail_negated (w : wbranches) (u : Q) : bool :=
  match impl_region w u with WTailLow => w_nega w | WTailHigh => w_negb w | _ => false end.

(* AS241 (Wichura 1988), PPND16 as published: q = p - 0.5; central iff |q| <= SPLIT1 = 0.425;
   otherwise r = min(p, 1-p), negated result iff q < 0; second split at sqrt(-log r) = SPLIT2 = 5.
   split1 is the binary64 value of the literal 0.425 (the published code is double precision). *)
Definition as241_split1 : Q := dy 7656119366529843 54.
Definition as241_region (u : Q) : wregion :=
  let q := u - (1 # 2) in
  if Qle_bool (Qabs q) as241_split1 then WCentral
  else if negb (Qle_bool 0 q) then WTailLow else WTailHigh.
Definition as241_tail_area (u : Q) : Q := Qmin u (1 - u).
