(* C20 -- model of Biogeme's deprecated aliases.
   Definitions only (executable); lemmas live in Proofs/AliasP.v; the tables themselves are
   regenerated from /repo on every run into Gen/AliasTable.v (tie A).

   Contents
     1. the data extracted from the package: parameters, function identities, aliases,
        classes (bases, linearisation, final class dictionary), keyword maps;
     2. Python attribute resolution: C3 linearisation, lookup along the MRO;
     3. the two wrappers of src/biogeme/deprecated.py as small programs with an interpreter
        (the program of `deprecated` is *generated from the source*, statement by statement);
     4. the function reached by a call of an alias on a receiver class;
     5. the decidable statements T20a..T20e (boolean, over the tables);
     6. the reviewed exception tables (each entry justified). *)
From Coq Require Import ZArith List String Ascii Bool.
Import ListNotations.
Open Scope string_scope.

(* ------------------------------------------------------------------ 1. data *)
Inductive pkind := PosOnly | PosOrKw | VarArg | KwOnly | VarKw.
Record param := mkParam { p_name : string; p_kind : pkind; p_default : option string (* source text *) }.

(* how a def is bound in its scope *)
Inductive fkind := Instance | Static | ClassM | ModuleLevel | Property.

(* identity of a function object = its definition site (module, owner class or "", name,
   first line = co_firstlineno).  One def statement creates one function object. *)
Record fid := mkFid { f_mod : string; f_owner : string; f_name : string; f_line : Z }.

Record alias := mkAlias {
  a_mod : string; a_owner : string; a_old : string; a_line : Z; a_kind : fkind;
  a_new : string;                       (* __name__ of the captured function (named in the warning) *)
  a_captured : fid;                     (* the definition the decorator argument resolves to *)
  a_captured_kind : fkind;
  a_captured_kwmap : list (string * option string);  (* @deprecated_parameters map of the replacement, [] if none *)
  a_old_params : list param; a_new_params : list param;
  a_doc_same_as : option string;        (* X when the alias' docstring starts with "Same as X" *)
  a_final : option fid                  (* module-level / static aliases: what a_new is bound to at the
                                           end of the alias' module (None for instance aliases) *)
}.

Inductive attr := AFn (f : fid) (k : fkind) | AAlias (i : nat) | AOther.
Record cls := mkCls {
  c_name : string;                      (* "module:Class" *)
  c_bases : list string;                (* package bases, in order (external bases dropped) *)
  c_mro : list string;                  (* linearisation computed by the extractor *)
  c_dict : list (string * attr)         (* final class dictionary: functions, aliases, other bindings *)
}.

Record kwuse := mkKw {
  k_mod : string; k_owner : string; k_name : string; k_line : Z;
  k_map : list (string * option string);     (* old keyword -> Some new keyword | None (ignored) *)
  k_params : list param;                     (* signature of the decorated function *)
  k_extra : list string                      (* names accepted through **kwargs by documented design *)
}.

Record tables := mkTables { t_aliases : list alias; t_classes : list cls; t_kwuses : list kwuse }.

(* equalities *)
Definition pkind_eqb (a b : pkind) : bool :=
  match a, b with
  | PosOnly, PosOnly | PosOrKw, PosOrKw | VarArg, VarArg | KwOnly, KwOnly | VarKw, VarKw => true
  | _, _ => false end.
Definition fkind_eqb (a b : fkind) : bool :=
  match a, b with
  | Instance, Instance | Static, Static | ClassM, ClassM | ModuleLevel, ModuleLevel | Property, Property => true
  | _, _ => false end.
Definition ostr_eqb (a b : option string) : bool :=
  match a, b with Some x, Some y => String.eqb x y | None, None => true | _, _ => false end.
Definition fid_eqb (a b : fid) : bool :=
  String.eqb a.(f_mod) b.(f_mod) && String.eqb a.(f_owner) b.(f_owner) &&
  String.eqb a.(f_name) b.(f_name) && Z.eqb a.(f_line) b.(f_line).
Definition ofid_eqb (a b : option fid) : bool :=
  match a, b with Some x, Some y => fid_eqb x y | None, None => true | _, _ => false end.
Definition isSome {A} (o : option A) : bool := match o with Some _ => true | None => false end.
Definition mem (x : string) (l : list string) : bool := existsb (String.eqb x) l.
Fixpoint assoc {A} (k : string) (l : list (string * A)) : option A :=
  match l with [] => None | (k', v) :: r => if String.eqb k k' then Some v else assoc k r end.
Fixpoint forall2b {A B} (f : A -> B -> bool) (l : list A) (m : list B) : bool :=
  match l, m with
  | [], [] => true
  | x :: l', y :: m' => f x y && forall2b f l' m'
  | _, _ => false end.
Fixpoint nodupb (l : list string) : bool :=
  match l with [] => true | x :: r => negb (mem x r) && nodupb r end.
Definition slist_eqb (a b : list string) : bool := forall2b String.eqb a b.

(* ------------------------------------------------- 2. attribute resolution *)
Definition find_cls (cs : list cls) (n : string) : option cls :=
  find (fun c => String.eqb c.(c_name) n) cs.

(* C3 merge (Python's MRO algorithm).  [None] = no consistent linearisation / out of fuel. *)
Definition tl_mem (h : string) (s : list string) : bool :=
  match s with [] => false | _ :: t => mem h t end.
Definition good_head (seqs : list (list string)) (h : string) : bool :=
  negb (existsb (tl_mem h) seqs).
Fixpoint pick_head (all cands : list (list string)) : option string :=
  match cands with
  | [] => None
  | [] :: r => pick_head all r
  | (h :: _) :: r => if good_head all h then Some h else pick_head all r
  end.
Definition drop_head (h : string) (s : list string) : list string :=
  match s with x :: t => if String.eqb x h then t else s | [] => [] end.
Definition nonempty {A} (l : list A) : bool := match l with [] => false | _ => true end.
Fixpoint c3_merge (fuel : nat) (seqs : list (list string)) : option (list string) :=
  let seqs := filter nonempty seqs in
  match seqs with
  | [] => Some []
  | _ =>
    match fuel with
    | O => None
    | S f =>
      match pick_head seqs seqs with
      | None => None
      | Some h => option_map (cons h) (c3_merge f (map (drop_head h) seqs))
      end
    end
  end.
Fixpoint all_some {A} (l : list (option A)) : option (list A) :=
  match l with
  | [] => Some []
  | None :: _ => None
  | Some x :: r => option_map (cons x) (all_some r)
  end.
(* linearisation of class n from the *bases* alone (depth-fuelled) *)
Fixpoint c3 (fuel : nat) (cs : list cls) (n : string) : option (list string) :=
  match fuel with
  | O => None
  | S f =>
    match find_cls cs n with
    | None => None
    | Some c =>
      match all_some (map (c3 f cs) c.(c_bases)) with
      | None => None
      | Some ls => option_map (cons n) (c3_merge (List.length cs * List.length cs + 1) ((ls ++ [c.(c_bases)])%list))
      end
    end
  end.

(* getattr(type(obj), name): first hit along the MRO.  [mro_dicts] = the class dictionaries
   met along the linearisation (computed once per receiver class). *)
Definition dicts := list (string * list (string * attr)).
Definition mro_dicts (cs : list cls) (c : cls) : dicts :=
  flat_map (fun k => match find_cls cs k with Some d => [(k, d.(c_dict))] | None => [] end) c.(c_mro).
Fixpoint lookup_dicts (ds : dicts) (name : string) : option (string * attr) :=
  match ds with
  | [] => None
  | (k, d) :: r => match assoc name d with
                   | Some v => Some (k, v)
                   | None => lookup_dicts r name end
  end.
Definition resolve_d (ds : dicts) (name : string) : option attr := option_map snd (lookup_dicts ds name).
Definition resolve_fn_d (ds : dicts) (name : string) : option fid :=
  match resolve_d ds name with Some (AFn f _) => Some f | _ => None end.
Definition resolve (cs : list cls) (c : cls) (name : string) : option attr := resolve_d (mro_dicts cs c) name.
Definition resolve_fn (cs : list cls) (c : cls) (name : string) : option fid := resolve_fn_d (mro_dicts cs c) name.

(* ------------------------------------------------------- 3. the wrappers *)
(* `deprecated`: the body of the inner function `wrapper( *args, **kwargs)`, statement by
   statement.  The extractor accepts exactly these forms (anything else breaks the tie):
     WMsg            msg = f"...{old_func.__name__}...{new_func.__name__}..."            (pure)
     WIfFlagRaise b  if RAISE_EXCEPTION: raise BiogemeError(...)     (b = the module constant)
     WWarn           warnings.warn(msg, DeprecationWarning, stacklevel=k)
     WIfOwned body   if args and any(vars(c).get(new_func.__name__) is new_func
                                     for c in type(args[0]).__mro__): body
     WReturn CallCaptured     return new_func( *args, **kwargs)
     WReturn CallOnReceiver   return getattr(args[0], new_func.__name__)( *args[1:], **kwargs)
   Both call forms pass every argument unchanged (the second one passes args[0] as the
   receiver of the bound method). *)
Inductive wcall := CallCaptured | CallOnReceiver.
Inductive wstmt :=
  | WMsg | WIfFlagRaise (flag : bool) | WWarn
  | WIfOwned (body : list wstmt)
  | WReturn (c : wcall).

Inductive wevent := EvDeprecationWarning | EvRaiseBiogemeError.
Inductive woutcome :=
  | OForward (c : wcall)     (* the call is forwarded, all arguments unchanged; its result is returned *)
  | ORaised                  (* the wrapper itself raised *)
  | OFellOff.                (* the wrapper returned None without calling anything *)

(* the two facts about a call that the wrapper inspects *)
Record wctx := mkCtx { has_args : bool; owned : bool }.

Fixpoint run_w (fuel : nat) (prog : list wstmt) (x : wctx) : list wevent * woutcome :=
  match fuel with
  | O => ([], OFellOff)
  | S fu =>
    match prog with
    | [] => ([], OFellOff)
    | WMsg :: r => run_w fu r x
    | WIfFlagRaise b :: r => if b then ([EvRaiseBiogemeError], ORaised) else run_w fu r x
    | WWarn :: r => let '(ev, o) := run_w fu r x in (EvDeprecationWarning :: ev, o)
    | WIfOwned body :: r =>
        if x.(has_args) && x.(owned) then
          match run_w fu body x with
          | (ev, OFellOff) => let '(ev2, o) := run_w fu r x in ((ev ++ ev2)%list, o)
          | res => res
          end
        else run_w fu r x
    | WReturn c :: _ => ([], OForward c)
    end
  end.
Fixpoint wsize1 (s : wstmt) : nat :=
  match s with
  | WIfOwned b => S ((fix go (l : list wstmt) : nat :=
                        match l with [] => 1 | x :: r => wsize1 x + go r end) b)
  | _ => 1
  end.
Definition wsize (p : list wstmt) : nat := fold_right (fun s n => wsize1 s + n) 1 p.
Definition run_wrapper (prog : list wstmt) (x : wctx) := run_w (wsize prog) prog x.

(* the wrapper before the repair (used to show that T20b discriminates) *)
Definition captured_only_wrapper : list wstmt := [WMsg; WIfFlagRaise false; WWarn; WReturn CallCaptured].

(* `deprecated_parameters`: the loop
       for name, value in list(kwargs.items()):
           if name in obsolete: new = obsolete[name]
                                if new: warn; processed[new] = value   else: warn
           else: processed[name] = value
       return func( *args, **processed)
   over association lists (a Python dict assignment replaces the value of an existing key and
   appends a new key). *)
Section KW.
  Variable V : Type.
  Inductive kwevent := EvRenamed (o n : string) | EvIgnored (o : string).
  Fixpoint dict_set (d : list (string * V)) (k : string) (v : V) : list (string * V) :=
    match d with
    | [] => [(k, v)]
    | (k', v') :: r => if String.eqb k k' then (k', v) :: r else (k', v') :: dict_set r k v
    end.
  Definition kw_step (m : list (string * option string)) (st : list kwevent * list (string * V))
             (kv : string * V) : list kwevent * list (string * V) :=
    let '(ev, acc) := st in
    let '(k, v) := kv in
    match assoc k m with
    | Some (Some n) => ((ev ++ [EvRenamed k n])%list, dict_set acc n v)
    | Some None => ((ev ++ [EvIgnored k])%list, acc)
    | None => (ev, dict_set acc k v)
    end.
  Definition rename_kwargs (m : list (string * option string)) (kw : list (string * V))
    : list kwevent * list (string * V) := fold_left (kw_step m) kw ([], []).
  (* the keyword under which the value of k is forwarded (None = dropped) *)
  Definition kw_target (m : list (string * option string)) (k : string) : option string :=
    match assoc k m with Some (Some n) => Some n | Some None => None | None => Some k end.
End KW.
Arguments dict_set {V}. Arguments kw_step {V}. Arguments rename_kwargs {V}.

(* ------------------------------------------- 4. what a call of an alias reaches *)
(* any(vars(k).get(new_func.__name__) is new_func for k in type(args[0]).__mro__) *)
Definition owned_d (ds : dicts) (a : alias) : bool :=
  existsb (fun '(_, d) => match assoc a.(a_new) d with
                          | Some (AFn f _) => fid_eqb f a.(a_captured)
                          | _ => false end) ds.

(* obj.name( ... ) with type(obj) = c (ds = dictionaries along its MRO): the function whose
   body finally runs.  Instance aliases are called with the receiver as args[0]; static and
   module-level aliases of this package take no receiver (T20f: they are nullary, or no class
   dictionary holds their replacement), so for them the test is evaluated with has_args = false. *)
Fixpoint reach_d (fuel : nat) (prog : list wstmt) (als : list alias) (ds : dicts) (name : string) : option fid :=
  match fuel with
  | O => None
  | S fu =>
    match resolve_d ds name with
    | Some (AFn f _) => Some f
    | Some (AAlias i) =>
      match nth_error als i with
      | None => None
      | Some a =>
        let x := {| has_args := fkind_eqb a.(a_kind) Instance; owned := owned_d ds a |} in
        match run_wrapper prog x with
        | (_, OForward CallOnReceiver) => reach_d fu prog als ds a.(a_new)
        | (_, OForward CallCaptured) => Some a.(a_captured)
        | _ => None
        end
      end
    | _ => None
    end
  end.
Definition reach (fuel : nat) (prog : list wstmt) (T : tables) (c : cls) (name : string) : option fid :=
  reach_d fuel prog T.(t_aliases) (mro_dicts T.(t_classes) c) name.

Definition exposes_d (ds : dicts) (i : nat) (a : alias) : bool :=
  match resolve_d ds a.(a_old) with
  | Some (AAlias j) => Nat.eqb i j
  | _ => false end.
Definition exposes (T : tables) (c : cls) (i : nat) : bool :=
  match nth_error T.(t_aliases) i with
  | Some a => exposes_d (mro_dicts T.(t_classes) c) i a
  | None => false
  end.

(* ----------------------------------------------------------- 5. statements *)
(* name folding: camelCase / snake_case / upper-case initials all fold to the same string *)
Definition lower (ch : ascii) : ascii :=
  let n := N_of_ascii ch in
  if (N.leb 65 n && N.leb n 90)%bool then ascii_of_N (n + 32) else ch.
Fixpoint normalise (s : string) : string :=
  match s with
  | EmptyString => EmptyString
  | String ch r => if Ascii.eqb ch "_"%char then normalise r else String (lower ch) (normalise r)
  end.

(* 6. reviewed tables -------------------------------------------------------- *)
(* Aliases whose name does not fold onto the name of the replacement.  Reviewed against the
   docstrings of both functions:
   - models.cnl.cnl_avail -> cnl : docstring "Same as cnl. Maintained for backward compatibility";
     the old API had cnl (all available) and cnl_avail (with availability); `cnl` now takes the
     availability dictionary and returns the choice *probability*.
   - models.cnl.logcnl_avail -> logcnl : docstring "Same as logcnl"; returns the *log* of the
     probability (forwarding it to `cnl` would return the probability: a different quantity).
   - segmentation.segment_parameter -> segmented_beta : identical three parameters
     (beta, segmentation_tuples, prefix); returns the expression of the segmented Beta. *)
Definition renamed_reviewed : list (string * string * string * string) :=
  [ ("biogeme.models.cnl", "", "cnl_avail", "cnl");
    ("biogeme.models.cnl", "", "logcnl_avail", "logcnl");
    ("biogeme.segmentation", "", "segment_parameter", "segmented_beta") ].

(* Declared-signature deviations between the stub kept under the old name and the replacement.
   The stub's signature is never used to bind arguments (the wrapper is `( *args, **kwargs)` and
   forwards everything), so at run time old and new accept exactly the same calls; the
   deviation is in what inspect.signature / help() show for the old name.
   - Database.generateDraws: first parameter is `types` in the stub, `draw_types` in
     generate_draws (renamed in the replacement only).  Positional calls are identical;
     `types=` is rejected under both names.
   - models.nested.getMevForNested: first parameter `V` in the stub, `util` in get_mev_for_nested.
   - Expression.getValueAndDerivatives: get_value_and_derivatives has one more trailing
     parameter with a default (named_results=False), added after the alias was frozen. *)
Inductive pexc := RenamedAt (i : nat) (o n : string) | NewExtraDefaulted (names : list string).
Definition param_exceptions_reviewed : list (string * string * string * pexc) :=
  [ ("biogeme.database", "Database", "generateDraws", RenamedAt 1 "types" "draw_types");
    ("biogeme.models.nested", "", "getMevForNested", RenamedAt 0 "V" "util");
    ("biogeme.expressions.base_expressions", "Expression", "getValueAndDerivatives",
       NewExtraDefaulted ["named_results"]) ].

(* T20a ---------------------------------------------------------------------- *)
Definition param_agree (kwmap : list (string * option string)) (o n : param) : bool :=
  (String.eqb o.(p_name) n.(p_name) ||
   (* the old spelling is still accepted by keyword: the replacement's own
      @deprecated_parameters map renames it to the new spelling *)
   ostr_eqb (match assoc o.(p_name) kwmap with Some x => x | None => None end) (Some n.(p_name)))
  && pkind_eqb o.(p_kind) n.(p_kind) && ostr_eqb o.(p_default) n.(p_default).
Definition same_params (a : alias) : bool :=
  forall2b (param_agree a.(a_captured_kwmap)) a.(a_old_params) a.(a_new_params).

Fixpoint rename_at (i : nat) (o n : string) (ps : list param) : list param :=
  match ps, i with
  | [], _ => []
  | p :: r, O => (if String.eqb p.(p_name) o then mkParam n p.(p_kind) p.(p_default) else p) :: r
  | p :: r, S j => p :: rename_at j o n r
  end.
Fixpoint strip_trailing (names : list string) (rev_ps : list param) : list param :=
  match rev_ps with
  | p :: r => if mem p.(p_name) names && isSome p.(p_default) && pkind_eqb p.(p_kind) PosOrKw
              then strip_trailing names r else rev_ps
  | [] => []
  end.
Definition same_params_exc (a : alias) (e : pexc) : bool :=
  match e with
  | RenamedAt i o n =>
      forall2b (param_agree a.(a_captured_kwmap)) (rename_at i o n a.(a_old_params)) a.(a_new_params)
  | NewExtraDefaulted names =>
      forall2b (param_agree a.(a_captured_kwmap)) a.(a_old_params)
               (rev (strip_trailing names (rev a.(a_new_params))))
  end.
Definition alias_key_eqb (a : alias) (m o n : string) : bool :=
  String.eqb a.(a_mod) m && String.eqb a.(a_owner) o && String.eqb a.(a_old) n.
Definition same_parameters_alias (a : alias) : bool :=
  same_params a ||
  existsb (fun '(m, o, n, e) => alias_key_eqb a m o n && same_params_exc a e) param_exceptions_reviewed.
Definition same_parameters_b (T : tables) : bool := forallb same_parameters_alias T.(t_aliases).

(* T20b ---------------------------------------------------------------------- *)
Definition fuel_reach : nat := 8.
Definition receiver_ok_d (prog : list wstmt) (als : list alias) (ds : dicts) (ia : nat * alias) : bool :=
  let '(i, a) := ia in
  implb (exposes_d ds i a)
    (let via_class := isSome (resolve_fn_d ds a.(a_new)) &&
                      ofid_eqb (reach_d fuel_reach prog als ds a.(a_old)) (resolve_fn_d ds a.(a_new)) in
     match a.(a_kind) with
     | Instance => via_class
     | _ => (* no receiver *)
         if String.eqb a.(a_captured).(f_owner) "" then
           (* the replacement is the function bound to the new name in the alias' module *)
           isSome a.(a_final) && ofid_eqb (reach_d fuel_reach prog als ds a.(a_old)) a.(a_final)
         else via_class
     end).
Fixpoint enum_from {A} (k : nat) (l : list A) : list (nat * A) :=
  match l with [] => [] | x :: r => (k, x) :: enum_from (S k) r end.
Definition receiver_independent_b (prog : list wstmt) (T : tables) : bool :=
  forallb (fun c => let ds := mro_dicts T.(t_classes) c in
                    forallb (receiver_ok_d prog T.(t_aliases) ds) (enum_from 0 T.(t_aliases))) T.(t_classes).

(* module-level aliases (no class involved): the wrapper forwards to the function bound to the
   new name at the end of the module *)
Definition module_alias_ok (prog : list wstmt) (a : alias) : bool :=
  match a.(a_kind) with
  | ModuleLevel =>
      isSome a.(a_final) &&
      match run_wrapper prog {| has_args := true; owned := false |},
            run_wrapper prog {| has_args := false; owned := false |} with
      | (_, OForward CallCaptured), (_, OForward CallCaptured) => ofid_eqb (Some a.(a_captured)) a.(a_final)
      | _, _ => false
      end
  | _ => true
  end.
Definition module_aliases_b (prog : list wstmt) (T : tables) : bool := forallb (module_alias_ok prog) T.(t_aliases).

(* T20f: soundness of evaluating the ownership test with "no receiver" for aliases that are not
   instance methods: a static alias takes no positional argument at all; the replacement of a
   module-level alias is stored in no class dictionary of the package (so
   vars(cls).get(name) is new_func fails for every package class of args[0]). *)
Definition positional (p : param) : bool :=
  match p.(p_kind) with PosOnly | PosOrKw | VarArg => true | _ => false end.
Definition no_receiver_ok (T : tables) (a : alias) : bool :=
  match a.(a_kind) with
  | Instance => fkind_eqb a.(a_captured_kind) Instance
  | Static => negb (existsb positional a.(a_new_params)) && negb (existsb positional a.(a_old_params))
  | ModuleLevel =>
      forallb (fun c => match assoc a.(a_new) c.(c_dict) with
                        | Some (AFn f _) => negb (fid_eqb f a.(a_captured))
                        | Some AOther => false       (* an assignment could bind the function object *)
                        | _ => true end) T.(t_classes)
  | _ => false
  end.
Definition no_receiver_b (T : tables) : bool := forallb (no_receiver_ok T) T.(t_aliases).

(* T20c ---------------------------------------------------------------------- *)
Definition name_matches (a : alias) : bool :=
  String.eqb (normalise a.(a_old)) (normalise a.(a_new)) ||
  existsb (fun '(m, o, n, nw) => alias_key_eqb a m o n && String.eqb a.(a_new) nw) renamed_reviewed.
Definition doc_matches (a : alias) : bool :=
  match a.(a_doc_same_as) with Some x => String.eqb x a.(a_new) | None => true end.
(* the name in the warning (a_new = new_func.__name__) is the name of the captured definition *)
Definition warning_names_captured (a : alias) : bool := String.eqb a.(a_new) a.(a_captured).(f_name).
Definition replacement_matches_name_b (T : tables) : bool :=
  forallb (fun a => name_matches a && doc_matches a && warning_names_captured a) T.(t_aliases).

(* T20d ---------------------------------------------------------------------- *)
Definition named_params (ps : list param) : list string :=
  map p_name (filter (fun p => match p.(p_kind) with PosOrKw | KwOnly => true | _ => false end) ps).
Definition has_varkw (ps : list param) : bool :=
  existsb (fun p => pkind_eqb p.(p_kind) VarKw) ps.
Fixpoint somes {A} (l : list (option A)) : list A :=
  match l with [] => [] | Some x :: r => x :: somes r | None :: r => somes r end.
Definition kwuse_ok (k : kwuse) : bool :=
  let news := somes (map snd k.(k_map)) in
  let olds := map fst k.(k_map) in
  forallb (fun n => mem n (named_params k.(k_params)) || (has_varkw k.(k_params) && mem n k.(k_extra))) news
  && nodupb news                                     (* no two old names map to one new name *)
  && nodupb olds
  && forallb (fun o => negb (mem o (map p_name k.(k_params)))) olds   (* an old name is not also a live parameter *)
  && forallb (fun o => negb (mem o news)) olds.      (* no chains *)
Definition keyword_map_wellformed_b (T : tables) : bool := forallb kwuse_ok T.(t_kwuses).

(* the class table's linearisations are Python's (C3 over the extracted bases) *)
Definition mro_ok (cs : list cls) (c : cls) : bool :=
  match c3 (S (List.length cs)) cs c.(c_name) with
  | Some l => slist_eqb l c.(c_mro)
  | None => false end.
Definition mro_table_b (T : tables) : bool :=
  forallb (mro_ok T.(t_classes)) T.(t_classes) && nodupb (map c_name T.(t_classes)).
