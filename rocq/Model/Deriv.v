(* Symbolic partial derivative [D b e] of an expression with respect to the parameter named b,
   on the smooth fragment of the language, gradient / Hessian as lists of trees, and the domain
   predicate [dom] under which Proofs/DerivP.v proves [D] correct.

   Smooth fragment: Numeric, Beta, Variable (and the other leaves), + - * / unary minus, exp, log,
   sin, cos, x**c (PowerConstant), x**y (Power, x > 0), the normal CDF, bioMultSum,
   bioLinearUtility, LogLogit, Elem and ConditionalSum whose key / conditions do not depend on the
   parameter.  Every sub-tree that does not mention b (comparisons, And / Or, min / max,
   BelongsTo, logzero, ... over data and other parameters) has derivative 0.

   Definitions only. *)
From BV Require Export Model.EvalX.
Open Scope Z_scope.

Definition zero : expr := ENumZ 0.
Definition one : expr := ENumZ 1.
Definition two : expr := ENumZ 2.

(* what one differentiates with respect to: a parameter (free or fixed Beta), a variable of the
   data row or an integration variable, designated by name *)
Inductive wrt := WBeta (n : string) | WVar (n : string) | WRV (n : string).

Definition is_wrt (w : wrt) (h : head) : bool :=
  match w, h with
  | WBeta b, HBeta n _ => String.eqb n b
  | WVar b, HVar n => String.eqb n b
  | WRV b, HRV n => String.eqb n b
  | _, _ => false
  end.

(* does the tree contain the leaf w ? *)
Fixpoint mentions (w : wrt) (e : expr) : bool :=
  match e with
  | Node h kids => is_wrt w h || existsb (mentions w) kids
  end.

(* the tree mentions none of the names *)
Definition pfree (ws : list wrt) (e : expr) : bool :=
  forallb (fun w => negb (mentions w e)) ws.

(* c - 1 for a dyadic c (exact) *)
Definition dy_pred (c : dyadic) : dyadic :=
  let '(m, e) := c in
  if 0 <=? e then (m * 2 ^ e - 1, 0) else (m - 2 ^ (- e), e).

(* the double nearest to 1/sqrt(2 pi) = 0.3989422804014327 = 7186705221432913 * 2^-54.
   The derivative tree of the normal CDF is this constant times exp(-x^2/2): see the hypothesis
   [Phi_derive] of Proofs/DerivP.v. *)
Definition inv_sqrt_2pi : dyadic := (7186705221432913, -54).

Definition normal_density (a : expr) : expr :=
  EBin Times (Node (HNum inv_sqrt_2pi) [])
       (EUn Exp (EUn UMinus (EBin Divide (EBin Times a a) two))).

(* bioLinearUtility: kids = b1, v1, b2, v2, ... ; dk = their derivatives *)
Fixpoint dlin (kids dk : list expr) : list expr :=
  match kids, dk with
  | b :: v :: r, db :: dv :: dr =>
      EBin Plus (EBin Times db v) (EBin Times b dv) :: dlin r dr
  | _, _ => []
  end.

(* ConditionalSum: kids = c1, t1, c2, t2, ... : the conditions are kept, the terms differentiated *)
Fixpoint dcond (kids dk : list expr) : list expr :=
  match kids, dk with
  | c :: t :: r, _ :: dt :: dr => c :: dt :: dcond r dr
  | _, _ => []
  end.

(* LogLogit: the terms of  sum_{j available} exp(V_j)  and of  sum_{j available} exp(V_j) dV_j,
   as the children of a ConditionalSum whose conditions are the availability expressions *)
Fixpoint logit_den_kids (ukeys : list Z) (us : list expr) (akeys : list Z) (avs : list expr)
  : list expr :=
  match ukeys, us with
  | k :: ks, u :: r =>
      match assoc_Z k akeys avs with
      | Some a => a :: EUn Exp u :: logit_den_kids ks r akeys avs
      | None => logit_den_kids ks r akeys avs
      end
  | _, _ => []
  end.

Fixpoint logit_num_kids (ukeys : list Z) (us dus : list expr) (akeys : list Z) (avs : list expr)
  : list expr :=
  match ukeys, us, dus with
  | k :: ks, u :: r, du :: dr =>
      match assoc_Z k akeys avs with
      | Some a => a :: EBin Times (EUn Exp u) du :: logit_num_kids ks r dr akeys avs
      | None => logit_num_kids ks r dr akeys avs
      end
  | _, _, _ => []
  end.

Definition dloglogit (ukeys akeys : list Z) (kids dk : list expr) : expr :=
  match kids, dk with
  | choice :: rest, _ :: drest =>
      let n := List.length ukeys in
      let us := firstn n rest in
      let avs := skipn n rest in
      let dus := firstn n drest in
      EBin Minus (Node (HElem ukeys) (choice :: dus))
           (EBin Divide (Node HCondSum (logit_num_kids ukeys us dus akeys avs))
                        (Node HCondSum (logit_den_kids ukeys us akeys avs)))
  | _, _ => zero
  end.

(* the derivative of one node, given its children and their derivatives *)
Definition dnode (w : wrt) (h : head) (kids dk : list expr) : expr :=
  match h, kids, dk with
  | HBeta _ _, [], _ | HVar _, [], _ | HRV _, [], _ => if is_wrt w h then one else zero
  | HBin Plus, [x; y], [dx; dy] => EBin Plus dx dy
  | HBin Minus, [x; y], [dx; dy] => EBin Minus dx dy
  | HBin Times, [x; y], [dx; dy] => EBin Plus (EBin Times dx y) (EBin Times x dy)
  | HBin Divide, [x; y], [dx; dy] =>
      EBin Divide (EBin Minus (EBin Times dx y) (EBin Times x dy)) (EBin Times y y)
  | HBin Power, [x; y], [dx; dy] =>
      EBin Times (EBin Power x y)
           (EBin Plus (EBin Times dy (EUn Log x)) (EBin Divide (EBin Times y dx) x))
  | HUn UMinus, [x], [dx] => EUn UMinus dx
  | HUn Exp, [x], [dx] => EBin Times (EUn Exp x) dx
  | HUn Log, [x], [dx] => EBin Divide dx x
  | HUn Sin, [x], [dx] => EBin Times (EUn Cos x) dx
  | HUn Cos, [x], [dx] => EUn UMinus (EBin Times (EUn Sin x) dx)
  | HUn NormalCdf, [x], [dx] => EBin Times (normal_density x) dx
  | HPowC c, [x], [dx] =>
      match dyadic_is_int c with
      | Some 0 => zero
      | _ => EBin Times (EBin Times (Node (HNum c) []) (EPowC x (dy_pred c))) dx
      end
  | HMultSum, _, _ => Node HMultSum dk
  | HLinUtil, _, _ => Node HMultSum (dlin kids dk)
  | HCondSum, _, _ => Node HCondSum (dcond kids dk)
  | HElem keys, key :: _, _ :: dentries => Node (HElem keys) (key :: dentries)
  | HLogLogit uk ak, _, _ => dloglogit uk ak kids dk
  | _, _, _ => zero
  end.

Fixpoint D (w : wrt) (e : expr) {struct e} : expr :=
  if mentions w e then
    match e with Node h kids => dnode w h kids (map (D w) kids) end
  else zero.

(* gradient and Hessian with respect to a list of parameter names (the sorted free-parameter
   names): entry i / (i, j) belongs to the i-th / (i-th, j-th) name *)
Definition grad (names : list string) (e : expr) : list expr :=
  map (fun b => D (WBeta b) e) names.
Definition hess (names : list string) (e : expr) : list (list expr) :=
  map (fun b => map (fun b' => D (WBeta b') (D (WBeta b) e)) names) names.

(* ------------------------------------------------------------------ the environment as a function of one parameter *)
Definition set_name (b : string) (x : R) (l : lookup) : lookup :=
  fun n => if String.eqb n b then Some x else l n.

Definition upd (en : env) (w : wrt) (x : R) : env :=
  match w with
  | WBeta b => mkEnv (set_name b x (e_beta en)) (e_var en) (e_draw en) (e_rv en) (e_draws en) (e_rows en)
  | WVar b => mkEnv (e_beta en) (set_name b x (e_var en)) (e_draw en) (e_rv en) (e_draws en) (e_rows en)
  | WRV b => mkEnv (e_beta en) (e_var en) (e_draw en) (set_name b x (e_rv en)) (e_draws en) (e_rows en)
  end.

(* the value currently attached to w *)
Definition wrt_val (en : env) (w : wrt) : option R :=
  match w with WBeta b => e_beta en b | WVar b => e_var en b | WRV b => e_rv en b end.

Definition wrt_eqb (a b : wrt) : bool :=
  match a, b with
  | WBeta x, WBeta y | WVar x, WVar y | WRV x, WRV y => String.eqb x y
  | _, _ => false
  end.

Definition valR (v : xval) : R := match v with XR r => r | _ => 0%R end.

(* x ** c is differentiable at x *)
Definition powc_ok (c : dyadic) (x : R) : Prop :=
  match dyadic_is_int c with
  | Some n => 0 <= n \/ x <> 0%R
  | None => (0 < x)%R
  end.

Section WithPhi.
  Variable Phi : R -> R.

  (* [dom bs en e]: at the point [en], the tree e is inside the smooth fragment with respect to
     the parameters [bs], and every argument is in the open domain of its operator.  Only the
     children that the implementation reads are constrained (the selected entry of an Elem, the
     terms of a ConditionalSum whose condition holds, the utilities of the available alternatives). *)
  Inductive dom (bs : list wrt) (en : env) : expr -> Prop :=
  | dom_pfree e r : pfree bs e = true -> evalX Phi e en = XR r -> dom bs en e
  | dom_beta n f r : e_beta en n = Some r -> dom bs en (Node (HBeta n f) [])
  | dom_var n r : e_var en n = Some r -> dom bs en (Node (HVar n) [])
  | dom_rv n r : e_rv en n = Some r -> dom bs en (Node (HRV n) [])
  | dom_plus x y : dom bs en x -> dom bs en y -> dom bs en (EBin Plus x y)
  | dom_minus x y : dom bs en x -> dom bs en y -> dom bs en (EBin Minus x y)
  | dom_times x y : dom bs en x -> dom bs en y -> dom bs en (EBin Times x y)
  | dom_divide x y v : dom bs en x -> dom bs en y -> evalX Phi y en = XR v -> v <> 0%R ->
                       dom bs en (EBin Divide x y)
  | dom_power x y v : dom bs en x -> dom bs en y -> evalX Phi x en = XR v -> (0 < v)%R ->
                      dom bs en (EBin Power x y)
  | dom_uminus x : dom bs en x -> dom bs en (EUn UMinus x)
  | dom_exp x : dom bs en x -> dom bs en (EUn Exp x)
  | dom_log x v : dom bs en x -> evalX Phi x en = XR v -> (0 < v)%R -> dom bs en (EUn Log x)
  | dom_sin x : dom bs en x -> dom bs en (EUn Sin x)
  | dom_cos x : dom bs en x -> dom bs en (EUn Cos x)
  | dom_normalcdf x : dom bs en x -> dom bs en (EUn NormalCdf x)
  | dom_powc x c v : dom bs en x -> evalX Phi x en = XR v -> powc_ok c v -> dom bs en (EPowC x c)
  | dom_multsum l : Forall (dom bs en) l -> dom bs en (Node HMultSum l)
  | dom_linutil ps : Forall (fun p => dom bs en (fst p) /\ dom bs en (snd p)) ps ->
                     dom bs en (ELinUtil ps)
  | dom_condsum ps :
      Forall (fun p => pfree bs (fst p) = true /\
                       exists v, evalX Phi (fst p) en = XR v /\ (v <> 0%R -> dom bs en (snd p))) ps ->
      dom bs en (ECondSum ps)
  | dom_elem keys key entries z sel :
      pfree bs key = true -> evalX Phi key en = XR (IZR z) ->
      assoc_Z z keys entries = Some sel -> dom bs en sel ->
      dom bs en (Node (HElem keys) (key :: entries))
  | dom_loglogit uk ak choice us avs r :
      pfree bs choice = true -> forallb (pfree bs) avs = true ->
      List.length us = List.length uk ->
      evalX Phi (Node (HLogLogit uk ak) (choice :: us ++ avs)) en = XR r ->
      (forall k u a v, In (k, u) (combine uk us) -> assoc_Z k ak avs = Some a ->
                       evalX Phi a en = XR v -> v <> 0%R -> dom bs en u) ->
      dom bs en (Node (HLogLogit uk ak) (choice :: us ++ avs)).
End WithPhi.
