(* Model of biogeme.expressions.idmanager.IdManager.prepare: the numbering convention of the
   elementary expressions of a list of formulas (free parameters, fixed parameters, random
   variables, draws: names sorted, duplicates merged; variables: ALL columns of the table in
   column order), the global elementary index (position in the concatenation), refusal of a
   name used for two kinds of element, and the vectors handed to the engine.
   Definitions only; proofs in Proofs/IdMgrP.v. *)
From Coq Require Import Ascii.
From BV Require Export Model.Expr.
Open Scope Z_scope.

(* --------------------------------------------------------- Python's sorted() on ASCII names *)
Fixpoint str_ltb (a b : string) : bool :=
  match a, b with
  | EmptyString, EmptyString => false
  | EmptyString, String _ _ => true
  | String _ _, EmptyString => false
  | String x a', String y b' =>
      let nx := nat_of_ascii x in
      let ny := nat_of_ascii y in
      if Nat.ltb nx ny then true
      else if Nat.ltb ny nx then false
      else str_ltb a' b'
  end.
Definition str_leb (a b : string) : bool := negb (str_ltb b a).

Fixpoint insert_sorted (x : string) (l : list string) : list string :=
  match l with
  | [] => [x]
  | y :: r => if String.eqb x y then l          (* dict keys are unique *)
              else if str_ltb x y then x :: l
              else y :: insert_sorted x r
  end.
(* sorted(dict) where the dict was filled with the given names *)
Definition sorted_names (l : list string) : list string := fold_right insert_sorted [] l.

Fixpoint index_of (x : string) (l : list string) : option Z :=
  match l with
  | [] => None
  | y :: r => if String.eqb x y then Some 0
              else match index_of x r with Some i => Some (i + 1) | None => None end
  end.

Fixpoint nodupb (l : list string) : bool :=
  match l with
  | [] => true
  | x :: r => negb (existsb (String.eqb x) r) && nodupb r
  end.

(* ------------------------------------------------------------------ the id table *)
Record idtable := mkId {
  t_free : list string;
  t_fixed : list string;
  t_rv : list string;
  t_draws : list string;
  t_vars : list string
}.

Definition all_names (t : idtable) : list string :=
  t_free t ++ t_fixed t ++ t_rv t ++ t_draws t ++ t_vars t.

Definition collect (k : ekind) (fs : list expr) : list string :=
  sorted_names (flat_map (names_of_kind k) fs).

(* IdManager.prepare: None = BiogemeError "defined more than once" *)
Definition prepare (fs : list expr) (columns : list string) : option idtable :=
  let t := mkId (collect KFreeBeta fs) (collect KFixedBeta fs) (collect KRV fs)
                (collect KDraws fs) columns in
  if nodupb (all_names t) then Some t else None.

Definition class_list (t : idtable) (k : ekind) : list string :=
  match k with
  | KFreeBeta => t_free t | KFixedBeta => t_fixed t | KRV => t_rv t
  | KDraws => t_draws t | KVar => t_vars t
  end.

(* ids written in a signature line of an elementary expression: (global index, class index) *)
Definition ids_of (t : idtable) (k : ekind) (n : string) : option (Z * Z) :=
  match index_of n (all_names t), index_of n (class_list t k) with
  | Some u, Some c => Some (u, c)
  | _, _ => None
  end.

(* ------------------------------------------------------------------ vectors for the engine *)
(* [vals n] = the value attached to name n (initValue of the Beta object / the row cell / ...):
   free_betas_values = [initValue of b for b in free names], etc. *)
Definition vector {A} (vals : string -> option A) (names : list string) : list (option A) :=
  map vals names.
