(* C16 -- catalogs, controllers, configurations and neighbourhood operators.

   Hand-written model (tie B) of
     src/biogeme/configuration.py   Configuration (sorted selection tuples, string id, parsing)
     src/biogeme/controller.py      Controller, CentralController (product of the controllers,
                                    set_configuration / get_configuration, operators)
     src/biogeme/catalog.py         Catalog (selection through the controller index),
                                    segmentation_catalogs, generic_alt_specific_catalogs
     src/biogeme/segmentation.py    Segmentation.segmented_beta (only its tree shape)
     src/biogeme/expressions/multiple_expressions.py   delegation to the selected member
   plus the Python-runtime primitives used by the text generated into Gen/Config.v (tie A):
   str.split on a one-character separator, sorted() on 2-tuples of str, insertion-ordered dict.

   Definitions only (all executable); lemmas are in Proofs/CatalogP.v.  The generated
   definitions of Gen/Config.v are proved equal to the hand-written [string_id], [mk_config],
   [from_string], [step_index] below, so this file never depends on generated text. *)
From Coq Require Import ZArith List String Ascii Bool.
From BV Require Import Model.PyBase Model.Expr.
Import ListNotations.
Open Scope Z_scope.

(* ================================================================== Python runtime *)
Definition selection : Type := (string * string)%type.     (* SelectionTuple(controller, selection) *)

(* s.split(sep) for a one-character separator: "" -> [""], "a;" -> ["a"; ""] *)
Fixpoint py_split (sep : ascii) (s : string) : list string :=
  match s with
  | EmptyString => [EmptyString]
  | String c r =>
      if Ascii.eqb c sep then EmptyString :: py_split sep r
      else match py_split sep r with
           | [] => [String c EmptyString]
           | h :: t => String c h :: t
           end
  end.

(* separator given as a Python str; the extractor refuses separators that are not one character *)
Definition py_split_s (sep s : string) : list string :=
  match sep with String c EmptyString => py_split c s | _ => [s] end.

(* tuple comparison of two SelectionTuples: lexicographic, str compared by code point *)
Definition sel_cmp (a b : selection) : comparison :=
  match String.compare (fst a) (fst b) with
  | Datatypes.Eq => String.compare (snd a) (snd b)
  | c => c
  end.
Definition sel_leb (a b : selection) : bool :=
  match sel_cmp a b with Datatypes.Gt => false | _ => true end.

Fixpoint sel_insert (x : selection) (l : list selection) : list selection :=
  match l with
  | [] => [x]
  | y :: r => if sel_leb x y then x :: l else y :: sel_insert x r
  end.
(* sorted(the_list): the sorted permutation (a total order: equal keys are equal elements) *)
Definition py_sorted_sel (l : list selection) : list selection := fold_right sel_insert [] l.

(* d[k] = v on an insertion-ordered dict *)
Fixpoint dict_set (d : list (string * string)) (k v : string) : list (string * string) :=
  match d with
  | [] => [(k, v)]
  | (k', v') :: r => if String.eqb k' k then (k', v) :: r else (k', v') :: dict_set r k v
  end.

Definition str_mem (x : string) (l : list string) : bool := existsb (String.eqb x) l.

Fixpoint map_opt {A B} (f : A -> option B) (l : list A) : option (list B) :=
  match l with
  | [] => Some []
  | x :: r => match f x, map_opt f r with Some y, Some t => Some (y :: t) | _, _ => None end
  end.

Fixpoint assoc {A} (k : string) (l : list (string * A)) : option A :=
  match l with
  | [] => None
  | (k', v) :: r => if String.eqb k' k then Some v else assoc k r
  end.

(* ================================================================== configuration.py *)
Definition SEP : ascii := ";"%char.
Definition SELSEP : ascii := ":"%char.
Definition config : Type := list selection.       (* sorted, controllers pairwise distinct *)

Definition term_of (s : selection) : string := (fst s ++ String SELSEP EmptyString ++ snd s)%string.
Definition string_id (c : config) : string := String.concat (String SEP EmptyString) (map term_of c).

(* __check_list_validity: a controller appears more than once *)
Fixpoint dup_ctrl_from (seen : list string) (l : list selection) : bool :=
  match l with
  | [] => false
  | s :: r => if str_mem (fst s) seen then true else dup_ctrl_from (seen ++ [fst s]) r
  end.
Definition has_dup_ctrl (l : list selection) : bool := dup_ctrl_from [] l.

(* Configuration(selections): the `selections` setter.  None = BiogemeError. *)
Definition mk_config (l : list selection) : option config :=
  let s := py_sorted_sel l in if has_dup_ctrl s then None else Some s.

Definition parse_term (t : string) : option selection :=
  match py_split SELSEP t with [c; s] => Some (c, s) | _ => None end.

(* Configuration.from_string.  None = BiogemeError. *)
Definition from_string (s : string) : option config :=
  match map_opt parse_term (py_split SEP s) with
  | None => None
  | Some sels => mk_config (fold_left (fun d cs => dict_set d (fst cs) (snd cs)) sels [])
  end.

Definition char_free (c : ascii) (s : string) : bool :=
  negb (existsb (Ascii.eqb c) (list_ascii_of_string s)).
Definition name_ok (s : string) : bool := char_free SEP s && char_free SELSEP s.
Definition names_ok (c : config) : bool := forallb (fun x => name_ok (fst x) && name_ok (snd x)) c.

(* ================================================================== controller.py *)
Definition controller : Type := (string * list string)%type.   (* name, specification names *)

(* Controller.modify_controller(step, circular=True): new index *)
Definition step_index (size i step : Z) : Z := (i + step) mod size.
(* ... circular=False: clamped move, and the number of modifications reported *)
Definition clamp_index (size i step : Z) : Z * Z :=
  if i + step <? 0 then (0, i)
  else if i + step >=? size then (size - 1, size - 1 - i)
  else (i + step, step).

(* ------------------------------------------------ expressions with catalogs *)
Inductive cexpr :=
| CNode (h : head) (kids : list cexpr)
| CCat (name : string) (ctrl : string) (members : list (string * cexpr)).

(* Expression.get_all_controllers: every controller found below, through ALL members *)
Fixpoint ctrls_of (e : cexpr) : list controller :=
  match e with
  | CNode _ k => flat_map ctrls_of k
  | CCat _ c ms => (c, map fst ms) :: flat_map (fun m => ctrls_of (snd m)) ms
  end.

(* tuple(sorted(set_of_controllers)): controllers are equal iff their names are equal *)
Fixpoint ctrl_insert (c : controller) (l : list controller) : list controller :=
  match l with
  | [] => [c]
  | d :: r => match String.compare (fst c) (fst d) with
              | Datatypes.Lt => c :: l
              | Datatypes.Eq => l
              | Datatypes.Gt => d :: ctrl_insert c r
              end
  end.
Definition central (e : cexpr) : list controller := fold_right ctrl_insert [] (ctrls_of e).

(* the cartesian product of the controllers' specifications *)
Fixpoint product (cs : list controller) : list config :=
  match cs with
  | [] => [[]]
  | c :: r => flat_map (fun s => map (cons (fst c, s)) (product r)) (snd c)
  end.

(* CentralController._number_of_configurations: reduce(x*y, map(len, <sets of ids>)), 0 if no
   controller *)
Definition number_of_configurations (cs : list controller) : Z :=
  match cs with
  | [] => 0
  | _ => fold_left Z.mul (map (fun c => Z.of_nat (List.length (nodup string_dec (snd c)))) cs) 1
  end.

(* CentralController.all_configurations_ids: SEPARATOR.join over the product of the sets
   {name:spec}; a Python set -- represented by a duplicate-free list, order irrelevant *)
Definition state_ids (c : controller) : list string :=
  nodup string_dec (map (fun s => term_of (fst c, s)) (snd c)).
Fixpoint sproduct (ls : list (list string)) : list (list string) :=
  match ls with
  | [] => [[]]
  | l :: r => flat_map (fun s => map (cons s) (sproduct r)) l
  end.
Definition all_ids (cs : list controller) : list string :=
  nodup string_dec (map (String.concat (String SEP EmptyString)) (sproduct (map state_ids cs))).
(* CentralController.all_configurations = {Configuration.from_string(i) for i in ids} *)
Definition all_configurations (cs : list controller) : list (option config) :=
  map from_string (all_ids cs).

(* state of the controllers: current_index of each, aligned with the sorted controller tuple *)
Definition cstate : Type := list Z.

Fixpoint index_of (s : string) (l : list string) : option Z :=
  match l with
  | [] => None
  | x :: r => if String.eqb x s then Some 0 else option_map Z.succ (index_of s r)
  end.

Definition known_ctrl (cs : list controller) (n : string) : bool :=
  existsb (fun c => String.eqb (fst c) n) cs.

(* CentralController.set_configuration.  None = BiogemeError (unknown controller, unknown
   specification, or a controller left undefined). *)
Definition set_configuration (cs : list controller) (cfg : config) : option cstate :=
  if forallb (fun sel => known_ctrl cs (fst sel)) cfg then
    map_opt (fun c => match assoc (fst c) cfg with
                      | Some s => index_of s (snd c)
                      | None => None
                      end) cs
  else None.

(* CentralController.get_configuration (controllers are sorted: sorted() is the identity) *)
Definition get_configuration (cs : list controller) (st : cstate) : config :=
  map (fun ci => (fst (fst ci), nth_Z EmptyString (snd (fst ci)) (snd ci))) (combine cs st).

Definition index_in (cs : list controller) (st : cstate) (n : string) : option Z :=
  assoc n (combine (map fst cs) st).

(* the_controller.modify_controller(step, circular=True) on the controller called n *)
Definition modify (cs : list controller) (st : cstate) (n : string) (step : Z) : cstate :=
  map (fun ci => if String.eqb (fst (fst ci)) n
                 then step_index (Z.of_nat (List.length (snd (fst ci)))) (snd ci) step
                 else snd ci) (combine cs st).

(* ------------------------------------------------ neighbourhood operators *)
Definition increased (cs : list controller) (n : string) (cfg : config) (step : Z)
  : option (config * Z) :=
  match set_configuration cs cfg with
  | None => None
  | Some st => if known_ctrl cs n then Some (get_configuration cs (modify cs st n step), step)
               else None
  end.

Definition decreased (cs : list controller) (n : string) (cfg : config) (step : Z)
  : option (config * Z) :=
  match set_configuration cs cfg with
  | None => None
  | Some st => if known_ctrl cs n then Some (get_configuration cs (modify cs st n (- step)), step)
               else None
  end.

Inductive direction := NE | NW | SE | SW.
Definition east (d : direction) : bool := match d with NE | SE => true | _ => false end.
Definition north (d : direction) : bool := match d with NE | NW => true | _ => false end.
Definition dir_name (d : direction) : string :=
  match d with NE => "NE" | NW => "NW" | SE => "SE" | SW => "SW" end.

(* first controller: E = increase, W = decrease; second controller: N = increase, S = decrease *)
Definition two_controllers (cs : list controller) (n1 n2 : string) (d : direction) (cfg : config)
  (step : Z) : option (config * Z) :=
  match set_configuration cs cfg with
  | None => None
  | Some st =>
      if known_ctrl cs n1 && known_ctrl cs n2 then
        let st1 := modify cs st n1 (if east d then step else - step) in
        let st2 := modify cs st1 n2 (if north d then step else - step) in
        Some (get_configuration cs st2, step)
      else None
  end.

(* modify_random_controllers: [choice] is the outcome of random.choices(names, k=min(step, #)),
   [delta] the modification applied to each chosen controller (the source's
   `the_modification`, extracted into Gen/Config.v) *)
Definition modify_random (cs : list controller) (delta : Z) (choice : list string) (cfg : config)
  (step : Z) : option (config * Z) :=
  match set_configuration cs cfg with
  | None => None
  | Some st =>
      if forallb (known_ctrl cs) choice then
        Some (get_configuration cs (fold_left (fun s n => modify cs s n delta) choice st),
              Z.min step (Z.of_nat (List.length cs)))
      else None
  end.

Inductive opcode :=
| OInc (n : string) | ODec (n : string)
| OPair (n1 n2 : string) (d : direction)
| OSeveral (increase : bool).

(* CentralController.prepare_operators: names and meaning, in dict insertion order *)
Definition prepare_operators (cs : list controller) : list (string * opcode) :=
  let names := map fst cs in
  flat_map (fun n => [(("Increase " ++ n)%string, OInc n); (("Decrease " ++ n)%string, ODec n)]) names
  ++ flat_map (fun n1 => flat_map (fun n2 =>
        if String.eqb n1 n2 then []
        else map (fun d => (("Pair_" ++ n1 ++ "_" ++ n2 ++ "_" ++ dir_name d)%string, OPair n1 n2 d))
                 [NE; NW; SE; SW]) names) names
  ++ [("Increase_several"%string, OSeveral true); ("Decrease_several"%string, OSeveral false)].

Definition apply_op (cs : list controller) (several_delta : bool -> Z) (choice : list string)
  (o : opcode) (cfg : config) (step : Z) : option (config * Z) :=
  match o with
  | OInc n => increased cs n cfg step
  | ODec n => decreased cs n cfg step
  | OPair n1 n2 d => two_controllers cs n1 n2 d cfg step
  | OSeveral b => modify_random cs (several_delta b) choice cfg step
  end.

(* ------------------------------------------------ selection and substitution *)
Definition dummy : expr := Node (HVar "<no selection>") [].

(* The expression seen through the catalogs (MultipleExpression delegates every tree operation
   to selected() = named_expressions[controlled_by.current_index]) *)
Fixpoint erase (ix : string -> option Z) (e : cexpr) : expr :=
  match e with
  | CNode h k => Node h (map (erase ix) k)
  | CCat _ c ms =>
      match ix c with
      | None => dummy
      | Some i =>
          if i <? 0 then dummy
          else (fix pick (l : list (string * cexpr)) (n : nat) {struct l} : expr :=
                  match l with
                  | [] => dummy
                  | m :: r => match n with O => erase ix (snd m) | S j => pick r j end
                  end) ms (Z.to_nat i)
      end
  end.

(* The formula written out by hand: every catalog replaced by the member whose NAME is the
   selection of its controller in the configuration *)
Fixpoint subst (cfg : config) (e : cexpr) : expr :=
  match e with
  | CNode h k => Node h (map (subst cfg) k)
  | CCat _ c ms =>
      match assoc c cfg with
      | None => dummy
      | Some s =>
          (fix find (l : list (string * cexpr)) : expr :=
             match l with
             | [] => dummy
             | m :: r => if String.eqb (fst m) s then subst cfg (snd m) else find r
             end) ms
      end
  end.

(* Expression.configure_catalogs(cfg) followed by reading the tree *)
Definition configure (e : cexpr) (cfg : config) : option expr :=
  let cs := central e in
  match set_configuration cs cfg with
  | None => None
  | Some st => Some (erase (index_in cs st) e)
  end.

(* ------------------------------------------------ histories
   Controller objects live longer than formulas: U is the (sorted) tuple of every controller alive,
   st their current indices.  Catalogs and formulas may be created at any time; they hold no state
   of their own (Catalog.selected reads controlled_by.current_index when it is called), so a formula
   is a value and what it shows depends on the controllers' state only. *)

(* Controller.set_index -- the only assignment to current_index (set_name, reset_selection,
   modify_controller, CentralController.set_configuration / set_controller, the operators and the
   iterator all go through it).  None = BiogemeError (unknown controller or index out of range). *)
Definition set_index (U : list controller) (st : cstate) (n : string) (i : Z) : option cstate :=
  if existsb (fun c => String.eqb (fst c) n && (0 <=? i) && (i <? Z.of_nat (List.length (snd c)))) U
  then Some (map (fun ci => if String.eqb (fst (fst ci)) n then i else snd ci) (combine U st))
  else None.

(* a history of successful index assignments, interleaved with anything that creates objects *)
Fixpoint run_sets (U : list controller) (st : cstate) (h : list (string * Z)) : option cstate :=
  match h with
  | [] => Some st
  | (n, i) :: r => match set_index U st n i with Some st' => run_sets U st' r | None => None end
  end.

(* Expression.current_configuration() of a formula whose controllers belong to U *)
Definition current_configuration (U : list controller) (st : cstate) (e : cexpr) : config :=
  map (fun c => (fst c, match index_in U st (fst c) with
                        | Some i => nth_Z EmptyString (snd c) i
                        | None => EmptyString
                        end)) (central e).

(* the formula as read through its catalogs in the state st *)
Definition read (U : list controller) (st : cstate) (e : cexpr) : expr := erase (index_in U st) e.

(* name of the member selected in every catalog, with the catalog's controller *)
Fixpoint selected_names (ix : string -> option Z) (e : cexpr) : list (string * option string) :=
  match e with
  | CNode _ k => flat_map (selected_names ix) k
  | CCat _ c ms =>
      (c, match ix c with
          | Some i => if i <? 0 then None else option_map fst (nth_error ms (Z.to_nat i))
          | None => None
          end)
      :: flat_map (fun m => selected_names ix (snd m)) ms
  end.

(* ------------------------------------------------ well-formed structures *)
Fixpoint strictly_sorted (l : list string) : bool :=
  match l with
  | [] => true
  | x :: r => match r with
              | [] => true
              | y :: _ => match String.compare x y with Datatypes.Lt => true | _ => false end
              end && strictly_sorted r
  end.

Definition nodupb (l : list string) : bool :=
  (fix go (seen l : list string) : bool :=
     match l with [] => true | x :: r => negb (str_mem x seen) && go (x :: seen) r end) [] l.

(* controllers of a central controller: sorted by name, each with a non-empty duplicate-free
   list of specifications, all names free of the reserved characters *)
Definition wf_ctrl (c : controller) : bool :=
  name_ok (fst c) && negb (is_nil (snd c)) && nodupb (snd c) && forallb name_ok (snd c).
Definition wf_ctrls (cs : list controller) : bool :=
  strictly_sorted (map fst cs) && forallb wf_ctrl cs.

Definition ctrl_eqb (a b : controller) : bool :=
  String.eqb (fst a) (fst b) && list_eqb String.eqb (snd a) (snd b).
(* two catalogs governed by the controller of one name list the same specifications (in Python:
   they hold the same Controller object, and Catalog.__init__ checks names == specification
   names) *)
Definition coherent (l : list controller) : bool :=
  forallb (fun a => forallb (fun b => negb (String.eqb (fst a) (fst b)) || ctrl_eqb a b) l) l.
Definition wf_cexpr (e : cexpr) : bool :=
  coherent (ctrls_of e) && forallb wf_ctrl (ctrls_of e).

(* a configuration is valid for cs iff it picks one known specification per controller *)
Definition valid_config (cs : list controller) (cfg : config) : bool :=
  list_eqb String.eqb (map fst cfg) (map fst cs)
  && forallb (fun cc => str_mem (snd (fst cc)) (snd (snd cc))) (combine cfg cs).

(* ------------------------------------------------ executable equality on cexpr *)
Fixpoint cexpr_eqb (a b : cexpr) : bool :=
  match a, b with
  | CNode h1 k1, CNode h2 k2 =>
      head_eqb h1 h2 &&
      (fix go (l1 l2 : list cexpr) : bool :=
         match l1, l2 with
         | [], [] => true
         | x :: r1, y :: r2 => cexpr_eqb x y && go r1 r2
         | _, _ => false
         end) k1 k2
  | CCat n1 c1 m1, CCat n2 c2 m2 =>
      String.eqb n1 n2 && String.eqb c1 c2 &&
      (fix go (l1 l2 : list (string * cexpr)) : bool :=
         match l1, l2 with
         | [], [] => true
         | x :: r1, y :: r2 => String.eqb (fst x) (fst y) && cexpr_eqb (snd x) (snd y) && go r1 r2
         | _, _ => false
         end) m1 m2
  | _, _ => false
  end.

(* ================================================================== controller objects
   A configuration identifies controllers by NAME.  The library refuses a formula in which two
   different Controller objects bear one name (controller.merge_controllers, called by both
   get_all_controllers).  Object identity is not visible in [cexpr]; the skeleton below keeps, for
   every catalog, the controller OBJECT (name, identity) that governs it. *)
Definition cobj : Type := (string * Z)%type.               (* Controller object: name, identity *)
Inductive otree :=
| ONode (kids : list otree)                                 (* any expression that is not a catalog *)
| OCat (c : cobj) (members : list otree).                   (* Catalog governed by c *)

(* d[k] = v on an insertion-ordered dict, any value type *)
Fixpoint pdict_set {A} (d : list (string * A)) (k : string) (v : A) : list (string * A) :=
  match d with
  | [] => [(k, v)]
  | (k', v') :: r => if String.eqb k' k then (k', v) :: r else (k', v') :: pdict_set r k v
  end.
(* s.add(c) on a set of Controllers (Controller.__eq__/__hash__ compare names: an equal element
   already present is kept) *)
Definition obj_set_add (s : list cobj) (c : cobj) : list cobj :=
  if existsb (fun d => String.eqb (fst d) (fst c)) s then s else s ++ [c].

(* hand-written merge_controllers(target, source): None = BiogemeError *)
Fixpoint m_merge (target source : list cobj) : option (list cobj) :=
  match source with
  | [] => Some target
  | c :: r => match assoc (fst c) target with
              | Some i => if i =? snd c then m_merge target r else None
              | None => m_merge (target ++ [c]) r
              end
  end.

Definition merge_step (acc : option (list cobj)) (child : option (list cobj)) : option (list cobj) :=
  match acc, child with Some a, Some s => m_merge a s | _, _ => None end.

(* Expression.get_all_controllers / Catalog.get_all_controllers (a set: duplicate-free list) *)
Fixpoint all_controllers (t : otree) : option (list cobj) :=
  match t with
  | ONode kids => fold_left (fun acc k => merge_step acc (all_controllers k)) kids (Some [])
  | OCat c ms => fold_left (fun acc k => merge_step acc (all_controllers k)) ms (Some [c])
  end.

(* every controller object met in the formula, with repetition *)
Fixpoint objs_of (t : otree) : list cobj :=
  match t with
  | ONode kids => flat_map objs_of kids
  | OCat c ms => c :: flat_map objs_of ms
  end.

(* ================================================================== helper generators *)
Definition beta_desc : Type := (string * bool)%type.                (* name, fixed (status != 0) *)
(* DiscreteSegmentationTuple: variable name, mapping value -> category (dict order), reference *)
Definition segm : Type := (string * list (Z * string) * string)%type.

Fixpoint pos_tz (p : positive) : positive * Z :=
  match p with xO q => let '(m, e) := pos_tz q in (m, e + 1) | _ => (p, 0) end.
(* the double of an integer as odd mantissa * 2^e (the exchange format of the bridge) *)
Definition dyadic_of_Z (z : Z) : dyadic :=
  match z with
  | Z0 => (0, 0)
  | Zpos p => let '(m, e) := pos_tz p in (Zpos m, e)
  | Zneg p => let '(m, e) := pos_tz p in (Zneg m, e)
  end.

Definition CBeta (b : beta_desc) : cexpr := CNode (HBeta (fst b) (snd b)) [].

(* OneSegmentation.list_of_expressions: beta_<category> * (variable == value), reference skipped *)
Definition one_segmentation (b : beta_desc) (s : segm) : list cexpr :=
  let '(var, mapping, ref) := s in
  map (fun vc => CNode (HBin Times)
                   [CBeta ((fst b ++ "_" ++ snd vc)%string, snd b);
                    CNode (HBin Eq) [CNode (HVar var) []; CNode (HNum (dyadic_of_Z (fst vc))) []]])
      (filter (fun vc => negb (String.eqb (snd vc) ref)) mapping).

(* Segmentation.segmented_beta *)
Definition segmented_beta (b : beta_desc) (segs : list segm) : cexpr :=
  CNode HMultSum (CBeta b :: flat_map (one_segmentation b) segs).

(* itertools.product([False, True], repeat=n) *)
Fixpoint combos (n : nat) : list (list bool) :=
  match n with
  | O => [[]]
  | S k => map (cons false) (combos k) ++ map (cons true) (combos k)
  end.
Definition kept {A} (l : list A) (c : list bool) : list A :=
  map fst (filter snd (combine l c)).
Definition combo_name (segs : list segm) (c : list bool) : string :=
  match kept segs c with
  | [] => "no_seg"%string
  | l => String.concat "-" (map (fun s => fst (fst s)) l)
  end.
Definition seg_possibilities (segs : list segm) (maxn : Z) : list (list bool) :=
  filter (fun c => Z.of_nat (List.length (filter id c)) <=? maxn) (combos (List.length segs)).

(* one of the catalogs returned by segmentation_catalogs(generic_name, [.., b, ..], segs, maxn) *)
Definition seg_catalog (gname : string) (b : beta_desc) (segs : list segm) (maxn : Z) : cexpr :=
  CCat ("segmented_" ++ fst b)%string gname
       (map (fun c => (combo_name segs c, segmented_beta b (kept segs c)))
            (seg_possibilities segs maxn)).

(* generic_alt_specific_catalogs(gname, betas, alts, segs, maxn)[i][alt] for the i-th beta b *)
Definition gas_catalog (gname : string) (b : beta_desc) (alt : string) (segs : list segm) (maxn : Z)
  : cexpr :=
  let b_alt := ((fst b ++ "_" ++ alt)%string, snd b) in
  let get (bd : beta_desc) := match segs with [] => CBeta bd | _ => seg_catalog gname bd segs maxn end in
  CCat (fst b ++ "_" ++ alt ++ "_gen_altspec")%string (gname ++ "_gen_altspec")%string
       [("generic"%string, get b); ("altspec"%string, get b_alt)].
