(* C19 -- Gallina mirrors of GenerateModel.get_nested_logit and get_cross_nested_logit
   (src/biogeme/sampling_of_alternatives/generate_model.py): the log likelihood of the nested /
   cross-nested logit written on a SAMPLE of alternatives (first sample: J alternatives, the chosen
   one first, columns <attr>_<j>, _log_proba_<j>; second "MEV" sample: columns <pre><attr>_<j>,
   <pre>_mev_weight_<j>).  Node for node what the Python code builds (tied by stream `full` of
   lib/props/C19.py), using the Python-value arithmetic of Model/BuildersChoice.v (a nest parameter
   is a number or an Expression).  Definitions only; lemmas in Proofs/SamplingMevP.v. *)
From BV Require Export Model.BuildersChoice.
From BV Require Export Model.Sampling.
From BV Require Import Model.PyBase.
Open Scope Z_scope.

(* BelongsTo(x, set(alternatives)): a set holds every alternative once; its iteration order is not
   modelled (the value does not depend on it; the stream compares modulo that order) *)
Definition dyZ (z : Z) : dyadic := dnorm (z, 0).
Definition belongs (x : expr) (alts : list Z) : expr := Node (HBelongs (map dyZ (dedup alts))) [x].

(* {j: e_j}: positions j0, j0+1, ... *)
Definition indexed {A} (j0 : nat) (l : list A) : list (nat * A) := combine (seq j0 (List.length l)) l.

(* loglogit({j: W_j}, None, 0) *)
Fixpoint dict_from (j : nat) (ws : list expr) : list (Z * expr) :=
  match ws with [] => [] | w :: r => (Z.of_nat j, w) :: dict_from (S j) r end.
Definition logit_indexed (ws : list expr) : expr :=
  ELogLogit (ENumZ 0) (dict_from 0 ws) (avail_from 0 ws).

(* ------------------------------------------------------------------ nested logit *)
(* ConditionalSum over the MEV sample of  weight_j * exp(mu_m * U'_j)  when id_j belongs to nest m *)
Definition sn_mev_sum (pre idcol : string) (j0 : nat) (ums : list expr) (m : nnest) : expr :=
  ECondSum (map (fun ju : nat * expr =>
                   (belongs (EVar (colname pre idcol (fst ju))) (nn_alts m),
                    EBin Times (EVar (colname pre mev_weight_col (fst ju)))
                               (EUn Exp (to_e (pmul (nn_param m) (PE (snd ju)))))))
                (indexed j0 ums)).

(* dict_of_mev_sums[tuple(list_of_alternatives)]: a later nest with the same list replaces an
   earlier one *)
Fixpoint last_same (alts : list Z) (nests : list nnest) (acc : option nnest) : option nnest :=
  match nests with
  | [] => acc
  | m :: r => last_same alts r (if list_eqb Z.eqb (nn_alts m) alts then Some m else acc)
  end.
Definition sn_sum_of (pre idcol : string) (j0 : nat) (ums : list expr) (nests : list nnest) (m : nnest) : expr :=
  match last_same (nn_alts m) nests None with
  | Some m' => sn_mev_sum pre idcol j0 ums m'
  | None => sn_mev_sum pre idcol j0 ums m
  end.

(* dict_of_mev_terms[j]: ConditionalSum over the nests of
   (mu_m - 1.0) * U_j + ((1.0 / mu_m) - 1.0) * log(mev_sum_m)  when id_j belongs to nest m *)
Definition sn_term (pre idcol : string) (j0 : nat) (ums : list expr) (nests : list nnest) (j : nat) (u : expr) : expr :=
  ECondSum (map (fun m =>
                   (belongs (EVar (colname "" idcol j)) (nn_alts m),
                    to_e (padd (pmul (psub (nn_param m) p_one) (PE u))
                               (pmul (psub (pdiv p_one (nn_param m)) p_one)
                                     (PE (EUn Log (sn_sum_of pre idcol j0 ums nests m)))))))
                nests).

(* util - Variable(_log_proba_j) + dict_of_mev_terms[j] *)
Definition corrected_plus (term : nat -> expr -> expr) (us : list expr) : list expr :=
  map (fun ju : nat * expr =>
         EBin Plus (EBin Minus (snd ju) (EVar (colname "" log_proba_col (fst ju)))) (term (fst ju) (snd ju)))
      (indexed 0 us).

(* domain of the model: ConditionalSum([]) raises BiogemeError (no nest / no MEV alternative),
   1.0 / 0.0 raises ZeroDivisionError: reported as Err 3 = outside the domain *)
Definition get_nested_logit (pre idcol : string) (us : list expr) (j0 : nat) (ums : list expr)
    (nests : list nnest) : res expr :=
  check negb (is_nil nests) && negb (is_nil ums) && negb (is_nil us)
        && negb (zd_plain (map nn_param nests)) else 3;
  Ok (logit_indexed (corrected_plus (sn_term pre idcol j0 ums nests) us)).

(* the MEV utilities: the second sample when there is a second partition, otherwise the first
   sample without the chosen alternative (positions 1 .. J-1) *)
Definition mev_utilities (second : option (list expr)) (us : list expr) : nat * list expr :=
  match second with Some ums => (0%nat, ums) | None => (1%nat, tl us) end.

(* ------------------------------------------------------------------ cross-nested logit *)
Definition cnl_prefix : string := "_CNL_".
Definition cnl_col (name : string) : string := (cnl_prefix ++ name)%string.

(* a named nest: OneNestForCrossNestedLogit(nest_param, dict_of_alpha, name) *)
Definition ncnest : Type := (string * cnest)%type.

(* ConditionalSum over the MEV sample of  weight_j * alpha_jm ** mu_m * exp(mu_m * U'_j)  when alpha_jm != 0 *)
Definition sc_mev_sum (pre : string) (j0 : nat) (ums : list expr) (nm : ncnest) : expr :=
  let m := snd nm in
  ECondSum (map (fun ju : nat * expr =>
                   let alpha := EVar (colname pre (cnl_col (fst nm)) (fst ju)) in
                   (EBin Ne alpha (ENumD d_zero),
                    EBin Times (EBin Times (EVar (colname pre mev_weight_col (fst ju))) (epow alpha (cn_param m)))
                               (EUn Exp (to_e (pmul (cn_param m) (PE (snd ju)))))))
                (indexed j0 ums)).

(* dict_of_mev_sums[nest.name]: a later nest with the same name replaces an earlier one *)
Fixpoint last_named (name : string) (nests : list ncnest) (acc : option ncnest) : option ncnest :=
  match nests with
  | [] => acc
  | nm :: r => last_named name r (if String.eqb (fst nm) name then Some nm else acc)
  end.
Definition sc_sum_of (pre : string) (j0 : nat) (ums : list expr) (nests : list ncnest) (nm : ncnest) : expr :=
  match last_named (fst nm) nests None with
  | Some nm' => sc_mev_sum pre j0 ums nm'
  | None => sc_mev_sum pre j0 ums nm
  end.

(* logzero(ConditionalSum over the nests of
     alpha_jm ** mu_m * exp((mu_m - 1) * U_j) * mev_sum_m ** ((1.0 / mu_m) - 1.0)   when alpha_jm != 0) *)
Definition sc_term (pre : string) (j0 : nat) (ums : list expr) (nests : list ncnest) (j : nat) (u : expr) : expr :=
  EUn Logzero
    (ECondSum (map (fun nm : ncnest =>
                      let m := snd nm in
                      let alpha := EVar (colname "" (cnl_col (fst nm)) j) in
                      (EBin Ne alpha (ENumD d_zero),
                       EBin Times
                         (EBin Times (epow alpha (cn_param m))
                                     (EUn Exp (to_e (pmul (psub (cn_param m) p_one) (PE u)))))
                         (epow (sc_sum_of pre j0 ums nests nm) (psub (pdiv p_one (cn_param m)) p_one))))
                   nests)).

Definition get_cross_nested_logit (pre : string) (us : list expr) (j0 : nat) (ums : list expr)
    (nests : list ncnest) : res expr :=
  check negb (is_nil nests) && negb (is_nil ums) && negb (is_nil us)
        && negb (zd_plain (map (fun nm => cn_param (snd nm)) nests)) else 3;
  Ok (logit_indexed (corrected_plus (sc_term pre j0 ums nests) us)).

(* ------------------------------------------------------------------ specification vocabulary *)
(* what the flat row holds for the sampled alternatives [L] at positions j, j+1, ...: the utility
   expression evaluates to Vf(alternative), <pre><idcol>_<j> holds its id, <pre><special>_<j> holds the
   value [sv] (correction ln(k/n) of the first sample, weight n/k of the MEV sample) *)
Fixpoint sample_holds (Phi : R -> R) (en : env) (Vf : Z -> R) (pre idcol special : string)
         (j : nat) (L : list Z) (svs : list R) (us : list expr) : Prop :=
  match L, svs, us with
  | [], [], [] => True
  | a :: L', sv :: svs', u :: us' =>
      evalX Phi u en = XR (Vf a) /\
      e_var en (colname pre idcol j) = Some (IZR a) /\
      e_var en (colname pre special j) = Some sv /\
      sample_holds Phi en Vf pre idcol special (S j) L' svs' us'
  | _, _, _ => False
  end.

(* the columns <pre>_CNL_<name>_<j> hold alpha(nest, alternative) (0 outside the nest) *)
Fixpoint alphas_hold (en : env) (alpha : ncnest -> Z -> R) (pre : string) (nests : list ncnest)
         (j : nat) (L : list Z) : Prop :=
  match L with
  | [] => True
  | a :: L' =>
      (forall nm, In nm nests -> e_var en (colname pre (cnl_col (fst nm)) j) = Some (alpha nm a)) /\
      alphas_hold en alpha pre nests (S j) L'
  end.

Definition row_weight (r : srow) : R := match snd r with Some kn => weight_value kn | None => 0%R end.
