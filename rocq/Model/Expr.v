(* Deep embedding of Biogeme's expression language (the modules under src/biogeme/expressions).

   An expression is a rose tree: a [head] (the Python class and its non-child payload) and the
   ordered list of children exactly as the Python object stores them.  This keeps every generic
   traversal of the library (get_children, get_signature, audit, the elementary-expression
   dictionaries, one-hole contexts) uniform.

   Definitions only; lemmas are in Proofs/ExprP.v. *)
From Coq Require Export ZArith List String Bool.
Export ListNotations.
Open Scope Z_scope.

(* A double (every numeric leaf of a formula is one) is the dyadic rational m * 2^e. *)
Definition dyadic : Type := (Z * Z)%type.

Inductive binop :=
| Plus | Minus | Times | Divide | Power | BMin | BMax | And | Or
| Eq | Ne | Le | Ge | Lt | Gt.

Inductive unop :=
| UMinus | Exp | Log | Logzero | Sin | Cos | NormalCdf | MonteCarlo | PanelTraj.

Inductive head :=
| HNum (d : dyadic)                         (* Numeric *)
| HBeta (name : string) (fixed : bool)      (* Beta: value comes from the environment *)
| HVar (name : string)                      (* Variable *)
| HDraws (name : string) (dtype : string)   (* bioDraws *)
| HRV (name : string)                       (* RandomVariable *)
| HBin (op : binop)                         (* 2 children *)
| HUn (op : unop)                           (* 1 child *)
| HPowC (exponent : dyadic)                 (* PowerConstant: 1 child *)
| HDerive (name : string)                   (* Derive: 1 child *)
| HIntegrate (name : string)                (* Integrate: 1 child *)
| HBelongs (set : list dyadic)              (* BelongsTo: 1 child *)
| HMultSum                                  (* bioMultSum: n children *)
| HCondSum                                  (* ConditionalSum: c1,t1,c2,t2,... *)
| HElem (keys : list Z)                     (* Elem: key expression :: entries (dict order) *)
| HLinUtil                                  (* bioLinearUtility: b1,v1,b2,v2,... *)
| HLogLogit (ukeys akeys : list Z).         (* LogLogit: choice :: utilities ++ availabilities *)

Inductive expr := Node (h : head) (kids : list expr).

Definition hd_of (e : expr) : head := match e with Node h _ => h end.
Definition kids_of (e : expr) : list expr := match e with Node _ k => k end.

(* ------------------------------------------------------------------ smart constructors *)
Definition ENum (m e : Z) := Node (HNum (m, e)) [].
Definition ENumZ (n : Z) := Node (HNum (n, 0)) [].
Definition EBeta (n : string) (fixed : bool) := Node (HBeta n fixed) [].
Definition EVar (n : string) := Node (HVar n) [].
Definition EDraws (n t : string) := Node (HDraws n t) [].
Definition ERV (n : string) := Node (HRV n) [].
Definition EBin (op : binop) (a b : expr) := Node (HBin op) [a; b].
Definition EUn (op : unop) (a : expr) := Node (HUn op) [a].
Definition EPowC (a : expr) (c : dyadic) := Node (HPowC c) [a].
Definition EMultSum (l : list expr) := Node HMultSum l.

Fixpoint flatten_pairs (l : list (expr * expr)) : list expr :=
  match l with [] => [] | (a, b) :: r => a :: b :: flatten_pairs r end.
Definition ECondSum (l : list (expr * expr)) := Node HCondSum (flatten_pairs l).
Definition ELinUtil (l : list (expr * expr)) := Node HLinUtil (flatten_pairs l).
Definition EElem (key : expr) (entries : list (Z * expr)) :=
  Node (HElem (map fst entries)) (key :: map snd entries).
Definition ELogLogit (choice : expr) (util av : list (Z * expr)) :=
  Node (HLogLogit (map fst util) (map fst av)) (choice :: map snd util ++ map snd av).

Fixpoint unflatten_pairs (l : list expr) : option (list (expr * expr)) :=
  match l with
  | [] => Some []
  | a :: b :: r => match unflatten_pairs r with Some p => Some ((a, b) :: p) | None => None end
  | _ => None
  end.

(* ------------------------------------------------------------------ decidable equality *)
Definition dyadic_eqb (a b : dyadic) : bool := (fst a =? fst b) && (snd a =? snd b).

Definition binop_eqb (a b : binop) : bool :=
  match a, b with
  | Plus, Plus | Minus, Minus | Times, Times | Divide, Divide | Power, Power | BMin, BMin
  | BMax, BMax | And, And | Or, Or | Eq, Eq | Ne, Ne | Le, Le | Ge, Ge | Lt, Lt | Gt, Gt => true
  | _, _ => false
  end.

Definition unop_eqb (a b : unop) : bool :=
  match a, b with
  | UMinus, UMinus | Exp, Exp | Log, Log | Logzero, Logzero | Sin, Sin | Cos, Cos
  | NormalCdf, NormalCdf | MonteCarlo, MonteCarlo | PanelTraj, PanelTraj => true
  | _, _ => false
  end.

Fixpoint list_eqb {A} (eqb : A -> A -> bool) (l1 l2 : list A) : bool :=
  match l1, l2 with
  | [], [] => true
  | x :: r1, y :: r2 => eqb x y && list_eqb eqb r1 r2
  | _, _ => false
  end.

Definition head_eqb (a b : head) : bool :=
  match a, b with
  | HNum d1, HNum d2 => dyadic_eqb d1 d2
  | HBeta n1 f1, HBeta n2 f2 => String.eqb n1 n2 && Bool.eqb f1 f2
  | HVar n1, HVar n2 => String.eqb n1 n2
  | HDraws n1 t1, HDraws n2 t2 => String.eqb n1 n2 && String.eqb t1 t2
  | HRV n1, HRV n2 => String.eqb n1 n2
  | HBin o1, HBin o2 => binop_eqb o1 o2
  | HUn o1, HUn o2 => unop_eqb o1 o2
  | HPowC c1, HPowC c2 => dyadic_eqb c1 c2
  | HDerive n1, HDerive n2 => String.eqb n1 n2
  | HIntegrate n1, HIntegrate n2 => String.eqb n1 n2
  | HBelongs s1, HBelongs s2 => list_eqb dyadic_eqb s1 s2
  | HMultSum, HMultSum => true
  | HCondSum, HCondSum => true
  | HElem k1, HElem k2 => list_eqb Z.eqb k1 k2
  | HLinUtil, HLinUtil => true
  | HLogLogit u1 a1, HLogLogit u2 a2 => list_eqb Z.eqb u1 u2 && list_eqb Z.eqb a1 a2
  | _, _ => false
  end.

Fixpoint expr_eqb (a b : expr) : bool :=
  match a, b with
  | Node h1 k1, Node h2 k2 =>
      head_eqb h1 h2 &&
      (fix go (l1 l2 : list expr) : bool :=
         match l1, l2 with
         | [], [] => true
         | x :: r1, y :: r2 => expr_eqb x y && go r1 r2
         | _, _ => false
         end) k1 k2
  end.

(* ------------------------------------------------------------------ generic traversals *)
Fixpoint size (e : expr) : nat :=
  match e with Node _ k => S (fold_right (fun x n => (size x + n)%nat) O k) end.

(* all sub-expressions, pre-order (the node itself first) *)
Fixpoint subterms (e : expr) : list expr :=
  match e with Node _ k => e :: flat_map subterms k end.

(* names of the elementary expressions of each kind, in order of first appearance
   (depth-first, children in get_children() order) *)
Inductive ekind := KFreeBeta | KFixedBeta | KVar | KDraws | KRV.

Definition kind_of_head (h : head) : option (ekind * string) :=
  match h with
  | HBeta n false => Some (KFreeBeta, n)
  | HBeta n true => Some (KFixedBeta, n)
  | HVar n => Some (KVar, n)
  | HDraws n _ => Some (KDraws, n)
  | HRV n => Some (KRV, n)
  | _ => None
  end.

Definition ekind_eqb (a b : ekind) : bool :=
  match a, b with
  | KFreeBeta, KFreeBeta | KFixedBeta, KFixedBeta | KVar, KVar | KDraws, KDraws | KRV, KRV => true
  | _, _ => false
  end.

Definition names_of_kind (k : ekind) (e : expr) : list string :=
  flat_map (fun s => match kind_of_head (hd_of s) with
                     | Some (k', n) => if ekind_eqb k k' then [n] else []
                     | None => []
                     end) (subterms e).
