(* Model/DB.v -- executable model of biogeme.database.Database (C13).

   A table is a list of column identifiers and a list of (label, row): the pandas
   distinction between the *label* of a row (its entry in DataFrame.index) and its *position*
   is explicit.  Cells are dyadic rationals m * 2^e in canonical form (every IEEE double
   is one), so that equality of cells is Leibniz equality and the model computes exactly.

   Every operation is written the way src/biogeme/database.py performs it:
     remove   = add_column('__bioRemove__') ; count rows with a non-zero entry ; drop those
                rows BY POSITION (labels of the others kept) ; drop the column ; in panel
                mode rebuild the map of individuals
     add_column / define_variable = one value of the formula per row, appended as last column
     scale_column = one column multiplied
     split    = DataFrame.sample(frac=1) / np.random.shuffle(unique ids), numpy.array_split,
                concat of the other slices
     sample_with_replacement / sample_individual_map_with_replacement = iloc on drawn positions
     extract_rows = range validation, iloc, new Database
     panel / build_panel_map = contiguity test (state untouched when it fails), stable
                sort_values, index := range(n), [min,max] map
     generate_flat_panel_dataframe = tools.database.flatten_database
   The outcomes of the random number generator are INPUTS of the model ("oracles"); the model
   validates them (result [Bad] when an oracle value is not a possible outcome) and the
   theorems hold for every valid outcome.

   Definitions only; lemmas are in Proofs/DBP.v. *)
From Coq Require Import ZArith List Bool Lia Permutation.
Import ListNotations.
Open Scope Z_scope.

(* ------------------------------------------------------------------ cells *)
Definition cell := (Z * Z)%type.          (* (m, e) stands for m * 2^e *)

Fixpoint norm_pos (p : positive) (e : Z) : positive * Z :=
  match p with xO p' => norm_pos p' (e + 1) | _ => (p, e) end.

Definition dnorm (c : cell) : cell :=
  match fst c with
  | Z0 => (0, 0)
  | Zpos p => let '(q, e) := norm_pos p (snd c) in (Zpos q, e)
  | Zneg p => let '(q, e) := norm_pos p (snd c) in (Zneg q, e)
  end.

Definition canonical (c : cell) : Prop := dnorm c = c.

Definition dzero : cell := (0, 0).
Definition done : cell := (1, 0).
Definition dofbool (b : bool) : cell := if b then done else dzero.

Definition dadd (a b : cell) : cell :=
  let e := Z.min (snd a) (snd b) in
  dnorm (fst a * 2 ^ (snd a - e) + fst b * 2 ^ (snd b - e), e).
Definition dopp (a : cell) : cell := (- fst a, snd a).
Definition dsub (a b : cell) : cell := dadd a (dopp b).
Definition dmul (a b : cell) : cell := dnorm (fst a * fst b, snd a + snd b).
Definition ceqb (a b : cell) : bool := (fst a =? fst b) && (snd a =? snd b).
Definition dltb (a b : cell) : bool := fst (dsub a b) <? 0.
Definition dleb (a b : cell) : bool := fst (dsub a b) <=? 0.
Definition cell_nonzero (c : cell) : bool := negb (fst c =? 0).

(* ------------------------------------------------------------ list helpers *)
Fixpoint index_of (c : Z) (cs : list Z) : option nat :=
  match cs with
  | [] => None
  | x :: r => if x =? c then Some O else option_map S (index_of c r)
  end.

Definition memZ (z : Z) (l : list Z) : bool := existsb (Z.eqb z) l.
Definition memC (c : cell) (l : list cell) : bool := existsb (ceqb c) l.

Fixpoint remove_nth {A} (n : nat) (l : list A) : list A :=
  match l, n with
  | [], _ => []
  | _ :: r, O => r
  | x :: r, S n' => x :: remove_nth n' r
  end.

Fixpoint update_nth {A} (n : nat) (f : A -> A) (l : list A) : list A :=
  match l, n with
  | [], _ => []
  | x :: r, O => f x :: r
  | x :: r, S n' => x :: update_nth n' f r
  end.

Fixpoint map_opt {A B} (f : A -> option B) (l : list A) : option (list B) :=
  match l with
  | [] => Some []
  | x :: r => match f x, map_opt f r with
              | Some y, Some ys => Some (y :: ys)
              | _, _ => None
              end
  end.

(* pandas.unique: distinct values in order of first appearance *)
Fixpoint uniq (l : list cell) : list cell :=
  match l with
  | [] => []
  | x :: r => x :: filter (fun y => negb (ceqb x y)) (uniq r)
  end.

(* insertion sort, stable: [sort_by] inserts the head (the EARLIEST element) into the sorted
   tail, in front of the first element whose key is not smaller *)
Fixpoint insert_by {A} (key : A -> cell) (x : A) (l : list A) : list A :=
  match l with
  | [] => [x]
  | y :: r => if dleb (key x) (key y) then x :: y :: r else y :: insert_by key x r
  end.
Fixpoint sort_by {A} (key : A -> cell) (l : list A) : list A :=
  match l with [] => [] | x :: r => insert_by key x (sort_by key r) end.

Fixpoint sorted_cells (l : list cell) : bool :=
  match l with
  | [] => true
  | x :: r => match r with [] => true | y :: _ => dleb x y && sorted_cells r end
  end.

Definition iota (n : nat) : list Z := map Z.of_nat (seq 0 n).

(* [perm] lists every position 0..n-1 exactly once *)
Definition is_perm_idx (perm : list Z) (n : nat) : bool :=
  (length perm =? n)%nat && forallb (fun i => memZ i perm) (iota n).

(* boolean multiset equality for a type with a boolean equality *)
Fixpoint remove_one {A} (eqb : A -> A -> bool) (x : A) (l : list A) : option (list A) :=
  match l with
  | [] => None
  | y :: r => if eqb x y then Some r
              else match remove_one eqb x r with Some r' => Some (y :: r') | None => None end
  end.
Fixpoint perm_b {A} (eqb : A -> A -> bool) (l1 l2 : list A) : bool :=
  match l1 with
  | [] => match l2 with [] => true | _ => false end
  | x :: r => match remove_one eqb x l2 with Some l2' => perm_b eqb r l2' | None => false end
  end.

(* -------------------------------------------------------------------- tables *)
Definition row := list cell.
Definition lrow := (Z * row)%type.            (* (label, cells) *)
Record table := mkT { cols : list Z; rows : list lrow }.

(* A formula is any function of the row (given the column names); None = the evaluation
   raises (unknown variable).  The theorems quantify over ALL such functions. *)
Definition formula := list Z -> row -> option cell.

Definition getc (cs : list Z) (c : Z) (r : row) : option cell :=
  match index_of c cs with Some i => nth_error r i | None => None end.
Definition getd (cs : list Z) (c : Z) (r : row) : cell :=
  match getc cs c r with Some v => v | None => dzero end.
Definition colvals (c : Z) (t : table) : option (list cell) :=
  match index_of c (cols t) with
  | None => None
  | Some _ => map_opt (fun r : lrow => getc (cols t) c (snd r)) (rows t)
  end.

Fixpoint row_eqb (a b : row) : bool :=
  match a, b with
  | [], [] => true
  | x :: a', y :: b' => ceqb x y && row_eqb a' b'
  | _, _ => false
  end.
Definition lrow_eqb (a b : lrow) : bool := (fst a =? fst b) && row_eqb (snd a) (snd b).

Definition nrows (t : table) : Z := Z.of_nat (length (rows t)).
Definition dummy_row : lrow := (0, []).
Definition iloc (t : table) (i : Z) : lrow := nth (Z.to_nat i) (rows t) dummy_row.
Definition in_range (t : table) (i : Z) : bool := (0 <=? i) && (i <? nrows t).

(* three-valued results: [Err] = the implementation raises an exception (state unchanged
   unless said otherwise), [Bad] = the oracle value handed to the model is impossible *)
Inductive res (A : Type) := Ok (a : A) | Err | Bad.
Arguments Ok {A} a. Arguments Err {A}. Arguments Bad {A}.

(* ---- add_column / define_variable *)
Definition add_col (f : formula) (c : Z) (t : table) : option table :=
  match rows t with
  | [] => None                                      (* 'Database has no entry' *)
  | _ =>
    if memZ c (cols t) then None                    (* ValueError: column exists *)
    else match map_opt (fun r : lrow =>
                          option_map (fun v => (fst r, snd r ++ [v])) (f (cols t) (snd r)))
                       (rows t) with
         | None => None                             (* the expression raises *)
         | Some rs => Some (mkT (cols t ++ [c]) rs)
         end
  end.

(* ---- DataFrame.drop(columns=[c]) *)
Definition drop_col (c : Z) (t : table) : table :=
  match index_of c (cols t) with
  | None => t
  | Some i => mkT (remove_nth i (cols t)) (map (fun r : lrow => (fst r, remove_nth i (snd r))) (rows t))
  end.

(* ---- remove *)
Definition bioRemove : Z := -1.                     (* the column '__bioRemove__' *)
Definition cond_nonzero (cs : list Z) (c : Z) (r : lrow) : bool :=
  match getc cs c (snd r) with Some v => cell_nonzero v | None => false end.
(* the repaired code drops by position: a row goes iff ITS OWN entry is non-zero; labels kept.
   (The unrepaired code dropped by label: [drop_labels], kept for the refutation theorem.) *)
Definition drop_labels (L : list Z) (rs : list lrow) : list lrow :=
  filter (fun r : lrow => negb (memZ (fst r) L)) rs.

Definition remove_tab (f : formula) (t : table) : option (table * Z) :=
  match add_col f bioRemove t with
  | None => None
  | Some t1 =>
    let sel := filter (cond_nonzero (cols t1) bioRemove) (rows t1) in
    let t2 := mkT (cols t1) (filter (fun r => negb (cond_nonzero (cols t1) bioRemove r)) (rows t1)) in
    Some (drop_col bioRemove t2, Z.of_nat (length sel))
  end.

(* the code before the repair (589b5da), for the record: *)
Definition remove_tab_by_label (f : formula) (t : table) : option (table * Z) :=
  match add_col f bioRemove t with
  | None => None
  | Some t1 =>
    let sel := filter (cond_nonzero (cols t1) bioRemove) (rows t1) in
    let t2 := mkT (cols t1) (drop_labels (map fst sel) (rows t1)) in
    Some (drop_col bioRemove t2, Z.of_nat (length sel))
  end.

(* ---- scale_column *)
Definition scale_tab (c : Z) (s : cell) (t : table) : option table :=
  match index_of c (cols t) with
  | None => None                                    (* KeyError *)
  | Some i => Some (mkT (cols t)
                        (map (fun r : lrow => (fst r, update_nth i (fun x => dmul x s) (snd r))) (rows t)))
  end.

(* ---- extract_rows *)
Definition extract_tab (idx : list Z) (t : table) : option table :=
  if forallb (in_range t) idx then
    match idx with
    | [] => None                                    (* 'Database has no entry' *)
    | _ => Some (mkT (cols t) (map (iloc t) idx))
    end
  else None.                                        (* IndexError *)

(* ---- count *)
Definition count_tab (c : Z) (v : cell) (t : table) : option Z :=
  match colvals c t with
  | None => None
  | Some vs => Some (Z.of_nat (length (filter (ceqb v) vs)))
  end.

(* ---- numpy.array_split and the folds *)
Definition chunk_sizes (n k : nat) : list nat :=
  map (fun j => if (j <? n mod k)%nat then S (n / k) else (n / k)%nat) (seq 0 k).
Fixpoint chunks {A} (sz : list nat) (l : list A) : list (list A) :=
  match sz with [] => [] | s :: r => firstn s l :: chunks r (skipn s l) end.
(* fold i = (concat of the other slices, slice i) *)
Definition folds_of {A} (sl : list (list A)) : list (list A * list A) :=
  map (fun i => (concat (firstn i sl ++ skipn (S i) sl), nth i sl [])) (seq 0 (length sl)).

Definition fold := (list lrow * list lrow)%type.    (* (estimation, validation) *)

Definition split_plain (k : Z) (perm : list Z) (t : table) : res (list fold) :=
  if k <? 2 then Err
  else if negb (is_perm_idx perm (length (rows t))) then Bad
  else Ok (folds_of (chunks (chunk_sizes (length (rows t)) (Z.to_nat k)) (map (iloc t) perm))).

Definition in_group (cs : list Z) (g : Z) (ids : list cell) (r : lrow) : bool :=
  match getc cs g (snd r) with Some v => memC v ids | None => false end.

Definition split_groups (k : Z) (g : Z) (shuffled : list cell) (t : table) : res (list fold) :=
  if k <? 2 then Err
  else match colvals g t with
       | None => Err                                 (* KeyError *)
       | Some vs =>
         if negb (perm_b ceqb shuffled (uniq vs)) then Bad
         else Ok (folds_of (map (fun ids => filter (in_group (cols t) g ids) (rows t))
                                (chunks (chunk_sizes (length shuffled) (Z.to_nat k)) shuffled)))
       end.

(* ---- sample_with_replacement: rows at the drawn positions *)
Definition sample_rows {A} (l : list A) (d : A) (size : option Z) (idx : list Z) : res (list A) :=
  let n := Z.of_nat (length l) in
  let sz := match size with Some s => s | None => n end in
  if sz <? 0 then Err                                   (* numpy: negative dimensions *)
  else if (n =? 0) && (0 <? sz) then Err                (* numpy: low >= high *)
  else if negb ((Z.of_nat (length idx) =? sz) && forallb (fun i => (0 <=? i) && (i <? n)) idx) then Bad
  else Ok (map (fun i => nth (Z.to_nat i) l d) idx).

(* ---- panel *)
(* tools.count_number_of_groups: number of maximal runs of equal consecutive values *)
Fixpoint count_groups (l : list cell) : nat :=
  match l with
  | [] => O
  | x :: r => match r with
              | [] => 1%nat
              | y :: _ => if ceqb x y then count_groups r else S (count_groups r)
              end
  end.

Definition relabel (rs : list lrow) : list lrow :=
  map (fun p : Z * lrow => (fst p, snd (snd p))) (combine (iota (length rs)) rs).

Definition Zmin_list (d : Z) (l : list Z) : Z := fold_left Z.min l d.
Definition Zmax_list (d : Z) (l : list Z) : Z := fold_left Z.max l d.
Definition min_label (l : list Z) : Z := match l with [] => 0 | x :: r => Zmin_list x r end.
Definition max_label (l : list Z) : Z := match l with [] => 0 | x :: r => Zmax_list x r end.

Definition imap_t := list (cell * (Z * Z)).          (* individual -> [first, last] *)

Definition has_id (cs : list Z) (c : Z) (v : cell) (r : lrow) : bool :=
  match getc cs c (snd r) with Some x => ceqb x v | None => false end.

Definition build_imap (c : Z) (t : table) : option imap_t :=
  match colvals c t with
  | None => None
  | Some vs =>
    Some (map (fun v => let ls := map fst (filter (has_id (cols t) c v) (rows t)) in
                        (v, (min_label ls, max_label ls))) (uniq vs))
  end.

(* ---- flatten_database (row_name = None) *)
Definition all_same (l : list cell) : bool :=
  match l with [] => true | x :: r => forallb (ceqb x) r end.

(* one output line: individual, (column, common value) for the identical columns,
   ((observation number, column), value) for the others *)
Definition flat_row := (cell * (list (Z * cell) * list ((Z * Z) * cell)))%type.

Definition enumerate1 {A} (l : list A) : list (Z * A) := combine (map (fun i => i + 1) (iota (length l))) l.

Definition flatten_tab (g : Z) (identical : option (list Z)) (t : table) : option (list flat_row) :=
  match rows t, identical with
  | [], None => None                        (* set.union of no set: TypeError *)
  | _, _ =>
  match colvals g t with
  | None => None
  | Some vs =>
    let cs := cols t in
    let ids := uniq (sort_by (fun v => v) vs) in
    let grp v := filter (has_id cs g v) (rows t) in
    let colv c (rs : list lrow) := map (fun r : lrow => getd cs c (snd r)) rs in
    let varying :=
        match identical with
        | None => filter (fun c => existsb (fun v => negb (all_same (colv c (grp v)))) ids) cs
        | Some l => filter (fun c => negb (memZ c l) && negb (c =? g)) cs
        end in
    let ident := filter (fun c => negb (memZ c varying) && negb (c =? g)) cs in
    if match identical with Some l => forallb (fun c => memZ c cs) l | None => true end
    then Some (map (fun v =>
                 (v, (map (fun c => (c, hd dzero (colv c (grp v)))) ident,
                      concat (map (fun p : Z * lrow =>
                                     map (fun c => ((fst p, c), getd cs c (snd (snd p)))) varying)
                                  (enumerate1 (grp v)))))) ids)
    else None
  end end.

(* --------------------------------------------------------------- the database *)
Record db := mkDB {
  tab : table;
  excluded : Z;                          (* Database.excludedData *)
  pcol : option Z;                       (* Database.panelColumn *)
  imap : option imap_t                   (* Database.individualMap *)
}.

Definition new_db (t : table) : db := mkDB t 0 None None.
Definition with_tab (d : db) (t : table) : db := mkDB t (excluded d) (pcol d) (imap d).

(* state-changing operations *)
Inductive op :=
| ORemove (f : formula)
| OAdd (f : formula) (c : Z)             (* add_column and define_variable *)
| OScale (c : Z) (s : cell)
| OPanel (c : Z)
| OExtract (idx : list Z).               (* continue on db.extract_rows(idx) *)

Inductive outcome := Done | Raised.

(* build_panel_map: sort_values(by=panelColumn, kind='stable'), index := range(n), map *)
Definition sort_tab (c : Z) (t : table) : table :=
  mkT (cols t) (relabel (sort_by (fun r : lrow => getd (cols t) c (snd r)) (rows t))).

Definition build_panel_map (d : db) : db * outcome :=
  match pcol d with
  | None => (d, Done)
  | Some c =>
    let t' := sort_tab c (tab d) in
    match build_imap c t' with
    | None => (d, Raised)                                      (* KeyError (unreachable) *)
    | Some m => (mkDB t' (excluded d) (Some c) (Some m), Done)
    end
  end.

Definition panel_db (c : Z) (d : db) : db * outcome :=
  match colvals c (tab d) with
  | None => (d, Raised)                                        (* KeyError, nothing assigned *)
  | Some vs =>
    if (count_groups vs =? count_groups (sort_by (fun v => v) vs))%nat
    then build_panel_map (mkDB (tab d) (excluded d) (Some c) (imap d))
    else (d, Raised)                                           (* BiogemeError: not consecutive *)
  end.

Definition step (d : db) (o : op) : db * outcome :=
  match o with
  | ORemove f =>
    match remove_tab f (tab d) with
    | None => (d, Raised)
    | Some (t', n) => build_panel_map (mkDB t' n (pcol d) (imap d))
    end
  | OAdd f c =>
    match add_col f c (tab d) with
    | None => (d, Raised)
    | Some t' => (with_tab d t', Done)
    end
  | OScale c s =>
    match scale_tab c s (tab d) with
    | None => (d, Raised)
    | Some t' => (with_tab d t', Done)
    end
  | OPanel c => panel_db c d
  | OExtract idx =>
    match extract_tab idx (tab d) with
    | None => (d, Raised)
    | Some t' => (new_db t', Done)
    end
  end.

Definition run (d : db) (os : list op) : db := fold_left (fun d o => fst (step d o)) os d.

(* ------------------------------------------------------------------ queries *)
Inductive split_oracle := SPerm (perm : list Z) | SIds (shuffled : list cell).

Definition split_db (k : Z) (groups : option Z) (o : split_oracle) (d : db) : res (list fold) :=
  if k <? 2 then Err
  else match groups, pcol d with
       | Some g, Some p => if g =? p then
                             match o with SIds s => split_groups k p s (tab d) | _ => Bad end
                           else Err                                (* BiogemeError *)
       | None, Some p => match o with SIds s => split_groups k p s (tab d) | _ => Bad end
       | Some g, None => match o with SIds s => split_groups k g s (tab d) | _ => Bad end
       | None, None => match o with SPerm p => split_plain k p (tab d) | _ => Bad end
       end.

Definition sample_db (size : option Z) (idx : list Z) (d : db) : res (list lrow) :=
  sample_rows (rows (tab d)) dummy_row size idx.

Definition sample_imap_db (size : option Z) (idx : list Z) (d : db) : res imap_t :=
  match pcol d, imap d with
  | Some _, Some m => sample_rows m (dzero, (0, 0)) size idx
  | _, _ => Err
  end.

Definition is_panel (d : db) : bool := match pcol d with Some _ => true | None => false end.

Definition sample_size_db (d : db) : option Z :=
  match pcol d with
  | None => Some (nrows (tab d))
  | Some _ => match imap d with Some m => Some (Z.of_nat (length m)) | None => None end
  end.

Definition nobs_db (d : db) : Z := nrows (tab d).

Definition count_db (c : Z) (v : cell) (d : db) : option Z := count_tab c v (tab d).

Definition flatten_db (identical : option (list Z)) (d : db) : option (list flat_row) :=
  match pcol d with
  | None => None
  | Some g => flatten_tab g identical (tab d)
  end.

(* ------------------------------------------------ formulas used by the stream *)
Inductive bop := BAdd | BSub | BMul | BGt | BGe | BLt | BLe | BEq | BNe | BAnd | BOr.
Inductive fexpr := FCol (c : Z) | FConst (v : cell) | FBin (o : bop) (a b : fexpr).

Definition bop_eval (o : bop) (x y : cell) : cell :=
  match o with
  | BAdd => dadd x y | BSub => dsub x y | BMul => dmul x y
  | BGt => dofbool (dltb y x) | BGe => dofbool (dleb y x)
  | BLt => dofbool (dltb x y) | BLe => dofbool (dleb x y)
  | BEq => dofbool (ceqb x y) | BNe => dofbool (negb (ceqb x y))
  | BAnd => dofbool (cell_nonzero x && cell_nonzero y)
  | BOr => dofbool (cell_nonzero x || cell_nonzero y)
  end.

Fixpoint feval (e : fexpr) (cs : list Z) (r : row) : option cell :=
  match e with
  | FCol c => getc cs c r
  | FConst v => Some v
  | FBin o a b => match feval a cs r, feval b cs r with
                  | Some x, Some y => Some (bop_eval o x y)
                  | _, _ => None
                  end
  end.

(* ------------------------------------------------------------ specifications *)
Definition labels (t : table) : list Z := map fst (rows t).
Definition labels_unique (t : table) : Prop := NoDup (labels t).
Definition well_formed (t : table) : Prop :=
  NoDup (cols t) /\ forall r, In r (rows t) -> length (snd r) = length (cols t).
(* rows carrying the same label are equal: holds for every table with a unique index and is
   kept by every operation, also by extract_rows with repeated positions *)
Definition coherent (t : table) : Prop :=
  forall r1 r2, In r1 (rows t) -> In r2 (rows t) -> fst r1 = fst r2 -> snd r1 = snd r2.

(* what split must deliver; [g] = the grouping column, if any *)
Definition same_group (cs : list Z) (g : Z) (r1 r2 : lrow) : Prop :=
  exists v, getc cs g (snd r1) = Some v /\ getc cs g (snd r2) = Some v.

Definition split_spec (t : table) (g : option Z) (k : nat) (fs : list fold) : Prop :=
  length fs = k /\
  Permutation (concat (map snd fs)) (rows t) /\
  (forall f, In f fs -> Permutation (fst f ++ snd f) (rows t)) /\
  match g with
  | None => True
  | Some g =>
    forall i j r1 r2, In r1 (snd (nth i fs ([], []))) -> In r2 (snd (nth j fs ([], []))) ->
                      (i < length fs)%nat -> (j < length fs)%nat ->
                      same_group (cols t) g r1 r2 -> i = j
  end.

(* boolean checker used by the correspondence stream on the implementation's output *)
Definition group_ok (cs : list Z) (g : Z) (fs : list fold) : bool :=
  forallb (fun i =>
    forallb (fun j =>
      (i =? j)%nat ||
      forallb (fun r1 : lrow =>
        forallb (fun r2 : lrow =>
          match getc cs g (snd r1), getc cs g (snd r2) with
          | Some a, Some b => negb (ceqb a b)
          | _, _ => true
          end) (snd (nth j fs ([], [])))) (snd (nth i fs ([], []))))
      (seq 0 (length fs))) (seq 0 (length fs)).

Definition check_split (t : table) (g : option Z) (k : nat) (fs : list fold) : bool :=
  (length fs =? k)%nat &&
  perm_b lrow_eqb (concat (map snd fs)) (rows t) &&
  forallb (fun f : fold => perm_b lrow_eqb (fst f ++ snd f) (rows t)) fs &&
  match g with None => true | Some g => group_ok (cols t) g fs end.

Definition check_subset (sample rs : list lrow) : bool :=
  forallb (fun r => existsb (lrow_eqb r) rs) sample.

(* ------------------------------------------- observations (correspondence stream) *)
(* One observed call on the real Database: the arguments, whether it raised, what it
   returned / the complete state afterwards.  [check_obs] replays the call on the model from
   the observed previous state and compares (exact equality of labels and cells). *)
Fixpoint list_eqb {A} (eqb : A -> A -> bool) (l1 l2 : list A) : bool :=
  match l1, l2 with
  | [], [] => true
  | x :: r1, y :: r2 => eqb x y && list_eqb eqb r1 r2
  | _, _ => false
  end.
Definition opt_eqb {A} (eqb : A -> A -> bool) (a b : option A) : bool :=
  match a, b with Some x, Some y => eqb x y | None, None => true | _, _ => false end.
Definition table_eqb (a b : table) : bool :=
  list_eqb Z.eqb (cols a) (cols b) && list_eqb lrow_eqb (rows a) (rows b).
Definition ientry_eqb (a b : cell * (Z * Z)) : bool :=
  ceqb (fst a) (fst b) && (fst (snd a) =? fst (snd b)) && (snd (snd a) =? snd (snd b)).
Definition db_eqb (a b : db) : bool :=
  table_eqb (tab a) (tab b) && (excluded a =? excluded b) &&
  opt_eqb Z.eqb (pcol a) (pcol b) && opt_eqb (list_eqb ientry_eqb) (imap a) (imap b).
Definition fold_eqb (a b : fold) : bool :=
  list_eqb lrow_eqb (fst a) (fst b) && list_eqb lrow_eqb (snd a) (snd b).
Definition flat_row_eqb (a b : flat_row) : bool :=
  ceqb (fst a) (fst b) &&
  list_eqb (fun x y : Z * cell => (fst x =? fst y) && ceqb (snd x) (snd y)) (fst (snd a)) (fst (snd b)) &&
  list_eqb (fun x y : (Z * Z) * cell =>
              (fst (fst x) =? fst (fst y)) && (snd (fst x) =? snd (fst y)) && ceqb (snd x) (snd y))
           (snd (snd a)) (snd (snd b)).

Inductive obs :=
| QMut (o : op) (raised : bool) (after : db)
| QSplit (k : Z) (g : option Z) (orc : split_oracle) (raised : bool) (fs : list fold)
| QSample (size : option Z) (idx : list Z) (raised : bool) (out : list lrow)
| QSampleMap (size : option Z) (idx : list Z) (raised : bool) (out : imap_t)
| QExtract (idx : list Z) (raised : bool) (out : table)
| QCount (c : Z) (v : cell) (raised : bool) (n : Z)
| QSize (raised : bool) (n : Z)
| QNobs (n : Z)
| QFlatten (identical : option (list Z)) (raised : bool) (out : list flat_row).

Definition is_raised (o : outcome) : bool := match o with Raised => true | Done => false end.

Definition check_obs (d : db) (q : obs) : db * list bool :=
  match q with
  | QMut o raised after =>
    let '(d', oc) := step d o in
    (after, [Bool.eqb raised (is_raised oc) && db_eqb d' after])
  | QSplit k g orc raised fs =>
    (d, [match split_db k g orc d with
         | Ok fs' => negb raised && list_eqb fold_eqb fs' fs
         | Err => raised
         | Bad => false
         end;
         raised || check_split (tab d) (match pcol d with Some p => Some p | None => g end) (Z.to_nat k) fs])
  | QSample size idx raised out =>
    (d, [match sample_db size idx d with
         | Ok s => negb raised && list_eqb lrow_eqb s out
         | Err => raised
         | Bad => false
         end;
         raised || check_subset out (rows (tab d))])
  | QSampleMap size idx raised out =>
    (d, [match sample_imap_db size idx d with
         | Ok s => negb raised && list_eqb ientry_eqb s out
         | Err => raised
         | Bad => false
         end;
         raised || match imap d with
                   | Some m => forallb (fun e => existsb (ientry_eqb e) m) out
                   | None => false
                   end])
  | QExtract idx raised out =>
    (d, [match extract_tab idx (tab d) with
         | Some t' => negb raised && table_eqb t' out
         | None => raised
         end])
  | QCount c v raised n =>
    (d, [match count_db c v d with Some n' => negb raised && (n' =? n) | None => raised end])
  | QSize raised n =>
    (d, [match sample_size_db d with Some n' => negb raised && (n' =? n) | None => raised end])
  | QNobs n => (d, [nobs_db d =? n])
  | QFlatten identical raised out =>
    (d, [match flatten_db identical d with
         | Some fr => negb raised && list_eqb flat_row_eqb fr out
         | None => raised
         end])
  end.

Fixpoint run_obs (d : db) (qs : list obs) : list bool :=
  match qs with
  | [] => []
  | q :: r => let '(d', bs) := check_obs d q in bs ++ run_obs d' r
  end.
