(* C14 -- model of the row-generation loops of the report writers (results.py).
   Definitions only.  The generated file Gen/Reports.v (tie A, specialised extractor in
   lib/props/C14.py) instantiates these skeletons with the columns, format specifications and
   label transformations found in the source. *)
From Coq Require Import ZArith List String Ascii Bool.
From BV Require Import Model.PyBase Model.FsOps.
Open Scope Z_scope.

(* the attributes of a results.Beta object that the tables show *)
Inductive field :=
| FValue | FActive
| FStdErr | FTTest | FPValue
| FRobStdErr | FRobTTest | FRobPValue
| FBootStdErr | FBootTTest | FBootPValue.

(* A pandas DataFrame built by `table.loc[label] = row`: rows in insertion order, keyed by
   label; assigning an existing label REPLACES that row (so "one row per parameter" is not
   true by construction). *)
Definition table (R : Type) := list (string * R).

Fixpoint table_set {R} (t : table R) (label : string) (row : R) : table R :=
  match t with
  | [] => [(label, row)]
  | (l, r) :: rest => if String.eqb label l then (l, row) :: rest else (l, r) :: table_set rest label row
  end.

Fixpoint table_loc {R} (t : table R) (label : string) : option R :=
  match t with
  | [] => None
  | (l, r) :: rest => if String.eqb label l then Some r else table_loc rest label
  end.

(* values["Value"] on a row (a pandas Series): first cell with that column name *)
Fixpoint series_get {C} (row : list (string * C)) (col : string) : option C :=
  match row with
  | [] => None
  | (c, v) :: rest => if String.eqb col c then Some v else series_get rest col
  end.

Section WithBeta.
  Variable B : Type.                 (* results.Beta objects *)
  Variable b_name : B -> string.

  (* a cell shows one attribute of one Beta object *)
  Definition cell := (field * B)%type.
  Definition row := list (string * cell).

  (* arow = {column: b.<attribute>, ...} for the columns chosen by the flags *)
  Definition make_row (cols : list (string * field)) (b : B) : row :=
    map (fun cf => (fst cf, (snd cf, b))) cols.

  (* for b in <betas>: ...; table.loc[b.name] = pd.Series(arow)  -- from an empty DataFrame *)
  Definition estimated_parameters_table (cols : list (string * field)) (betas : list B) : table row :=
    fold_left (fun t b => table_set t (b_name b) (make_row cols b)) betas [].
End WithBeta.

Arguments make_row {B}.
Arguments estimated_parameters_table {B}.
