(* C15 -- model of the saved-iteration file of biogeme.BIOGEME (src/biogeme/biogeme.py).
   Definitions only (executable); lemmas are in Proofs/IterP.v.

   The pieces of the code that decide WHAT is written WHEN and HOW are not written here: they
   are the fields of a record [code], and the instance describing /repo is regenerated from the
   Python AST on every run (Gen/IterSave.v, [the_code]).  This file gives the semantics of such a
   record: a file system with primitive, interruptible steps, the process state of a BIOGEME
   object, and the operations an estimation session can perform. *)
From Coq Require Import ZArith List String Ascii Bool.
From BV Require Import Model.PyBase.
Import ListNotations.
Open Scope string_scope.

(* ------------------------------------------------------------------ log likelihood values *)
(* An IEEE double: nan, -inf, a finite value (FFin z stands for z * 2^-1074, exact), +inf. *)
Inductive fval := FNaN | FMInf | FFin (z : Z) | FPInf.

(* Python's  a >= b  on floats *)
Definition fge (a b : fval) : bool :=
  match a, b with
  | FNaN, _ => false
  | _, FNaN => false
  | _, FMInf => true
  | FPInf, _ => true
  | FFin x, FFin y => (y <=? x)%Z
  | FMInf, FFin _ => false
  | FMInf, FPInf => false
  | FFin _, FPInf => false
  end.

(* comparison where the right operand may be None (Python would raise TypeError: never written) *)
Definition oge (a b : option fval) : bool :=
  match a, b with Some x, Some y => fge x y | _, _ => false end.

(* ----------------------------------------------------------------------------- strings *)
Definition nl : ascii := "010"%char.
Definition cat (ls : list string) : string := fold_right append "" ls.

Fixpoint no_char (c0 : ascii) (s : string) : bool :=
  match s with
  | EmptyString => true
  | String c r => negb (Ascii.eqb c c0) && no_char c0 r
  end.

(* iteration over a text file: lines keep their terminator; a last unterminated line is kept *)
Fixpoint split_lines (s : string) : list string :=
  match s with
  | EmptyString => []
  | String c r =>
      if Ascii.eqb c nl then String c EmptyString :: split_lines r
      else match split_lines r with
           | [] => [String c EmptyString]
           | l :: ls => String c l :: ls
           end
  end.

(* s.split(c0) for a one-character separator *)
Fixpoint split_on (c0 : ascii) (s : string) : list string :=
  match s with
  | EmptyString => [EmptyString]
  | String c r =>
      if Ascii.eqb c c0 then EmptyString :: split_on c0 r
      else match split_on c0 r with
           | [] => [String c EmptyString]
           | p :: ps => String c p :: ps
           end
  end.

(* s.rsplit(c0, 1) for a one-character separator: split at the LAST occurrence *)
Fixpoint rsplit1 (c0 : ascii) (s : string) : list string :=
  match s with
  | EmptyString => [EmptyString]
  | String c r =>
      match rsplit1 c0 r with
      | [a; b] => [String c a; b]
      | _ => if Ascii.eqb c c0 then [EmptyString; r] else [String c r]
      end
  end.

(* str.strip(): ASCII white space *)
Definition is_space (c : ascii) : bool :=
  let n := nat_of_ascii c in
  ((9 <=? n) && (n <=? 13) || (28 <=? n) && (n <=? 32))%nat.
Fixpoint lstrip (s : string) : string :=
  match s with
  | EmptyString => EmptyString
  | String c r => if is_space c then lstrip r else s
  end.
Fixpoint rstrip (s : string) : string :=
  match s with
  | EmptyString => EmptyString
  | String c r =>
      match rstrip r with
      | EmptyString => if is_space c then EmptyString else String c EmptyString
      | r' => String c r'
      end
  end.
Definition py_strip (s : string) : string := rstrip (lstrip s).

(* a dict built by successive  d[k] = v : the last assignment wins *)
Fixpoint dict_get {V} (k : string) (l : list (string * V)) : option V :=
  match l with
  | [] => None
  | (k', v) :: r =>
      match dict_get k r with
      | Some w => Some w
      | None => if String.eqb k k' then Some v else None
      end
  end.

(* ------------------------------------------------------------------------- file system *)
Definition fs := string -> option string.
Definition upd (d : fs) (n : string) (v : option string) : fs :=
  fun m => if String.eqb m n then v else d m.
Definition empty_fs : fs := fun _ => None.

(* what the Python code asks for ... *)
Inductive fsop :=
| OpenTrunc (n : string)            (* open(n, "w")            *)
| WriteLine (n : string) (s : string)   (* print(..., file=...)    *)
| Close (n : string)                (* end of the with block   *)
| Replace (src dst : string).       (* os.replace(src, dst)    *)

(* ... and the steps between which the process can be stopped: every byte is a step
   (conservative: with Python's buffering the observable states are a subset of these). *)
Inductive astep :=
| AOpen (n : string) | AByte (n : string) (c : ascii) | AClose (n : string)
| AReplace (src dst : string).

Definition atomize1 (o : fsop) : list astep :=
  match o with
  | OpenTrunc n => [AOpen n]
  | WriteLine n s => map (AByte n) (list_ascii_of_string s)
  | Close n => [AClose n]
  | Replace a b => [AReplace a b]
  end.
Definition atomize (l : list fsop) : list astep := flat_map atomize1 l.

(* os.replace as ONE step: the destination holds the old content before and the complete new
   content after.  This is the POSIX rename guarantee; theorems take it as a hypothesis on the
   section variable [os_replace] below. *)
Definition os_replace_atomic (d : fs) (a b : string) : fs :=
  match d a with
  | Some c => upd (upd d b (Some c)) a None
  | None => d
  end.

(* --------------------------------------------------------------- the code, as a record *)
Inductive startop := LoadSaved | ResetBest.

Record code := {
  c_file_name : string -> string;                  (* model name -> name of the iteration file *)
  c_guard : bool -> bool -> bool -> bool;          (* gradient finite, save_iterations, suspended *)
  c_mark0 : option fval -> fval -> option fval;    (* marker after `if bestIteration is None: ...` *)
  c_test : fval -> option fval -> bool;            (* `f >= bestIteration` *)
  c_mark1 : option fval -> fval -> option fval;    (* marker after the body of that `if` *)
  c_steps : string -> list string -> list fsop;    (* file name, lines -> primitive steps *)
  c_line : string -> string -> string;             (* parameter name, str(value) -> line *)
  c_parse : string -> option (string * string);    (* line -> (dict key, argument of float) *)
  c_estimate : list startop;                       (* what estimate() does before optimising *)
  c_quick : list startop;                          (* what quick_estimate() does before optimising *)
  c_boot_suspends : bool;                          (* saving suspended around the bootstrap loop *)
  c_boot_restores : bool;                          (* estimation data put back after the loop *)
  c_abort_resumes : bool;     (* the `finally` clause of the loop re-enables saving *)
  c_abort_restores : bool;    (* the `finally` clause of the loop puts the estimation data back *)
}.

(* --------------------------------------------------------------------- sessions *)
Section Sem.
  Variable val : Type.                              (* parameter values (doubles) *)
  Variable show : val -> string.                    (* str(v) *)
  Variable read : string -> option val.             (* float(s) on stripped text; None = ValueError *)
  Variable os_replace : fs -> string -> string -> fs.
  Variable c : code.

  Definition astep_run (d : fs) (a : astep) : fs :=
    match a with
    | AOpen n => upd d n (Some "")
    | AByte n ch => match d n with Some s => upd d n (Some (s ++ String ch "")) | None => d end
    | AClose n => d
    | AReplace a b => os_replace d a b
    end.
  Definition run_steps (d : fs) (l : list astep) : fs := fold_left astep_run l d.

  Record config := {
    cf_names : list string;      (* id_manager.free_betas.names *)
    cf_model : string;           (* modelName *)
    cf_save : bool;              (* save_iterations *)
    cf_init0 : list val;         (* starting values of a fresh process *)
  }.

  Record state := {
    st_fs : fs;
    st_best : option fval;       (* bestIteration *)
    st_susp : bool;              (* _saving_suspended *)
    st_other : bool;             (* the engine holds data other than the estimation data *)
    st_init : list val;          (* id_manager.free_betas_values *)
  }.

  Definition fresh (cfg : config) (d : fs) : state :=
    {| st_fs := d; st_best := None; st_susp := false; st_other := false; st_init := cf_init0 cfg |}.

  Definition fname (cfg : config) : string := c_file_name c (cf_model cfg).

  Definition file_lines (cfg : config) (x : list val) : list string :=
    map (fun nv => c_line c (fst nv) (show (snd nv))) (combine (cf_names cfg) x).
  Definition file_content (cfg : config) (x : list val) : string := cat (file_lines cfg x).

  (* reading *)
  Definition py_float (s : string) : option val := read (py_strip s).
  Fixpoint parse_lines (ls : list string) : option (list (string * val)) :=
    match ls with
    | [] => Some []
    | l :: r =>
        match c_parse c l with
        | None => None
        | Some (k, t) =>
            match py_float t with
            | None => None
            | Some v => option_map (cons (k, v)) (parse_lines r)
            end
        end
    end.
  Definition load_file (content : string) : option (list (string * val)) :=
    parse_lines (split_lines content).

  Definition apply_betas (names : list string) (init : list val) (betas : list (string * val)) :=
    map (fun nv => match dict_get (fst nv) betas with Some v => v | None => snd nv end)
        (combine names init).

  (* _load_saved_iteration: None = an exception other than OSError escapes (the estimation dies) *)
  Definition load_saved (cfg : config) (d : fs) (init : list val) : option (list val) :=
    match d (fname cfg) with
    | None => Some init
    | Some content =>
        match load_file content with
        | Some betas => Some (apply_betas (cf_names cfg) init betas)
        | None => None
        end
    end.

  Definition start_step (cfg : config) (s : state) (o : startop) : state :=
    match o with
    | LoadSaved =>
        if cf_save cfg then
          match load_saved cfg (st_fs s) (st_init s) with
          | Some i => {| st_fs := st_fs s; st_best := st_best s; st_susp := st_susp s;
                         st_other := st_other s; st_init := i |}
          | None => s
          end
        else s
    | ResetBest => {| st_fs := st_fs s; st_best := None; st_susp := st_susp s;
                      st_other := st_other s; st_init := st_init s |}
    end.

  (* the save branch of calculate_likelihood_and_derivatives: steps to perform, new marker *)
  Definition save_plan (cfg : config) (s : state) (x : list val) (f : fval) (gfin : bool)
    : list fsop * option fval :=
    if c_guard c gfin (cf_save cfg) (st_susp s) then
      let b0 := c_mark0 c (st_best s) f in
      if c_test c f b0 then (c_steps c (fname cfg) (file_lines cfg x), c_mark1 c b0 f)
      else ([], b0)
    else ([], st_best s).

  Inductive op :=
  | EstimateStart                                   (* estimate() up to the optimiser *)
  | QuickStart                                      (* quick_estimate() up to the optimiser *)
  | Eval (x : list val) (f : fval) (gfin : bool)    (* calculate_likelihood_and_derivatives *)
  | BootstrapBegin                                  (* entering the bootstrap loop *)
  | BootstrapEnd                                    (* leaving it *)
  | CrashEval (x : list val) (f : fval) (gfin : bool) (k : nat)
        (* the process is stopped after k primitive steps of this evaluation's save; whatever
           comes next in the history is done by a new process *)
  | Kill                                            (* stopped between two evaluations *)
  | BootstrapAbort
        (* the bootstrap loop is left by an exception (KeyboardInterrupt, an error on a resample):
           only its `finally` clause runs; the object stays alive and may be used again *)
  | EstimateEnd (x : list val).
        (* normal end of estimate(): self.change_init_values(estimates) -- the estimates become the
           starting values of the object (quick_estimate does not do that) *)

  Definition len_ok (cfg : config) (x : list val) : bool :=
    Nat.eqb (List.length x) (List.length (cf_names cfg)).

  Definition step (cfg : config) (s : state) (o : op) : state :=
    match o with
    | EstimateStart => fold_left (start_step cfg) (c_estimate c) s
    | QuickStart => fold_left (start_step cfg) (c_quick c) s
    | Eval x f g =>
        if len_ok cfg x then
          let '(plan, b) := save_plan cfg s x f g in
          {| st_fs := run_steps (st_fs s) (atomize plan); st_best := b; st_susp := st_susp s;
             st_other := st_other s; st_init := st_init s |}
        else s   (* ValueError before anything happens *)
    | BootstrapBegin =>
        {| st_fs := st_fs s; st_best := st_best s; st_susp := c_boot_suspends c;
           st_other := true; st_init := st_init s |}
    | BootstrapEnd =>
        {| st_fs := st_fs s; st_best := st_best s; st_susp := false;
           st_other := negb (c_boot_restores c) && st_other s; st_init := st_init s |}
    | CrashEval x f g k =>
        if len_ok cfg x then
          let '(plan, _) := save_plan cfg s x f g in
          fresh cfg (run_steps (st_fs s) (firstn k (atomize plan)))
        else fresh cfg (st_fs s)
    | Kill => fresh cfg (st_fs s)
    | BootstrapAbort =>
        {| st_fs := st_fs s; st_best := st_best s;
           st_susp := negb (c_abort_resumes c) && st_susp s;
           st_other := negb (c_abort_restores c) && st_other s; st_init := st_init s |}
    | EstimateEnd x =>
        if len_ok cfg x then
          {| st_fs := st_fs s; st_best := st_best s; st_susp := st_susp s; st_other := st_other s;
             st_init := x |}
        else s
    end.

  Definition run (cfg : config) (s : state) (h : list op) : state := fold_left (step cfg) h s.

  (* ------------------------------------------------------------- specification side *)
  (* The evaluations that count: finite gradient, right length, outside the bootstrap loop, by
     the current process, since the last start of an estimation. *)
  Definition spec_step (cfg : config) (sp : list (list val * fval) * bool) (o : op)
    : list (list val * fval) * bool :=
    let '(l, inboot) := sp in
    match o with
    | EstimateStart | QuickStart => ([], inboot)
    | Eval x f g => if g && negb inboot && len_ok cfg x then ((l ++ [(x, f)])%list, inboot) else (l, inboot)
    | BootstrapBegin => (l, true)
    | BootstrapEnd => (l, false)
    | CrashEval _ _ _ _ | Kill => ([], false)
    | BootstrapAbort => (l, false)
    | EstimateEnd _ => (l, inboot)
    end.
  Definition counted (cfg : config) (h : list op) : list (list val * fval) :=
    fst (fold_left (spec_step cfg) h ([], false)).

  (* (x, f) is the best of l, the latest one among equals *)
  Definition best_latest (l : list (list val * fval)) (x : list val) (f : fval) : Prop :=
    exists l1 l2, l = (l1 ++ (x, f) :: l2)%list /\
      (forall p, In p l1 -> fge f (snd p) = true) /\
      (forall p, In p l2 -> fge (snd p) f = false).

  (* every point handed to an evaluation by the history *)
  Definition evaluated (h : list op) : list (list val) :=
    flat_map (fun o => match o with Eval x _ _ => [x] | CrashEval x _ _ _ => [x] | _ => [] end) h.

  Definition f_not_nan (o : op) : Prop :=
    match o with
    | Eval _ f true => f <> FNaN
    | CrashEval _ f true _ => f <> FNaN
    | _ => True
    end.

  (* a complete file: one line per free parameter, in the order of the names *)
  Definition complete (cfg : config) (content : string) : Prop :=
    exists x, List.length x = List.length (cf_names cfg) /\ content = file_content cfg x.
End Sem.

Arguments Eval {val}. Arguments CrashEval {val}. Arguments EstimateStart {val}.
Arguments QuickStart {val}. Arguments BootstrapBegin {val}. Arguments BootstrapEnd {val}.
Arguments Kill {val}. Arguments BootstrapAbort {val}. Arguments EstimateEnd {val}.

(* ------------------------------------------------- executable instance used by the streams *)
(* values are represented by their decimal text (what str(v) printed) *)
Definition float_char (c : ascii) : bool :=
  let n := nat_of_ascii c in
  ((48 <=? n) && (n <=? 57) || (n =? 43) || (n =? 45) || (n =? 46) || (n =? 101) || (n =? 69)
   || (n =? 105) || (n =? 110) || (n =? 102) || (n =? 97))%nat.
Fixpoint all_chars (p : ascii -> bool) (s : string) : bool :=
  match s with EmptyString => true | String c r => p c && all_chars p r end.
(* float(s): accepted iff non empty and made of digits + - . e E i n f a (the streams only use
   canonical float texts, "", and texts with other characters) *)
Definition read_txt (s : string) : option string :=
  match s with
  | EmptyString => None
  | _ => if all_chars float_char s then Some s else None
  end.
Definition show_txt (s : string) : string := s.

(* the write discipline of the unrepaired code: truncate the final file and write in place *)
Definition inplace_steps (fn : string) (ls : list string) : list fsop :=
  OpenTrunc fn :: (map (WriteLine fn) ls ++ [Close fn])%list.
