(* Gallina mirrors of the choice-model builders of Biogeme:
     src/biogeme/models/logit.py   loglogit, logit
     src/biogeme/models/mev.py     logmev, mev
     src/biogeme/models/nested.py  get_mev_generating_for_nested, get_mev_for_nested(_mu),
                                   lognested, nested, lognested_mev_mu, nested_mev_mu
     src/biogeme/models/cnl.py     get_mev_for_cross_nested(_mu), logcnl, cnl, logcnlmu, cnlmu
     src/biogeme/models/ordered.py ordered_likelihood, ordered_logit, ordered_probit
     src/biogeme/distributions.py  logisticcdf
     src/biogeme/nests.py          Nests.__init__, from_tuple, check_partition, check_validity
   Each builder returns the [expr] tree (Model/Expr.v) that the Python function returns, node for
   node, or the class of exception it raises.  Tied to the source by the structural stream
   C05/build (lib/props/C05.py).  Definitions only; lemmas are in Proofs/Choice*.v.

   Python values.  An argument typed ExpressionOrNumeric is either a Python number (int, float,
   bool: all are turned into a double by Numeric(...)) or an Expression object.  Arithmetic
   between two numbers is IEEE double arithmetic performed by Python *before* any tree is built;
   arithmetic involving an Expression builds a node (operator overloading in
   base_expressions.py), numbers being wrapped by validate_and_convert. *)
From BV Require Export Model.Expr.
From BV Require Import Model.PyBase.
Open Scope Z_scope.

(* ------------------------------------------------------------------ doubles as dyadics *)
(* canonical form used by the bridge: odd mantissa, and (0,0) for zero *)
Fixpoint strip_pos (p : positive) (e : Z) : positive * Z :=
  match p with xO q => strip_pos q (e + 1) | _ => (p, e) end.

Definition dnorm (d : dyadic) : dyadic :=
  match fst d with
  | Z0 => (0, 0)
  | Zpos p => let '(q, e) := strip_pos p (snd d) in (Zpos q, e)
  | Zneg p => let '(q, e) := strip_pos p (snd d) in (Zneg q, e)
  end.

(* round-to-nearest-even of (n / d) * 2^s to 53 significant bits (d > 0); exponent range
   unbounded: the model is that of binary64 away from overflow / subnormals *)
Definition round53 (n d s : Z) : dyadic :=
  if n =? 0 then (0, 0) else
  let a := Z.abs n in
  let e0 := Z.log2 a - Z.log2 d - 53 in
  let quo e := if 0 <=? e then a / (d * 2 ^ e) else (a * 2 ^ (- e)) / d in
  let e1 := if quo e0 <? 2 ^ 53 then e0 else e0 + 1 in
  let num := if 0 <=? e1 then a else a * 2 ^ (- e1) in
  let den := if 0 <=? e1 then d * 2 ^ e1 else d in
  let q := num / den in
  let r := num mod den in
  let q' := if 2 * r <? den then q
            else if den <? 2 * r then q + 1
            else if Z.even q then q else q + 1 in
  dnorm (Z.sgn n * q', e1 + s).

Definition fl_of_exact (m e : Z) : dyadic := round53 m 1 e.

Definition fl_add (x y : dyadic) : dyadic :=
  let e := Z.min (snd x) (snd y) in
  fl_of_exact (fst x * 2 ^ (snd x - e) + fst y * 2 ^ (snd y - e)) e.
Definition fl_opp (x : dyadic) : dyadic := (- fst x, snd x).
Definition fl_sub (x y : dyadic) : dyadic := fl_add x (fl_opp y).
Definition fl_mul (x y : dyadic) : dyadic := fl_of_exact (fst x * fst y) (snd x + snd y).
(* y <> 0 (Python raises ZeroDivisionError otherwise; guarded by the builders) *)
Definition fl_div (x y : dyadic) : dyadic :=
  round53 (fst x * Z.sgn (fst y)) (Z.abs (fst y)) (snd x - snd y).

Definition d_zero : dyadic := (0, 0).
Definition d_one : dyadic := (1, 0).
Definition d_is_zero (d : dyadic) : bool := fst d =? 0.

(* ------------------------------------------------------------------ Python values *)
Inductive pv := PN (d : dyadic) | PE (e : expr).

Definition ENumD (d : dyadic) : expr := Node (HNum d) [].
(* validate_and_convert *)
Definition to_e (p : pv) : expr := match p with PN d => ENumD d | PE e => e end.

Definition padd (a b : pv) : pv :=
  match a, b with PN x, PN y => PN (fl_add x y) | _, _ => PE (EBin Plus (to_e a) (to_e b)) end.
Definition psub (a b : pv) : pv :=
  match a, b with PN x, PN y => PN (fl_sub x y) | _, _ => PE (EBin Minus (to_e a) (to_e b)) end.
Definition pmul (a b : pv) : pv :=
  match a, b with PN x, PN y => PN (fl_mul x y) | _, _ => PE (EBin Times (to_e a) (to_e b)) end.
Definition pdiv (a b : pv) : pv :=
  match a, b with PN x, PN y => PN (fl_div x y) | _, _ => PE (EBin Divide (to_e a) (to_e b)) end.

(* Expression.__pow__ : the base is an Expression *)
Definition epow (a : expr) (b : pv) : expr :=
  match b with
  | PN d => EPowC a d
  | PE (Node (HNum d) []) => EPowC a d          (* isinstance(other, Numeric) *)
  | PE e => EBin Power a e
  end.

(* `x != Numeric(0)`: for a Python number x, int.__ne__ returns NotImplemented and the reflected
   Numeric(0).__ne__(x) builds NotEqual(Numeric(0), x) *)
Definition pne0 (a : pv) : expr :=
  match a with
  | PN d => EBin Ne (ENumD d_zero) (ENumD d)
  | PE e => EBin Ne e (ENumD d_zero)
  end.

Definition p_one := PN d_one.
Definition p_zero := PN d_zero.

(* ------------------------------------------------------------------ results *)
(* exceptions: 1 = BiogemeError, 2 = any other exception (KeyError, ZeroDivisionError, ...);
   3 = not an exception: the arguments are outside the domain of the model *)
Inductive res (A : Type) := Ok (a : A) | Err (k : Z).
Arguments Ok {A} a.
Arguments Err {A} k.
Definition bind {A B} (r : res A) (f : A -> res B) : res B :=
  match r with Ok a => f a | Err k => Err k end.
Notation "'do' x <- r ; k" := (bind r (fun x => k)) (at level 200, x name, r at level 100, k at level 200).
Notation "'check' b 'else' e ; k" := (if b then k else Err e) (at level 200, b at level 100, k at level 200).

Fixpoint mapM {A B} (f : A -> res B) (l : list A) : res (list B) :=
  match l with
  | [] => Ok []
  | x :: r => do y <- f x; do ys <- mapM f r; Ok (y :: ys)
  end.

(* ------------------------------------------------------------------ dictionaries with int keys *)
Definition dict (A : Type) := list (Z * A).   (* insertion order, keys distinct *)
Definition keys {A} (d : dict A) : list Z := map fst d.
Definition memZ (k : Z) (l : list Z) : bool := existsb (Z.eqb k) l.
Fixpoint get {A} (d : dict A) (k : Z) : option A :=
  match d with [] => None | (k', v) :: r => if k =? k' then Some v else get r k end.
Definition getd {A} (dflt : A) (d : dict A) (k : Z) : A :=
  match get d k with Some v => v | None => dflt end.
(* d[k] = v *)
Fixpoint dset {A} (d : dict A) (k : Z) (v : A) : dict A :=
  match d with
  | [] => [(k, v)]
  | (k', v') :: r => if k =? k' then (k, v) :: r else (k', v') :: dset r k v
  end.
Fixpoint dedup (l : list Z) : list Z :=
  match l with [] => [] | x :: r => x :: filter (fun y => negb (y =? x)) (dedup r) end.
Definition subsetZ (a b : list Z) : bool := forallb (fun x => memZ x b) a.
Fixpoint nodupZ (l : list Z) : bool :=
  match l with [] => true | x :: r => negb (memZ x r) && nodupZ r end.
Definition permZ (a b : list Z) : bool :=
  nodupZ a && nodupZ b && subsetZ a b && subsetZ b a.

Definition dmap {A B} (f : A -> B) (d : dict A) : dict B := map (fun kv => (fst kv, f (snd kv))) d.

(* ------------------------------------------------------------------ logit.py *)
Definition avail := option (dict pv).

(* LogLogit.__init__ : av = None -> every alternative gets Numeric(1) *)
Definition loglogit_e (util : dict pv) (av : avail) (choice : pv) : expr :=
  let u := dmap to_e util in
  let a := match av with
           | None => dmap (fun _ => ENumD d_one) util
           | Some a => dmap to_e a
           end in
  ELogLogit (to_e choice) u a.

Definition loglogit (util : dict pv) (av : avail) (choice : pv) : res expr :=
  Ok (loglogit_e util av choice).
Definition logit (util : dict pv) (av : avail) (choice : pv) : res expr :=
  Ok (EUn Exp (loglogit_e util av choice)).

(* ------------------------------------------------------------------ mev.py *)
(* h = {i: v + log_gi[i] for i, v in util.items()}  (KeyError if log_gi lacks i) *)
Definition mev_h (util : dict pv) (log_gi : Z -> res pv) : res (dict pv) :=
  mapM (fun kv => do g <- log_gi (fst kv); Ok (fst kv, padd (snd kv) g)) util.

Definition logmev_f (util : dict pv) (log_gi : Z -> res pv) (av : avail) (choice : pv) : res expr :=
  do h <- mev_h util log_gi; Ok (loglogit_e h av choice).
Definition of_option {A} (k : Z) (o : option A) : res A :=
  match o with Some a => Ok a | None => Err k end.
Definition logmev (util : dict pv) (log_gi : dict pv) (av : avail) (choice : pv) : res expr :=
  logmev_f util (fun i => of_option 2 (get log_gi i)) av choice.
Definition mev (util : dict pv) (log_gi : dict pv) (av : avail) (choice : pv) : res expr :=
  do l <- logmev util log_gi av choice; Ok (EUn Exp l).

(* logmev_endogenous_sampling / mev_endogenous_sampling:
   h = {i: v + log_gi[i] + correction[i] for i, v in util.items()}; _bioLogLogit(h, av, choice)
   (av = None is turned into "always available" by LogLogit.__init__); the caller's dictionaries
   are only read *)
Definition es_h (util : dict pv) (log_gi correction : Z -> res pv) : res (dict pv) :=
  mapM (fun kv => do g <- log_gi (fst kv); do c <- correction (fst kv);
                  Ok (fst kv, padd (padd (snd kv) g) c)) util.
Definition logmev_es_f (util : dict pv) (log_gi correction : Z -> res pv) (av : avail) (choice : pv)
  : res expr :=
  do h <- es_h util log_gi correction; Ok (loglogit_e h av choice).
Definition logmev_endogenous_sampling (util log_gi : dict pv) (av : avail) (correction : dict pv)
    (choice : pv) : res expr :=
  logmev_es_f util (fun i => of_option 2 (get log_gi i)) (fun i => of_option 2 (get correction i)) av choice.
Definition mev_endogenous_sampling (util log_gi : dict pv) (av : avail) (correction : dict pv)
    (choice : pv) : res expr :=
  do l <- logmev_endogenous_sampling util log_gi av correction choice; Ok (EUn Exp l).

(* ------------------------------------------------------------------ nests.py *)
Record nnest := mkNN { nn_param : pv; nn_alts : list Z }.
Record cnest := mkCN { cn_param : pv; cn_alpha : dict pv }.

(* the two syntaxes accepted for the nests argument *)
Inductive nn_arg :=
| NNLegacy (l : list (pv * list Z))               (* tuple of (param, [alternatives]) *)
| NNObj (choice_set : list Z) (l : list nnest).   (* NestsForNestedLogit(choice_set, (OneNest...,)) *)
Inductive cn_arg :=
| CNLegacy (l : list (pv * dict pv))
| CNObj (choice_set : list Z) (l : list cnest).

(* OneNestFor*.from_tuple = cls applied to the unpacked tuple *)
Definition nn_from_tuple (t : pv * list Z) : nnest := mkNN (fst t) (snd t).
Definition cn_from_tuple (t : pv * dict pv) : cnest := mkCN (fst t) (snd t).

(* Nests.__init__: BiogemeError if an alternative of a nest is not in the choice set;
   alone = set(choice_set) - mev_alternatives (returned here in choice-set order; Python holds a
   set, whose iteration order is only used by get_mev_generating_for_nested, see below) *)
Definition nests_init (choice_set : list Z) (alts : list (list Z)) : res (list Z) :=
  check subsetZ (List.concat alts) choice_set else 1;
  Ok (filter (fun a => negb (memZ a (List.concat alts))) (dedup choice_set)).

Record nl_nests := mkNL { nl_choice : list Z; nl_list : list nnest; nl_alone : list Z }.
Record cn_nests := mkCNs { cn_choice : list Z; cn_list : list cnest; cn_alone : list Z }.

Definition nl_make (util : dict pv) (a : nn_arg) : res nl_nests :=
  match a with
  | NNLegacy l =>
      let ns := map nn_from_tuple l in
      do al <- nests_init (keys util) (map nn_alts ns); Ok (mkNL (keys util) ns al)
  | NNObj cs ns =>
      do al <- nests_init cs (map nn_alts ns); Ok (mkNL cs ns al)
  end.

(* OneNestForCrossNestedLogit.__post_init__: dict_of_alpha = get_dict_expressions(...) *)
Definition cn_make (util : dict pv) (a : cn_arg) : res cn_nests :=
  match a with
  | CNLegacy l =>
      let ns := map cn_from_tuple l in
      do al <- nests_init (keys util) (map (fun n => keys (cn_alpha n)) ns); Ok (mkCNs (keys util) ns al)
  | CNObj cs ns =>
      do al <- nests_init cs (map (fun n => keys (cn_alpha n)) ns); Ok (mkCNs cs ns al)
  end.

Definition nn_arg_nests (a : nn_arg) : list nnest :=
  match a with NNLegacy l => map nn_from_tuple l | NNObj _ ns => ns end.
Definition cn_arg_nests (a : cn_arg) : list cnest :=
  match a with CNLegacy l => map cn_from_tuple l | CNObj _ ns => ns end.

(* Names of the nests.  Nests.__init__ gives an unnamed nest object the name nest_<position>
   (1-based) and keeps a name that is already there; the nest objects are mutable, so an object
   that was at position k of an earlier Nests(...) specification carries nest_<k> afterwards.
   Two nests of one specification can therefore bear the same name without the user naming
   anything.  No builder of models/*.py reads the names: the builders below take the nests
   without them ([NNObjNamed] / [CNObjNamed] forget the names). *)
Definition nest_name (counter : Z) (given : option string) : string :=
  match given with Some s => s | None => ("nest_" ++ string_of_Z counter)%string end.
Fixpoint assign_names_from (k : Z) (l : list (option string)) : list string :=
  match l with [] => [] | g :: r => nest_name k g :: assign_names_from (k + 1) r end.
Definition assign_names (l : list (option string)) : list string := assign_names_from 1 l.
(* the name held by an object created with [given] that was placed at position [prev] of an
   earlier specification (None: never used before) *)
Definition carried_name (given : option string) (prev : option Z) : option string :=
  match prev with Some k => Some (nest_name k given) | None => given end.
Definition NNObjNamed (choice_set : list Z) (l : list (option string * nnest)) : nn_arg :=
  NNObj choice_set (map snd l).
Definition CNObjNamed (choice_set : list Z) (l : list (option string * cnest)) : cn_arg :=
  CNObj choice_set (map snd l).

(* the nested-logit structure induced by cross-nested nests (each nest keeps its parameter and
   the alternatives listed in its dict_of_alpha) *)
Definition cn_induced_nest (m : cnest) : nnest := mkNN (cn_param m) (keys (cn_alpha m)).
Definition cn_induced (a : cn_arg) : nn_arg :=
  match a with
  | CNLegacy l => NNLegacy (map (fun t => (fst t, keys (snd t))) l)
  | CNObj cs ns => NNObj cs (map cn_induced_nest ns)
  end.

(* check_union: union of the nests and of alone = the choice set (as sets) *)
Definition set_eqZ (a b : list Z) : bool := subsetZ a b && subsetZ b a.
Definition check_union (choice : list Z) (alts : list (list Z)) (alone : list Z) : bool :=
  set_eqZ (List.concat alts ++ alone) choice.
(* check_intersection: no nest lists an alternative twice (len(set(l)) != len(l) is refused
   first, since the repair caeba92); no nest meets alone; two different nests (by position) share
   no alternative.  The three refusals are the same exception class (BiogemeError raised by the
   builders on check_partition's verdict), so their order inside the Python loop is immaterial. *)
Definition disjointZ (a b : list Z) : bool := forallb (fun x => negb (memZ x b)) a.
Fixpoint pairwise_disjoint (l : list (list Z)) : bool :=
  match l with [] => true | x :: r => forallb (disjointZ x) r && pairwise_disjoint r end.
Definition check_intersection (alts : list (list Z)) (alone : list Z) : bool :=
  forallb nodupZ alts && (forallb (fun a => disjointZ a alone) alts && pairwise_disjoint alts).
Definition check_partition (n : nl_nests) : bool :=
  check_union (nl_choice n) (map nn_alts (nl_list n)) (nl_alone n)
  && check_intersection (map nn_alts (nl_list n)) (nl_alone n).
(* check_validity of the cross-nested nests returns check_union's verdict (the remainder only
   extends the message) *)
Definition check_validity (n : cn_nests) : bool :=
  check_union (cn_choice n) (map (fun m => keys (cn_alpha m)) (cn_list n)) (cn_alone n).

(* ------------------------------------------------------------------ nested.py *)
(* ZeroDivisionError: only divisions between two Python numbers raise *)
Definition is_num (p : pv) : bool := match p with PN _ => true | PE _ => false end.
Definition has_zero_param (ps : list pv) : bool :=
  existsb (fun p => match p with PN d => d_is_zero d | PE _ => false end) ps.
(* 1.0 / mu_m,  (1.0 - mu_m) / mu_m *)
Definition zd_plain (ps : list pv) : bool := has_zero_param ps.
(* mu / mu_m *)
Definition zd_nl_mu (mu : pv) (ps : list pv) : bool := is_num mu && has_zero_param ps.
(* mu_m / mu and mu / mu_m *)
Definition zd_cn_mu (mu : pv) (ps : list pv) : bool :=
  match mu with
  | PN d => existsb (fun p => match p with PN x => d_is_zero x || d_is_zero d | PE _ => false end) ps
  | PE _ => false
  end.

(* the_sum of one nest *)
Definition nest_sum (util : dict pv) (av : avail) (m : nnest) : expr :=
  let term i := EUn Exp (to_e (pmul (nn_param m) (getd p_zero util i))) in
  match av with
  | None => EMultSum (map term (nn_alts m))
  | Some a => ECondSum (map (fun i => (pne0 (getd p_zero a i), term i)) (nn_alts m))
  end.

(* the guards common to the nested builders, in the order in which Python fails *)
Definition nl_guard (util : dict pv) (av : avail) (n : nl_nests) (zero_div : bool) : res unit :=
  check check_partition n else 1;
  check forallb (fun m => negb (is_nil (nn_alts m))) (nl_list n) else 1;   (* bioMultSum([]) *)
  check subsetZ (List.concat (map nn_alts (nl_list n))) (keys util) else 2;      (* util[i] *)
  check (match av with None => true
         | Some a => subsetZ (List.concat (map nn_alts (nl_list n))) (keys a) end) else 2;
  check negb zero_div else 2;                                               (* ZeroDivisionError *)
  Ok tt.

Definition find_nest (n : nl_nests) (i : Z) : option nnest :=
  find (fun m => memZ i (nn_alts m)) (nl_list n).

(* log_gi[i] of get_mev_for_nested *)
Definition nl_log_gi (util : dict pv) (av : avail) (n : nl_nests) (i : Z) : res pv :=
  match find_nest n i with
  | Some m =>
      let mu_m := nn_param m in
      Ok (padd (pmul (psub mu_m p_one) (getd p_zero util i))
                 (pmul (psub (pdiv p_one mu_m) p_one) (PE (EUn Log (nest_sum util av m)))))
  | None => if memZ i (nl_alone n) then Ok (PE (ENumD d_zero)) else Err 2   (* KeyError in logmev *)
  end.

Definition nl_log_gi_mu (util : dict pv) (av : avail) (n : nl_nests) (mu : pv) (i : Z) : res pv :=
  match find_nest n i with
  | Some m =>
      let mu_m := nn_param m in
      Ok (padd (padd (PE (EUn Log (to_e mu)))
                       (pmul (psub mu_m p_one) (getd p_zero util i)))
                 (pmul (psub (pdiv mu mu_m) p_one) (PE (EUn Log (nest_sum util av m)))))
  | None =>
      if memZ i (nl_alone n)
      then Ok (padd (PE (EUn Log (to_e mu))) (pmul (psub mu p_one) (getd p_zero util i)))
      else Err 2
  end.

(* the dictionaries returned by get_mev_for_nested(_mu), restricted to the keys of util, in the
   order of util (the order in which logmev reads them) *)
Definition dict_on (util : dict pv) (f : Z -> res pv) : res (dict pv) :=
  mapM (fun kv => do g <- f (fst kv); Ok (fst kv, g)) util.

Definition get_mev_for_nested (util : dict pv) (av : avail) (a : nn_arg) : res (dict pv) :=
  do n <- nl_make util a; do _ <- nl_guard util av n (zd_plain (map nn_param (nl_list n)));
  dict_on util (nl_log_gi util av n).
Definition get_mev_for_nested_mu (util : dict pv) (av : avail) (a : nn_arg) (mu : pv) : res (dict pv) :=
  do n <- nl_make util a; do _ <- nl_guard util av n (zd_nl_mu mu (map nn_param (nl_list n)));
  check subsetZ (nl_alone n) (keys util) else 2;                            (* util[i], i alone *)
  dict_on util (nl_log_gi_mu util av n mu).

Definition lognested (util : dict pv) (av : avail) (a : nn_arg) (choice : pv) : res expr :=
  do n <- nl_make util a; do _ <- nl_guard util av n (zd_plain (map nn_param (nl_list n)));
  logmev_f util (nl_log_gi util av n) av choice.
Definition nested (util : dict pv) (av : avail) (a : nn_arg) (choice : pv) : res expr :=
  do l <- lognested util av a choice; Ok (EUn Exp l).
Definition lognested_mev_mu (util : dict pv) (av : avail) (a : nn_arg) (choice mu : pv) : res expr :=
  do n <- nl_make util a; do _ <- nl_guard util av n (zd_nl_mu mu (map nn_param (nl_list n)));
  check subsetZ (nl_alone n) (keys util) else 2;
  logmev_f util (nl_log_gi_mu util av n mu) av choice.
Definition nested_mev_mu (util : dict pv) (av : avail) (a : nn_arg) (choice mu : pv) : res expr :=
  do l <- lognested_mev_mu util av a choice mu; Ok (EUn Exp l).

(* get_mev_generating_for_nested.  [alone_order] is the order in which Python iterates over the
   *set* nests.alone (an implementation detail of CPython's hash table): any permutation of the
   alone alternatives; the value of the sum does not depend on it. *)
Definition gen_alone_term (util : dict pv) (av : avail) (i : Z) : expr :=
  let ex := EUn Exp (to_e (getd p_zero util i)) in
  match av with
  | None => ex
  | Some a => EBin Times (pne0 (getd p_zero a i)) ex
  end.

Definition get_mev_generating_for_nested (util : dict pv) (av : avail) (a : nn_arg)
    (alone_order : list Z) : res expr :=
  do n <- nl_make util a; do _ <- nl_guard util av n (zd_plain (map nn_param (nl_list n)));
  check permZ alone_order (nl_alone n) else 3;          (* 3: outside the domain of the model *)
  check subsetZ (nl_alone n) (keys util) else 2;
  check (match av with None => true | Some a => subsetZ (nl_alone n) (keys a) end) else 2;
  let terms :=
    map (fun m => epow (nest_sum util av m) (pdiv p_one (nn_param m))) (nl_list n)
    ++ map (gen_alone_term util av) alone_order in
  check negb (is_nil terms) else 1;
  Ok (EMultSum terms).

(* ------------------------------------------------------------------ cnl.py *)
(* alphas after get_dict_expressions *)
Definition cn_alpha_e (m : cnest) : dict expr := dmap to_e (cn_alpha m).

Definition cn_guard (util : dict pv) (av : avail) (n : cn_nests) (zero_div : bool) : res unit :=
  check check_validity n else 1;
  check forallb (fun m => negb (is_nil (cn_alpha m))) (cn_list n) else 1;      (* bioMultSum([]) *)
  check subsetZ (List.concat (map (fun m => keys (cn_alpha m)) (cn_list n))) (keys util) else 2;
  check (match av with None => true
         | Some a => subsetZ (List.concat (map (fun m => keys (cn_alpha m)) (cn_list n))) (keys a) end) else 2;
  check negb zero_div else 2;
  Ok tt.

Definition cn_biosum (util : dict pv) (av : avail) (m : cnest) : expr :=
  let mu_m := cn_param m in
  EMultSum (map (fun ia =>
      let i := fst ia in let a := snd ia in
      let pw := epow a mu_m in
      let ex := EUn Exp (to_e (pmul mu_m (getd p_zero util i))) in
      match av with
      | None => EBin Times pw ex
      | Some av => EBin Times (to_e (pmul (getd p_zero av i) (PE pw))) ex
      end) (cn_alpha_e m)).

Definition cn_term (util : dict pv) (av : avail) (m : cnest) (i : Z) (a : expr) : expr :=
  let mu_m := cn_param m in
  EBin Times
    (EBin Times (epow a mu_m) (EUn Exp (to_e (pmul (psub mu_m p_one) (getd p_zero util i)))))
    (epow (cn_biosum util av m) (pdiv (psub p_one mu_m) mu_m)).

(* gi_terms[i]: one term per nest (in order) whose dict_of_alpha has the key i *)
Definition cn_gi_terms (util : dict pv) (av : avail) (n : cn_nests) (i : Z) : list expr :=
  flat_map (fun m => match get (cn_alpha_e m) i with
                     | Some a => [cn_term util av m i a]
                     | None => []
                     end) (cn_list n).

Definition cn_log_gi (util : dict pv) (av : avail) (n : cn_nests) (i : Z) : res pv :=
  if memZ i (cn_alone n) then Ok p_zero     (* {i: 0 for i in nests.alone}: the int 0 *)
  else match cn_gi_terms util av n i with
       | [] => Err 1                          (* bioMultSum([]) *)
       | g => Ok (PE (EUn Logzero (EMultSum g)))
       end.

Definition cn_biosum_mu (util : dict pv) (av : avail) (mu : pv) (m : cnest) : expr :=
  let mu_m := cn_param m in
  EMultSum (map (fun ia =>
      let i := fst ia in let a := snd ia in
      let pw := epow a (pdiv mu_m mu) in
      let ex := EUn Exp (to_e (pmul mu_m (getd p_zero util i))) in
      match av with
      | None => EBin Times pw ex
      | Some av => EBin Times (to_e (pmul (getd p_zero av i) (PE pw))) ex
      end) (cn_alpha_e m)).

Definition cn_term_mu (util : dict pv) (av : avail) (mu : pv) (m : cnest) (i : Z) (a : expr) : expr :=
  let mu_m := cn_param m in
  EBin Times
    (EBin Times (epow a (pdiv mu_m mu))
                (EUn Exp (to_e (pmul (psub mu_m p_one) (getd p_zero util i)))))
    (epow (cn_biosum_mu util av mu m) (psub (pdiv mu mu_m) p_one)).

Definition cn_gi_terms_mu (util : dict pv) (av : avail) (mu : pv) (n : cn_nests) (i : Z) : list expr :=
  flat_map (fun m => match get (cn_alpha_e m) i with
                     | Some a => [cn_term_mu util av mu m i a]
                     | None => []
                     end) (cn_list n).

Definition cn_log_gi_mu (util : dict pv) (av : avail) (mu : pv) (n : cn_nests) (i : Z) : res pv :=
  if memZ i (cn_alone n)
  then Ok (padd (PE (EUn Log (to_e mu))) (pmul (psub mu p_one) (getd p_zero util i)))
  else match cn_gi_terms_mu util av mu n i with
       | [] => Err 1
       | g => Ok (PE (EUn Log (to_e (pmul mu (PE (EMultSum g))))))
       end.

Definition get_mev_for_cross_nested (util : dict pv) (av : avail) (a : cn_arg) : res (dict pv) :=
  do n <- cn_make util a; do _ <- cn_guard util av n (zd_plain (map cn_param (cn_list n)));
  dict_on util (cn_log_gi util av n).
Definition get_mev_for_cross_nested_mu (util : dict pv) (av : avail) (a : cn_arg) (mu : pv) : res (dict pv) :=
  do n <- cn_make util a; do _ <- cn_guard util av n (zd_cn_mu mu (map cn_param (cn_list n)));
  check subsetZ (cn_alone n) (keys util) else 2;
  dict_on util (cn_log_gi_mu util av mu n).

Definition logcnl (util : dict pv) (av : avail) (a : cn_arg) (choice : pv) : res expr :=
  do n <- cn_make util a; do _ <- cn_guard util av n (zd_plain (map cn_param (cn_list n)));
  logmev_f util (cn_log_gi util av n) av choice.
Definition cnl (util : dict pv) (av : avail) (a : cn_arg) (choice : pv) : res expr :=
  do l <- logcnl util av a choice; Ok (EUn Exp l).
Definition logcnlmu (util : dict pv) (av : avail) (a : cn_arg) (choice mu : pv) : res expr :=
  do n <- cn_make util a; do _ <- cn_guard util av n (zd_cn_mu mu (map cn_param (cn_list n)));
  check subsetZ (cn_alone n) (keys util) else 2;
  logmev_f util (cn_log_gi_mu util av mu n) av choice.
Definition cnlmu (util : dict pv) (av : avail) (a : cn_arg) (choice mu : pv) : res expr :=
  do l <- logcnlmu util av a choice mu; Ok (EUn Exp l).

(* ------------------------------------------------------------------ distributions.logisticcdf *)
(* Numeric(1.0) / (Numeric(1.0) + exp(-(x - mu) / s)) with the defaults mu = Numeric(0.0),
   s = Numeric(1.0) *)
Definition logisticcdf (x : expr) : expr :=
  EBin Divide (ENumD d_one)
    (EBin Plus (ENumD d_one)
       (EUn Exp (EBin Divide (EUn UMinus (EBin Minus x (ENumD d_zero))) (ENumD d_one)))).
Definition normalcdf (x : expr) : expr := EUn NormalCdf x.

(* ------------------------------------------------------------------ ordered.py *)
Definition init {A} (l : list A) : list A := removelast l.

(* the intermediate categories: returns the dictionary so far and the last threshold *)
Fixpoint ordered_mid (cdf : expr -> expr) (x : expr) (tau_name : string) (items : list Z)
    (tau : expr) (acc : dict expr) : dict expr * expr :=
  match items with
  | [] => (acc, tau)
  | it :: r =>
      let diff := EBeta (tau_name ++ "_diff_" ++ string_of_Z it)%string false in
      let next_tau := EBin Plus tau diff in
      ordered_mid cdf x tau_name r next_tau
        (dset acc it (EBin Minus (cdf (EBin Minus x tau)) (cdf (EBin Minus x next_tau))))
  end.

Definition ordered_likelihood (x : expr) (vals : list Z) (tau : expr) (cdf : expr -> expr)
  : res (dict expr) :=
  match tau with
  | Node (HBeta tau_name _) [] =>
      match vals with
      | [] => Err 2                                   (* IndexError *)
      | v0 :: rest =>
          let first := [(v0, EBin Minus (ENumD d_one) (cdf (EBin Minus x tau)))] in
          let '(acc, tl) := ordered_mid cdf x tau_name (init rest) tau first in
          Ok (dset acc (last rest v0) (cdf (EBin Minus x tl)))
      end
  | _ => Err 1
  end.

Definition ordered_logit (x : expr) (vals : list Z) (tau : expr) := ordered_likelihood x vals tau logisticcdf.
Definition ordered_probit (x : expr) (vals : list Z) (tau : expr) := ordered_likelihood x vals tau normalcdf.

(* ------------------------------------------------------------------ comparison helpers (streams) *)
Definition pv_eqb (a b : pv) : bool :=
  match a, b with
  | PN x, PN y => dyadic_eqb x y
  | PE x, PE y => expr_eqb x y
  | _, _ => false
  end.
Definition res_eqb {A} (eqb : A -> A -> bool) (a b : res A) : bool :=
  match a, b with
  | Ok x, Ok y => eqb x y
  | Err j, Err k => j =? k
  | _, _ => false
  end.
Definition dict_eqb {A} (eqb : A -> A -> bool) (a b : dict A) : bool :=
  list_eqb (fun x y => (fst x =? fst y) && eqb (snd x) (snd y)) a b.

(* ------------------------------------------------------------------ specification vocabulary *)
(* (used by the statements in Properties/C05.v and C06.v) *)
From BV Require Import Model.EvalX.

Fixpoint Rsum {A} (g : A -> R) (l : list A) : R :=
  match l with [] => 0%R | x :: r => (g x + Rsum g r)%R end.

(* the real carried by a value (0 for -inf / NaN: only used under hypotheses that exclude them) *)
Definition xR (x : xval) : R := match x with XR r => r | _ => 0%R end.

(* p is a probability distribution over the alternatives ks that vanishes on the unavailable ones *)
Definition is_distribution (ks : list Z) (aval : Z -> R) (p : Z -> R) : Prop :=
  (forall i, In i ks -> (0 <= p i <= 1)%R) /\
  (forall i, In i ks -> aval i = 0%R -> p i = 0%R) /\
  Rsum p ks = 1%R.

Definition pe_dict (d : dict expr) : dict pv := dmap PE d.

(* hypotheses on the availability argument: every availability expression evaluates to the real
   [aval k]; av = None means "always available" *)
Definition av_ok (Phi : R -> R) (en : env) (av : avail) (aval : Z -> R) : Prop :=
  match av with
  | None => forall k, aval k = 1%R
  | Some a => forall k p, In (k, p) a -> evalX Phi (to_e p) en = XR (aval k)
  end.
Definition av_covers (av : avail) (ks : list Z) : Prop :=
  match av with None => True | Some a => incl ks (keys a) end.

(* exactness of the Python-side double arithmetic on a numeric nest parameter; trivially true for
   a parameter given as an Expression *)
Definition nl_exact (mu_m : pv) : Prop :=
  match mu_m with
  | PE _ => True
  | PN d => (D2R (fl_sub d d_one) = D2R d - 1 /\
             D2R (fl_div d_one d) = 1 / D2R d /\
             D2R (fl_sub (fl_div d_one d) d_one) = 1 / D2R d - 1 /\
             D2R (fl_div (fl_sub d_one d) d) = (1 - D2R d) / D2R d)%R
  end.
(* ... and on the pair (mu, mu_m) for the builders with an explicit scale *)
Definition mu_exact (mu mu_m : pv) : Prop :=
  match mu, mu_m with
  | PN a, PN d => (D2R (fl_sub (fl_div a d) d_one) = D2R a / D2R d - 1 /\
                   D2R (fl_div d a) = D2R d / D2R a)%R
  | _, _ => True
  end.
Definition mu1_exact (mu : pv) : Prop :=
  match mu with PN a => D2R (fl_sub a d_one) = (D2R a - 1)%R | PE _ => True end.
