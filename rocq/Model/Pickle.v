(* C14 -- model of saving / re-loading estimation results (results.py).  Definitions only.

   A Python object is its attribute dictionary.  bioResults.__init__ stores the raw record
   (given, or unpickled) in self.data and ALWAYS calls _calculate_stats(), which reads some
   attributes of self.data (the inputs) and assigns others (the statistics).  The generated file
   Gen/Results.v lists both sets as found in the source. *)
From Coq Require Import List String Bool.
From BV Require Import Model.PyBase.

Section Obj.
  Variable V : Type.                       (* Python values *)

  Definition obj := string -> option V.    (* __dict__: None = attribute absent *)

  Definition set_attr (o : obj) (a : string) (v : V) : obj :=
    fun x => if String.eqb x a then Some v else o x.

  Definition str_mem (a : string) (l : list string) : bool := existsb (String.eqb a) l.

  (* what _calculate_stats can see of the record: the values of its input attributes *)
  Definition snapshot (ins : list string) (o : obj) : list (option V) := map o ins.

  Variables ins outs : list string.
  (* the numerical code: the value assigned to each statistic, as a function of the inputs;
     None = not assigned on this path (e.g. no Hessian) *)
  Variable derive : list (option V) -> string -> option V.

  (* _clear_stats(), called first: some of the statistics left by a previous processing are reset
     (set to Python None, or deleted) before being recomputed; [cleared_value a] is what such an
     attribute holds when it is not recomputed *)
  Variable cleared : list string.
  Variable cleared_value : string -> option V.

  Definition calculate_stats (o : obj) : obj :=
    fun a => if str_mem a outs
             then match derive (snapshot ins o) a with
                  | Some v => Some v
                  | None => if str_mem a cleared then cleared_value a else o a
                  end
             else o a.

  Variable Bytes : Type.
  Variables (dumps : obj -> Bytes) (loads : Bytes -> obj).

  (* bioResults(the_raw_results=raw) *)
  Definition results_of_raw (raw : obj) : obj := calculate_stats raw.
  (* write_pickle(): self.data.pickleFileName = <fresh name>; pickle.dump(self.data, f) *)
  Definition write_pickle (name_attr : string) (data : obj) (file_name : V) : obj * Bytes :=
    let data' := set_attr data name_attr file_name in (data', dumps data').
  (* bioResults(pickle_file=...) *)
  Definition results_of_pickle (b : Bytes) : obj := calculate_stats (loads b).
End Obj.

Arguments set_attr {V}.
Arguments calculate_stats {V}.
Arguments results_of_raw {V}.
Arguments write_pickle {V}.
Arguments results_of_pickle {V}.
Arguments snapshot {V}.
