(* C14 -- file-system model shared by the naming theorems.
   Definitions only (proofs in Proofs/FsOpsP.v, Proofs/FilesP.v, Proofs/BackupP.v).

   A directory is an association list  name -> content.  [fs_write] is open(name,'w'): it
   REPLACES the content of an existing name, so "nothing is overwritten" is never true by
   construction of the model.  *)
From Coq Require Import ZArith List String Ascii Bool.
From BV Require Import Model.PyBase.
Open Scope Z_scope.

Definition dir := list (string * string).
Definition names (d : dir) : list string := map fst d.

Fixpoint fs_write (d : dir) (n c : string) : dir :=
  match d with
  | [] => [(n, c)]
  | (n', c') :: r => if String.eqb n n' then (n', c) :: r else (n', c') :: fs_write r n c
  end.

Fixpoint lookup (d : dir) (n : string) : option string :=
  match d with
  | [] => None
  | (n', c') :: r => if String.eqb n n' then Some c' else lookup r n
  end.

(* os.remove / the source side of os.rename *)
Fixpoint fs_remove (d : dir) (n : string) : dir :=
  match d with
  | [] => []
  | (n', c') :: r => if String.eqb n n' then fs_remove r n else (n', c') :: fs_remove r n
  end.

(* os.path.exists(p): p names something in the directory *)
Definition path_exists (fs : list string) (p : string) : bool := existsb (String.eqb p) fs.

(* the two side effects create_backup can request *)
Inductive fs_effect :=
| FsRename (src dst : string)   (* os.rename(src, dst)   *)
| FsCopy (src dst : string).    (* shutil.copy(src, dst) *)

Definition apply_effect (d : dir) (e : fs_effect) : dir :=
  match e with
  | FsRename a b => match lookup d a with
                    | Some c => fs_write (fs_remove d a) b c   (* replaces b if it exists, as rename(2) does *)
                    | None => d
                    end
  | FsCopy a b => match lookup d a with
                  | Some c => fs_write d b c                   (* overwrites b if it exists, as shutil.copy does *)
                  | None => d
                  end
  end.

(* ------------------------------------------------------------------------------------ *)
(* os.path.splitext (posixpath):
     sepIndex = p.rfind('/'); dotIndex = p.rfind('.')
     if dotIndex > sepIndex:
         # skip all leading dots
         filenameIndex = sepIndex + 1
         while filenameIndex < dotIndex:
             if p[filenameIndex] != '.': return p[:dotIndex], p[dotIndex:]
             filenameIndex += 1
     return p, ''                                                                        *)
Fixpoint str_take (n : nat) (s : string) : string :=
  match n, s with
  | O, _ => EmptyString
  | S k, EmptyString => EmptyString
  | S k, String a r => String a (str_take k r)
  end.

Fixpoint str_drop (n : nat) (s : string) : string :=
  match n, s with
  | O, _ => s
  | S k, EmptyString => EmptyString
  | S k, String a r => str_drop k r
  end.

Fixpoint rfind_from (c : ascii) (s : string) (i acc : Z) : Z :=
  match s with
  | EmptyString => acc
  | String a r => rfind_from c r (i + 1) (if Ascii.eqb a c then i else acc)
  end.
Definition rfind (c : ascii) (s : string) : Z := rfind_from c s 0 (-1).

Fixpoint all_dots (s : string) : bool :=
  match s with
  | EmptyString => true
  | String a r => Ascii.eqb a "."%char && all_dots r
  end.

Definition splitext (p : string) : string * string :=
  let sep := rfind "/"%char p in
  let dot := rfind "."%char p in
  if dot >? sep then
    let mid := str_take (Z.to_nat (dot - sep - 1)) (str_drop (Z.to_nat (sep + 1)) p) in
    if all_dots mid then (p, EmptyString)
    else (str_take (Z.to_nat dot) p, str_drop (Z.to_nat dot) p)
  else (p, EmptyString).
