(* C14 -- model of the parameter file round trip (parameters.py).  Definitions only.

   A Python parameter value is bool | int | float | str (default_parameters.ParameterValue);
   a float is represented by its IEEE-754 bit pattern (an integer), so equality is bit-for-bit.
   A TOML value is what tomlkit hands back: Integer | Float | String | Boolean.
   The generated file Gen/Params.v (tie A) provides TRUE_STR, FALSE_STR, parse_boolean,
   encode_value (the boolean coding of generate_document) and decode_value (the value branch of
   import_document); the generic dictionary / document machinery below is parameterised by them. *)
From Coq Require Import ZArith List String Ascii Bool.
From BV Require Import Model.PyBase.
Open Scope Z_scope.

Inductive ptype := TyBool | TyInt | TyFloat | TyStr.

Inductive pvalue :=
| PBool (b : bool)
| PInt (z : Z)
| PFloat (bits : Z)
| PStr (s : string).

Inductive tvalue :=
| TInt (z : Z)
| TFloat (bits : Z)
| TStr (s : string)
| TBool (b : bool).      (* a native TOML boolean: never produced by generate_document *)

Definition ptype_is_bool (t : ptype) : bool := match t with TyBool => true | _ => false end.
Definition pvalue_is_bool (v : pvalue) : bool := match v with PBool _ => true | _ => false end.

(* `x in ('a', 'b', ...)` for a str x *)
Definition str_in (x : string) (l : list string) : bool := existsb (String.eqb x) l.

(* tables[section].add(name, value): a Python bool/int/float/str handed to tomlkit *)
Definition tv_of_pvalue (v : pvalue) : tvalue :=
  match v with PBool b => TBool b | PInt z => TInt z | PFloat f => TFloat f | PStr s => TStr s end.
(* value = entry_value: the tomlkit item used as a Python value *)
Definition pv_of_tvalue (t : tvalue) : pvalue :=
  match t with TBool b => PBool b | TInt z => PInt z | TFloat f => PFloat f | TStr s => PStr s end.

(* parse_boolean applied to a tomlkit item: `value in TRUE_STR` is False for anything that is not
   one of the strings, so every non-string is "not a valid boolean" *)
Definition on_str {A} (f : string -> option A) (t : tvalue) : option A :=
  match t with TStr s => f s | _ => None end.

(* ------------------------------------------------------------------ the parameter dict *)
Record param := mkParam {
  p_name : string;
  p_section : string;
  p_type : ptype;
  p_value : pvalue;
  p_check : pvalue -> bool        (* conjunction of the `check` functions of the tuple *)
}.

Definition key := (string * string)%type.          (* NameSectionTuple *)
Definition pkey (p : param) : key := (p_name p, p_section p).
Definition key_eqb (a b : key) : bool := String.eqb (fst a) (fst b) && String.eqb (snd a) (snd b).

Definition pdict := list param.      (* all_parameters_dict: insertion ordered, keyed by pkey *)

Fixpoint dict_get (d : pdict) (k : key) : option param :=
  match d with
  | [] => None
  | p :: r => if key_eqb k (pkey p) then Some p else dict_get r k
  end.

(* self.all_parameters_dict[key] = parameter_tuple *)
Fixpoint dict_set (d : pdict) (q : param) : pdict :=
  match d with
  | [] => [q]
  | p :: r => if key_eqb (pkey q) (pkey p) then q :: r else p :: dict_set r q
  end.

(* add_parameter: check_parameter_value first (BiogemeError = None), then store *)
Definition add_parameter (d : pdict) (q : param) : option pdict :=
  if p_check q (p_value q) then Some (dict_set d q) else None.

(* ------------------------------------------------------------------ the TOML document *)
(* The document as the sequence of (section, entry, value) visited by
   `for section_name, entries in document.items(): for entry_name, entry_value in entries.items()` *)
Definition tdoc := list (key * tvalue).

Section WithCoding.
  Variable encode_value : pvalue -> tvalue.
  Variable decode_value : ptype -> pvalue -> option tvalue -> option pvalue.

  (* generate_document: one entry per parameter of the dict *)
  Definition generate_document (d : pdict) : tdoc :=
    map (fun p => (pkey p, encode_value (p_value p))) d.

  (* import_document: entries unknown to Biogeme are ignored (a warning); an entry whose value
     cannot be decoded or fails its checks aborts with BiogemeError (None) *)
  Fixpoint import_document (doc : tdoc) (d : pdict) : option pdict :=
    match doc with
    | [] => Some d
    | (k, tv) :: rest =>
        match dict_get d k with
        | None => import_document rest d
        | Some default =>
            match decode_value (p_type default) (p_value default) (Some tv) with
            | None => None
            | Some v =>
                match add_parameter d (mkParam (fst k) (snd k) (p_type default) v (p_check default)) with
                | None => None
                | Some d' => import_document rest d'
                end
            end
        end
    end.
End WithCoding.

(* well-typed parameter: the value is a Python bool exactly when the declared type is bool *)
Definition well_typed (p : param) : Prop := pvalue_is_bool (p_value p) = ptype_is_bool (p_type p).
Definition admissible (p : param) : Prop := well_typed p /\ p_check p (p_value p) = true.

(* ------------------------------------------------------------------ histories on ONE object *)
(* A Parameters object: the dictionary and the TOML document it holds (None until a file was
   read or dumped).  The generated Gen/Params.v provides [dump_file_document]: what dump_file
   stores in self.document (and writes) given the current self.document and the freshly
   generated document. *)
Record pobj := mkObj { o_dict : pdict; o_doc : option tdoc }.

Inductive pop :=
| OpSet (k : key) (v : pvalue)          (* set_value(name, value, section) / BIOGEME property setter *)
| OpDump                                (* dump_file(f) *)
| OpRead (file : option tdoc).          (* read_file(f): Some = content parsed by tomlkit, None = no such file *)

Section WithObject.
  Variable encode_value : pvalue -> tvalue.
  Variable decode_value : ptype -> pvalue -> option tvalue -> option pvalue.
  Variable dump_document : option tdoc -> tdoc -> option tdoc.

  (* set_value: the tuple found under the key, with the new value, goes through add_parameter *)
  Definition obj_set (o : pobj) (k : key) (v : pvalue) : option pobj :=
    match dict_get (o_dict o) k with
    | None => None
    | Some p => match add_parameter (o_dict o) (mkParam (p_name p) (p_section p) (p_type p) v (p_check p)) with
                | Some d => Some (mkObj d (o_doc o))
                | None => None
                end
    end.

  (* dump_file: returns the new object and the document written to the file *)
  Definition obj_dump (o : pobj) : option (pobj * tdoc) :=
    match dump_document (o_doc o) (generate_document encode_value (o_dict o)) with
    | Some doc => Some (mkObj (o_dict o) (Some doc), doc)
    | None => None
    end.

  (* one operation; the output lists what was written: (document in the file, dictionary of the
     object at that moment) *)
  Definition obj_step (o : pobj) (op : pop) : option (pobj * list (tdoc * pdict)) :=
    match op with
    | OpSet k v => option_map (fun o' => (o', [])) (obj_set o k v)
    | OpDump => option_map (fun r => (fst r, [(snd r, o_dict o)])) (obj_dump o)
    | OpRead (Some doc) =>
        option_map (fun d => (mkObj d (Some doc), [])) (import_document decode_value doc (o_dict o))
    | OpRead None => option_map (fun r => (fst r, [(snd r, o_dict o)])) (obj_dump o)   (* the default file is created *)
    end.

  Fixpoint obj_run (ops : list pop) (o : pobj) : option (pobj * list (tdoc * pdict)) :=
    match ops with
    | [] => Some (o, [])
    | op :: rest =>
        match obj_step o op with
        | None => None
        | Some (o1, out1) =>
            match obj_run rest o1 with
            | None => None
            | Some (o2, out2) => Some (o2, out1 ++ out2)
            end
        end
    end.
End WithObject.
