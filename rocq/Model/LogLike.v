(* C04 -- model of the sample log likelihood: the engine's assignment of rows to threads, the
   per-thread accumulation and the join, over Coq reals.  Definitions only.

   Transcribed from the calculation engine (external to /repo):
     /venv/lib/python3.12/site-packages/cythonbiogeme/cpp/biogeme.cc
       prepareData               (lines 754-826)  block size, number of blocks, start/end of each block
       computeFunctionForThread  (lines 312-467)  result += w * f ; grad[i] += w * g[i] ;
                                                  hessian[i][j] += w * h[i][j] ; bhhh[i][j] += w * g[i] * g[j]
       applyTheFormula           (lines 71-195)   threads joined in the order of their index,
                                                  result += theInput[thread]->result (and g, h, bhhh alike)
     evaluateExpressions.cc prepareData (same partition for the one-expression evaluator, always 4 threads;
       when it aggregates, the join adds the rows' values one by one in thread order, i.e. it
       accumulates sequentially over concat (blocks n 4) -- observed by stream partition_observed)
   and from /repo/src/biogeme/biogeme.py (number_of_threads getter, division by the sample size:
   these two are *generated* in Gen/Threads.v, tie A). *)
From Coq Require Import ZArith List Reals.
Import ListNotations.
Open Scope Z_scope.

(* ------------------------------------------------------------------ rows [s, e) *)
Definition zrange (s e : Z) : list Z :=
  map (fun k => s + Z.of_nat k) (seq 0 (Z.to_nat (e - s))).

(* ------------------------------------------------------------------ the partition
   bioUInt sizeOfEachBlock = ceil(bioReal(n) / bioReal(nbrOfThreads)) ;
   bioUInt numberOfBlocks  = ceil(bioReal(n) / bioReal(sizeOfEachBlock)) ;
   if (numberOfBlocks < nbrOfThreads) nbrOfThreads = numberOfBlocks ;
   startData = thread * sizeOfEachBlock ;
   endData   = (thread == nbrOfThreads-1) ? n : (thread+1) * sizeOfEachBlock ;
   (the ceiling of the double quotient equals the exact ceiling for n < 2^53: assumption) *)
Definition cdiv (a b : Z) : Z := (a + b - 1) / b.

Definition block_size (n T : Z) : Z := cdiv n T.
Definition n_blocks (n T : Z) : Z := cdiv n (block_size n T).
Definition n_threads (n T : Z) : Z := if n_blocks n T <? T then n_blocks n T else T.

Definition block_bounds (n T : Z) : list (Z * Z) :=
  let size := block_size n T in
  let T' := n_threads n T in
  map (fun t => (t * size, if t =? T' - 1 then n else (t + 1) * size)) (zrange 0 T').

Definition blocks (n T : Z) : list (list Z) :=
  map (fun se => zrange (fst se) (snd se)) (block_bounds n T).

(* the same on nat, for statements with [seq] *)
Definition blocks_nat (n T : nat) : list (list nat) :=
  map (map Z.to_nat) (blocks (Z.of_nat n) (Z.of_nat T)).

(* flat printer used by the correspondence stream: [s0; e0; s1; e1; ...] *)
Definition bounds_flat (n T : Z) : list Z :=
  flat_map (fun se => [fst se; snd se]) (block_bounds n T).

(* ------------------------------------------------------------------ sums over reals *)
Open Scope R_scope.

Definition rsum (l : list R) : R := fold_right Rplus 0 l.

(* the specification: sum over the rows of weight times per-observation value *)
Definition loglike (rows : list Z) (w f : Z -> R) : R :=
  rsum (map (fun r => w r * f r) rows).

(* no weight formula: weight one *)
Definition one : Z -> R := fun _ => 1.

(* what one thread does on its block: result = 0 ; for row: result += w * f *)
Definition thread_sum (rows : list Z) (w f : Z -> R) : R :=
  fold_left (fun acc r => acc + w r * f r) rows 0.

(* the join: result = 0 ; for thread: result += input[thread].result *)
Definition join (partials : list R) : R := fold_left Rplus partials 0.

Definition engine_total (n T : Z) (w f : Z -> R) : R :=
  join (map (fun b => thread_sum b w f) (blocks n T)).

(* the same for an arbitrary list of blocks of rows (used for splits of the table into parts) *)
Definition total_of_parts (parts : list (list Z)) (w f : Z -> R) : R :=
  join (map (fun b => thread_sum b w f) parts).

(* scaled variant (specification; the generated definition is Gen.Threads.scaled_likelihood) *)
Definition scaled (total : R) (N : Z) : R := total / IZR N.

(* helpers named by the generated definitions of Gen/Threads.v *)
Definition Reqb (a b : R) : bool := if Req_EM_T a b then true else false.
Definition vdiv (v : list R) (s : R) : list R := map (fun x => x / s) v.

(* ------------------------------------------------------------------ vectors and matrices
   gradient: a list of d reals; Hessian and BHHH: a list of d*d reals (row-major) *)
Definition vzero (d : nat) : list R := repeat 0 d.
Fixpoint vadd (a b : list R) : list R :=
  match a, b with
  | x :: a', y :: b' => (x + y) :: vadd a' b'
  | _, _ => []
  end.
Definition vscale (c : R) (v : list R) : list R := map (Rmult c) v.

(* one thread: acc = 0 ; for row: acc[i] += w * v[i] *)
Definition thread_vsum (d : nat) (rows : list Z) (w : Z -> R) (v : Z -> list R) : list R :=
  fold_left (fun acc r => vadd acc (vscale (w r) (v r))) rows (vzero d).

Definition vjoin (d : nat) (partials : list (list R)) : list R :=
  fold_left vadd partials (vzero d).

Definition engine_vtotal (d : nat) (n T : Z) (w : Z -> R) (v : Z -> list R) : list R :=
  vjoin d (map (fun b => thread_vsum d b w v) (blocks n T)).

Definition vtotal_of_parts (d : nat) (parts : list (list Z)) (w : Z -> R) (v : Z -> list R) : list R :=
  vjoin d (map (fun b => thread_vsum d b w v) parts).

(* BHHH term of one row: the outer product of the row's gradient, row-major
   (the engine adds w * g[i] * g[j]) *)
Definition outer (g : list R) : list R := flat_map (fun gi => map (Rmult gi) g) g.

(* component k of a per-row vector, as a per-row scalar *)
Definition comp (k : nat) (v : Z -> list R) : Z -> R := fun r => nth k (v r) 0.

(* ------------------------------------------------------------------ the library's own ways of forming parts
   (database.py): Database.extract_rows(a_range) = data.iloc[list(a_range)], Database.split(slices)
   = numpy.array_split of the shuffled rows + estimation/validation pairs, Database.mdcev_row_split
   = one data set per row.  Rows are identified with their positions 0..n-1. *)
Open Scope Z_scope.

(* Python range(start, stop, step), step <> 0 *)
Definition py_range (start stop step : Z) : list Z :=
  if 0 <? step then map (fun j => start + j * step) (zrange 0 (cdiv (stop - start) step))
  else if step <? 0 then map (fun j => start + j * step) (zrange 0 (cdiv (start - stop) (- step)))
  else [].

(* data.iloc[list(positions)] on the table whose row i is [nth i data] *)
Definition extract_rows {A} (d : A) (data : list A) (positions : list Z) : list A :=
  map (fun i => nth (Z.to_nat i) data d) positions.

(* the interleaved split of n rows into m parts: [range(k, n, m) for k in range(m)] *)
Definition interleaved (n m : Z) : list (list Z) := map (fun k => py_range k n m) (zrange 0 m).

(* numpy.array_split(l, k): the first (n mod k) slices have n/k + 1 elements, the others n/k *)
Definition array_split_sizes (n k : nat) : list nat :=
  map (fun i => if (i <? n mod k)%nat then S (n / k) else (n / k)%nat) (seq 0 k).

Fixpoint take_sizes {A} (sizes : list nat) (l : list A) : list (list A) :=
  match sizes with
  | [] => []
  | s :: ss => firstn s l :: take_sizes ss (skipn s l)
  end.

Definition array_split {A} (l : list A) (k : nat) : list (list A) :=
  take_sizes (array_split_sizes (length l) k) l.

(* Database.split: slice i is the validation set, the concatenation of the others the estimation set *)
Definition estimation_of {A} (slices : list (list A)) (i : nat) : list A :=
  concat (firstn i slices ++ skipn (S i) slices).
Definition validation_of {A} (slices : list (list A)) (i : nat) : list A := nth i slices [].
Definition split_pairs {A} (shuffled : list A) (k : nat) : list (list A * list A) :=
  let slices := array_split shuffled k in
  map (fun i => (estimation_of slices i, validation_of slices i)) (seq 0 k).

(* mdcev_row_split: one part per row *)
Definition row_split {A} (l : list A) : list (list A) := map (fun x => [x]) l.
