(* C07 -- model of BIOGEME.estimate / optimize (src/biogeme/biogeme.py), of the result record
   (results.RawResults) and of the write-back of the estimates, as a function of an OPTIMISER ORACLE.
   Definitions only; proofs are in Proofs/EstimP.v.

   What is generated from the source on every run (tie A, Gen/NegLike.v) is NOT defined here: the objective
   NegativeLikelihood._f/_f_g/_f_g_h, the table optimization.algorithms, the per-wrapper facts (external
   routine, whether `bounds` is forwarded), the `automatic -> simple_bounds` renaming of optimize and the option
   table of _set_algorithm_parameters.  This file is parametrised by them (Section variables); EstimP.v
   instantiates the parameters with the generated definitions.

   Floats are read as reals; a vector is a list of reals, a matrix a list of rows. *)
From Coq Require Export Reals.
From BV Require Export Model.PyBase.
Open Scope R_scope.

Definition vec := list R.
Definition mat := list (list R).

Definition vopp (v : vec) : vec := map Ropp v.          (* -v  on a numpy vector *)
Definition mopp (m : mat) : mat := map vopp m.          (* -m  on a numpy matrix *)

(* biogeme.function_output.(Biogeme)FunctionOutput *)
Record function_output := mkFO {
  fo_function : R; fo_gradient : vec; fo_hessian : mat; fo_bhhh : mat }.
(* biogeme_optimization.function.FunctionData (hessian=None when not computed) *)
Record function_data := mkFD {
  fd_function : R; fd_gradient : vec; fd_hessian : option mat }.

(* The interface biogeme_optimization.function.FunctionToMinimize offers to the algorithms:
   set_variables(x) followed by f() / f_g() / f_g_h().  None = the method raised. *)
Record objective := mkObj {
  obj_f : vec -> option R;
  obj_f_g : vec -> option function_data;
  obj_f_g_h : vec -> option function_data }.

(* ------------------------------------------------------------------ bounds *)
Definition bound := (option R * option R)%type.
Definition ge_lb (l : option R) (x : R) : Prop := match l with Some a => a <= x | None => True end.
Definition le_ub (u : option R) (x : R) : Prop := match u with Some b => x <= b | None => True end.
Definition in_bound (b : bound) (x : R) : Prop := ge_lb (fst b) x /\ le_ub (snd b) x.
Definition in_box (bs : list bound) (x : vec) : Prop := Forall2 in_bound bs x.

(* first-order optimality of x for  max L  over the box, coordinate by coordinate: the partial derivative
   is zero, or the coordinate sits on its lower bound and L decreases inwards (g <= 0), or on its upper
   bound and L increases outwards (g >= 0): "the gradient vanishes in every direction not blocked by an
   active bound". *)
Definition kkt1 (b : bound) (x g : R) : Prop :=
  g = 0 \/ (fst b = Some x /\ g <= 0) \/ (snd b = Some x /\ 0 <= g).
Fixpoint kkt (bs : list bound) (x g : vec) : Prop :=
  match bs, x, g with
  | [], [], [] => True
  | b :: bs', xi :: x', gi :: g' => kkt1 b xi gi /\ kkt bs' x' g'
  | _, _, _ => False
  end.

(* the same for  min F  (what the optimisation routines see): signs reversed *)
Definition kkt1_min (b : bound) (x g : R) : Prop :=
  g = 0 \/ (fst b = Some x /\ 0 <= g) \/ (snd b = Some x /\ g <= 0).
Fixpoint kkt_min (bs : list bound) (x g : vec) : Prop :=
  match bs, x, g with
  | [], [], [] => True
  | b :: bs', xi :: x', gi :: g' => kkt1_min b xi gi /\ kkt_min bs' x' g'
  | _, _, _ => False
  end.

(* approximate version: |g| <= eps on coordinates that are not blocked *)
Definition kkt1_eps (eps : R) (b : bound) (x g : R) : Prop :=
  Rabs g <= eps \/ (fst b = Some x /\ g <= 0) \/ (snd b = Some x /\ 0 <= g).
Fixpoint kkt_eps (eps : R) (bs : list bound) (x g : vec) : Prop :=
  match bs, x, g with
  | [], [], [] => True
  | b :: bs', xi :: x', gi :: g' => kkt1_eps eps b xi gi /\ kkt_eps eps bs' x' g'
  | _, _, _ => False
  end.

(* the projected gradient used as stationarity measure (for maximisation): P(x + g) - x *)
Definition clip (b : bound) (y : R) : R :=
  let y1 := match fst b with Some l => Rmax l y | None => y end in
  match snd b with Some u => Rmin u y1 | None => y1 end.
Definition projgrad1 (b : bound) (x g : R) : R := clip b (x + g) - x.

Fixpoint dot (a b : vec) : R :=
  match a, b with
  | x :: a', y :: b' => x * y + dot a' b'
  | _, _ => 0
  end.
Fixpoint vsub (a b : vec) : vec :=
  match a, b with
  | x :: a', y :: b' => (x - y) :: vsub a' b'
  | _, _ => []
  end.
Fixpoint norm1 (a : vec) : R := match a with [] => 0 | x :: a' => Rabs x + norm1 a' end.

(* ------------------------------------------------------------------ Beta leaves of the formulas *)
Record beta := mkBeta {
  b_name : string; b_init : R; b_lb : option R; b_ub : option R; b_fixed : bool }.
Definition formula := list beta.     (* the Beta leaves of one expression tree, in traversal order *)

Fixpoint assoc {A} (k : string) (d : list (string * A)) : option A :=
  match d with
  | [] => None
  | (k', v) :: r => if String.eqb k k' then Some v else assoc k r
  end.

(* expressions.Beta.change_init_values:  value = betas.get(self.name);
   if value is not None and value != self.initValue: self.initValue = value
   ("The fact that the parameters are fixed or free is irrelevant here") *)
Definition change_init_beta (d : list (string * R)) (b : beta) : beta :=
  match assoc (b_name b) d with
  | Some v => if Req_EM_T v (b_init b) then b
              else mkBeta (b_name b) v (b_lb b) (b_ub b) (b_fixed b)
  | None => b
  end.
Definition change_init_formula (d : list (string * R)) (f : formula) : formula :=
  map (change_init_beta d) f.

(* the part of the IdManager estimate() reads: names, start values and bounds of the free parameters *)
Record idm := mkIdm { free_names : list string; free_values : vec; free_bounds : list bound }.

(* BIOGEME.change_init_values: all formulas, then
   for i, name in enumerate(free names): value = betas.get(name); if value is not None: free_values[i] = value *)
Fixpoint overlay (names : list string) (vals : vec) (d : list (string * R)) : vec :=
  match names, vals with
  | n :: ns, v :: vs => (match assoc n d with Some w => w | None => v end) :: overlay ns vs d
  | _, _ => vals
  end.

Record state := mkState { st_formulas : list formula; st_idm : idm }.

Definition biogeme_change_init_values (d : list (string * R)) (s : state) : state :=
  mkState (map (change_init_formula d) (st_formulas s))
          (mkIdm (free_names (st_idm s)) (overlay (free_names (st_idm s)) (free_values (st_idm s)) d)
                 (free_bounds (st_idm s))).

(* estimate(): `if self.save_iterations: self._load_saved_iteration()`; saved = the parsed file, None = OSError *)
Definition load_saved (save_iterations : bool) (saved : option (list (string * R))) (s : state) : state :=
  if save_iterations then match saved with Some d => biogeme_change_init_values d s | None => s end else s.

(* what an optimisation routine returns (OptimizationResults; the messages are not modelled) *)
Record opt_result := mkOpt { solution : vec; convergence : bool }.

(* results.RawResults, the fields this property talks about *)
Record raw_results := mkRaw {
  r_betaNames : list string; r_betaValues : vec; r_bounds : list bound;
  r_initLogLike : R; r_logLike : R; r_g : vec; r_H : mat; r_bhhh : mat; r_convergence : bool }.

(* wrapper facts extracted from optimization.py: the routine finally called (an external function, or another
   wrapper of the module), and whether fct / init_betas / bounds are handed on *)
Record wrapper_info := mkW {
  w_callee : string; w_external : bool; w_fwd_fct : bool; w_fwd_start : bool; w_fwd_bounds : bool }.

Section Estimate.
  (* the likelihood of the model (C01/C04) and its derivatives (C02) *)
  Variable L : vec -> R.
  Variable gradL : vec -> vec.
  Variables hessL bhhhL : vec -> mat.
  Variables junk_h junk_b : vec -> mat.    (* content of the np.empty arrays when a matrix is not requested *)
  Variable sample_size : R.

  (* BIOGEME.calculate_likelihood(x, scaled, batch) -- batch must be None (otherwise BiogemeError) *)
  Definition calculate_likelihood (x : vec) (scaled : bool) (batch : option R) : R :=
    if scaled then L x / sample_size else L x.

  (* BIOGEME.calculate_likelihood_and_derivatives(x, scaled, hessian, bhhh, batch) *)
  Definition calculate_likelihood_and_derivatives (x : vec) (scaled hessian bhhh : bool) (batch : option R)
    : function_output :=
    let h := if hessian then hessL x else junk_h x in
    let bh := if bhhh then bhhhL x else junk_b x in
    if scaled then
      mkFO (L x / sample_size) (map (fun v => v / sample_size) (gradL x))
           (map (map (fun v => v / sample_size)) h) (map (map (fun v => v / sample_size)) bh)
    else mkFO (L x) (gradL x) h bh.

  (* --- parameters instantiated from Gen/NegLike.v (tie A) *)
  Variable negative_likelihood :
    (vec -> bool -> option R -> R) -> (vec -> bool -> bool -> bool -> option R -> function_output) -> objective.
  Variable algorithms : list (string * string).             (* optimization.algorithms: name -> wrapper *)
  Variable wrappers : list (string * wrapper_info).         (* facts about each wrapper *)
  Variable algorithm_name : string -> string.               (* optimize: 'automatic' -> 'simple_bounds' *)

  (* --- the external optimisation routines: an ORACLE.  It receives the name of the routine, the options
     (opaque), the objective, the starting point and the bounds if the wrapper hands them on. *)
  Variable P : Type.
  Variable ext : string -> P -> objective -> vec -> option (list bound) -> opt_result.

  (* follow a chain of wrappers calling wrappers (bio_newton -> simple_bounds_newton_algorithm_for_biogeme)
     down to the external routine; the bounds arrive iff every link hands them on *)
  Fixpoint resolve (fuel : nat) (w : string) : option (string * bool) :=
    match fuel with
    | O => None
    | S f =>
        match assoc w wrappers with
        | None => None
        | Some i =>
            if negb (w_fwd_fct i && w_fwd_start i) then None
            else if w_external i then Some (w_callee i, w_fwd_bounds i)
            else match resolve f (w_callee i) with
                 | Some (r, fb) => Some (r, w_fwd_bounds i && fb)
                 | None => None
                 end
        end
    end.

  Definition routine_of (optimization_algorithm : string) : option (string * bool) :=
    match assoc (algorithm_name optimization_algorithm) algorithms with
    | None => None                                (* BiogemeError: algorithm not found *)
    | Some w => resolve (S (List.length wrappers)) w
    end.
  Definition forwards_bounds (optimization_algorithm : string) : bool :=
    match routine_of optimization_algorithm with Some (_, fb) => fb | None => false end.

  (* BIOGEME.optimize(starting_values) *)
  Definition optimize (optimization_algorithm : string) (params : P) (i : idm) (x0 : vec) : option opt_result :=
    let the_function := negative_likelihood calculate_likelihood calculate_likelihood_and_derivatives in
    match routine_of optimization_algorithm with
    | None => None
    | Some (routine, fb) =>
        Some (ext routine params the_function x0 (if fb then Some (free_bounds i) else None))
    end.

  (* BIOGEME.estimate(): (recycle=False, run_bootstrap=False; the finite-difference fallback for a non-finite
     Hessian cannot occur over the reals)
       if save_iterations: _load_saved_iteration()        -- saved = parsed file, None = OSError
       calculate_init_likelihood()
       xstar, _, convergence = optimize(free_betas_values)
       f_g_h_b = calculate_likelihood_and_derivatives(xstar, scaled=False, hessian=True, bhhh=True)
       RawResults(self, xstar, f_g_h_b); estimated_betas = r.get_beta_values()
       self.change_init_values(estimated_betas)
     The write-back goes through BIOGEME.change_init_values: to the formulas AND to id_manager.free_betas_values,
     so that a second estimate() on the same object starts at the estimates. *)
  Definition estimate (optimization_algorithm : string) (params : P) (save_iterations : bool)
      (saved : option (list (string * R))) (s : state) : option (raw_results * state) :=
    let s1 := load_saved save_iterations saved s in
    let i := st_idm s1 in
    let init_loglike := calculate_likelihood (free_values i) false None in
    match optimize optimization_algorithm params i (free_values i) with
    | None => None
    | Some out =>
        let xstar := solution out in
        let fghb := calculate_likelihood_and_derivatives xstar false true true None in
        let raw := mkRaw (free_names i) xstar (free_bounds i) init_loglike
                         (fo_function fghb) (fo_gradient fghb) (fo_hessian fghb) (fo_bhhh fghb)
                         (convergence out) in
        let estimated_betas := combine (r_betaNames raw) (r_betaValues raw) in
        Some (raw, biogeme_change_init_values estimated_betas (mkState (st_formulas s1) i))
    end.
  (* BIOGEME.estimate(run_bootstrap=True): after the final evaluation, `bootstrap_samples` re-estimations on resampled data
     (one objective per sample), each started at xstar through the same optimize(); their solutions are the rows of
     bootstrap_results.  optimize() is an ordinary method: whatever attribute of the object it assigns (list
     [optimize_writes], extracted from the source) is overwritten by every re-estimation -- in particular a convergence
     status recorded there would be the one of the LAST re-estimation when RawResults reads it. *)
  Definition set_convergence (r : raw_results) (c : bool) : raw_results :=
    mkRaw (r_betaNames r) (r_betaValues r) (r_bounds r) (r_initLogLike r) (r_logLike r) (r_g r) (r_H r) (r_bhhh r) c.
  Definition optimize_effect (optimize_writes : list string) (status : bool) (out : opt_result) : bool :=
    if existsb (String.eqb "self.convergence") optimize_writes then convergence out else status.
  Definition estimate_bootstrap (optimize_writes : list string) (optimization_algorithm : string) (params : P)
      (save_iterations : bool) (saved : option (list (string * R))) (samples : list objective) (s : state)
      : option (raw_results * list vec * state) :=
    match estimate optimization_algorithm params save_iterations saved s with
    | None => None
    | Some (r, s') =>
        match routine_of optimization_algorithm with
        | None => None
        | Some (routine, fb) =>
            let outs := map (fun o => ext routine params o (r_betaValues r)
                                          (if fb then Some (r_bounds r) else None)) samples in
            Some (set_convergence r (fold_left (optimize_effect optimize_writes) outs (r_convergence r)),
                  map solution outs, s')
        end
    end.
End Estimate.

(* ------------------------------------------------------------------ the arrays of second derivatives
   calculate_likelihood_and_derivatives hands arrays to the engine and returns them inside its result; RawResults keeps the
   arrays it is given (no copy).  A store of matrices: an evaluation writes its matrix either into a freshly allocated array
   ([fresh] = true: `h = np.empty([n, n])` in the body, extracted from the source) or into one shared array. *)
Definition store := list mat.
Definition eval_into (fresh : bool) (st : store) (m : mat) : store * nat :=
  if fresh then ((st ++ [m])%list, List.length st)
  else match st with [] => ([m], O) | _ :: r => (m :: r, O) end.
Definition evals (fresh : bool) (st : store) (ms : list mat) : store :=
  fold_left (fun st m => fst (eval_into fresh st m)) ms st.
Definition read (st : store) (a : nat) : mat := nth a st [].

(* ------------------------------------------------------------------ the data held by the calculation engine during a bootstrap run
   Each re-estimation first hands a resample to the engine; it may end normally or with a fault (an exception leaving
   estimate()).  [restore_in_finally]: the estimation data are handed back in the `finally` clause of the loop (extracted
   from the source) -- otherwise only when the loop completes.  Returns the data the engine holds when estimate() is left,
   and whether the loop completed. *)
Inductive outcome := Done | Fault.
Fixpoint bootstrap_engine {D : Type} (restore_in_finally : bool) (estimation_data : D) (resamples : list (D * outcome)) : D * bool :=
  match resamples with
  | [] => (estimation_data, true)
  | (d, Done) :: r => bootstrap_engine restore_in_finally estimation_data r
  | (d, Fault) :: _ => (if restore_in_finally then estimation_data else d, false)
  end.
