(* Model of the draws used by Monte-Carlo integration (property C10).

   src/biogeme/database.py
     Database.set_random_number_generators(rng)   -> [set_rng]
     Database.generate_draws(draw_types, names, R) -> [run_generators], [stack], [moveaxis_0_last],
                                                      [generate_draws]
   src/biogeme/expressions/idmanager.py
     IdManager.draw_types()                        -> [draws_decls], [draw_types]
     IdManager.prepare (_check_types_of_draws, last statement) -> [types_consistentb], [prepare_draws]
   cythonbiogeme/cpp/bioExprDraws.cc
     getLiteralValue: draws[individual][draw][theDrawId]   -> [engine_read], [engine_draws]
   cythonbiogeme/cpp/bioExprMontecarlo.cc           the loop is Model/EvalX.v [xmean]

   Arrays are lists: a 2-dimensional numpy array is a list of rows, a 3-dimensional one a list of
   matrices.  A generator is ANY function of (state, sample_size, number_of_draws): the state stands
   for numpy's global random state (native generators read and advance it, the deterministic
   generators of the streams ignore it), so every statement holds for every outcome of the random
   number generator.  Not representable here: arrays of rank other than 2 (the same shape test
   refuses them; exercised by the stream `shape` only) and the degenerate table of a formula with a
   MonteCarlo but no draw variable.
   Definitions only; proofs in Proofs/DrawsP.v. *)
From BV Require Export Model.IdMgr.
Open Scope nat_scope.

(* dict.get *)
Fixpoint assoc {B} (k : string) (l : list (string * B)) : option B :=
  match l with
  | [] => None
  | (k', v) :: r => if String.eqb k k' then Some v else assoc k r
  end.

Definition olist {X} (o : option X) : list X := match o with Some x => [x] | None => [] end.

(* ------------------------------------------------------------------ which type is declared *)
(* the bioDraws(name, type) objects of the formulas, depth first, children in get_children() order *)
Definition draws_decls (fs : list expr) : list (string * string) :=
  flat_map (fun f => flat_map (fun s => match hd_of s with HDraws n t => [(n, t)] | _ => [] end)
                              (subterms f)) fs.

(* IdManager.draw_types(): {name: expression.drawType for ... in self.draws.expressions.items()} where
   draws.expressions was built with dict(chain(...)) / dict(expr, **d): the LAST object met under a
   name replaces the earlier ones.  As an association list read with [assoc] (first match). *)
Definition draw_types (fs : list expr) : list (string * string) := rev (draws_decls fs).

(* every name is declared with one type only *)
Definition types_consistent (fs : list expr) : Prop :=
  forall n t1 t2, In (n, t1) (draws_decls fs) -> In (n, t2) (draws_decls fs) -> t1 = t2.

(* outcomes of generate_draws *)
Inductive gd_error :=
| KeyErr (name : string)                 (* draw_types[name]: KeyError *)
| UnknownType (name type : string)       (* BiogemeError "Unknown type of draws" *)
| BadShape (name : string).              (* BiogemeError "must generate a numpy array of dimensions" *)

Inductive result (T : Type) := Ok (x : T) | Err (e : gd_error).
Arguments Ok {T}. Arguments Err {T}.

(* IdManager._check_types_of_draws (called by prepare on every formula): every bioDraws object must carry
   the type kept in the dictionary for its name (= the last declaration); otherwise BiogemeError
   "Draw variable ... is declared with two types" *)
Definition types_consistentb (fs : list expr) : bool :=
  forallb (fun d => match assoc (fst d) (draw_types fs) with
                    | Some t => String.eqb t (snd d)
                    | None => false
                    end) (draws_decls fs).

Section Draws.
  Variable A : Type.        (* the numbers *)
  Variable S : Type.        (* state of the random number generator *)

  Definition matrix := list (list A).
  Definition tensor := list matrix.
  Definition generator := S -> nat -> nat -> matrix * S.
  Definition gdict := list (string * generator).

  Definition get2 (m : matrix) (i j : nat) : option A :=
    match nth_error m i with Some row => nth_error row j | None => None end.
  Definition get3 (t : tensor) (i j k : nat) : option A :=
    match nth_error t i with Some m => get2 m j k | None => None end.

  (* array.shape == (N, R) *)
  Definition has_shape (N R : nat) (m : matrix) : bool :=
    Nat.eqb (List.length m) N && forallb (fun row => Nat.eqb (List.length row) R) m.

  (* ---------------------------------------------------------------- set_random_number_generators *)
  (* None = ValueError "... is a reserved keyword for draws"; otherwise the user dictionary is
     REPLACED by rng *)
  Definition set_rng (native : gdict) (rng : gdict) : option gdict :=
    if existsb (fun k => existsb (String.eqb k) (map fst rng)) (map fst native) then None
    else Some rng.

  (* native_random_number_generators.get(t), then userRandomNumberGenerators.get(t) *)
  Definition find_generator (native user : gdict) (t : string) : option generator :=
    match assoc t native with Some g => Some g | None => assoc t user end.

  (* ---------------------------------------------------------------- generate_draws *)
  (* the loop: names in the given order, the generators called one after the other *)
  Fixpoint run_generators (native user : gdict) (types : list (string * string))
           (names : list string) (N R : nat) (s : S) : result (list matrix * S) :=
    match names with
    | [] => Ok ([], s)
    | n :: rest =>
        match assoc n types with
        | None => Err (KeyErr n)
        | Some t =>
            match find_generator native user t with
            | None => Err (UnknownType n t)
            | Some g =>
                let (m, s') := g s N R in
                if has_shape N R m then
                  match run_generators native user types rest N R s' with
                  | Ok (ms, s'') => Ok (m :: ms, s'')
                  | Err e => Err e
                  end
                else Err (BadShape n)
            end
        end
    end.

  (* np.array(list_of_draws): axis 0 = position in the list *)
  Definition stack (l : list matrix) : tensor := l.

  (* np.moveaxis(t, 0, -1) on an array of shape (K, N, R): shape (N, R, K), result[o][r][k] = t[k][o][r] *)
  Definition moveaxis_0_last (N R : nat) (t : tensor) : tensor :=
    map (fun o => map (fun r => flat_map (fun m => olist (get2 m o r)) t) (seq 0 R)) (seq 0 N).

  Definition generate_draws (native user : gdict) (types : list (string * string))
             (names : list string) (N R : nat) (s : S) : result (tensor * S) :=
    match run_generators native user types names N R s with
    | Ok (ms, s') => Ok (moveaxis_0_last N R (stack ms), s')
    | Err e => Err e
    end.

  (* ---------------------------------------------------------------- IdManager.prepare + draws *)
  (* the preparation as it was before the check of the draw types was added (kept for the refuted
     statement T10a_conflicting_types_refuted) *)
  Definition prepare_draws_unchecked (native user : gdict) (fs : list expr) (cols : list string)
             (N R : nat) (s : S) : option (idtable * result (tensor * S)) :=
    match prepare fs cols with
    | None => None
    | Some t => Some (t, generate_draws native user (draw_types fs) (t_draws t) N R s)
    end.

  (* None = prepare refused: a draw variable declared with two types, or a name used for two kinds
     of element (both are BiogemeError) *)
  Definition prepare_draws (native user : gdict) (fs : list expr) (cols : list string)
             (N R : nat) (s : S) : option (idtable * result (tensor * S)) :=
    if types_consistentb fs then prepare_draws_unchecked native user fs cols N R s else None.

  (* ---------------------------------------------------------------- the engine *)
  (* bioDraws.set_id_manager: drawId = id_manager.draws.indices[name] *)
  Definition draw_id (t : idtable) (name : string) : option Z := index_of name (t_draws t).

  (* bioExprDraws::getLiteralValue *)
  Definition engine_read (table : tensor) (o r : nat) (drawId : Z) : option A :=
    if (drawId <? 0)%Z then None else get3 table o r (Z.to_nat drawId).

  (* what draw variable [name] is at draw r of observation o *)
  Definition engine_draw (t : idtable) (table : tensor) (o r : nat) (name : string) : option A :=
    match draw_id t name with Some k => engine_read table o r k | None => None end.
End Draws.


(* ------------------------------------------------------------------ the engine's Monte-Carlo environment *)
From Coquelicot Require Import Rbar Hierarchy RInt_gen.
From BV Require Export Model.EvalX Model.Deriv.
Open Scope nat_scope.

Section EngineEnv.
  Variable A : Type.
  Variable val : A -> R.      (* the real number denoted by a stored double *)

  (* draw r of observation o, as the lookup [e_draw] of Model/EvalX.v *)
  Definition draw_lookup (t : idtable) (table : tensor A) (o r : nat) : lookup :=
    fun n => option_map val (engine_draw A t table o r n).

  (* the lookups bioExprMontecarlo's loop (drawIndex = 0 .. numberOfDraws-1) goes through *)
  Definition engine_draws (t : idtable) (table : tensor A) (o R : nat) : list lookup :=
    map (draw_lookup t table o) (seq 0 R).
End EngineEnv.

Definition Rsum (l : list R) : R := fold_right Rplus 0%R l.

(* ------------------------------------------------------------------ Derive *)
(* Derive(child, name): [name] is looked up in the table of all elementary expressions
   (id_manager.elementary_expressions.indices[name]); the engine returns the entry of the child's
   gradient for that literal (bioExprDerive.cc).  Derivatives with respect to a draw variable are not
   modelled. *)
Definition wrt_of (t : idtable) (n : string) : option wrt :=
  if existsb (String.eqb n) (t_free t ++ t_fixed t) then Some (WBeta n)
  else if existsb (String.eqb n) (t_vars t) then Some (WVar n)
  else if existsb (String.eqb n) (t_rv t) then Some (WRV n)
  else None.

Definition derive_value (Phi : R -> R) (t : idtable) (n : string) (child : expr) (en : env) : xval :=
  match wrt_of t n with Some w => evalX Phi (D w child) en | None => XNaN end.

(* ------------------------------------------------------------------ Integrate *)
(* specification: the integral over the real line in the named integration variable *)
Definition integrand (Phi : R -> R) (child : expr) (name : string) (en : env) : R -> R :=
  fun x => valR (evalX Phi child (upd en (WRV name) x)).

Definition is_integral (f : R -> R) (v : R) : Prop :=
  is_RInt_gen f (Rbar_locally m_infty) (Rbar_locally p_infty) v.

(* engine (bioGaussHermite.cc / bioGhFunction.cc): nodes x_i > 0 with weights A_i of the Gauss-Hermite
   rule for the weight exp(-x^2) (a 100-point table: external);
   integral = sum_i A_i * (f(x_i) exp(x_i^2) + f(-x_i) exp((-x_i)^2)) *)
Definition gh_quad (nodes : list (R * R)) (g : R -> R) : R :=
  Rsum (map (fun p => (snd p * (g (fst p) + g (- fst p)))%R) nodes).
Definition gh_unweighted (f : R -> R) : R -> R := fun x => (f x * exp (x * x))%R.
Definition gh_rule (nodes : list (R * R)) (f : R -> R) : R := gh_quad nodes (gh_unweighted f).
