(* Packaging of the outputs of a derivative calculation: support definitions for the Gallina text
   generated from function_output.py / calculator.py / idmanager.py / base_expressions.py /
   biogeme.py (Gen/Pack.v, tie A), and the matrix model of BHHH / aggregation / scaling.
   Definitions only; proofs in Proofs/PackP.v. *)
From Coq Require Import Reals.
From BV Require Export Model.PyBase Model.IdMgr.
Open Scope Z_scope.

(* ------------------------------------------------------------------ Python containers *)
(* seq[i] for a non-negative i (the callers check the range first) *)
Definition py_index {A} (d : A) (l : list A) (i : Z) : A := nth (Z.to_nat i) l d.

(* an insertion-ordered dict with string keys *)
Fixpoint dict_set {A} (d : list (string * A)) (k : string) (v : A) : list (string * A) :=
  match d with
  | [] => [(k, v)]
  | (k', v') :: r => if String.eqb k k' then (k, v) :: r else (k', v') :: dict_set r k v
  end.

Fixpoint dict_get {A} (d : list (string * A)) (k : string) : option A :=
  match d with
  | [] => None
  | (k', v') :: r => if String.eqb k k' then Some v' else dict_get r k
  end.

Definition dict_values {A} (d : list (string * A)) : list A := map snd d.
Definition dict_items {A} (d : list (string * A)) : list (string * A) := d.
Definition py_any (l : list bool) : bool := existsb (fun b => b) l.
Definition opt_index {A} (d : A) (o : option (list A)) (i : Z) : option A :=
  option_map (fun l => py_index d l i) o.

(* what calculate_function_and_derivatives returns: the aggregated record
   (function, gradient, hessian, bhhh), the per-observation record, or BiogemeError *)
Inductive pack_result (F G H : Type) :=
| RAgg (r : F * option G * option H * option H)
| RDis (r : list F * option (list G) * option (list H) * option (list H))
| RErr.
Arguments RAgg {F G H}.
Arguments RDis {F G H}.
Arguments RErr {F G H}.

(* ------------------------------------------------------------------ vectors and matrices *)
Open Scope R_scope.
Definition Reqb (a b : R) : bool := if Req_EM_T a b then true else false.

Definition vec := list R.
Definition mat := list (list R).

Definition vdiv (v : vec) (c : R) : vec := map (fun x => x / c) v.
Definition mdiv (m : mat) (c : R) : mat := map (fun r => vdiv r c) m.

Fixpoint vadd (a b : vec) : vec :=
  match a, b with x :: a', y :: b' => (x + y) :: vadd a' b' | _, _ => [] end.
Fixpoint madd (a b : mat) : mat :=
  match a, b with x :: a', y :: b' => vadd x y :: madd a' b' | _, _ => [] end.

Definition vzero (k : nat) : vec := repeat 0 k.
Definition mzero (k : nat) : mat := repeat (vzero k) k.
Definition vsum (k : nat) (l : list vec) : vec := fold_right vadd (vzero k) l.
Definition msum (k : nat) (l : list mat) : mat := fold_right madd (mzero k) l.
Definition rsum (l : list R) : R := fold_right Rplus 0 l.

(* outer product g g^T; BHHH of a sample = sum over observations *)
Definition outer (g : vec) : mat := map (fun gi => map (fun gj => gi * gj) g) g.
Definition bhhh (k : nat) (gs : list vec) : mat := msum k (map outer gs).

Definition ventry (v : vec) (i : nat) : R := nth i v 0.
Definition mentry (m : mat) (i j : nat) : R := nth j (nth i m []) 0.
