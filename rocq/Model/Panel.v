(* C09 -- model of the panel-data bookkeeping of Biogeme, written from
     src/biogeme/tools/database.py : count_number_of_groups
     src/biogeme/database.py       : Database.panel, build_panel_map, get_sample_size, generate_draws
     cythonbiogeme/cpp             : bioExprPanelTrajectory.cc, bioExprMontecarlo.cc (loop first..last, draws of
                                     the individual)
   Definitions only (all executable); the proofs are in Proofs/PanelP.v.
   Individual identifiers are integers Z (float identifiers are sent through an order embedding by the
   harness); row numbers are list positions (nat). *)
From Coq Require Import ZArith List Bool Sorted Permutation.
Import ListNotations.
Open Scope Z_scope.

(* ---------------------------------------------------------------- sort_values(by=column)
   build_panel_map sorts with kind='stable' (the check inside panel() uses the default, unstable, sort but
   only counts groups).  The model function below is the stable insertion sort; no theorem relies on
   stability: every theorem about the sorted *table* quantifies over all sorted permutations of the table,
   and the sorted *identifier column* is unique. *)
Fixpoint insert_by {A : Type} (key : A -> Z) (x : A) (l : list A) : list A :=
  match l with
  | [] => [x]
  | y :: tl => if key x <=? key y then x :: l else y :: insert_by key x tl
  end.

Fixpoint sort_by {A : Type} (key : A -> Z) (l : list A) : list A :=
  match l with
  | [] => []
  | x :: tl => insert_by key x (sort_by key tl)
  end.

Definition sort_ids (ids : list Z) : list Z := sort_by (fun z => z) ids.

(* ---------------------------------------------------------------- count_number_of_groups
     values = df[column].to_numpy()
     if len(values) == 0: return 0
     return int((values[1:] != values[:-1]).sum()) + 1
   (identifiers are compared in their own type: exactly, as in Z) *)
Fixpoint neq_next (l : list Z) : list bool :=        (* values[1:] != values[:-1] *)
  match l with
  | [] => []
  | x :: tl => match tl with [] => [] | y :: _ => negb (y =? x) :: neq_next tl end
  end.

Definition count_true (l : list bool) : nat := List.length (filter (fun b : bool => b) l).

Definition count_groups (ids : list Z) : nat :=
  match ids with
  | [] => O
  | _ :: _ => S (count_true (neq_next ids))
  end.

(* Database.panel: accepted iff  n_groups == n_individuals  *)
Definition panel_ok (ids : list Z) : bool :=
  Nat.eqb (count_groups ids) (count_groups (sort_ids ids)).

(* ---------------------------------------------------------------- build_panel_map
     data = data.sort_values(by=col); data.index = range(len)
     individuals = data[col].unique()                      -- order of first appearance
     for i in individuals: indices = data.loc[data[col] == i].index; map[i] = [min(indices), max(indices)] *)
Fixpoint uniq (l : list Z) : list Z :=
  match l with
  | [] => []
  | x :: tl => x :: remove Z.eq_dec x (uniq tl)
  end.

Fixpoint positions_from (k : nat) (i : Z) (s : list Z) : list nat :=
  match s with
  | [] => []
  | x :: tl => if x =? i then k :: positions_from (S k) i tl else positions_from (S k) i tl
  end.
Definition positions (i : Z) (s : list Z) : list nat := positions_from 0 i s.

(* min / max of a list of row numbers (Python raises on the empty list; never reached: i occurs in s) *)
Fixpoint lmin (l : list nat) : nat :=
  match l with
  | [] => O
  | x :: tl => match tl with [] => x | _ => Nat.min x (lmin tl) end
  end.
Fixpoint lmax (l : list nat) : nat :=
  match l with
  | [] => O
  | x :: tl => match tl with [] => x | _ => Nat.max x (lmax tl) end
  end.

Definition block : Type := (Z * nat * nat)%type.          (* individual, first row, last row *)
Definition b_id (e : block) : Z := fst (fst e).
Definition b_first (e : block) : nat := snd (fst e).
Definition b_last (e : block) : nat := snd e.

Definition entry (s : list Z) (i : Z) : block :=
  let P := positions i s in (i, lmin P, lmax P).

Definition build_map (ids : list Z) : list block :=
  let s := sort_ids ids in map (entry s) (uniq s).

(* get_sample_size() on panel data = individualMap.shape[0]; generate_draws asks the generator for
   (get_sample_size(), R) numbers per random variable: one row of draws per individual. *)
Definition sample_size (ids : list Z) : nat := List.length (build_map ids).
Definition draws_rows (ids : list Z) : nat := sample_size ids.

(* ---------------------------------------------------------------- semantics of the operators
   generic in the number type M (instantiated with R in the theorems and with Q in the streams) *)
Section Sem.
  Context {M : Type}.
  Variables (one zero : M) (mul add : M -> M -> M) (divn : M -> nat -> M).
  Context {A : Type}.                       (* a row of the table *)

  Definition prod_list (l : list M) : M := fold_right mul one l.
  Definition sum_list (l : list M) : M := fold_right add zero l.

  (* the rows first..last (inclusive) of the sorted table: the loop of bioExprPanelTrajectory *)
  Definition rows_between (a b : nat) (t : list A) : list A := firstn (S b - a) (skipn a t).

  (* PanelLikelihoodTrajectory(f) for the individual whose block is [a,b] *)
  Definition traj (f : A -> M) (t : list A) (a b : nat) : M :=
    prod_list (map f (rows_between a b t)).

  (* MonteCarlo(PanelLikelihoodTrajectory(g)) for that individual: draw k of THE INDIVIDUAL is given to
     every row of the block; [dr k] is the k-th draw of the individual. *)
  Definition mc (R : nat) (dr : nat -> M) (g : A -> M -> M) (t : list A) (a b : nat) : M :=
    divn (sum_list (map (fun k => traj (fun r => g r (dr k)) t a b) (seq 0 R))) R.

  (* per-individual values, in the order of the map; [st] is the sorted table *)
  Definition panel_values (f : A -> M) (st : list A) (m : list block) : list (Z * M) :=
    map (fun e => (b_id e, traj f st (b_first e) (b_last e))) m.

  (* draws : individual number (row of the draws table) -> draw number -> value *)
  Definition panel_mc_values (R : nat) (draws : nat -> nat -> M) (g : A -> M -> M)
             (st : list A) (m : list block) : list (Z * M) :=
    map (fun ie => let '(idx, e) := ie in (b_id e, mc R (draws idx) g st (b_first e) (b_last e)))
        (combine (seq 0 (List.length m)) m).

  (* sum over the individuals of h(value): the sample (log) likelihood with h = ln *)
  Definition total (h : M -> M) (vals : list (Z * M)) : M := sum_list (map (fun p => h (snd p)) vals).
End Sem.

(* the whole pipeline on a table of rows (identifier, payload) with the model's own sort *)
Definition ids_of {A : Type} (t : list (Z * A)) : list Z := map fst t.
Definition sorted_table {A : Type} (t : list (Z * A)) : list (Z * A) := sort_by fst t.

(* ---------------------------------------------------------------- specification predicates *)
(* every identifier's occurrences are contiguous in the column *)
Definition contiguous (ids : list Z) : Prop :=
  forall i j k : nat, (i < j < k)%nat -> (k < List.length ids)%nat ->
    nth i ids 0 = nth k ids 0 -> nth j ids 0 = nth i ids 0.

(* the blocks tile [start, n): each begins where the previous one ended, none is empty *)
Fixpoint tiles (start : nat) (m : list block) (n : nat) : Prop :=
  match m with
  | [] => start = n
  | e :: tl => b_first e = start /\ (b_first e <= b_last e)%nat /\ tiles (S (b_last e)) tl n
  end.

(* [st] is an admissible result of data.sort_values(by=id) applied to [t] *)
Definition sorted_version {A : Type} (t st : list (Z * A)) : Prop :=
  Permutation t st /\ StronglySorted Z.le (map fst st).

(* ---------------------------------------------------------------- histories of one Database object
   A table row carries several identifier columns (persons, households, ...) and a payload.  The state of
   a Database: the table, the declared panel column (None = not panel), the stored individualMap and the
   number of rows of the stored draws table.  Operations:
     OpPanel c   Database.panel(column c): checks contiguity first; refused (BiogemeError) => state unchanged;
                 accepted => panelColumn := c, build_panel_map (sorts the table, stores the map)
     OpEdit t    the user assigns / edits database.data directly: the table changes, the stored map and the
                 draws are left as they are (STALE)
     OpRemove k  Database.remove: rows dropped, and the map rebuilt when the data are panel
     OpDraws     Database.generate_draws: rebuilds the map, then one series per individual
   An evaluation (one-expression calculator, BIOGEME constructor / simulate) starts with [prepare_eval]:
   the map is rebuilt from the CURRENT table and column before the data, the map and the draws are sent. *)
Section History.
  Context {A : Type}.
  Definition hrow : Type := (list Z * A)%type.
  Definition hkey (c : nat) (r : hrow) : Z := nth c (fst r) 0.
  Definition col_ids (c : nat) (t : list hrow) : list Z := map (hkey c) t.

  Record pstate : Type := mk_pstate {
    st_table : list hrow; st_col : option nat; st_map : list block; st_draws : nat }.

  Inductive pop : Type :=
  | OpPanel (c : nat)
  | OpEdit (t : list hrow)
  | OpRemove (keep : hrow -> bool)
  | OpDraws.

  Definition rebuild (s : pstate) : pstate :=
    match st_col s with
    | None => s
    | Some c => mk_pstate (sort_by (hkey c) (st_table s)) (Some c)
                          (build_map (col_ids c (st_table s))) (st_draws s)
    end.

  Definition gen_draws (s : pstate) : pstate :=
    let s' := rebuild s in
    mk_pstate (st_table s') (st_col s') (st_map s')
              (match st_col s' with Some _ => List.length (st_map s') | None => List.length (st_table s') end).

  Definition panel_accepts (s : pstate) (c : nat) : bool := panel_ok (col_ids c (st_table s)).

  Definition step (s : pstate) (o : pop) : pstate :=
    match o with
    | OpPanel c =>
        if panel_accepts s c
        then rebuild (mk_pstate (st_table s) (Some c) (st_map s) (st_draws s))
        else s
    | OpEdit t => mk_pstate t (st_col s) (st_map s) (st_draws s)
    | OpRemove keep => rebuild (mk_pstate (filter keep (st_table s)) (st_col s) (st_map s) (st_draws s))
    | OpDraws => gen_draws s
    end.

  (* the history, with the verdict of every declaration (true for the other operations) *)
  Fixpoint run_ops (s : pstate) (ops : list pop) : pstate * list bool :=
    match ops with
    | [] => (s, [])
    | o :: tl =>
        let ok := match o with OpPanel c => panel_accepts s c | _ => true end in
        let '(s', l) := run_ops (step s o) tl in (s', ok :: l)
    end.

  Definition prepare_eval (s : pstate) : pstate := gen_draws s.
  Definition fresh (t : list hrow) : pstate := mk_pstate t None [] O.
End History.

(* ---------------------------------------------------------------- one BIOGEME object and its engine
   The engine (cythonbiogeme) keeps its own copy of the table and of the map.  The constructor sends both
   (after rebuilding the map, which sorts the table); calculate_likelihood[_and_derivatives] rebuilds the
   map of the DATABASE but sends nothing; simulate (repaired) rebuilds the map and sends the current table
   and map.  Between these calls the table of the database may change (Database.remove, direct edits). *)
Section Object.
  Context {A : Type}.
  Record engine : Type := mk_engine { e_table : list (@hrow A); e_map : list block }.
  Inductive bop : Type := BChange (t : list (@hrow A)) | BLikelihood | BSimulate.
  Definition send (c : nat) (db : list (@hrow A)) : list (@hrow A) * engine :=
    let st := sort_by (hkey c) db in (st, mk_engine st (build_map (col_ids c db))).
  Definition bstep (c : nat) (s : list (@hrow A) * engine) (o : bop) : list (@hrow A) * engine :=
    match o with
    | BChange t => (t, snd s)
    | BLikelihood => (sort_by (hkey c) (fst s), snd s)
    | BSimulate => send c (fst s)
    end.
  Definition run_object (c : nat) (db : list (@hrow A)) (ops : list bop) : list (@hrow A) * engine :=
    fold_left (bstep c) ops (send c db).
  (* the engine evaluates ONE consistent table: sorted, with the map of exactly that table *)
  Definition engine_ok (c : nat) (e : engine) : Prop :=
    StronglySorted Z.le (col_ids c (e_table e)) /\ e_map e = build_map (col_ids c (e_table e)).
End Object.

(* ---------------------------------------------------------------- instances *)
From Coq Require Import Reals QArith Qabs.
Open Scope Z_scope.

(* reals: used by the theorems of Properties/C09.v *)
Definition Rdivn (x : R) (n : nat) : R := (x / INR n)%R.

(* rationals: used by the correspondence streams (vm_compute) *)
Definition Qmulr (a b : Q) : Q := Qred (a * b)%Q.
Definition Qaddr (a b : Q) : Q := Qred (a + b)%Q.
Definition Qdivn (x : Q) (n : nat) : Q := Qred (x / inject_Z (Z.of_nat n))%Q.

(* stream panel_map: what Database.panel left behind, against the model.
   [obs] = None when the library refused the column, else the individualMap rows;
   [perm] = the original row number of every row of database.data after panel() *)
Definition block_eqb (a b : block) : bool :=
  (b_id a =? b_id b) && Nat.eqb (b_first a) (b_first b) && Nat.eqb (b_last a) (b_last b).
Fixpoint list_eqb {A : Type} (eqb : A -> A -> bool) (l l' : list A) : bool :=
  match l, l' with
  | [], [] => true
  | x :: tl, y :: tl' => eqb x y && list_eqb eqb tl tl'
  | _, _ => false
  end.
Definition perm_ok (ids : list Z) (perm : list nat) : bool :=
  list_eqb Nat.eqb (map Z.to_nat (sort_by (fun z => z) (map Z.of_nat perm))) (seq 0 (List.length ids))
  && list_eqb Z.eqb (map (fun p => nth p ids 0) perm) (sort_ids ids).
Definition map_check (ids : list Z) (obs : option (list block * list nat * nat)) : bool :=
  match obs with
  | None => negb (panel_ok ids)
  | Some (m, perm, ssize) =>
      panel_ok ids && list_eqb block_eqb m (build_map ids) && perm_ok ids perm
      && Nat.eqb ssize (sample_size ids)
  end.

(* stream panel_ll: a row is (id, (p, q)); without draws its value is p, with a draw xi it is p + q*xi;
   the deterministic generator of the harness returns 1 + (32*individual + draw)/1024 *)
Definition Qrow : Type := (Z * (Q * Q))%type.
Definition q_plain (r : Qrow) : Q := fst (snd r).
Definition q_draw (r : Qrow) (xi : Q) : Q := Qred (fst (snd r) + snd (snd r) * xi)%Q.
Definition tag_draw (idx k : nat) : Q := (Z.of_nat (1024 + 32 * idx + k) # 1024)%Q.
Definition model_plain (t : list Qrow) : list (Z * Q) :=
  panel_values 1%Q Qmulr q_plain (sorted_table t) (build_map (ids_of t)).
Definition model_mc (R : nat) (t : list Qrow) : list (Z * Q) :=
  panel_mc_values 1%Q 0%Q Qmulr Qaddr Qdivn R tag_draw q_draw (sorted_table t) (build_map (ids_of t)).
Definition close (tol obs v : Q) : bool := Qle_bool (Qabs (obs - v)) (tol * Qabs v)%Q.
Fixpoint close_all (tol : Q) (obs model : list (Z * Q)) : bool :=
  match obs, model with
  | [], [] => true
  | (i, o) :: t1, (j, v) :: t2 => (i =? j) && close tol o v && close_all tol t1 t2
  | _, _ => false
  end.
