(* Mathematical semantics of expressions: [evalX Phi e env : xval].

   Values are real numbers, minus infinity (only produced by a logit whose chosen alternative
   is unavailable, only consumed by exp) or NaN = "outside the regular domain / an error in
   the implementation" (log of a non-positive number, division by zero, missing key, missing
   data, unknown name, ...).  No totalisation: every irregular case is XNaN.

   Laziness: children are evaluated eagerly here, but a combination rule only *looks at* the
   values the implementation reads (And/Or short-circuit, Elem reads the selected entry,
   ConditionalSum the terms whose condition holds, logit the available alternatives), so an
   XNaN in an unread position does not propagate -- this is the missing-data rule of C12.

   Definitions only. *)
From Coq Require Export Reals.
From BV Require Export Model.Expr.
Open Scope R_scope.

Inductive xval := XR (r : R) | XmInf | XNaN.

Definition D2R (d : dyadic) : R := IZR (fst d) * powerRZ 2 (snd d).

Definition lookup := string -> option R.

Record env := mkEnv {
  e_beta : lookup;            (* free and fixed parameters *)
  e_var : lookup;             (* columns of the current row; None = absent or missing-data code *)
  e_draw : lookup;            (* current draw of each draw variable *)
  e_rv : lookup;              (* integration variables *)
  e_draws : list lookup;      (* the R draws of the current observation / individual *)
  e_rows : list lookup        (* the rows of the current individual (panel data) *)
}.

Definition with_draw (en : env) (d : lookup) : env :=
  mkEnv (e_beta en) (e_var en) d (e_rv en) (e_draws en) (e_rows en).
Definition with_row (en : env) (r : lookup) : env :=
  mkEnv (e_beta en) r (e_draw en) (e_rv en) (e_draws en) (e_rows en).

Definition of_opt (o : option R) : xval := match o with Some r => XR r | None => XNaN end.

Definition b2R (b : bool) : R := if b then 1 else 0.
Definition Rnz (r : R) : bool := if Req_EM_T r 0 then false else true.
Definition Rleb' (a b : R) : bool := if Rle_dec a b then true else false.
Definition Rltb' (a b : R) : bool := if Rlt_dec a b then true else false.
Definition Reqb' (a b : R) : bool := if Req_EM_T a b then true else false.

(* integer value of a real (keys, chosen alternative): None when not an integer *)
Definition R2Z (r : R) : option Z :=
  let z := Int_part r in if Req_EM_T r (IZR z) then Some z else None.

Definition lift1 (f : R -> R) (a : xval) : xval :=
  match a with XR x => XR (f x) | _ => XNaN end.
Definition lift2 (f : R -> R -> R) (a b : xval) : xval :=
  match a, b with XR x, XR y => XR (f x y) | _, _ => XNaN end.

Definition dyadic_is_int (d : dyadic) : option Z :=
  let '(m, e) := d in
  if (0 <=? e)%Z then Some (m * 2 ^ e)%Z
  else if (m mod 2 ^ (- e) =? 0)%Z then Some (m / 2 ^ (- e))%Z else None.

Definition xpowc (c : dyadic) (a : xval) : xval :=
  match a with
  | XR x =>
      match dyadic_is_int c with
      | Some n => if (0 <=? n)%Z then XR (powerRZ x n)
                  else if Rnz x then XR (powerRZ x n) else XNaN
      | None => if Rltb' 0 x then XR (Rpower x (D2R c)) else XNaN
      end
  | _ => XNaN
  end.

Definition xbin (op : binop) (a b : xval) : xval :=
  match op with
  | Plus => lift2 Rplus a b
  | Minus => lift2 Rminus a b
  | Times => lift2 Rmult a b
  | Divide => match a, b with
              | XR x, XR y => if Rnz y then XR (x / y) else XNaN
              | _, _ => XNaN end
  | Power => match a, b with
             | XR x, XR y => if Rltb' 0 x then XR (Rpower x y) else XNaN
             | _, _ => XNaN end
  | BMin => lift2 Rmin a b
  | BMax => lift2 Rmax a b
  | And => match a with
           | XR x => if Rnz x then match b with XR y => XR (b2R (Rnz y)) | _ => XNaN end
                     else XR 0
           | _ => XNaN end
  | Or => match a with
          | XR x => if Rnz x then XR 1
                    else match b with XR y => XR (b2R (Rnz y)) | _ => XNaN end
          | _ => XNaN end
  | Eq => lift2 (fun x y => b2R (Reqb' x y)) a b
  | Ne => lift2 (fun x y => b2R (negb (Reqb' x y))) a b
  | Le => lift2 (fun x y => b2R (Rleb' x y)) a b
  | Ge => lift2 (fun x y => b2R (Rleb' y x)) a b
  | Lt => lift2 (fun x y => b2R (Rltb' x y)) a b
  | Gt => lift2 (fun x y => b2R (Rltb' y x)) a b
  end.

Section WithPhi.
  (* the standard normal CDF: external (scipy / the engine's erfc); see DESIGN 2.4 *)
  Variable Phi : R -> R.

  Definition xun (op : unop) (a : xval) : xval :=
    match op with
    | UMinus => lift1 Ropp a
    | Exp => match a with XR x => XR (exp x) | XmInf => XR 0 | XNaN => XNaN end
    | Log => match a with XR x => if Rltb' 0 x then XR (ln x) else XNaN | _ => XNaN end
    | Logzero => match a with
                 | XR x => if Rnz x then (if Rltb' 0 x then XR (ln x) else XNaN) else XR 0
                 | _ => XNaN end
    | Sin => lift1 sin a
    | Cos => lift1 cos a
    | NormalCdf => lift1 Phi a
    | MonteCarlo | PanelTraj => XNaN   (* handled in evalX: they change the environment *)
    end.

  Definition xsum (l : list xval) : xval := fold_right (lift2 Rplus) (XR 0) l.
  Definition xprod (l : list xval) : xval := fold_right (lift2 Rmult) (XR 1) l.

  (* sum of t_i over the pairs (c_i, t_i) with c_i <> 0 ; t_i is not read when c_i = 0 *)
  Fixpoint xcondsum (l : list xval) : xval :=
    match l with
    | [] => XR 0
    | c :: t :: r =>
        match c with
        | XR x => if Rnz x then lift2 Rplus t (xcondsum r) else xcondsum r
        | _ => XNaN
        end
    | _ => XNaN
    end.

  Fixpoint xlinutil (l : list xval) : xval :=
    match l with
    | [] => XR 0
    | b :: v :: r => lift2 Rplus (lift2 Rmult b v) (xlinutil r)
    | _ => XNaN
    end.

  Fixpoint assoc_Z {A} (k : Z) (keys : list Z) (vals : list A) : option A :=
    match keys, vals with
    | k' :: ks, v :: vs => if (k =? k')%Z then Some v else assoc_Z k ks vs
    | _, _ => None
    end.

  Definition xelem (keys : list Z) (vs : list xval) : xval :=
    match vs with
    | XR k :: entries =>
        match R2Z k with
        | Some z => match assoc_Z z keys entries with
                    | Some (XR v) => XR v
                    | _ => XNaN   (* absent key; the engine also refuses a non-finite selected value *)
                    end
        | None => XNaN
        end
    | _ => XNaN
    end.

  (* sum over the available alternatives of exp(V_j): utilities of unavailable alternatives
     are not read.  [avs] is an association list alternative -> availability value. *)
  Fixpoint logit_denominator (ukeys : list Z) (us : list xval) (akeys : list Z) (avs : list xval)
    : xval :=
    match ukeys, us with
    | k :: ks, u :: r =>
        match assoc_Z k akeys avs with
        | Some (XR a) =>
            if Rnz a then lift2 Rplus (lift1 exp u) (logit_denominator ks r akeys avs)
            else logit_denominator ks r akeys avs
        | Some _ => XNaN
        | None => logit_denominator ks r akeys avs   (* no availability entry: ignored by the engine *)
        end
    | [], [] => XR 0
    | _, _ => XNaN
    end.

  Definition xloglogit (ukeys akeys : list Z) (vs : list xval) : xval :=
    match vs with
    | XR c :: rest =>
        let us := firstn (List.length ukeys) rest in
        let avs := skipn (List.length ukeys) rest in
        if negb (Nat.eqb (List.length avs) (List.length akeys)) then XNaN else
        match R2Z c with
        | Some z =>
            match assoc_Z z akeys avs, assoc_Z z ukeys us with
            | Some (XR a), Some vc =>
                if Rnz a then
                  match vc, logit_denominator ukeys us akeys avs with
                  | XR v, XR d => if Rltb' 0 d then XR (v - ln d) else XNaN
                  | _, _ => XNaN
                  end
                else XmInf
            | _, _ => XNaN
            end
        | None => XNaN
        end
    | _ => XNaN
    end.

  Definition xbelongs (set : list dyadic) (a : xval) : xval :=
    match a with
    | XR x => XR (b2R (existsb (fun d => Reqb' x (D2R d)) set))
    | _ => XNaN
    end.

  Definition xmean (l : list xval) : xval :=
    match l with
    | [] => XNaN
    | _ => lift2 Rdiv (xsum l) (XR (INR (List.length l)))
    end.

  Fixpoint evalX (e : expr) (en : env) {struct e} : xval :=
    match e with
    | Node h kids =>
        let vs := map (fun k => evalX k en) kids in
        match h, vs with
        | HNum d, [] => XR (D2R d)
        | HBeta n _, [] => of_opt (e_beta en n)
        | HVar n, [] => of_opt (e_var en n)
        | HDraws n _, [] => of_opt (e_draw en n)
        | HRV n, [] => of_opt (e_rv en n)
        | HBin op, [a; b] => xbin op a b
        | HUn MonteCarlo, [_] =>
            match kids with
            | [k] => xmean (map (fun d => evalX k (with_draw en d)) (e_draws en))
            | _ => XNaN
            end
        | HUn PanelTraj, [_] =>
            match kids with
            | [k] => match e_rows en with
                     | [] => XNaN
                     | rows => xprod (map (fun r => evalX k (with_row en r)) rows)
                     end
            | _ => XNaN
            end
        | HUn op, [a] => xun op a
        | HPowC c, [a] => xpowc c a
        | HBelongs s, [a] => xbelongs s a
        | HMultSum, _ => xsum vs
        | HCondSum, _ => xcondsum vs
        | HElem keys, _ => xelem keys vs
        | HLinUtil, _ => xlinutil vs
        | HLogLogit uk ak, _ => xloglogit uk ak vs
        | _, _ => XNaN     (* HDerive / HIntegrate: see Model/Deriv.v, C10; ill-formed arities *)
        end
    end.
End WithPhi.
