(* The standard normal CDF as a concrete real function (no Section variable, no axiom):

      npdf t    = exp(-t^2/2) / sqrt(2 pi)                 the standard normal density
      Phi_def x = 1/2 + int_0^x npdf(t) dt                 (Coquelicot's Riemann integral RInt)

   Proofs/PhiP.v proves that the executable interval extension Model/PhiI.v [PhiI_series]
   encloses [Phi_def].  Definitions only. *)
From Coq Require Import Reals.
From Coquelicot Require Import Coquelicot.
Open Scope R_scope.

Definition npdf (t : R) : R := exp (- (t * t) / 2) / sqrt (2 * PI).

Definition Phi_def (x : R) : R := 1 / 2 + RInt npdf 0 x.
