(* Runtime support for the Gallina text emitted by /verif/lib/py2v (tie A):
   Python-level primitives with no counterpart in the standard library.
   Definitions only -- proofs about them live in Proofs/PyBaseP.v. *)
From Coq Require Export ZArith List String Ascii Bool.
From Coq Require Import DecimalString DecimalZ DecimalN.
Export ListNotations.
Open Scope Z_scope.

(* `while c: body` with `break`: [step] returns the new state and whether to continue.
   None = fuel exhausted (never a normal-looking value). *)
Fixpoint while_brk {S : Type} (fuel : nat) (cond : S -> bool) (step : S -> S * bool) (s : S)
  : option S :=
  if cond s then
    match fuel with
    | O => None
    | Datatypes.S f =>
        let '(s', cont) := step s in
        if cont then while_brk f cond step s' else Some s'
    end
  else Some s.

Definition isSome {A} (o : option A) : bool := match o with Some _ => true | None => false end.
Definition is_nil {A} (l : list A) : bool := match l with [] => true | _ => false end.

(* str(n) for an integer *)
Definition string_of_Z (z : Z) : string := NilZero.string_of_int (Z.to_int z).

(* f'{n:02d}' : decimal, zero padded to width 2 (sign counted in the width as Python does;
   only used on n >= 0 by the code we translate, negative numbers kept faithful anyway). *)
Definition fmt02d (z : Z) : string :=
  if (0 <=? z) && (z <? 10) then ("0" ++ string_of_Z z)%string
  else if (-10 <? z) && (z <? 0) then ("-" ++ string_of_Z (- z))%string
  else string_of_Z z.

(* A directory is modelled by the list of the names of its regular files. *)
Definition is_file (fs : list string) (name : string) : bool :=
  existsb (String.eqb name) fs.

Fixpoint enumerate_from {A} (k : Z) (l : list A) : list (Z * A) :=
  match l with [] => [] | x :: r => (k, x) :: enumerate_from (k + 1) r end.
Definition enumerate {A} (l : list A) := enumerate_from 0 l.

Definition nth_Z {A} (d : A) (l : list A) (i : Z) : A :=
  if i <? 0 then nth (Z.to_nat (Z.of_nat (List.length l) + i)) l d else nth (Z.to_nat i) l d.
