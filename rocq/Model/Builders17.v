(* C17 -- Gallina builders mirroring, node for node, the Python functions that build the
   "specification helper" expression trees:

     src/biogeme/models/piecewise.py   piecewise_variables, piecewise_formula, piecewise_as_variable
     src/biogeme/models/boxcox.py      boxcox
     src/biogeme/distributions.py      normalpdf, lognormalpdf, uniformpdf, triangularpdf, logisticcdf
     src/biogeme/loglikelihood.py      loglikelihoodregression, likelihoodregression
     src/biogeme/segmentation.py       Segmentation.segmented_beta
     src/biogeme/nests.py              the matrix filled by NestsForNestedLogit.correlation

   Every builder returns the [expr] (Model/Expr.v) that the Python function returns on the same
   arguments (checked by stream build17 with [expr_eqb]); [None] stands for "Python raises".
   Numeric leaves are the doubles Python stores, as dyadics (float.as_integer_ratio).

   Definitions only; lemmas in Proofs/Builders17P.v. *)
From BV Require Export Model.EvalX.
Open Scope Z_scope.

(* ------------------------------------------------------------------ doubles as dyadics *)
(* The bridge sends a double as (m, e) with m odd, or (0, 0).  *)
Fixpoint strip_pos (p : positive) (e : Z) : positive * Z :=
  match p with xO q => strip_pos q (e + 1) | _ => (p, e) end.

Definition dnorm (d : dyadic) : dyadic :=
  match fst d with
  | Z0 => (0, 0)
  | Zpos p => let '(q, e) := strip_pos p (snd d) in (Zpos q, e)
  | Zneg p => let '(q, e) := strip_pos p (snd d) in (Zneg q, e)
  end.

(* exact difference of two dyadics *)
Definition dsub_exact (a b : dyadic) : dyadic :=
  let e := Z.min (snd a) (snd b) in
  (fst a * 2 ^ (snd a - e) - fst b * 2 ^ (snd b - e), e).

(* round to nearest, ties to even, to a 53-bit significand (binary64 away from the
   subnormal / overflow ranges, which the streams do not generate) *)
Definition round53 (d : dyadic) : dyadic :=
  let '(m, e) := d in
  let am := Z.abs m in
  let L := Z.log2 am + 1 in
  if L <=? 53 then d
  else
    let s := L - 53 in
    let q := am / 2 ^ s in
    let r := am mod 2 ^ s in
    let half := 2 ^ (s - 1) in
    let q' := if (half <? r) || ((r =? half) && Z.odd q) then q + 1 else q in
    (Z.sgn m * q', e + s).

(* Python's float subtraction a - b *)
Definition dsub53 (a b : dyadic) : dyadic := dnorm (round53 (dsub_exact a b)).

Definition ENumD (d : dyadic) : expr := Node (HNum d) [].
(* Numeric(n) for a Python int n *)
Definition ENumI (n : Z) : expr := ENumD (dnorm (n, 0)).

(* ------------------------------------------------------------------ comparisons on R
   (names used by the text emitted by py2v) *)
Definition Rltb (a b : R) : bool := if Rlt_dec a b then true else false.
Definition Rleb (a b : R) : bool := if Rle_dec a b then true else false.
Definition Rgtb (a b : R) : bool := Rltb b a.
Definition Rgeb (a b : R) : bool := Rleb b a.
Definition Reqb (a b : R) : bool := if Req_EM_T a b then true else false.
Definition Rneqb (a b : R) : bool := negb (Reqb a b).

(* value of an optional threshold where Python needs a number: the translated code reads it
   only after an `is None` test (or where None would be a TypeError); 0 is never observed on
   threshold lists accepted by the validity checks *)
Definition oget (o : option R) : R := match o with Some r => r | None => 0%R end.
(* thresholds[1:-1] *)
Definition interior {A} (l : list A) : list A := removelast (tl l).

(* ------------------------------------------------------------------ piecewise.py *)
(* bioMax(Numeric(0), bioMin(variable - a, b - a)) *)
Definition pw_mid (v : expr) (a b : dyadic) : expr :=
  EBin BMax (ENumZ 0) (EBin BMin (EBin Minus v (ENumD a)) (ENumD (dsub53 b a))).
(* bioMax(0, variable - a) *)
Definition pw_open (v : expr) (a : dyadic) : expr :=
  EBin BMax (ENumZ 0) (EBin Minus v (ENumD a)).
(* bioMin(variable, b) *)
Definition pw_first_open (v : expr) (b : dyadic) : expr := EBin BMin v (ENumD b).

(* the variables after the first one: [a] is the previous threshold, [l] what follows *)
Fixpoint pw_rest (v : expr) (a : dyadic) (l : list (option dyadic)) : option (list expr) :=
  match l with
  | [] => None
  | [None] => Some [pw_open v a]
  | [Some b] => Some [pw_mid v a b]
  | Some b :: r => option_map (cons (pw_mid v a b)) (pw_rest v b r)
  | None :: _ => None      (* None strictly inside the list: BiogemeError *)
  end.

Definition piecewise_variables (v : expr) (ts : list (option dyadic)) : option (list expr) :=
  match ts with
  | [] => None                                   (* BiogemeError: no threshold *)
  | [_] => None                                  (* all None, or IndexError *)
  | [None; None] => None                         (* all None *)
  | [None; Some b] => Some [pw_first_open v b]
  | [Some a; None] => Some [pw_open v a]
  | [Some a; Some b] => Some [pw_mid v a b]
  | None :: Some b :: r => option_map (cons (pw_first_open v b)) (pw_rest v b r)
  | Some a :: Some b :: r => option_map (cons (pw_mid v a b)) (pw_rest v b r)
  | _ :: None :: _ => None                       (* None strictly inside *)
  end.

Fixpoint zip_times (bs vs : list expr) : list expr :=
  match bs, vs with
  | b :: bs', w :: vs' => EBin Times b w :: zip_times bs' vs'
  | _, _ => []
  end.

(* piecewise_formula(variable, thresholds, betas) with an explicit list of betas
   (Expression objects, or numbers already converted to Numeric) *)
Definition piecewise_formula (v : expr) (ts : list (option dyadic)) (betas : list expr)
  : option expr :=
  match piecewise_variables v ts with
  | None => None
  | Some vars =>
      if negb (Nat.eqb (List.length betas) (List.length ts - 1)) then None
      else match betas with
           | [] => None
           | _ => Some (EMultSum (zip_times betas vars))
           end
  end.

(* piecewise_as_variable: x_T1 + bioMultSum([beta_i * x_T(i+1)]) *)
Definition piecewise_as_variable (v : expr) (ts : list (option dyadic)) (betas : list expr)
  : option expr :=
  match piecewise_variables v ts with
  | None => None
  | Some vars =>
      if negb (Nat.eqb (List.length betas) (List.length ts - 2)) then None
      else match betas, vars with
           | [], _ => None                        (* bioMultSum([]) raises *)
           | _, v0 :: vars' => Some (EBin Plus v0 (EMultSum (zip_times betas vars')))
           | _, [] => None
           end
  end.

(* ------------------------------------------------------------------ boxcox.py *)
Definition c_1em5 : dyadic := (5902958103587057, -69).       (* the double 1.0e-5 *)

Definition boxcox_series (lx l1 l2 l3 : expr) : expr :=
  EBin Plus
    (EBin Plus
       (EBin Plus lx (EBin Divide (EBin Times l1 (EPowC lx (1, 1))) (ENum 1 1)))
       (EBin Divide (EBin Times l2 (EPowC lx (3, 0))) (ENum 3 1)))
    (EBin Divide (EBin Times l3 (EPowC lx (1, 2))) (ENum 3 3)).

(* x, ell : Expression objects.  `x ** ell` is a PowerConstant when ell is a Numeric. *)
Definition boxcox (x ell : expr) : expr :=
  let pw := match ell with
            | Node (HNum d) [] => EPowC x d
            | _ => EBin Power x ell
            end in
  let regular := EBin Divide (EBin Minus pw (ENum 1 0)) ell in
  let lx := EUn Log x in
  let mclaurin := boxcox_series lx ell (EPowC ell (1, 1)) (EPowC ell (3, 0)) in
  let close := EBin Times (EBin Lt ell (ENumD c_1em5))
                          (EBin Gt ell (EUn UMinus (ENumD c_1em5))) in
  let smooth := EElem close [(0, regular); (1, mclaurin)] in
  EElem (EBin Eq x (ENumZ 0)) [(0, smooth); (1, ENumZ 0)].

(* ell a Python float c: ell**2, ell**3 are computed by Python (c2, c3 are those doubles) and
   the comparisons are reflected (`c < Numeric` is `Numeric > c`). *)
Definition boxcox_float (x : expr) (c c2 c3 : dyadic) : expr :=
  let regular := EBin Divide (EBin Minus (EPowC x c) (ENum 1 0)) (ENumD c) in
  let lx := EUn Log x in
  let mclaurin := boxcox_series lx (ENumD c) (ENumD c2) (ENumD c3) in
  let close := EBin Times (EBin Gt (ENumD c_1em5) (ENumD c))
                          (EBin Lt (EUn UMinus (ENumD c_1em5)) (ENumD c)) in
  let smooth := EElem close [(0, regular); (1, mclaurin)] in
  EElem (EBin Eq x (ENumZ 0)) [(0, smooth); (1, ENumZ 0)].

(* ------------------------------------------------------------------ distributions.py *)
Definition c_sqrt2pi : dyadic := (5644425082623175, -51).    (* the double 2.506628275 *)
Definition c_halflog2pi : dyadic := (2069265617847955, -51). (* the double 0.9189385332 *)

Definition normalpdf (x mu s : expr) : expr :=
  let d := EBin Times (EUn UMinus (EBin Minus x mu)) (EBin Minus x mu) in
  let n := EBin Times (EBin Times (ENum 1 1) s) s in
  EBin Divide (EUn Exp (EBin Divide d n)) (EBin Times s (ENumD c_sqrt2pi)).

Definition lognormalpdf (x mu s : expr) : expr :=
  let lx := EUn Log x in
  let d := EBin Times (EUn UMinus (EBin Minus lx mu)) (EBin Minus lx mu) in
  let n := EBin Times (EBin Times (ENum 1 1) s) s in
  EBin Divide (EBin Times (EBin Gt x (ENumZ 0)) (EUn Exp (EBin Divide d n)))
              (EBin Times (EBin Times x s) (ENumD c_sqrt2pi)).

Definition uniformpdf (x a b : expr) : expr :=
  EBin Plus
    (EBin Plus (EBin Times (EBin Lt x a) (ENumZ 0)) (EBin Times (EBin Gt x b) (ENumZ 0)))
    (EBin Divide (EBin Times (EBin Ge x a) (EBin Le x b)) (EBin Minus b a)).

Definition triangularpdf (x a b c : expr) : expr :=
  let r1 := EBin Times (EBin Lt x a) (ENumZ 0) in
  let r2 := EBin Times
              (EBin Times (EBin Times (EBin Ge x a) (EBin Lt x c)) (ENum 1 1))
              (EBin Divide (EBin Minus x a) (EBin Times (EBin Minus b a) (EBin Minus c a))) in
  let r3 := EBin Divide (EBin Times (EBin Eq x c) (ENum 1 1)) (EBin Minus b a) in
  let r4 := EBin Divide
              (EBin Times (EBin Times (EBin Times (EBin Gt x c) (EBin Le x b)) (ENum 1 1))
                          (EBin Minus b x))
              (EBin Times (EBin Minus b a) (EBin Minus b c)) in
  let r5 := EBin Times (EBin Gt x b) (ENumZ 0) in
  EMultSum [r1; r2; r3; r4; r5].

Definition logisticcdf (x mu s : expr) : expr :=
  EBin Divide (ENum 1 0)
    (EBin Plus (ENum 1 0) (EUn Exp (EBin Divide (EUn UMinus (EBin Minus x mu)) s))).

(* ------------------------------------------------------------------ loglikelihood.py *)
Definition loglikelihoodregression (meas model sigma : expr) : expr :=
  let t := EBin Divide (EBin Minus meas model) sigma in
  EBin Minus
    (EBin Minus (EBin Divide (EUn UMinus (EPowC t (1, 1))) (ENum 1 1))
                (EBin Divide (EUn Log (EPowC sigma (1, 1))) (ENum 1 1)))
    (ENumD c_halflog2pi).

Definition likelihoodregression (meas model sigma : expr) : expr :=
  EUn Exp (loglikelihoodregression meas model sigma).

(* ------------------------------------------------------------------ segmentation.py *)
(* DiscreteSegmentationTuple(variable, mapping, reference): the mapping in dict order *)
Record seg_tuple := mkSeg {
  sg_var : string;
  sg_map : list (Z * string);
  sg_ref : option string
}.

Definition seg_reference (s : seg_tuple) : option string :=
  match sg_ref s with
  | None => match sg_map s with (_, c) :: _ => Some c | [] => None end   (* next(iter(...)) *)
  | Some r => if existsb (fun vc => String.eqb (snd vc) r) (sg_map s) then Some r else None
  end.

(* OneSegmentation.list_of_expressions *)
Definition seg_terms (bname : string) (fixed : bool) (s : seg_tuple) (ref : string) : list expr :=
  map (fun vc => EBin Times (EBeta (bname ++ "_" ++ snd vc) fixed)
                            (EBin Eq (EVar (sg_var s)) (ENumI (fst vc))))
      (filter (fun vc => negb (String.eqb (snd vc) ref)) (sg_map s)).

Fixpoint seg_all_terms (bname : string) (fixed : bool) (segs : list seg_tuple)
  : option (list expr) :=
  match segs with
  | [] => Some []
  | s :: r =>
      match seg_reference s, seg_all_terms bname fixed r with
      | Some ref, Some l => Some (seg_terms bname fixed s ref ++ l)
      | _, _ => None
      end
  end.

(* Segmentation(beta, tuples).segmented_beta() *)
Definition segmented_beta (bname : string) (fixed : bool) (segs : list seg_tuple) : option expr :=
  match seg_all_terms bname fixed segs with
  | Some l => Some (EMultSum (EBeta bname fixed :: l))
  | None => None
  end.

(* ------------------------------------------------------------------ nests.py
   NestsForNestedLogit.correlation: identity matrix, then for every nest m (in order) and every
   pair of distinct positions of its alternative list, both symmetric entries are overwritten by
   [entry mu_m].  [entry] is the conditional expression of the source (Gen/Piecewise.v). *)
Definition in_Z (i : Z) (l : list Z) : bool := existsb (Z.eqb i) l.

Definition nl_correlation (entry : R -> R) (nests : list (R * list Z)) (i j : Z) : R :=
  fold_left
    (fun acc (m : R * list Z) =>
       if in_Z i (snd m) && in_Z j (snd m) && negb (i =? j) then entry (fst m) else acc)
    nests (if i =? j then 1%R else 0%R).
