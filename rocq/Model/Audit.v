(* C12 -- model of the refusal machinery of Biogeme.

   * [audit T db e]: Expression.audit and its overrides, as a recursion over the rose tree driven by a
     *recursion table* T (which kinds visit all their children, which only self.child, which none).
     The table of the code base is regenerated from the class statements on every run
     (Gen/AuditTable.v, tie A); the theorems of Proofs/AuditP.v are about that generated table.
     A node whose kind does not recurse hides its children.
   * [check_draws / check_rv / check_panel]: the three set-valued collections with their blocking
     operators (MonteCarlo / Integrate / PanelLikelihoodTrajectory return the empty set).
   * the own rules of Variable, MonteCarlo, PanelLikelihoodTrajectory, Integrate, LogLogit,
   * [spec_errors]: what BIOGEME(...) refuses (duplicates via IdMgr.prepare, placement rules, audit),
     [request_errors]: hessian / BHHH without gradient,
   * [data_audit]: Database._audit (non-numeric columns, NaN, no row),
   * [nested_ok], [cnl_ok]: Nests.__init__, check_partition, check_validity,
   * one-hole contexts [ctx], [plug].

   Definitions only; proofs in Proofs/AuditP.v. *)
From BV Require Export Model.Expr Model.IdMgr.
Open Scope Z_scope.

(* ------------------------------------------------------------------ shapes (see lib/props/c12_extract.py) *)
Inductive amode :=
| AAll        (* for e in self.get_children(): err, war = e.audit(database); list_of_errors += err *)
| AChildren   (* the same loop over self.children (LogLogit) *)
| AChild      (* list_of_errors, list_of_warnings = self.child.audit(database) *)
| AVarRule    (* Variable.audit: no child; `self.name not in database.data.columns` is an error *)
| ANone       (* builds its lists without visiting any child *)
| ADelegate.  (* _, expr = self.selected(); return expr.audit(database) *)

Inductive smode :=
| SAll        (* set(chain.from_iterable([e.check_x() for e in self.get_children()])) *)
| SSelf       (* return {self.name} *)
| SBlock      (* return set() *)
| SDelegate.  (* the selected expression's answer *)

Inductive kmode := KOwn (* return self.children *) | KDelegate (* the selected expression's children *).

Record table := mkTable {
  t_audit : head -> amode;
  t_draws : head -> smode;
  t_rv : head -> smode;
  t_panel : head -> smode;
  t_kids : head -> kmode
}.

Definition amode_eqb (a b : amode) : bool :=
  match a, b with
  | AAll, AAll | AChildren, AChildren | AChild, AChild | AVarRule, AVarRule | ANone, ANone
  | ADelegate, ADelegate => true
  | _, _ => false
  end.
Definition smode_eqb (a b : smode) : bool :=
  match a, b with
  | SAll, SAll | SSelf, SSelf | SBlock, SBlock | SDelegate, SDelegate => true
  | _, _ => false
  end.
Definition kmode_eqb (a b : kmode) : bool :=
  match a, b with KOwn, KOwn | KDelegate, KDelegate => true | _, _ => false end.

(* ------------------------------------------------------------------ the data seen by the audit *)
Definition row := list (string * dyadic).

Record database := mkDb {
  d_cols : list string;       (* database.data.columns *)
  d_rows : list row;          (* the rows (only the cells the logit rules look at matter) *)
  d_panel : bool              (* database.is_panel() *)
}.

Definition mem_str (x : string) (l : list string) : bool := existsb (String.eqb x) l.
Definition mem_Z (x : Z) (l : list Z) : bool := existsb (Z.eqb x) l.

Fixpoint row_get (r : row) (x : string) : option dyadic :=
  match r with
  | [] => None
  | (y, v) :: r' => if String.eqb x y then Some v else row_get r' x
  end.

(* ------------------------------------------------------------------ errors *)
Inductive error :=
| EMissingColumn (x : string)        (* Variable x not found in the database *)
| EMcNoDraws                         (* The argument of MonteCarlo must contain a bioDraws *)
| EMcNested                          (* a MonteCarlo statement in another one *)
| EMcPanelNoTraj                     (* panel database: MonteCarlo must contain a PanelLikelihoodTrajectory *)
| ETrajNotPanel                      (* PanelLikelihoodTrajectory can only be used with panel data *)
| EIntNoRV                           (* The argument of Integrate must contain a RandomVariable *)
| ELogitKeys                         (* Incompatible list of alternatives in logit expression *)
| ELogitChoice                       (* The choice variable does not correspond to a valid alternative *)
| ELogitChoiceNotInAv                (* Chosen alternative does not appear in availability dict (raised) *)
| EDuplicate                         (* elementary expressions defined more than once (IdManager) *)
| EDrawTypes (n : string)            (* Draw variable n is declared with two types (IdManager) *)
| EDrawsOutside (n : string)         (* draws defined outside the MonteCarlo operator *)
| ERvOutside (n : string)            (* random variables defined outside the Integrate operator *)
| EVarOutsideTraj (n : string)       (* variables not inside PanelLikelihoodTrajectory (panel data) *)
| EHessianNoGradient                 (* If the hessian or the BHHH matrix is calculated, so is the gradient *)
| ENonNumeric (col : string)         (* Column col in the database does contain <dtype> *)
| ENaN                               (* The database contains NaN value(s) *)
| ENoEntry.                          (* Database has no entry *)

(* ------------------------------------------------------------------ embed_expression *)
Definition is_draws (h : head) : bool := match h with HDraws _ _ => true | _ => false end.
Definition is_rv (h : head) : bool := match h with HRV _ => true | _ => false end.
Definition is_mc (h : head) : bool := match h with HUn MonteCarlo => true | _ => false end.
Definition is_traj (h : head) : bool := match h with HUn PanelTraj => true | _ => false end.
Definition is_integrate (h : head) : bool := match h with HIntegrate _ => true | _ => false end.

(* e.embed_expression(t): the class name t occurs in e (e itself included) *)
Definition embeds (p : head -> bool) (e : expr) : bool := existsb (fun s => p (hd_of s)) (subterms e).

(* ------------------------------------------------------------------ LogLogit rules *)
Definition same_keys (uk ak : list Z) : bool :=
  forallb (fun k => mem_Z k ak) uk && forallb (fun k => mem_Z k uk) ak.

(* the value of the choice expression on each row, for the two forms the model covers: a numeric
   constant or a column; None = another form (the model then makes no claim on the choice rule) *)
Definition choice_values (db : database) (c : expr) : option (list (option dyadic)) :=
  match c with
  | Node (HNum d) [] => Some (map (fun _ => Some d) (d_rows db))
  | Node (HVar x) [] => Some (map (fun r => row_get r x) (d_rows db))
  | _ => None
  end.

Definition dy_is_int (d : dyadic) : option Z :=
  let '(m, e) := d in
  if 0 <=? e then Some (m * 2 ^ e)
  else if m mod 2 ^ (- e) =? 0 then Some (m / 2 ^ (- e)) else None.

Definition valid_choice (uk : list Z) (v : option dyadic) : bool :=
  match v with
  | Some d => match dy_is_int d with Some z => mem_Z z uk | None => false end
  | None => false
  end.

(* np.argwhere(~correct).any(): true iff some offending row has a non-zero index (row 0 alone is
   not seen by this test -- it is caught by the availability check below when the keys agree) *)
Fixpoint any_bad_from (i : nat) (uk : list Z) (vs : list (option dyadic)) : bool :=
  match vs with
  | [] => false
  | v :: r => (negb (valid_choice uk v) && negb (Nat.eqb i 0)) || any_bad_from (S i) uk r
  end.

Definition logit_errors (db : database) (uk ak : list Z) (kids : list expr) : list error :=
  let consistent := same_keys uk ak in
  (if consistent then [] else [ELogitKeys]) ++
  match kids with
  | c :: _ =>
      match choice_values db c with
      | Some vs =>
          (if any_bad_from 0 uk vs then [ELogitChoice] else []) ++
          (if consistent && negb (forallb (valid_choice uk) vs) then [ELogitChoiceNotInAv] else [])
      | None => []
      end
  | [] => []
  end.

(* ------------------------------------------------------------------ own rules of each kind *)
Definition own_errors (T : table) (db : database) (h : head) (kids : list expr) : list error :=
  match h, kids with
  | HVar x, _ =>
      match t_audit T h with
      | AVarRule => if mem_str x (d_cols db) then [] else [EMissingColumn x]
      | _ => []
      end
  | HUn MonteCarlo, c :: _ =>
      (if d_panel db && negb (embeds is_traj c) then [EMcPanelNoTraj] else []) ++
      (if embeds is_draws c then [] else [EMcNoDraws]) ++
      (if embeds is_mc c then [EMcNested] else [])
  | HUn PanelTraj, _ => if d_panel db then [] else [ETrajNotPanel]
  | HIntegrate _, c :: _ => if embeds is_rv c then [] else [EIntNoRV]
  | HLogLogit uk ak, _ => logit_errors db uk ak kids
  | _, _ => []
  end.

(* ------------------------------------------------------------------ audit *)
Fixpoint audit (T : table) (db : database) (e : expr) {struct e} : list error :=
  match e with
  | Node h kids =>
      (match t_audit T h with
       | AAll | AChildren | ADelegate => flat_map (audit T db) kids
       | AChild => match kids with k :: _ => audit T db k | [] => [] end
       | AVarRule | ANone => []
       end) ++ own_errors T db h kids
  end.

(* ------------------------------------------------------------------ the three collections *)
Definition name_of_head (h : head) : option string :=
  match h with
  | HBeta n _ | HVar n | HDraws n _ | HRV n => Some n
  | _ => None
  end.

Fixpoint collect_names (mode : head -> smode) (e : expr) {struct e} : list string :=
  match e with
  | Node h kids =>
      match mode h with
      | SAll | SDelegate => flat_map (collect_names mode) kids
      | SSelf => match name_of_head h with Some n => [n] | None => [] end
      | SBlock => []
      end
  end.

Definition check_draws (T : table) := collect_names (t_draws T).
Definition check_rv (T : table) := collect_names (t_rv T).
Definition check_panel (T : table) := collect_names (t_panel T).

(* ------------------------------------------------------------------ one draw name, one distribution *)
(* IdManager.prepare: the declarations (name, type) of the draws of the formulas it manages; each must
   agree with the declaration kept for its name.  The check is made against the declarations of ALL the
   formulas of the manager (ScopeAll) -- or, if it were made formula by formula, of its own (ScopeOwn). *)
Inductive dscope := ScopeAll | ScopeOwn.

Definition draw_decls (e : expr) : list (string * string) :=
  flat_map (fun s => match hd_of s with HDraws n t => [(n, t)] | _ => [] end) (subterms e).

Definition decl_clashes (d : string * string) (l : list (string * string)) : bool :=
  existsb (fun d' => String.eqb (fst d) (fst d') && negb (String.eqb (snd d) (snd d'))) l.

(* the names declared with two types in the list of declarations *)
Definition clashing_names (l : list (string * string)) : list string :=
  map fst (filter (fun d => decl_clashes d l) l).

Definition draw_type_errors (sc : dscope) (fs : list expr) : list error :=
  match sc with
  | ScopeAll => map EDrawTypes (clashing_names (flat_map draw_decls fs))
  | ScopeOwn => flat_map (fun f => map EDrawTypes (clashing_names (draw_decls f))) fs
  end.

(* IdManager(formulas, database, number_of_draws) *)
Definition idmanager_errors (sc : dscope) (fs : list expr) (cols : list string) : list error :=
  draw_type_errors sc fs ++ (match prepare fs cols with None => [EDuplicate] | Some _ => [] end).

(* ------------------------------------------------------------------ what the entry points refuse *)
(* BIOGEME(database, formula): IdManager (duplicates), _audit (draws, random variables, audit),
   the panel rule of the constructor *)
Definition spec_errors (T : table) (db : database) (e : expr) : list error :=
  idmanager_errors ScopeAll [e] (d_cols db) ++
  map EDrawsOutside (check_draws T e) ++
  map ERvOutside (check_rv T e) ++
  (if d_panel db then map EVarOutsideTraj (check_panel T e) else []) ++
  audit T db e.

(* BIOGEME(database, {'log_like': formula, ...}): the panel rule of the constructor sits in the branch
   "formulas is an Expression" only; it is not applied to formulas given in a dictionary *)
Definition spec_errors_dict (T : table) (db : database) (e : expr) : list error :=
  idmanager_errors ScopeAll [e] (d_cols db) ++
  map EDrawsOutside (check_draws T e) ++
  map ERvOutside (check_rv T e) ++
  audit T db e.

(* Expression.get_value_and_derivatives(gradient, hessian, bhhh) *)
Definition request_errors (gradient hessian bhhh : bool) : list error :=
  if (hessian || bhhh) && negb gradient then [EHessianNoGradient] else [].

(* BIOGEME._audit on a specification with several formulas ({'log_like': ..., 'weight': ..., ...}): for each
   formula the two placement rules and the audit; the lists are accumulated over the formulas (AccAll) --
   or, if the list were re-assigned inside the loop, only the last formula's survives (AccLast) *)
Inductive accmode := AccAll | AccLast.

Definition formula_errors (T : table) (db : database) (e : expr) : list error :=
  map EDrawsOutside (check_draws T e) ++ map ERvOutside (check_rv T e) ++ audit T db e.

Definition biogeme_audit_errors (m : accmode) (T : table) (db : database) (fs : list expr) : list error :=
  match m with
  | AccAll => flat_map (formula_errors T db) fs
  | AccLast => match rev fs with [] => [] | e :: _ => formula_errors T db e end
  end.

(* BIOGEME(database, {name: formula, ...}): one IdManager for all the formulas, then _audit *)
Definition spec_errors_multi (sc : dscope) (m : accmode) (T : table) (db : database) (fs : list expr) : list error :=
  idmanager_errors sc fs (d_cols db) ++ biogeme_audit_errors m T db fs.

(* Expression.get_value_c / get_value_and_derivatives(database, prepare_ids=True, gradient, hessian, bhhh):
   prepare (duplicates), audit, the two placement rules, the request *)
Definition eval_errors (T : table) (db : database) (e : expr) (gradient hessian bhhh : bool) : list error :=
  idmanager_errors ScopeAll [e] (d_cols db) ++
  audit T db e ++
  map EDrawsOutside (check_draws T e) ++
  map ERvOutside (check_rv T e) ++
  request_errors gradient hessian bhhh.

(* ------------------------------------------------------------------ Database._audit *)
Inductive dtype := DFloat | DInt | DComplex | DBool | DObject | DDatetime | DTimedelta | DExtension.

(* np.issubdtype(dtype, np.number) and not timedelta; extension types are not numpy types *)
Definition numeric_dtype (t : dtype) : bool :=
  match t with DFloat | DInt | DComplex => true | _ => false end.

Record frame := mkFrame {
  f_cols : list (string * dtype);
  f_nrows : nat;
  f_has_null : bool            (* data.isnull().values.any() *)
}.

Definition data_audit (f : frame) : list error :=
  map (fun c => ENonNumeric (fst c)) (filter (fun c => negb (numeric_dtype (snd c))) (f_cols f)) ++
  (if f_has_null f then [ENaN] else []) ++
  (if Nat.eqb (f_nrows f) 0 then [ENoEntry] else []).

(* ------------------------------------------------------------------ nests *)
Record nests := mkNests { n_choice_set : list Z; n_alts : list (list Z) }.

Definition nests_union (ns : nests) : list Z := List.concat (n_alts ns).

(* Nests.__init__: alternatives of a nest that are not in the choice set *)
Definition nests_invalid (ns : nests) : list Z :=
  filter (fun a => negb (mem_Z a (n_choice_set ns))) (nests_union ns).

Definition nests_alone (ns : nests) : list Z :=
  filter (fun a => negb (mem_Z a (nests_union ns))) (n_choice_set ns).

Definition intersects (a b : list Z) : bool := existsb (fun x => mem_Z x b) a.

(* check_intersection: for i, nest; for j, other; i <> j and a common alternative *)
Fixpoint overlap_with (a : list Z) (i : nat) (j : nat) (l : list (list Z)) : bool :=
  match l with
  | [] => false
  | b :: r => (negb (Nat.eqb i j) && intersects a b) || overlap_with a i (S j) r
  end.
Fixpoint any_overlap_from (alone : list Z) (i : nat) (all l : list (list Z)) : bool :=
  match l with
  | [] => false
  | a :: r => intersects a alone || overlap_with a i 0 all || any_overlap_from alone (S i) all r
  end.
Definition nests_overlap (ns : nests) : bool :=
  any_overlap_from (nests_alone ns) 0 (n_alts ns) (n_alts ns).

(* check_union: the union of the nests and of the alternatives alone is the choice set *)
Definition union_ok (ns : nests) : bool :=
  let u := nests_union ns ++ nests_alone ns in
  forallb (fun a => mem_Z a (n_choice_set ns)) u && forallb (fun a => mem_Z a u) (n_choice_set ns).

(* a nest that lists an alternative more than once: len(set(l)) != len(l) *)
Fixpoint nodupZb (l : list Z) : bool :=
  match l with
  | [] => true
  | x :: r => negb (mem_Z x r) && nodupZb r
  end.
Definition nests_repeat (ns : nests) : bool := existsb (fun a => negb (nodupZb a)) (n_alts ns).

(* models.lognested & co: NestsForNestedLogit(...) then check_partition (check_union and check_intersection,
   which also refuses a nest with a repeated alternative) *)
Definition nested_ok (ns : nests) : bool :=
  match nests_invalid ns with
  | [] => union_ok ns && negb (nests_repeat ns) && negb (nests_overlap ns)
  | _ => false
  end.
(* models.logcnl & co: NestsForCrossNestedLogit(...) then check_validity (its flag is check_union) *)
Definition cnl_ok (ns : nests) : bool :=
  match nests_invalid ns with
  | [] => union_ok ns
  | _ => false
  end.

(* ------------------------------------------------------------------ one-hole contexts *)
(* a path from the root: at each step the kind of the node, the siblings on the left and on the
   right of the child that contains the hole *)
Definition cframe : Type := (head * list expr * list expr)%type.
Definition ctx := list cframe.

Fixpoint plug (C : ctx) (e : expr) : expr :=
  match C with
  | [] => e
  | (h, l, r) :: C' => Node h (l ++ plug C' e :: r)
  end.

Definition frame_head (f : cframe) : head := fst (fst f).
Definition frame_left (f : cframe) : list expr := snd (fst f).

(* the audit of a node of kind h reaches the child in slot i *)
Definition audit_reaches (T : table) (f : cframe) : bool :=
  match t_audit T (frame_head f) with
  | AAll | AChildren | ADelegate => true
  | AChild => Nat.eqb (List.length (frame_left f)) 0
  | AVarRule | ANone => false
  end.

Definition passes_under (p : head -> bool) (C : ctx) : bool := existsb (fun f => p (frame_head f)) C.

(* arities of the well-formed nodes *)
Definition arity_ok (h : head) (n : nat) : bool :=
  match h with
  | HNum _ | HBeta _ _ | HVar _ | HDraws _ _ | HRV _ => Nat.eqb n 0
  | HBin _ => Nat.eqb n 2
  | HUn _ | HPowC _ | HDerive _ | HIntegrate _ | HBelongs _ => Nat.eqb n 1
  | HMultSum => negb (Nat.eqb n 0)
  | HCondSum | HLinUtil => negb (Nat.eqb n 0) && Nat.even n
  | HElem keys => Nat.eqb n (S (List.length keys))
  | HLogLogit uk ak => Nat.eqb n (S (List.length uk + List.length ak))
  end.
Definition frame_wf (f : cframe) : bool :=
  let '(h, l, r) := f in arity_ok h (List.length l + S (List.length r)).
Definition ctx_wf (C : ctx) : bool := forallb frame_wf C.

(* ------------------------------------------------------------------ requirements on a table *)
(* every kind that can have children lets the audit reach each of them (unary kinds may use
   self.child: their only child) *)
Definition kind_recurses (T : table) (h : head) : bool :=
  match t_audit T h with
  | AAll | AChildren | ADelegate => true
  | AChild => match h with
              | HUn _ | HPowC _ | HDerive _ | HIntegrate _ | HBelongs _ => true
              | _ => false
              end
  | AVarRule => match h with HVar _ => true | _ => false end
  | ANone => match h with HNum _ | HBeta _ _ | HDraws _ _ | HRV _ => true | _ => false end
  end.

(* the collection of kind k: exactly the leaf `leaf` answers its name, exactly the operator
   `block` answers the empty set, every other kind takes the union over its children *)
Definition collection_ok (mode : head -> smode) (leaf block : head -> bool) (h : head) : bool :=
  if leaf h then smode_eqb (mode h) SSelf
  else if block h then smode_eqb (mode h) SBlock
  else match mode h with SAll | SDelegate => true | _ => false end.

Definition is_var (h : head) : bool := match h with HVar _ => true | _ => false end.

Definition head_ok (T : table) (h : head) : bool :=
  kind_recurses T h &&
  (if is_var h then amode_eqb (t_audit T h) AVarRule else true) &&
  collection_ok (t_draws T) is_draws is_mc h &&
  collection_ok (t_rv T) is_rv is_integrate h &&
  collection_ok (t_panel T) is_var is_traj h &&
  kmode_eqb (t_kids T h) KOwn.

(* one representative per constructor and operator: the tables are constant in the payloads *)
Definition all_binops := [Plus; Minus; Times; Divide; Power; BMin; BMax; And; Or; Eq; Ne; Le; Ge; Lt; Gt].
Definition all_unops := [UMinus; Exp; Log; Logzero; Sin; Cos; NormalCdf; MonteCarlo; PanelTraj].
Definition transparent_row : Type := (amode * smode * smode * smode * kmode)%type.
Definition transparent_ok (r : transparent_row) : bool :=
  let '(a, d, v, p, k) := r in
  amode_eqb a ADelegate && smode_eqb d SDelegate && smode_eqb v SDelegate && smode_eqb p SDelegate
  && kmode_eqb k KDelegate.
