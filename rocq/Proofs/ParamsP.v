(* Proofs about the parameter-file round trip: the GENERATED parse_boolean / encode_value /
   decode_value (Gen/Params.v) inside the dictionary / document model of Model/Params.v. *)
From Coq Require Import ZArith List String Ascii Bool Lia.
From BV Require Import Model.PyBase Model.Params Gen.Params.
Open Scope Z_scope.

(* --------------------------------------------------------------------- parse_boolean *)
Lemma str_in_In x l : str_in x l = true <-> In x l.
Proof.
  unfold str_in. rewrite existsb_exists. split.
  - intros (y & Hy & E). apply String.eqb_eq in E. subst. exact Hy.
  - intros H. exists x. split; [exact H|apply String.eqb_refl].
Qed.

Lemma str_in_false x l : str_in x l = false <-> ~ In x l.
Proof. rewrite <- str_in_In. destruct (str_in x l); split; congruence. Qed.

(* the two spelling lists of the source are disjoint (decided on the generated lists) *)
Lemma spellings_disjoint : forall s, In s TRUE_STR -> In s FALSE_STR -> False.
Proof.
  assert (H : forallb (fun s => negb (str_in s FALSE_STR)) TRUE_STR = true) by (vm_compute; reflexivity).
  rewrite forallb_forall in H. intros s Ht Hf. specialize (H s Ht).
  apply str_in_In in Hf. rewrite Hf in H. discriminate.
Qed.

Lemma parse_boolean_true s : In s TRUE_STR -> parse_boolean s = Some true.
Proof. intros H. unfold parse_boolean. apply str_in_In in H. rewrite H. reflexivity. Qed.

Lemma parse_boolean_false s : In s FALSE_STR -> parse_boolean s = Some false.
Proof.
  intros H. unfold parse_boolean.
  assert (Hn : str_in s TRUE_STR = false).
  { apply str_in_false. intros Ht. exact (spellings_disjoint s Ht H). }
  rewrite Hn. apply str_in_In in H. rewrite H. reflexivity.
Qed.

(* every accepted spelling maps to the right boolean, and nothing else is accepted *)
Theorem parse_boolean_spec s b :
  parse_boolean s = Some b <-> In s (if b then TRUE_STR else FALSE_STR).
Proof.
  split.
  - unfold parse_boolean. destruct (str_in s TRUE_STR) eqn:Et.
    + intros [= <-]. apply str_in_In. exact Et.
    + destruct (str_in s FALSE_STR) eqn:Ef; [|discriminate].
      intros [= <-]. apply str_in_In. exact Ef.
  - destruct b; [apply parse_boolean_true|apply parse_boolean_false].
Qed.

Theorem parse_boolean_rejects s :
  parse_boolean s = None <-> ~ In s TRUE_STR /\ ~ In s FALSE_STR.
Proof.
  unfold parse_boolean. rewrite <- !str_in_false.
  destruct (str_in s TRUE_STR), (str_in s FALSE_STR); split; try discriminate; try tauto;
    intros [H1 H2]; discriminate.
Qed.

(* the coding written by generate_document is read back by parse_boolean *)
Theorem parse_boolean_code b :
  exists s, encode_value (PBool b) = TStr s /\ parse_boolean s = Some b.
Proof. destruct b; eexists; split; try reflexivity; vm_compute; reflexivity. Qed.

(* one value through generate_document's coding and import_document's decoding *)
Theorem value_roundtrip ty dv v :
  pvalue_is_bool v = ptype_is_bool ty ->
  decode_value ty dv (Some (encode_value v)) = Some v.
Proof.
  destruct v as [b|z|f|s]; destruct ty; simpl; try discriminate; intros _; try reflexivity.
  destruct b; vm_compute; reflexivity.
Qed.

(* what the well-typedness hypothesis excludes, faithfully: a Python bool stored in a parameter
   whose declared type is not bool is written as the string 'True'/'False' and comes back as
   that string *)
Theorem value_roundtrip_illtyped_refuted :
  exists ty dv v, decode_value ty dv (Some (encode_value v)) <> Some v.
Proof. exists TyInt, (PInt 0), (PBool true). vm_compute. discriminate. Qed.

(* ----------------------------------------------------------------------- dictionaries *)
Lemma key_eqb_eq a b : key_eqb a b = true <-> a = b.
Proof.
  destruct a as [a1 a2], b as [b1 b2]. unfold key_eqb. simpl.
  rewrite andb_true_iff, !String.eqb_eq. split; [intros [-> ->]; reflexivity|intros [= -> ->]; auto].
Qed.

Lemma key_eqb_refl a : key_eqb a a = true.
Proof. apply key_eqb_eq. reflexivity. Qed.

Lemma key_eqb_neq a b : key_eqb a b = false <-> a <> b.
Proof. rewrite <- key_eqb_eq. destruct (key_eqb a b); split; congruence. Qed.

Lemma dict_get_Some d k p : dict_get d k = Some p -> In p d /\ pkey p = k.
Proof.
  induction d as [|q r IH]; simpl; [discriminate|].
  destruct (key_eqb k (pkey q)) eqn:E.
  - intros [= <-]. apply key_eqb_eq in E. split; [now left|congruence].
  - intros H. destruct (IH H). split; [now right|assumption].
Qed.

Lemma dict_get_None d k : dict_get d k = None <-> ~ In k (map pkey d).
Proof.
  induction d as [|q r IH]; simpl; [tauto|].
  destruct (key_eqb k (pkey q)) eqn:E.
  - apply key_eqb_eq in E. split; [discriminate|]. intros H. exfalso. apply H. left. congruence.
  - apply key_eqb_neq in E. rewrite IH. split.
    + intros H [H1|H1]; [congruence|auto].
    + intros H H1. apply H. now right.
Qed.

Lemma dict_get_In d k : In k (map pkey d) -> exists p, dict_get d k = Some p.
Proof.
  intros H. destruct (dict_get d k) eqn:E; [eauto|]. apply dict_get_None in E. contradiction.
Qed.

Lemma dict_get_NoDup d p : NoDup (map pkey d) -> In p d -> dict_get d (pkey p) = Some p.
Proof.
  induction d as [|q r IH]; simpl; [tauto|]. intros Hnd [->|Hin].
  - rewrite key_eqb_refl. reflexivity.
  - inversion Hnd as [|? ? Hq Hr]; subst.
    destruct (key_eqb (pkey p) (pkey q)) eqn:E.
    + apply key_eqb_eq in E. exfalso. apply Hq. rewrite <- E. apply in_map. exact Hin.
    + apply IH; assumption.
Qed.

Lemma dict_set_get_same d q : dict_get (dict_set d q) (pkey q) = Some q.
Proof.
  induction d as [|p r IH]; simpl.
  - rewrite key_eqb_refl. reflexivity.
  - destruct (key_eqb (pkey q) (pkey p)) eqn:E; simpl.
    + rewrite key_eqb_refl. reflexivity.
    + rewrite E. exact IH.
Qed.

Lemma dict_set_get_other d q k : k <> pkey q -> dict_get (dict_set d q) k = dict_get d k.
Proof.
  intros Hne. induction d as [|p r IH]; simpl.
  - apply key_eqb_neq in Hne. rewrite Hne. reflexivity.
  - destruct (key_eqb (pkey q) (pkey p)) eqn:E; simpl.
    + apply key_eqb_eq in E. rewrite <- E. apply key_eqb_neq in Hne. rewrite Hne. reflexivity.
    + destruct (key_eqb k (pkey p)); [reflexivity|exact IH].
Qed.

Lemma dict_set_keys d q : In (pkey q) (map pkey d) -> map pkey (dict_set d q) = map pkey d.
Proof.
  induction d as [|p r IH]; simpl; [tauto|].
  destruct (key_eqb (pkey q) (pkey p)) eqn:E; simpl.
  - apply key_eqb_eq in E. intros _. congruence.
  - apply key_eqb_neq in E. intros [H|H]; [congruence|]. rewrite IH by exact H. reflexivity.
Qed.

(* ----------------------------------------------------------------- document round trip *)
Definition gen_doc := generate_document encode_value.
Definition imp_doc := import_document decode_value.

(* [same_schema d defaults]: d holds the same keys in the same order as defaults and, key by key,
   the same declared type and the same checks (what set_value / add_parameter preserve) *)
Definition same_schema (d defaults : pdict) : Prop :=
  map pkey d = map pkey defaults /\
  forall k p q, dict_get d k = Some p -> dict_get defaults k = Some q ->
                p_type p = p_type q /\ forall v, p_check p v = p_check q v.

Lemma same_schema_refl d : same_schema d d.
Proof. split; [reflexivity|]. intros k p q H1 H2. rewrite H1 in H2. injection H2 as ->. auto. Qed.

Lemma import_invariant (ps defaults : pdict) :
  NoDup (map pkey defaults) ->
  same_schema ps defaults ->
  Forall admissible ps ->
  forall (doc : tdoc) (d : pdict),
    NoDup (map fst doc) ->
    (forall k tv, In (k, tv) doc -> In (k, tv) (gen_doc ps)) ->
    same_schema d defaults ->
    exists d', imp_doc doc d = Some d' /\ same_schema d' defaults /\
      (forall k, In k (map fst doc) ->
         option_map p_value (dict_get d' k) = option_map p_value (dict_get ps k)) /\
      (forall k, ~ In k (map fst doc) -> dict_get d' k = dict_get d k).
Proof.
  intros Hnd [Hpk Hpt] Hadm.
  assert (Hndps : NoDup (map pkey ps)) by (rewrite Hpk; exact Hnd).
  induction doc as [|[k tv] rest IH]; intros d Hnddoc Hdoc [Hdk Hdt].
  - exists d. split; [reflexivity|]. split; [split; assumption|]. split; [intros k []|auto].
  - simpl in Hnddoc. inversion Hnddoc as [|? ? Hk Hrest]; subst.
    (* the entry comes from a parameter p of ps *)
    assert (Hin : In (k, tv) (gen_doc ps)) by (apply Hdoc; now left).
    unfold gen_doc, generate_document in Hin. apply in_map_iff in Hin.
    destruct Hin as (p & Hp & Hpin). injection Hp as Hkp Htv.
    assert (Hgp : dict_get ps k = Some p) by (rewrite <- Hkp; apply dict_get_NoDup; assumption).
    assert (Hkd : In k (map pkey d)).
    { rewrite Hdk, <- Hpk, <- Hkp. apply in_map. exact Hpin. }
    destruct (dict_get_In d k Hkd) as (dflt & Hgd).
    assert (Hkdef : In k (map pkey defaults)) by (rewrite <- Hdk; exact Hkd).
    destruct (dict_get_In defaults k Hkdef) as (q & Hgq).
    destruct (Hdt k dflt q Hgd Hgq) as (Hty1 & Hck1).
    destruct (Hpt k p q Hgp Hgq) as (Hty2 & Hck2).
    rewrite Forall_forall in Hadm. destruct (Hadm p Hpin) as (Hwt & Hchk).
    cbn [imp_doc import_document]. rewrite Hgd.
    rewrite <- Htv, value_roundtrip by (unfold well_typed in Hwt; rewrite Hwt; congruence).
    unfold add_parameter. cbn [p_check p_value].
    rewrite Hck1, <- Hck2, Hchk.
    set (newp := mkParam (fst k) (snd k) (p_type dflt) (p_value p) (p_check dflt)).
    assert (Hknew : pkey newp = k) by (destruct k; reflexivity).
    pose proof (dict_set_get_same d newp) as Hsame. rewrite Hknew in Hsame.
    destruct (IH (dict_set d newp)) as (d' & Hrun & Hsch & Hval & Hother).
    + exact Hrest.
    + intros k' tv' H. apply Hdoc. now right.
    + split.
      * rewrite dict_set_keys by (rewrite Hknew; exact Hkd). exact Hdk.
      * intros k' p' q' H1 H2.
        destruct (key_eqb k' k) eqn:E.
        -- apply key_eqb_eq in E. subst k'. rewrite Hsame in H1. injection H1 as <-. rewrite Hgq in H2. injection H2 as <-.
           cbn [newp p_type p_check]. split; assumption.
        -- apply key_eqb_neq in E. rewrite dict_set_get_other in H1 by (rewrite Hknew; exact E).
           eapply Hdt; eassumption.
    + exists d'. split; [exact Hrun|]. split; [exact Hsch|]. split.
      * intros k' [Hk'|Hk']; cbn [fst] in Hk'.
        -- subst k'. rewrite Hother by exact Hk. rewrite Hsame, Hgp. reflexivity.
        -- apply Hval. exact Hk'.
      * intros k' Hn. rewrite Hother by (intros H; apply Hn; now right).
        apply dict_set_get_other. rewrite Hknew. intros ->. apply Hn. now left.
Qed.

Section RoundTrip.
  (* tomlkit: the document that `parse(dumps(doc))` yields, as the sequence of entries visited by
     import_document's two loops.  ASSUMED (external library): the same entries with the same
     values (integers, floats bit-for-bit, strings), each key once; the order is arbitrary. *)
  Variable tk : tdoc -> tdoc.
  Hypothesis tk_entries : forall doc k tv, In (k, tv) (tk doc) <-> In (k, tv) doc.
  Hypothesis tk_nodup : forall doc, NoDup (map fst doc) -> NoDup (map fst (tk doc)).

  (* T14d.  A parameter set ps (obtained from the defaults by admissible assignments) dumped with
     generate_document + tomlkit and read into a fresh dictionary `defaults` by import_document:
     the import succeeds and every parameter has the value it had in ps. *)
  Theorem toml_roundtrip (ps defaults : pdict) :
    NoDup (map pkey defaults) ->
    same_schema ps defaults ->
    Forall admissible ps ->
    exists d', imp_doc (tk (gen_doc ps)) defaults = Some d' /\
      same_schema d' defaults /\
      forall k, option_map p_value (dict_get d' k) = option_map p_value (dict_get ps k).
  Proof.
    intros Hnd Hsch Hadm.
    assert (Hkeys : map fst (gen_doc ps) = map pkey ps).
    { unfold gen_doc, generate_document. rewrite map_map. reflexivity. }
    destruct (import_invariant ps defaults Hnd Hsch Hadm (tk (gen_doc ps)) defaults)
      as (d' & Hrun & Hs' & Hval & Hother).
    - apply tk_nodup. rewrite Hkeys. destruct Hsch as [-> _]. exact Hnd.
    - intros k tv H. apply tk_entries. exact H.
    - apply same_schema_refl.
    - exists d'. split; [exact Hrun|]. split; [exact Hs'|].
      intros k. destruct (dict_get ps k) as [p|] eqn:Hg.
      + rewrite <- Hg. apply Hval.
        apply dict_get_Some in Hg. destruct Hg as (Hpin & Hkp).
        apply in_map_iff. exists (k, encode_value (p_value p)). split; [reflexivity|].
        apply tk_entries. unfold gen_doc, generate_document. apply in_map_iff.
        exists p. split; [rewrite Hkp; reflexivity|exact Hpin].
      + (* k is not a key of ps: absent on both sides *)
        assert (Hnps : ~ In k (map pkey ps)) by (apply dict_get_None; exact Hg).
        assert (H2 : dict_get d' k = None).
        { apply dict_get_None. destruct Hs' as [-> _]. destruct Hsch as [<- _]. exact Hnps. }
        rewrite H2. reflexivity.
  Qed.
End RoundTrip.

(* ------------------------------------------------------------- histories on ONE object *)
(* dump_file (as generated from the source) always stores and writes the freshly generated
   document, whatever document the object held before *)
Lemma dump_file_regenerates doc g : dump_file_document doc g = Some g.
Proof. reflexivity. Qed.

Definition o_run := obj_run encode_value decode_value dump_file_document.
Definition o_step := obj_step encode_value decode_value dump_file_document.

(* storing, under an existing key, a tuple with the type and checks of the tuple found there
   keeps the schema *)
Lemma dict_set_schema (d defaults : pdict) k dflt v :
  same_schema d defaults -> dict_get d k = Some dflt ->
  same_schema (dict_set d (mkParam (fst k) (snd k) (p_type dflt) v (p_check dflt))) defaults.
Proof.
  intros [Hk Ht] Hg.
  set (newp := mkParam (fst k) (snd k) (p_type dflt) v (p_check dflt)).
  assert (Hknew : pkey newp = k) by (destruct k; reflexivity).
  pose proof (dict_set_get_same d newp) as Hsame. rewrite Hknew in Hsame.
  assert (Hin : In k (map pkey d)).
  { destruct (dict_get_Some _ _ _ Hg) as (Hi & Hp). rewrite <- Hp. apply in_map. exact Hi. }
  split.
  - rewrite dict_set_keys by (rewrite Hknew; exact Hin). exact Hk.
  - intros k' p' q' H1 H2. destruct (key_eqb k' k) eqn:E.
    + apply key_eqb_eq in E. subst k'. rewrite Hsame in H1. injection H1 as <-.
      cbn [newp p_type p_check]. eapply Ht; eassumption.
    + apply key_eqb_neq in E. rewrite dict_set_get_other in H1 by (rewrite Hknew; exact E).
      eapply Ht; eassumption.
Qed.

Lemma import_schema defaults : forall (doc : tdoc) (d d' : pdict),
  same_schema d defaults -> imp_doc doc d = Some d' -> same_schema d' defaults.
Proof.
  induction doc as [|[k tv] rest IH]; intros d d' Hs Hrun.
  - injection Hrun as <-. exact Hs.
  - cbn [imp_doc import_document] in Hrun.
    destruct (dict_get d k) as [dflt|] eqn:Hg; [|eapply IH; eassumption].
    destruct (decode_value (p_type dflt) (p_value dflt) (Some tv)) as [v|]; [|discriminate].
    unfold add_parameter in Hrun. cbn [p_check p_value] in Hrun.
    destruct (p_check dflt v); [|discriminate].
    eapply IH; [|exact Hrun]. apply dict_set_schema; assumption.
Qed.

Lemma step_schema defaults o op o' out :
  same_schema (o_dict o) defaults -> o_step o op = Some (o', out) ->
  same_schema (o_dict o') defaults /\
  forall f d, In (f, d) out -> f = gen_doc d /\ same_schema d defaults.
Proof.
  intros Hs Hstep. destruct op as [k v| |[doc|]]; cbn in Hstep.
  - unfold obj_set in Hstep. destruct (dict_get (o_dict o) k) as [p|] eqn:Hg; [|discriminate].
    unfold add_parameter in Hstep. cbn [p_check p_value] in Hstep.
    destruct (p_check p v); [|discriminate]. cbn in Hstep. injection Hstep as <- <-.
    split; [|intros f d []]. cbn [o_dict].
    destruct (dict_get_Some _ _ _ Hg) as (_ & Hp).
    replace (p_name p) with (fst k) by (rewrite <- Hp; reflexivity).
    replace (p_section p) with (snd k) by (rewrite <- Hp; reflexivity).
    apply dict_set_schema; assumption.
  - injection Hstep as <- <-. split; [exact Hs|].
    intros f d [H|[]]. injection H as <- <-. split; [reflexivity|exact Hs].
  - destruct (import_document decode_value doc (o_dict o)) as [d1|] eqn:Hi; [|discriminate].
    cbn in Hstep. injection Hstep as <- <-. split; [|intros f d []].
    cbn [o_dict]. eapply import_schema; eassumption.
  - injection Hstep as <- <-. split; [exact Hs|].
    intros f d [H|[]]. injection H as <- <-. split; [reflexivity|exact Hs].
Qed.

(* every file written at any moment of any history on one object is the document generated from
   the dictionary the object held at that moment (and that dictionary has the default schema) *)
Lemma run_outputs defaults : forall ops o o' out,
  same_schema (o_dict o) defaults -> o_run ops o = Some (o', out) ->
  forall f d, In (f, d) out -> f = gen_doc d /\ same_schema d defaults.
Proof.
  induction ops as [|op rest IH]; intros o o' out Hs Hrun f d Hin.
  - injection Hrun as <- <-. destruct Hin.
  - cbn [o_run obj_run] in Hrun. fold o_step in Hrun.
    destruct (o_step o op) as [[o1 out1]|] eqn:Hstep; [|discriminate].
    destruct (step_schema defaults o op o1 out1 Hs Hstep) as (Hs1 & Hout1).
    change (obj_run encode_value decode_value dump_file_document rest o1) with (o_run rest o1) in Hrun.
    destruct (o_run rest o1) as [[o2 out2]|] eqn:Hr; [|discriminate].
    injection Hrun as <- <-. apply in_app_iff in Hin. destruct Hin as [Hin|Hin].
    + apply Hout1. exact Hin.
    + eapply IH; eassumption.
Qed.

Section HistoryRoundTrip.
  Variable tk : tdoc -> tdoc.
  Hypothesis tk_entries : forall doc k tv, In (k, tv) (tk doc) <-> In (k, tv) doc.
  Hypothesis tk_nodup : forall doc, NoDup (map fst doc) -> NoDup (map fst (tk doc)).

  (* T14d (histories).  Whatever was done before on the SAME Parameters object (files read --
     existing or missing --, values set, earlier dumps), every file written by dump_file, read by
     a fresh object, gives every parameter the value the dumping object held at that moment. *)
  Theorem toml_history_roundtrip (defaults : pdict) (ops : list pop) o' out :
    NoDup (map pkey defaults) ->
    o_run ops (mkObj defaults None) = Some (o', out) ->
    forall f d, In (f, d) out -> Forall admissible d ->
      exists d', imp_doc (tk f) defaults = Some d' /\
        forall k, option_map p_value (dict_get d' k) = option_map p_value (dict_get d k).
  Proof.
    intros Hnd Hrun f d Hin Hadm.
    destruct (run_outputs defaults ops (mkObj defaults None) o' out (same_schema_refl defaults) Hrun f d Hin)
      as (-> & Hs).
    destruct (toml_roundtrip tk tk_entries tk_nodup d defaults Hnd Hs Hadm) as (d' & H1 & _ & H2).
    exists d'. split; assumption.
  Qed.
End HistoryRoundTrip.
