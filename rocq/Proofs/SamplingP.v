(* C19 -- lemmas about Model/Sampling.v and Gen/SamplingFormulas.v *)
From Coq Require Import ZArith List String Bool Lia ZifyBool Reals Lra Permutation.
From BV Require Import Model.PyBase Proofs.PyBaseP Model.Sampling Gen.SamplingFormulas.
Import ListNotations.
Open Scope Z_scope.

(* ================================================================== basic list facts *)
Lemma memZ_In x l : memZ x l = true <-> In x l.
Proof.
  unfold memZ. rewrite existsb_exists. split.
  - intros (y & Hy & E). apply Z.eqb_eq in E. subst. exact Hy.
  - intros H. exists x. split; [exact H | apply Z.eqb_refl].
Qed.

Lemma memZ_false x l : memZ x l = false <-> ~ In x l.
Proof. rewrite <- memZ_In. destruct (memZ x l); split; congruence. Qed.

Lemma mem_s_In x l : mem_s x l = true <-> In x l.
Proof.
  unfold mem_s. rewrite existsb_exists. split.
  - intros (y & Hy & E). apply String.eqb_eq in E. subst. exact Hy.
  - intros H. exists x. split; [exact H | apply String.eqb_refl].
Qed.

Lemma mem_s_false x l : mem_s x l = false <-> ~ In x l.
Proof. rewrite <- mem_s_In. destruct (mem_s x l); split; congruence. Qed.

Lemma nodupb_NoDup l : nodupb l = true <-> NoDup l.
Proof.
  induction l as [|x r IH]; simpl.
  - split; [constructor | reflexivity].
  - rewrite andb_true_iff, negb_true_iff, memZ_false, IH. split.
    + intros [H1 H2]. constructor; assumption.
    + intros H. inversion H; subst. split; assumption.
Qed.

Lemma nodup_sb_NoDup l : nodup_sb l = true <-> NoDup l.
Proof.
  induction l as [|x r IH]; simpl.
  - split; [constructor | reflexivity].
  - rewrite andb_true_iff, negb_true_iff, mem_s_false, IH. split.
    + intros [H1 H2]. constructor; assumption.
    + intros H. inversion H; subst. split; assumption.
Qed.

Lemma removeZ_In x l y : In y (removeZ x l) <-> In y l /\ y <> x.
Proof.
  unfold removeZ. rewrite filter_In, negb_true_iff, Z.eqb_neq. tauto.
Qed.

Lemma removeZ_NoDup x l : NoDup l -> NoDup (removeZ x l).
Proof. apply NoDup_filter. Qed.

Lemma removeZ_notin x l : ~ In x l -> removeZ x l = l.
Proof.
  induction l as [|a r IH]; simpl; intros H; [reflexivity|].
  destruct (Z.eqb_spec a x) as [->|Hne]; simpl.
  - exfalso. apply H. now left.
  - f_equal. apply IH. intros Hin. apply H. now right.
Qed.

Lemma removeZ_length x l : NoDup l -> In x l -> S (List.length (removeZ x l)) = List.length l.
Proof.
  induction l as [|a r IH]; simpl; intros Hnd Hin; [contradiction|].
  inversion Hnd as [|? ? Hna Hr]; subst.
  destruct (Z.eqb_spec a x) as [->|Hne]; simpl.
  - fold (removeZ x r). rewrite removeZ_notin by exact Hna. reflexivity.
  - f_equal. apply IH; [exact Hr|]. destruct Hin as [E|Hin]; [congruence | exact Hin].
Qed.

Lemma lenZ_app {A} (a b : list A) : lenZ (a ++ b) = lenZ a + lenZ b.
Proof. unfold lenZ. rewrite app_length. lia. Qed.

Lemma lenZ_map {A B} (f : A -> B) l : lenZ (map f l) = lenZ l.
Proof. unfold lenZ. now rewrite map_length. Qed.

Lemma count_in_app sub a b : count_in sub (a ++ b) = count_in sub a + count_in sub b.
Proof. unfold count_in. rewrite filter_app. apply lenZ_app. Qed.

Lemma count_in_cons sub x l :
  count_in sub (x :: l) = (if memZ x sub then 1 else 0) + count_in sub l.
Proof. unfold count_in, lenZ. cbn [filter]. destruct (memZ x sub); cbn [List.length]; lia. Qed.

Lemma count_in_incl sub l : incl l sub -> count_in sub l = lenZ l.
Proof.
  induction l as [|x r IH]; intros H; [reflexivity|].
  rewrite count_in_cons, IH by (intros y Hy; apply H; now right).
  replace (memZ x sub) with true by (symmetry; apply memZ_In, H; now left).
  unfold lenZ. cbn [List.length]. lia.
Qed.

Lemma count_in_disjoint sub l : (forall x, In x l -> ~ In x sub) -> count_in sub l = 0.
Proof.
  induction l as [|x r IH]; intros H; [reflexivity|].
  rewrite count_in_cons, IH by (intros y Hy; apply H; now right).
  replace (memZ x sub) with false; [reflexivity|].
  symmetry. apply memZ_false, H. now left.
Qed.

Lemma NoDup_app_inv {A} (a b : list A) :
  NoDup (a ++ b) -> NoDup a /\ NoDup b /\ (forall x, In x a -> ~ In x b).
Proof.
  induction a as [|y a IH]; simpl; intros H.
  - repeat split; [constructor | exact H | intros x []].
  - inversion H as [|? ? Hny Ha]; subst. destruct (IH Ha) as (H1 & H2 & H3). repeat split.
    + constructor; [|exact H1]. intros Hy. apply Hny, in_or_app. now left.
    + exact H2.
    + intros x [<-|Hx]; [|now apply H3]. intros Hb. apply Hny, in_or_app. now right.
Qed.

Lemma NoDup_app_intro {A} (a b : list A) :
  NoDup a -> NoDup b -> (forall x, In x a -> ~ In x b) -> NoDup (a ++ b).
Proof.
  induction a as [|y a IH]; simpl; intros Ha Hb Hd; [exact Hb|].
  inversion Ha; subst. constructor.
  - intros Hin. apply in_app_or in Hin. destruct Hin as [Hin|Hin]; [contradiction|].
    apply (Hd y); [now left | exact Hin].
  - apply IH; [assumption | exact Hb | intros x Hx; apply Hd; now right].
Qed.

(* ================================================================== drawing without replacement *)
Lemma draw_spec m : forall pool rs,
  NoDup pool -> (m <= List.length pool)%nat ->
  NoDup (draw m pool rs) /\ incl (draw m pool rs) pool /\ List.length (draw m pool rs) = m.
Proof.
  induction m as [|m IH]; intros pool rs Hnd Hle.
  - simpl. repeat split; [constructor | intros x []].
  - destruct pool as [|d pool']; [simpl in Hle; lia|].
    remember (d :: pool') as pool eqn:Epool.
    pose (r := (hd 0%nat rs mod List.length pool)%nat).
    pose (x := nth r pool d).
    assert (Hd : draw (S m) pool rs = x :: draw m (removeZ x pool) (tl rs))
      by (subst pool; reflexivity).
    rewrite Hd. clear Hd.
    assert (Hr : (r < List.length pool)%nat) by (apply Nat.mod_upper_bound; subst pool; simpl; lia).
    assert (Hx : In x pool) by (apply nth_In; exact Hr).
    assert (Hlen : S (List.length (removeZ x pool)) = List.length pool)
      by (apply removeZ_length; assumption).
    destruct (IH (removeZ x pool) (tl rs)) as (H1 & H2 & H3).
    + apply removeZ_NoDup; exact Hnd.
    + lia.
    + repeat split.
      * constructor; [|exact H1]. intros Hin. apply H2 in Hin. apply removeZ_In in Hin. tauto.
      * intros y [<-|Hy]; [exact Hx|]. apply H2 in Hy. apply removeZ_In in Hy. tauto.
      * cbn [List.length]. now rewrite H3.
Qed.

(* every ordered selection without repetition is produced by some oracle: the model does not
   restrict what DataFrame.sample may return *)
Lemma draw_complete : forall l pool,
  NoDup l -> incl l pool -> exists rs, draw (List.length l) pool rs = l.
Proof.
  induction l as [|x l IH]; intros pool Hnd Hin.
  - exists []. reflexivity.
  - inversion Hnd as [|? ? Hx Hl]; subst.
    assert (Hxp : In x pool) by (apply Hin; now left).
    destruct pool as [|d pool']; [destruct Hxp|].
    remember (d :: pool') as pool eqn:E.
    destruct (In_nth pool x d Hxp) as (r & Hr & Hn).
    destruct (IH (removeZ x pool) Hl) as (rs & Hrs).
    { intros y Hy. apply removeZ_In. split; [apply Hin; now right|]. intros ->. contradiction. }
    exists (r :: rs).
    assert (Hd : draw (S (List.length l)) pool (r :: rs)
                 = nth (r mod List.length pool)%nat pool d
                   :: draw (List.length l) (removeZ (nth (r mod List.length pool)%nat pool d) pool) rs)
      by (subst pool; reflexivity).
    cbn [List.length]. rewrite Hd, Nat.mod_small by exact Hr. rewrite Hn, Hrs. reflexivity.
Qed.

(* ================================================================== T19a: the protocol holds for every oracle *)
Lemma wf_strata_cons s r :
  wf_strata (s :: r) ->
  NoDup (fst s) /\ 1 <= snd s <= lenZ (fst s) /\ wf_strata r /\
  (forall x, In x (fst s) -> ~ In x (full_set r)).
Proof.
  intros [Hnd Hf]. unfold full_set in *. simpl in Hnd.
  inversion Hf as [|? ? Hs Hr]; subst.
  destruct (NoDup_app_inv _ _ Hnd) as (H1 & H2 & H3).
  split; [exact H1|]. split; [exact Hs|]. split; [split; assumption | exact H3].
Qed.

Lemma in_full_set strata x :
  In x (full_set strata) <-> exists sub k, In (sub, k) strata /\ In x sub.
Proof.
  unfold full_set. rewrite in_concat. split.
  - intros (l & Hl & Hx). apply in_map_iff in Hl. destruct Hl as ([sub k] & <- & Hs).
    now exists sub, k.
  - intros (sub & k & Hs & Hx). exists sub. split; [|exact Hx].
    apply in_map_iff. now exists (sub, k).
Qed.

Lemma corr_is_refl k n : 0 < k -> 0 < n -> corr_is (Some (k, n)) k n.
Proof. intros Hk Hn. simpl. repeat split; assumption. Qed.

Lemma ids_app a b : ids (a ++ b) = ids a ++ ids b.
Proof. unfold ids. apply map_app. Qed.

Lemma row_ok_weaken s strata r : row_ok strata r -> row_ok (s :: strata) r.
Proof. intros (sub & k & H1 & H2). exists sub, k. split; [now right | exact H2]. Qed.

(* what one stratum contributes *)
Lemma stratum_sample_spec c sub k rs :
  NoDup sub -> 1 <= k <= lenZ sub ->
  let rows := stratum_sample c (sub, k) rs in
  NoDup (ids rows) /\ incl (ids rows) sub /\ ~ In c (ids rows) /\
  lenZ (ids rows) = k - (if memZ c sub then 1 else 0) /\
  Forall (fun r => In (fst r) sub /\ snd r = Some (k, lenZ sub)) rows.
Proof.
  intros Hnd Hk. unfold stratum_sample. cbv zeta.
  set (pool := if memZ c sub then removeZ c sub else sub).
  set (m := if memZ c sub then k - 1 else k).
  assert (Hpool : NoDup pool /\ incl pool sub /\ ~ In c pool /\
                  Z.of_nat (List.length pool) = lenZ sub - (if memZ c sub then 1 else 0)).
  { subst pool. destruct (memZ c sub) eqn:E.
    - apply memZ_In in E. repeat split.
      + now apply removeZ_NoDup.
      + intros y Hy. apply removeZ_In in Hy. tauto.
      + intros Hc. apply removeZ_In in Hc. tauto.
      + pose proof (removeZ_length c sub Hnd E). unfold lenZ. lia.
    - apply memZ_false in E. repeat split; auto using incl_refl. unfold lenZ. lia. }
  destruct Hpool as (Hp1 & Hp2 & Hp3 & Hp4).
  assert (Hm : (Z.to_nat m <= List.length pool)%nat).
  { subst m. unfold lenZ in *. destruct (memZ c sub); lia. }
  destruct (draw_spec (Z.to_nat m) pool rs Hp1 Hm) as (D1 & D2 & D3).
  assert (Hids : ids (map (fun a => (a, Some (k, lenZ sub))) (draw (Z.to_nat m) pool rs))
                 = draw (Z.to_nat m) pool rs).
  { unfold ids. rewrite map_map. simpl. apply map_id. }
  rewrite Hids. repeat split.
  - exact D1.
  - intros y Hy. apply Hp2, D2, Hy.
  - intros Hc. apply Hp3, D2, Hc.
  - unfold lenZ at 1. rewrite D3. subst m. destruct (memZ c sub); lia.
  - apply Forall_forall. intros r Hr. apply in_map_iff in Hr. destruct Hr as (a & <- & Ha).
    simpl. split; [apply Hp2, D2, Ha | reflexivity].
Qed.

Lemma strata_samples_spec c : forall strata oracle,
  wf_strata strata ->
  let rows := strata_samples c strata oracle in
  NoDup (ids rows) /\ incl (ids rows) (full_set strata) /\ ~ In c (ids rows) /\
  (forall sub k, In (sub, k) strata ->
     count_in sub (ids rows) = k - (if memZ c sub then 1 else 0)) /\
  Forall (row_ok strata) rows.
Proof.
  induction strata as [|[sub k] r IH]; intros oracle Hwf; cbv zeta; cbn [strata_samples].
  - split; [constructor|]. split; [intros x []|]. split; [intros []|]. split; [intros ? ? []|constructor].
  - destruct (wf_strata_cons _ _ Hwf) as (Hnd & Hk & Hwr & Hdisj). simpl in Hnd, Hk, Hdisj.
    destruct (stratum_sample_spec c sub k (hd [] oracle) Hnd Hk) as (S1 & S2 & S3 & S4 & S5).
    destruct (IH (tl oracle) Hwr) as (R1 & R2 & R3 & R4 & R5).
    set (A := stratum_sample c (sub, k) (hd [] oracle)) in *.
    set (B := strata_samples c r (tl oracle)) in *.
    rewrite ids_app. repeat split.
    + apply NoDup_app_intro; [exact S1 | exact R1|].
      intros x Hx Hx'. apply (Hdisj x (S2 x Hx)), R2, Hx'.
    + intros y Hy. apply in_app_or in Hy. unfold full_set. simpl. apply in_or_app.
      destruct Hy as [Hy|Hy]; [left; apply S2, Hy | right; apply R2, Hy].
    + intros Hc. apply in_app_or in Hc. tauto.
    + intros sub' k' [E|Hin].
      * injection E as <- <-. rewrite count_in_app, (count_in_incl sub (ids A) S2), S4.
        rewrite count_in_disjoint; [lia|].
        intros x Hx Hx'. apply (Hdisj x Hx'), R2, Hx.
      * rewrite count_in_app, (R4 _ _ Hin).
        rewrite count_in_disjoint; [lia|].
        intros x Hx Hx'. apply (Hdisj x (S2 x Hx)). apply in_full_set. now exists sub', k'.
    + apply Forall_app. split.
      * eapply Forall_impl; [|exact S5]. intros [a o] [Ha Ho]. simpl in *. subst o.
        exists sub, k. split; [now left|]. split; [exact Ha|]. apply corr_is_refl; unfold lenZ in *; lia.
      * eapply Forall_impl; [|exact R5]. intros a. apply row_ok_weaken.
Qed.

Lemma chosen_corr_notin c : forall strata acc,
  ~ In c (full_set strata) -> chosen_corr c strata acc = acc.
Proof.
  induction strata as [|[sub k] r IH]; intros acc H; simpl; [reflexivity|].
  unfold full_set in H. simpl in H.
  replace (memZ c sub) with false
    by (symmetry; apply memZ_false; intros Hc; apply H, in_or_app; now left).
  apply IH. intros Hc. apply H, in_or_app. now right.
Qed.

Lemma chosen_corr_spec c : forall strata acc,
  wf_strata strata -> In c (full_set strata) ->
  exists sub k, In (sub, k) strata /\ In c sub /\ chosen_corr c strata acc = Some (k, lenZ sub).
Proof.
  induction strata as [|[sub k] r IH]; intros acc Hwf Hc; [destruct Hc|].
  destruct (wf_strata_cons _ _ Hwf) as (Hnd & Hk & Hwr & Hdisj). simpl in *.
  unfold full_set in Hc. simpl in Hc. apply in_app_or in Hc. destruct Hc as [Hc|Hc].
  - exists sub, k. split; [now left|]. split; [exact Hc|].
    replace (memZ c sub) with true by (symmetry; now apply memZ_In).
    apply chosen_corr_notin. exact (Hdisj c Hc).
  - destruct (IH (if memZ c sub then Some (k, lenZ sub) else acc) Hwr Hc) as (s' & k' & H1 & H2 & H3).
    exists s', k'. split; [now right|]. split; [exact H2 | exact H3].
Qed.

Theorem sample_follows_protocol strata c oracle :
  wf_strata strata -> In c (full_set strata) ->
  valid_sample strata c (sample_alternatives strata c oracle).
Proof.
  intros Hwf Hc. unfold sample_alternatives.
  destruct (strata_samples_spec c strata oracle Hwf) as (R1 & R2 & R3 & R4 & R5).
  destruct (chosen_corr_spec c strata None Hwf Hc) as (sub & k & Hs & Hcs & Hcc).
  split; [eexists; eexists; reflexivity|]. split; [|split].
  - simpl. constructor; assumption.
  - intros sub' k' Hin. change (ids ((c, chosen_corr c strata None) :: strata_samples c strata oracle))
      with (c :: ids (strata_samples c strata oracle)).
    rewrite count_in_cons, (R4 _ _ Hin). destruct (memZ c sub'); lia.
  - constructor; [|exact R5]. exists sub, k. simpl. rewrite Hcc. split; [exact Hs|]. split; [exact Hcs|].
    destruct Hwf as [_ Hf]. rewrite Forall_forall in Hf. specialize (Hf _ Hs). simpl in Hf.
    apply corr_is_refl; unfold lenZ in *; lia.
Qed.

(* the second (MEV) sample *)
Theorem mev_sample_follows_protocol : forall strata oracle,
  wf_strata strata -> valid_mev_sample strata (sample_mev strata oracle).
Proof.
  induction strata as [|[sub k] r IH]; intros oracle Hwf.
  - simpl. repeat split; try constructor. intros ? ? [].
  - destruct (wf_strata_cons _ _ Hwf) as (Hnd & Hk & Hwr & Hdisj). simpl in Hnd, Hk, Hdisj.
    destruct (IH (tl oracle) Hwr) as (R1 & R4 & R5).
    assert (R2 : incl (ids (sample_mev r (tl oracle))) (full_set r)).
    { intros x Hx. unfold ids in Hx. apply in_map_iff in Hx. destruct Hx as (row & <- & Hrow).
      rewrite Forall_forall in R5. destruct (R5 _ Hrow) as (s' & k' & H1 & H2 & _).
      apply in_full_set. now exists s', k'. }
    assert (Hm : (Z.to_nat k <= List.length sub)%nat) by (unfold lenZ in Hk; lia).
    destruct (draw_spec (Z.to_nat k) sub (hd [] oracle) Hnd Hm) as (D1 & D2 & D3).
    simpl. set (A := map (fun a => (a, Some (k, lenZ sub))) (draw (Z.to_nat k) sub (hd [] oracle))).
    assert (Hids : ids A = draw (Z.to_nat k) sub (hd [] oracle)).
    { unfold A, ids. rewrite map_map. simpl. apply map_id. }
    unfold valid_mev_sample. rewrite ids_app, Hids. repeat split.
    + apply NoDup_app_intro; [exact D1 | exact R1|].
      intros x Hx Hx'. apply (Hdisj x (D2 x Hx)), R2, Hx'.
    + intros sub' k' [E|Hin].
      * injection E as <- <-. rewrite count_in_app, (count_in_incl sub _ D2).
        rewrite count_in_disjoint; [unfold lenZ; lia|].
        intros x Hx Hx'. apply (Hdisj x Hx'), R2, Hx.
      * rewrite count_in_app, (R4 _ _ Hin).
        rewrite count_in_disjoint; [lia|].
        intros x Hx Hx'. apply (Hdisj x (D2 x Hx)). apply in_full_set. now exists sub', k'.
    + apply Forall_app. split.
      * apply Forall_forall. intros row Hrow. apply in_map_iff in Hrow.
        destruct Hrow as (a & <- & Ha). exists sub, k. simpl.
        split; [now left|]. split; [apply D2, Ha|]. apply corr_is_refl; unfold lenZ in *; lia.
      * eapply Forall_impl; [|exact R5]. intros a. apply row_ok_weaken.
Qed.

(* ================================================================== T19b: the checker decides the protocol *)
Lemma IZR_pos z : 0 < z -> (0 < IZR z)%R.
Proof. intros H. apply (IZR_lt 0). exact H. Qed.

Lemma ratio_eq_cross k' n' k n :
  0 < k' -> 0 < n' -> 0 < k -> 0 < n ->
  (IZR k' / IZR n' = IZR k / IZR n)%R <-> k' * n = k * n'.
Proof.
  intros H1 H2 H3 H4.
  pose proof (IZR_pos _ H1). pose proof (IZR_pos _ H2). pose proof (IZR_pos _ H3). pose proof (IZR_pos _ H4).
  split; intros E.
  - apply eq_IZR. rewrite !mult_IZR.
    apply (f_equal (fun x => (x * IZR n' * IZR n)%R)) in E.
    replace (IZR k' / IZR n' * IZR n' * IZR n)%R with (IZR k' * IZR n)%R in E by (field; lra).
    replace (IZR k / IZR n * IZR n' * IZR n)%R with (IZR k * IZR n')%R in E by (field; lra).
    exact E.
  - apply (f_equal IZR) in E. rewrite !mult_IZR in E.
    apply (Rmult_eq_reg_r (IZR n' * IZR n)); [|apply Rgt_not_eq, Rmult_lt_0_compat; assumption].
    replace (IZR k' / IZR n' * (IZR n' * IZR n))%R with (IZR k' * IZR n)%R by (field; lra).
    replace (IZR k / IZR n * (IZR n' * IZR n))%R with (IZR k * IZR n')%R by (field; lra).
    exact E.
Qed.

Lemma corr_eqb_spec o k n : 0 < k -> 0 < n -> (corr_eqb o k n = true <-> corr_is o k n).
Proof.
  intros Hk Hn. destruct o as [[k' n']|]; simpl; [|split; [discriminate | tauto]].
  rewrite !andb_true_iff, !Z.ltb_lt, Z.eqb_eq. unfold corr_value, weight_value. simpl.
  split.
  - intros [[H1 H2] E].
    split; [exact H1|]. split; [exact H2|]. split.
    + apply (ratio_eq_cross k' n' k n H1 H2 Hk Hn) in E. now rewrite E.
    + apply (ratio_eq_cross n' k' n k H2 H1 Hn Hk). lia.
  - intros (H1 & H2 & E & _). split; [split; assumption|].
    apply (ratio_eq_cross k' n' k n H1 H2 Hk Hn).
    apply ln_inv; [| |exact E]; apply Rdiv_lt_0_compat; apply IZR_pos; assumption.
Qed.

Lemma row_okb_spec strata r : wf_strata strata -> (row_okb strata r = true <-> row_ok strata r).
Proof.
  intros [_ Hf]. rewrite Forall_forall in Hf. unfold row_okb, row_ok. rewrite existsb_exists. split.
  - intros ([sub k] & Hin & H). simpl in H. apply andb_true_iff in H. destruct H as [Hm Hc].
    specialize (Hf _ Hin). simpl in Hf.
    exists sub, k. split; [exact Hin|]. split; [now apply memZ_In|].
    apply corr_eqb_spec; [lia | lia | exact Hc].
  - intros (sub & k & Hin & Hm & Hc). exists (sub, k). split; [exact Hin|]. simpl.
    specialize (Hf _ Hin). simpl in Hf.
    apply andb_true_iff. split; [now apply memZ_In|]. apply corr_eqb_spec; [lia | lia | exact Hc].
Qed.

Theorem check_mev_sample_iff strata rows :
  wf_strata strata -> (check_mev_sample strata rows = true <-> valid_mev_sample strata rows).
Proof.
  intros Hwf. unfold check_mev_sample, valid_mev_sample.
  rewrite !andb_true_iff, nodupb_NoDup, !forallb_forall, Forall_forall.
  split.
  - intros [[H1 H2] H3]. split; [exact H1|]. split.
    + intros sub k Hin. specialize (H2 _ Hin). simpl in H2. now apply Z.eqb_eq.
    + intros r Hr. apply row_okb_spec; [exact Hwf | now apply H3].
  - intros (H1 & H2 & H3). split; [split; [exact H1|]|].
    + intros [sub k] Hin. simpl. apply Z.eqb_eq. now apply H2.
    + intros r Hr. apply row_okb_spec; [exact Hwf | now apply H3].
Qed.

Theorem check_sample_iff strata c rows :
  wf_strata strata -> (check_sample strata c rows = true <-> valid_sample strata c rows).
Proof.
  intros Hwf. unfold check_sample, valid_sample. rewrite andb_true_iff, (check_mev_sample_iff _ _ Hwf).
  split; intros [H1 H2]; (split; [|exact H2]).
  - destruct rows as [|[c' o] rest]; [discriminate|]. apply Z.eqb_eq in H1. subst. now exists o, rest.
  - destruct H1 as (o & rest & ->). apply Z.eqb_refl.
Qed.

Lemma wf_stratab_spec strata : wf_stratab strata = true <-> wf_strata strata.
Proof.
  unfold wf_stratab, wf_strata. rewrite andb_true_iff, nodupb_NoDup, forallb_forall, Forall_forall.
  split; intros [H1 H2]; (split; [exact H1|]); intros s Hs; specialize (H2 _ Hs); lia.
Qed.

(* ================================================================== T19d: full sampling = full model *)
Lemma sumexp_perm l l' : Permutation l l' -> sumexp l = sumexp l'.
Proof.
  induction 1; simpl.
  - reflexivity.
  - now rewrite IHPermutation.
  - lra.
  - congruence.
Qed.

Lemma sumexp_pos l : l <> [] -> (0 < sumexp l)%R.
Proof.
  destruct l as [|x r]; [congruence|]. intros _. simpl.
  assert (0 <= sumexp r)%R.
  { induction r as [|y r IH]; simpl; [lra|]. pose proof (exp_pos y). lra. }
  pose proof (exp_pos x). lra.
Qed.

Theorem full_sample_permutation strata rows :
  wf_strata strata -> fully_sampled strata -> valid_mev_sample strata rows ->
  Permutation (ids rows) (full_set strata).
Proof.
  intros [Hnd Hf] Hfull (H1 & H2 & H3).
  apply NoDup_Permutation; [exact H1 | exact Hnd|].
  intros x. split.
  - intros Hx. unfold ids in Hx. apply in_map_iff in Hx. destruct Hx as (r & <- & Hr).
    rewrite Forall_forall in H3. destruct (H3 _ Hr) as (sub & k & Hs & Hin & _).
    apply in_full_set. now exists sub, k.
  - intros Hx. apply in_full_set in Hx. destruct Hx as (sub & k & Hs & Hin).
    pose proof (H2 _ _ Hs) as Hc.
    unfold fully_sampled in Hfull. rewrite Forall_forall in Hfull. specialize (Hfull _ Hs). simpl in Hfull.
    set (F := filter (fun a => memZ a sub) (ids rows)).
    assert (HF : incl sub F).
    { apply NoDup_length_incl.
      - apply NoDup_filter. exact H1.
      - unfold count_in, lenZ in *. fold F in Hc. lia.
      - intros y Hy. apply filter_In in Hy. now apply memZ_In. }
    specialize (HF _ Hin). apply filter_In in HF. tauto.
Qed.

Lemma full_corr_zero strata r :
  wf_strata strata -> fully_sampled strata -> row_ok strata r -> row_corr r = 0%R.
Proof.
  intros [_ Hf] Hfull (sub & k & Hs & _ & Hc).
  rewrite Forall_forall in Hf. specialize (Hf _ Hs). simpl in Hf.
  unfold fully_sampled in Hfull. rewrite Forall_forall in Hfull. specialize (Hfull _ Hs). simpl in Hfull.
  unfold row_corr. destruct (snd r) as [[k' n']|]; [|destruct Hc].
  destruct Hc as (_ & _ & E & _). rewrite E. unfold corr_value. simpl. subst k.
  replace (IZR (lenZ sub) / IZR (lenZ sub))%R with 1%R; [apply ln_1|].
  field. apply Rgt_not_eq, IZR_pos. lia.
Qed.

Theorem full_sampling_loglik Vf strata c rows :
  wf_strata strata -> fully_sampled strata -> valid_sample strata c rows ->
  sample_loglik Vf rows = loglogit_R Vf c (full_set strata).
Proof.
  intros Hwf Hfull [(o & rest & E) Hv].
  pose proof (full_sample_permutation _ _ Hwf Hfull Hv) as HP.
  destruct Hv as (_ & _ & Hrows). rewrite Forall_forall in Hrows.
  assert (Hz : forall r, In r rows -> row_corr r = 0%R)
    by (intros r Hr; eapply full_corr_zero; eauto).
  assert (Hl : sample_loglik Vf rows
               = (Vf c - row_corr (c, o)
                  - ln (sumexp (map (fun r => (Vf (fst r) - row_corr r)%R) rows)))%R)
    by (rewrite E; reflexivity).
  rewrite Hl. unfold loglogit_R.
  rewrite (Hz (c, o)) by (rewrite E; now left).
  replace (map (fun r => (Vf (fst r) - row_corr r)%R) rows) with (map Vf (ids rows)).
  - rewrite (sumexp_perm _ _ (Permutation_map Vf HP)). lra.
  - unfold ids. rewrite map_map. apply map_ext_in. intros r Hr. rewrite (Hz r Hr). lra.
Qed.

(* ---- the expression built by GenerateModel.get_logit *)
Lemma D2R_int z : D2R (z, 0%Z) = IZR z.
Proof. unfold D2R. simpl. lra. Qed.

Lemma Int_part_IZR z : Int_part (IZR z) = z.
Proof.
  unfold Int_part. assert (H : (z + 1)%Z = up (IZR z)).
  { apply tech_up; rewrite plus_IZR; lra. }
  lia.
Qed.

Lemma R2Z_IZR z : R2Z (IZR z) = Some z.
Proof.
  unfold R2Z. rewrite Int_part_IZR. destruct (Req_EM_T (IZR z) (IZR z)); congruence.
Qed.

Lemma Rnz_1 : Rnz 1 = true.
Proof. unfold Rnz. destruct (Req_EM_T 1 0); [lra | reflexivity]. Qed.

Lemma Rltb'_true a b : (a < b)%R -> Rltb' a b = true.
Proof. intros H. unfold Rltb'. destruct (Rlt_dec a b); [reflexivity | contradiction]. Qed.

Lemma assoc_Z_ones k keys :
  In k keys -> assoc_Z k keys (map (fun _ => XR 1) keys) = Some (XR 1).
Proof.
  induction keys as [|k' r IH]; simpl; intros H; [contradiction|].
  destruct (Z.eqb_spec k k'); [reflexivity|]. apply IH. destruct H; congruence.
Qed.

Lemma logit_denominator_all_available akeys avs : forall keys ws,
  List.length keys = List.length ws ->
  (forall k, In k keys -> assoc_Z k akeys avs = Some (XR 1)) ->
  logit_denominator keys (map XR ws) akeys avs = XR (sumexp ws).
Proof.
  induction keys as [|k r IH]; intros [|w ws] Hl Hk; simpl in Hl; try discriminate; [reflexivity|].
  simpl. rewrite (Hk k) by now left. rewrite Rnz_1.
  rewrite IH; [reflexivity | lia | intros k' Hk'; apply Hk; now right].
Qed.

Lemma xloglogit_all_available k0 keys w0 ws :
  List.length keys = List.length ws ->
  xloglogit (k0 :: keys) (k0 :: keys)
            (XR (IZR k0) :: map XR (w0 :: ws) ++ map (fun _ => XR 1) (k0 :: keys))
  = XR (w0 - ln (sumexp (w0 :: ws))).
Proof.
  intros Hl. unfold xloglogit.
  assert (Hlen : List.length (k0 :: keys) = List.length (map XR (w0 :: ws)))
    by (simpl; rewrite map_length; lia).
  rewrite Hlen, firstn_app, skipn_app, Nat.sub_diag, firstn_all, skipn_all. simpl firstn. simpl skipn.
  change ([] ++ XR 1 :: map (fun _ : Z => XR 1) keys) with (map (fun _ : Z => XR 1) (k0 :: keys)).
  rewrite <- Hlen. rewrite map_length, Nat.eqb_refl. cbn [negb].
  rewrite R2Z_IZR.
  rewrite assoc_Z_ones by now left. rewrite Rnz_1.
  rewrite !app_nil_r.
  rewrite (logit_denominator_all_available (k0 :: keys) (map (fun _ => XR 1) (k0 :: keys)) (k0 :: keys) (w0 :: ws));
    [| simpl; lia | intros k Hk; now apply assoc_Z_ones].
  cbn [assoc_Z map]. rewrite Z.eqb_refl.
  rewrite Rltb'_true; [reflexivity | apply sumexp_pos; discriminate].
Qed.

(* utilities and correction columns evaluate: U_j to v_j and _log_proba_j to c_j; w_j = v_j - c_j *)
Fixpoint utils_eval (Phi : R -> R) (en : env) (j : nat) (us : list expr) (ws : list R) : Prop :=
  match us, ws with
  | [], [] => True
  | u :: us', w :: ws' =>
      (exists v c, evalX Phi u en = XR v /\ e_var en (colname "" log_proba_col j) = Some c
                   /\ w = (v - c)%R)
      /\ utils_eval Phi en (S j) us' ws'
  | _, _ => False
  end.

Lemma corrected_from_keys : forall us j,
  map fst (corrected_from j us) = map fst (avail_from j us).
Proof. induction us as [|u r IH]; intros j; simpl; [reflexivity|]. now rewrite IH. Qed.

Lemma utils_eval_length Phi en : forall us ws j, utils_eval Phi en j us ws -> List.length us = List.length ws.
Proof.
  induction us as [|u r IH]; intros [|w ws] j H; simpl in *; try contradiction; [reflexivity|].
  f_equal. eapply IH. apply H.
Qed.

Lemma corrected_from_eval Phi en : forall us ws j,
  utils_eval Phi en j us ws ->
  map (fun k => evalX Phi k en) (map snd (corrected_from j us)) = map XR ws.
Proof.
  induction us as [|u r IH]; intros [|w ws] j H; simpl in H; try contradiction; [reflexivity|].
  destruct H as [(v & c & Hv & Hc & ->) Hr].
  cbn [corrected_from map snd]. rewrite (IH _ _ Hr). f_equal.
  unfold EBin, EVar. cbn [evalX map]. rewrite Hv. cbn [evalX]. rewrite Hc. reflexivity.
Qed.

Lemma avail_from_eval Phi en : forall us j,
  map (fun k => evalX Phi k en) (map snd (avail_from j us))
  = map (fun _ => XR 1) (map fst (avail_from j us)).
Proof.
  induction us as [|u r IH]; intros j; [reflexivity|].
  cbn [avail_from map snd fst]. rewrite IH. f_equal.
  unfold ENumZ. cbn [evalX map]. now rewrite D2R_int.
Qed.

Theorem get_logit_value Phi en u0 us w0 ws :
  utils_eval Phi en 0 (u0 :: us) (w0 :: ws) ->
  evalX Phi (logit_on_sample (u0 :: us)) en = XR (w0 - ln (sumexp (w0 :: ws))).
Proof.
  intros H. pose proof (utils_eval_length _ _ _ _ _ H) as Hl.
  unfold logit_on_sample, ELogLogit. cbn [evalX].
  cbn [map]. unfold ENumZ at 1. cbn [evalX map]. rewrite D2R_int.
  rewrite map_app, (corrected_from_eval _ _ _ _ _ H), avail_from_eval, corrected_from_keys.
  cbn [avail_from map fst].
  change (IZR 0) with (IZR (Z.of_nat 0)).
  apply xloglogit_all_available.
  rewrite map_length. clear H. simpl in Hl. injection Hl as Hl. rewrite <- Hl. clear.
  generalize 1%nat. induction us as [|u r IH]; intros j; simpl; [reflexivity|]. now rewrite IH.
Qed.

Theorem full_sampling_equals_full_model Phi en Vf strata c rows us :
  wf_strata strata -> fully_sampled strata -> valid_sample strata c rows ->
  utils_eval Phi en 0 us (map (fun r => (Vf (fst r) - row_corr r)%R) rows) ->
  evalX Phi (logit_on_sample us) en = XR (loglogit_R Vf c (full_set strata)).
Proof.
  intros Hwf Hfull Hv Hu.
  rewrite <- (full_sampling_loglik Vf strata c rows Hwf Hfull Hv).
  destruct Hv as [(o & rest & ->) _].
  destruct us as [|u0 us]; [simpl in Hu; contradiction|].
  cbn [map] in Hu. rewrite (get_logit_value _ _ _ _ _ _ Hu). reflexivity.
Qed.

(* ================================================================== T19c: renaming and combined variables *)
Section ExprInd.
  Variable P : expr -> Prop.
  Hypothesis HN : forall h kids, Forall P kids -> P (Node h kids).
  Fixpoint expr_ind' (e : expr) : P e :=
    match e with
    | Node h kids =>
        HN h kids ((fix go (l : list expr) : Forall P l :=
                      match l with
                      | [] => Forall_nil P
                      | x :: r => Forall_cons x (expr_ind' x) (go r)
                      end) kids)
    end.
End ExprInd.

(* environments related by a renaming [f] of the data columns *)
Definition env_relv (f : string -> string) (en en' : env) : Prop :=
  e_beta en' = e_beta en /\ e_draw en' = e_draw en /\ e_rv en' = e_rv en /\ e_draws en' = e_draws en /\
  (forall n, e_var en (f n) = e_var en' n) /\
  Forall2 (fun r r' : lookup => forall n, r (f n) = r' n) (e_rows en) (e_rows en').

Definition rename_vars_head (f : string -> string) (h : Expr.head) : Expr.head :=
  match h with HVar n => HVar (f n) | _ => h end.
Fixpoint rename_vars (f : string -> string) (e : expr) : expr :=
  match e with Node h kids => Node (rename_vars_head f h) (map (rename_vars f) kids) end.

Lemma map_evalX_ext Phi (g : expr -> expr) en en' kids :
  Forall (fun k => evalX Phi (g k) en = evalX Phi k en') kids ->
  map (fun k => evalX Phi k en) (map g kids) = map (fun k => evalX Phi k en') kids.
Proof.
  induction 1 as [|k r Hk _ IH]; simpl; [reflexivity|]. now rewrite Hk, IH.
Qed.

Lemma map_Forall2_ext {A B} (Rel : A -> A -> Prop) (F G : A -> B) l l' :
  Forall2 Rel l l' -> (forall a a', Rel a a' -> F a = G a') -> map F l = map G l'.
Proof. induction 1; intros H'; simpl; [reflexivity|]. f_equal; auto. Qed.

Lemma evalX_rename_vars Phi f : forall e en en',
  env_relv f en en' -> evalX Phi (rename_vars f e) en = evalX Phi e en'.
Proof.
  induction e as [h kids IH] using expr_ind'. intros en en' Hrel.
  assert (Hk : map (fun k => evalX Phi k en) (map (rename_vars f) kids)
               = map (fun k => evalX Phi k en') kids).
  { apply map_evalX_ext. eapply Forall_impl; [|exact IH]. intros k H. now apply H. }
  destruct Hrel as (Hb & Hd & Hr & Hds & Hv & Hrows).
  cbn [rename_vars evalX]. rewrite Hk.
  destruct h; cbn [rename_vars_head]; try reflexivity.
  - (* Beta *) now rewrite Hb.
  - (* Var *) destruct kids; simpl; [now rewrite Hv | reflexivity].
  - (* Draws *) now rewrite Hd.
  - (* RV *) now rewrite Hr.
  - (* unary: MonteCarlo and PanelTraj re-evaluate the child in modified environments *)
    destruct op; try reflexivity.
    + destruct kids as [|k [|k2 r]]; try reflexivity. simpl.
      inversion IH as [|? ? IHk _]; subst. rewrite Hds. f_equal. apply map_ext. intros d.
      apply IHk. unfold with_draw. simpl. repeat split; try assumption.
    + destruct kids as [|k [|k2 r]]; try reflexivity. simpl.
      inversion IH as [|? ? IHk _]; subst.
      assert (Hm : map (fun r => evalX Phi (rename_vars f k) (with_row en r)) (e_rows en)
                   = map (fun r => evalX Phi k (with_row en' r)) (e_rows en')).
      { apply (map_Forall2_ext _ _ _ _ _ Hrows). intros r0 r0' H0. apply IHk.
        unfold with_row, env_relv. simpl. repeat split; assumption. }
      inversion Hrows as [Ha Hb' | x y l l' Hxy Hl Ha Hb']; [reflexivity|].
      rewrite <- Ha, <- Hb' in Hm. simpl in Hm. injection Hm as H1 H2. now rewrite H1, H2.
Qed.

(* on a formula in which only Variables bear renamed names, rename_elementary = renaming Variables *)
Lemma ren_name_notin names pre suf n : ~ In n names -> ren_name names pre suf n = n.
Proof. intros H. unfold ren_name. now replace (mem_s n names) with false by (symmetry; now apply mem_s_false). Qed.

Definition other_names (e : expr) : list string :=
  names_of_kind KFreeBeta e ++ names_of_kind KFixedBeta e ++ names_of_kind KDraws e ++ names_of_kind KRV e.

Lemma names_of_kind_kid k h kids x n :
  In x kids -> In n (names_of_kind k x) -> In n (names_of_kind k (Node h kids)).
Proof.
  unfold names_of_kind. intros Hx Hn. apply in_flat_map in Hn. destruct Hn as (s & Hs & Hn).
  apply in_flat_map. exists s. split; [|exact Hn].
  cbn [subterms]. right. apply in_flat_map. now exists x.
Qed.

Lemma other_names_kid h kids x n : In x kids -> In n (other_names x) -> In n (other_names (Node h kids)).
Proof.
  unfold other_names. intros Hx Hn. rewrite !in_app_iff in *.
  destruct Hn as [H|[H|[H|H]]]; [left | right; left | right; right; left | right; right; right];
    eapply names_of_kind_kid; eauto.
Qed.

Lemma names_of_kind_self k h kids n :
  kind_of_head h = Some (k, n) -> In n (names_of_kind k (Node h kids)).
Proof.
  intros H. unfold names_of_kind. apply in_flat_map. exists (Node h kids). split.
  - cbn [subterms]. now left.
  - cbn [hd_of]. rewrite H. destruct k; simpl; now left.
Qed.

Lemma rename_expr_only_vars names pre suf : forall e,
  (forall n, In n (other_names e) -> ~ In n names) ->
  rename_expr (ren_name names pre suf) e = rename_vars (ren_name names pre suf) e.
Proof.
  induction e as [h kids IH] using expr_ind'. intros H. cbn [rename_expr rename_vars]. f_equal.
  - destruct h; try reflexivity; cbn [rename_head rename_vars_head].
    + rewrite ren_name_notin; [reflexivity|]. apply H. unfold other_names. rewrite !in_app_iff.
      destruct fixed; [right; left | left]; now apply names_of_kind_self.
    + rewrite ren_name_notin; [reflexivity|]. apply H. unfold other_names. rewrite !in_app_iff.
      right; right; left. now apply names_of_kind_self.
    + rewrite ren_name_notin; [reflexivity|]. apply H. unfold other_names. rewrite !in_app_iff.
      right; right; right. now apply names_of_kind_self.
  - apply map_ext_in. intros x Hx. rewrite Forall_forall in IH. apply IH; [exact Hx|].
    intros n Hn. apply H. eapply other_names_kid; eauto.
Qed.

Lemma only_vars_renamed_spec names e :
  only_vars_renamed names e = true <-> (forall n, In n (other_names e) -> ~ In n names).
Proof.
  unfold only_vars_renamed. fold (other_names e). rewrite forallb_forall. split; intros H n Hn.
  - apply mem_s_false. specialize (H n Hn). now apply negb_true_iff in H.
  - apply negb_true_iff, mem_s_false. now apply H.
Qed.

(* ---- lookups in the flattened row *)
Lemma assoc_s_In {A} k (v : A) l : NoDup (map fst l) -> In (k, v) l -> assoc_s k l = Some v.
Proof.
  induction l as [|[k' v'] r IH]; simpl; intros Hnd Hin; [contradiction|].
  inversion Hnd as [|? ? Hn Hr]; subst. destruct Hin as [E|Hin].
  - injection E as -> ->. now rewrite String.eqb_refl.
  - destruct (String.eqb_spec k k') as [->|_]; [|now apply IH].
    exfalso. apply Hn. apply in_map_iff. now exists (k', v).
Qed.

Lemma assoc_s_app_l {A} k (v : A) a b : assoc_s k a = Some v -> assoc_s k (a ++ b) = Some v.
Proof.
  induction a as [|[k' v'] r IH]; simpl; [discriminate|]. destruct (String.eqb k k'); auto.
Qed.

Lemma assoc_s_app_r {A} k (a b : list (string * A)) : ~ In k (map fst a) -> assoc_s k (a ++ b) = assoc_s k b.
Proof.
  induction a as [|[k' v'] r IH]; simpl; intros H; [reflexivity|].
  destruct (String.eqb_spec k k') as [->|_]; [exfalso; apply H; now left | apply IH; tauto].
Qed.

Lemma flatten_from_In pre : forall sample j0 j alt a v,
  nth_error sample j = Some alt -> In (a, v) alt ->
  In (colname pre a (j0 + j), v) (flatten_from pre j0 sample).
Proof.
  induction sample as [|r t IH]; intros j0 j alt a v Hn Hin; [destruct j; discriminate|].
  cbn [flatten_from]. apply in_or_app. destruct j as [|j]; simpl in Hn.
  - injection Hn as ->. left. rewrite Nat.add_0_r. apply in_map_iff. now exists (a, v).
  - right. replace (j0 + S j)%nat with (S j0 + j)%nat by lia. eapply IH; eauto.
Qed.

(* the flat row holds, under <pre><attr>_<j>, the value of <attr> of the j-th sampled alternative *)
Lemma flatten_lookup pre sample j alt a rest :
  NoDup (map fst (flatten pre sample)) -> NoDup (map fst alt) ->
  nth_error sample j = Some alt -> In a (map fst alt) ->
  assoc_s (colname pre a j) (flatten pre sample ++ rest) = assoc_s a alt.
Proof.
  intros Hnd Hna Hn Ha. apply in_map_iff in Ha. destruct Ha as ([a' v] & <- & Hin). simpl.
  rewrite (assoc_s_In a' v alt Hna Hin). apply assoc_s_app_l. apply assoc_s_In; [exact Hnd|].
  apply (flatten_from_In pre sample 0 j alt a' v Hn Hin).
Qed.

Theorem combined_variable_correct Phi en (columns : list string) pre (j : nat) (formula : expr)
        (sample : list table_row) (alt ind : table_row) :
  let attrs := attrs_of formula columns in
  let row := flatten pre sample ++ ind in
  e_rows en = [] ->
  only_vars_renamed attrs formula = true ->
  NoDup (map fst (flatten pre sample)) -> NoDup (map fst alt) ->
  nth_error sample j = Some alt ->
  (forall a, In a attrs -> In a (map fst alt)) ->
  evalX Phi (combined_expr columns pre j formula) (with_row en (lookup_of row))
  = evalX Phi formula
      (with_row en (fun n => if mem_s n attrs then lookup_of alt n else lookup_of row n)).
Proof.
  intros attrs row Hrows Hov Hnd Hna Hn Hattrs.
  unfold combined_expr. fold attrs.
  rewrite rename_expr_only_vars by (now apply only_vars_renamed_spec).
  apply evalX_rename_vars. unfold env_relv, with_row. simpl. rewrite Hrows.
  repeat split; try reflexivity; [|constructor].
  intros n. unfold ren_name. destruct (mem_s n attrs) eqn:E; [|reflexivity].
  unfold lookup_of. f_equal. apply flatten_lookup; try assumption.
  apply Hattrs. now apply mem_s_In.
Qed.

(* a column of the individual that is not shadowed by a flattened column keeps its value *)
Lemma merged_row_individual pre sample ind n :
  ~ In n (map fst (flatten pre sample)) ->
  lookup_of (flatten pre sample ++ ind) n = lookup_of ind n.
Proof. intros H. unfold lookup_of. now rewrite assoc_s_app_r. Qed.

(* ================================================================== T19e: validation *)
Definition disjoint (a b : list Z) : Prop := forall x, In x a -> ~ In x b.

Definition is_partition (segments : list (list Z)) (full : list Z) : Prop :=
  (forall s, In s segments -> s <> []) /\
  ForallOrdPairs disjoint segments /\
  (forall x, In x full <-> exists s, In s segments /\ In x s).

Lemma disjointb_spec a b : disjointb a b = true <-> disjoint a b.
Proof.
  unfold disjointb, disjoint. rewrite forallb_forall. split; intros H x Hx.
  - apply memZ_false. specialize (H x Hx). now apply negb_true_iff in H.
  - apply negb_true_iff, memZ_false. now apply H.
Qed.

Lemma pairwise_disjointb_spec segments :
  pairwise_disjointb segments = true <-> ForallOrdPairs disjoint segments.
Proof.
  induction segments as [|s r IH]; simpl.
  - split; [constructor | reflexivity].
  - rewrite andb_true_iff, IH, forallb_forall. split.
    + intros [H1 H2]. constructor; [|exact H2]. apply Forall_forall. intros b Hb.
      apply disjointb_spec. now apply H1.
    + intros H. inversion H as [|? ? H1 H2]; subst. split; [|exact H2].
      rewrite Forall_forall in H1. intros b Hb. apply disjointb_spec. now apply H1.
Qed.

Lemma subsetb_spec a b : subsetb a b = true <-> incl a b.
Proof.
  unfold subsetb, incl. rewrite forallb_forall. split; intros H x Hx; apply memZ_In; now apply H.
Qed.

Theorem partition_accepts_iff segments full :
  partition_accepts segments full = true <-> is_partition segments (effective_full segments full).
Proof.
  unfold partition_accepts, is_partition.
  rewrite !andb_true_iff, pairwise_disjointb_spec, !subsetb_spec, forallb_forall.
  assert (Hu : forall x, In x (union_of segments) <-> exists s, In s segments /\ In x s).
  { intros x. unfold union_of. rewrite in_concat. reflexivity. }
  split.
  - intros [[[H1 H2] H3] H4]. split; [|split; [exact H2|]].
    + intros s Hs E. specialize (H1 s Hs). subst s. discriminate.
    + intros x. rewrite <- Hu. split; [apply H4 | apply H3].
  - intros (H1 & H2 & H3). split; [split; [split; [|exact H2]|]|].
    + intros s Hs. specialize (H1 s Hs). destruct s; [congruence | reflexivity].
    + intros x Hx. apply H3, Hu, Hx.
    + intros x Hx. apply Hu, H3, Hx.
Qed.

Theorem check_partition_accepts_iff table strata :
  check_partition_accepts table strata = true <->
  Forall (fun s : stratum => fst s <> [] /\ snd s <= lenZ (fst s) /\ snd s <> 0 /\ incl (fst s) table) strata.
Proof.
  unfold check_partition_accepts. rewrite forallb_forall, Forall_forall.
  split; intros H s Hs; specialize (H s Hs); cbv zeta in *.
  - rewrite !andb_true_iff, !negb_true_iff, subsetb_spec in H. destruct H as [[[H1 H2] H3] H4].
    repeat split; try assumption; try lia.
    intros E. rewrite E in H1. discriminate.
  - destruct H as (H1 & H2 & H3 & H4). rewrite !andb_true_iff, !negb_true_iff, subsetb_spec.
    repeat split; try assumption; try lia.
    destruct (fst s); [congruence|]. unfold lenZ. simpl. lia.
Qed.

(* a validated configuration with non-negative sizes satisfies the hypotheses of the protocol
   theorems (Python sets have no repeated element: NoDup of each segment) *)
Theorem validated_strata_wf table strata full :
  partition_accepts (map fst strata) full = true ->
  check_partition_accepts table strata = true ->
  Forall (fun s : stratum => NoDup (fst s) /\ 0 <= snd s) strata ->
  wf_strata strata.
Proof.
  intros Hp Hc Hs. apply partition_accepts_iff in Hp. destruct Hp as (_ & Hd & _).
  apply check_partition_accepts_iff in Hc. split.
  - unfold full_set. clear Hc. induction strata as [|s r IH]; simpl; [constructor|].
    inversion Hd as [|? ? H1 H2]; subst. inversion Hs as [|? ? [Hn _] Hr]; subst.
    apply NoDup_app_intro; [exact Hn | now apply IH|].
    intros x Hx Hx'. apply in_concat in Hx'. destruct Hx' as (l & Hl & Hxl).
    rewrite Forall_forall in H1. exact (H1 l Hl x Hx Hxl).
  - rewrite Forall_forall in *. intros s Hin. destruct (Hc s Hin) as (H1 & H2 & H3 & _).
    destruct (Hs s Hin) as [_ H0]. lia.
Qed.

(* check_partition does not refuse a negative sample size (pandas does, later, with ValueError) *)
Lemma check_partition_accepts_negative_size :
  check_partition_accepts [1] [([1], -1)] = true /\ ~ wf_strata [([1], -1)].
Proof.
  split; [reflexivity|]. intros [_ H]. inversion H as [|? ? H1 _]; subst. simpl in H1. lia.
Qed.

(* ================================================================== tie A: Gen/SamplingFormulas.v *)
Lemma repeat_shift {A} (x : A) n l : repeat x n ++ x :: l = repeat x (S n) ++ l.
Proof. induction n as [|n IH]; simpl; [reflexivity|]. now rewrite IH. Qed.

Lemma add_nth_app a x c d : add_nth (a ++ x :: c) (List.length a) d = a ++ (x + d) :: c.
Proof. induction a as [|y a IH]; simpl; [reflexivity|]. now rewrite IH. Qed.

Lemma fold_add_spec b : forall r m, (r <= m)%nat ->
  fold_left (fun l i => py_list_add_at l i 1) (map Z.of_nat (seq 0 r)) (repeat b m)
  = repeat (b + 1) r ++ repeat b (m - r).
Proof.
  induction r as [|r IH]; intros m Hle.
  - simpl. now rewrite Nat.sub_0_r.
  - rewrite seq_S, map_app, fold_left_app, IH by lia. cbn [map fold_left Nat.add].
    unfold py_list_add_at. rewrite Nat2Z.id.
    replace (m - r)%nat with (S (m - S r)) by lia. cbn [repeat].
    pose proof (add_nth_app (repeat (b + 1) r) b (repeat b (m - S r)) 1) as H.
    rewrite repeat_length in H. rewrite H.
    apply (repeat_shift (b + 1) r).
Qed.

Lemma sumZ_app a b : sumZ (a ++ b) = sumZ a + sumZ b.
Proof. unfold sumZ. induction a as [|x a IH]; simpl; [reflexivity|]. rewrite IH. lia. Qed.

Lemma sumZ_repeat x n : sumZ (repeat x n) = x * Z.of_nat n.
Proof. unfold sumZ. induction n as [|n IH]; [simpl; lia|]. cbn [repeat fold_right]. rewrite IH. lia. Qed.

Theorem generate_segment_size_closed_form s m :
  0 <= s -> 0 < m ->
  generate_segment_size s m
  = Some (repeat (s / m + 1) (Z.to_nat (s mod m)) ++ repeat (s / m) (Z.to_nat (m - s mod m))).
Proof.
  intros Hs Hm. unfold generate_segment_size.
  replace (s <? 0) with false by lia. replace (m <=? 0) with false by lia.
  unfold py_list_repeat, py_range. f_equal.
  pose proof (Z.mod_pos_bound s m Hm).
  rewrite fold_add_spec by lia. f_equal. f_equal. lia.
Qed.

Lemma nth_repeat_lt {A} (x d : A) : forall n i, (i < n)%nat -> nth i (repeat x n) d = x.
Proof.
  induction n as [|n IH]; intros i Hi; [lia|]. destruct i as [|i]; simpl; [reflexivity|].
  apply IH. lia.
Qed.

Theorem generate_segment_size_spec s m :
  0 <= s -> 0 < m ->
  exists l, generate_segment_size s m = Some l /\
    lenZ l = m /\ sumZ l = s /\ (forall x, In x l -> x = s / m \/ x = s / m + 1) /\
    (forall i j, (i < j)%nat -> nth j l 0 <= nth i l 0).
Proof.
  intros Hs Hm. eexists. split; [apply generate_segment_size_closed_form; assumption|].
  pose proof (Z.mod_pos_bound s m Hm) as Hb. pose proof (Z.div_mod s m ltac:(lia)) as Hdm.
  pose proof (Z.div_pos s m Hs Hm) as Hq.
  split; [|split; [|split]].
  - unfold lenZ. rewrite app_length, !repeat_length. lia.
  - rewrite sumZ_app, !sumZ_repeat. rewrite !Z2Nat.id by lia. nia.
  - intros x Hx. apply in_app_or in Hx. destruct Hx as [Hx|Hx]; apply repeat_spec in Hx; lia.
  - intros i j Hij.
    set (r := Z.to_nat (s mod m)). set (t := Z.to_nat (m - s mod m)).
    assert (Hn : forall i, nth i (repeat (s / m + 1) r ++ repeat (s / m) t) 0
                           = if (i <? r)%nat then s / m + 1
                             else if (i <? r + t)%nat then s / m else 0).
    { intros i0. destruct (Nat.ltb_spec i0 r).
      - rewrite app_nth1 by (rewrite repeat_length; lia). now apply nth_repeat_lt.
      - rewrite app_nth2 by (rewrite repeat_length; lia). rewrite repeat_length.
        destruct (Nat.ltb_spec i0 (r + t)).
        + apply nth_repeat_lt. lia.
        + apply nth_overflow. rewrite repeat_length. lia. }
    rewrite !Hn.
    destruct (Nat.ltb_spec i r), (Nat.ltb_spec j r), (Nat.ltb_spec i (r + t)), (Nat.ltb_spec j (r + t)); lia.
Qed.

Theorem generate_segment_size_refuses s m : s < 0 \/ m <= 0 -> generate_segment_size s m = None.
Proof.
  intros H. unfold generate_segment_size. destruct (Z.ltb_spec s 0); [reflexivity|].
  destruct (Z.leb_spec m 0); [reflexivity | lia].
Qed.

Lemma logproba_formula_spec k n :
  0 < k -> 0 < n -> logproba_formula (IZR k) (IZR n) = corr_value (k, n).
Proof.
  intros Hk Hn. unfold logproba_formula, corr_value. simpl.
  pose proof (IZR_pos _ Hk). pose proof (IZR_pos _ Hn).
  unfold Rdiv. rewrite ln_mult, ln_Rinv; [lra | assumption | assumption | now apply Rinv_0_lt_compat].
Qed.

Lemma mev_weight_formula_spec k n : mev_weight_formula (IZR k) (IZR n) = weight_value (k, n).
Proof. reflexivity. Qed.

Lemma sample_size_in_chosen_stratum_spec k : sample_size_in_chosen_stratum k = k - 1.
Proof. reflexivity. Qed.

Lemma column_names_spec a j :
  flat_name a (dec j) = colname "" a j /\ mev_flat_name a (dec j) = colname mev_prefix a j /\
  LOG_PROBA_COL = log_proba_col /\ MEV_WEIGHT = mev_weight_col /\ MEV_PREFIX = mev_prefix.
Proof. repeat split. Qed.

(* the stratum loop of the model uses exactly the generated pieces *)
Theorem tie_formulas k n :
  0 < k -> 0 < n ->
  corr_value (k, n) = logproba_formula (IZR k) (IZR n) /\
  weight_value (k, n) = mev_weight_formula (IZR k) (IZR n) /\
  (forall c sub rs, memZ c sub = true ->
     List.length (stratum_sample c (sub, k) rs)
     = List.length (draw (Z.to_nat (sample_size_in_chosen_stratum k)) (removeZ c sub) rs)).
Proof.
  intros Hk Hn. split; [symmetry; now apply logproba_formula_spec|]. split; [reflexivity|].
  intros c sub rs H. unfold stratum_sample. rewrite H, map_length. reflexivity.
Qed.
