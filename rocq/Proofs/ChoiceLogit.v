(* The logit kernel (LogLogit with availabilities) and the MEV wrapper:
   probabilities are a distribution over the available alternatives. *)
From Coq Require Import Reals Lra Lia List ZArith Bool.
From BV Require Import Model.EvalX Model.BuildersChoice Proofs.ChoiceBase.
Open Scope R_scope.

(* closed forms *)
Definition den (aval uval : Z -> R) (ks : list Z) : R :=
  Rsum (fun k => if Rnz (aval k) then exp (uval k) else 0) ks.
Definition logit_p (aval uval : Z -> R) (ks : list Z) (i : Z) : R :=
  if Rnz (aval i) then exp (uval i) / den aval uval ks else 0.

Lemma den_nonneg aval uval ks : 0 <= den aval uval ks.
Proof.
  apply Rsum_nonneg. intros k _. destruct (Rnz (aval k)); [left; apply exp_pos|lra].
Qed.

Lemma den_pos aval uval ks k : In k ks -> aval k <> 0 -> 0 < den aval uval ks.
Proof.
  intros Hk Ha. unfold den.
  apply (Rsum_pos _ ks k); [|assumption|].
  - intros y _. destruct (Rnz (aval y)); [left; apply exp_pos|lra].
  - apply Rnz_true in Ha. rewrite Ha. apply exp_pos.
Qed.

Lemma logit_distribution aval uval ks :
  (exists k, In k ks /\ aval k <> 0) -> is_distribution ks aval (logit_p aval uval ks).
Proof.
  intros (k0 & Hk0 & Ha0). pose proof (den_pos aval uval ks k0 Hk0 Ha0) as HD.
  split; [|split].
  - intros i Hi. unfold logit_p. destruct (Rnz (aval i)) eqn:E; [|lra].
    assert (Hle : exp (uval i) <= den aval uval ks).
    { unfold den. apply (Rsum_ge_term (fun k => if Rnz (aval k) then exp (uval k) else 0) ks i) in Hi.
      - rewrite E in Hi. exact Hi.
      - intros y _. destruct (Rnz (aval y)); [left; apply exp_pos|lra]. }
    pose proof (exp_pos (uval i)). split.
    + apply Rle_mult_inv_pos; lra.
    + apply (Rmult_le_reg_r (den aval uval ks)); [assumption|]. unfold Rdiv.
      rewrite Rmult_assoc, Rinv_l by lra. lra.
  - intros i _ Hz. unfold logit_p. apply Rnz_false in Hz. rewrite Hz. reflexivity.
  - rewrite (Rsum_ext _ (fun i => (if Rnz (aval i) then exp (uval i) else 0) / den aval uval ks)).
    + rewrite Rsum_div. fold (den aval uval ks). field. lra.
    + intros i _. unfold logit_p. destruct (Rnz (aval i)); [reflexivity|]. unfold Rdiv. ring.
Qed.

(* adding one constant to the utilities of all available alternatives changes nothing *)
Lemma den_shift aval uval uval' ks c :
  (forall k, In k ks -> aval k <> 0 -> uval' k = uval k + c) ->
  den aval uval' ks = exp c * den aval uval ks.
Proof.
  intros H. unfold den. rewrite <- Rsum_scal. apply Rsum_ext. intros k Hk.
  destruct (Rnz (aval k)) eqn:E; [|ring].
  rewrite (H k Hk) by now apply Rnz_true. rewrite exp_plus. ring.
Qed.

Lemma logit_p_shift aval uval uval' ks c i :
  (forall k, In k ks -> aval k <> 0 -> uval' k = uval k + c) ->
  In i ks -> logit_p aval uval' ks i = logit_p aval uval ks i.
Proof.
  intros H Hi. unfold logit_p. destruct (Rnz (aval i)) eqn:E; [|reflexivity].
  assert (Ha : aval i <> 0) by now apply Rnz_true.
  rewrite (den_shift _ _ _ _ _ H), (H i Hi Ha), exp_plus.
  pose proof (den_pos aval uval ks i Hi Ha). pose proof (exp_pos c). field. lra.
Qed.

Lemma loglogit_shift aval uval uval' ks c i :
  (forall k, In k ks -> aval k <> 0 -> uval' k = uval k + c) ->
  In i ks -> aval i <> 0 ->
  uval' i - ln (den aval uval' ks) = uval i - ln (den aval uval ks).
Proof.
  intros H Hi Ha. rewrite (den_shift _ _ _ _ _ H), (H i Hi Ha).
  pose proof (den_pos aval uval ks i Hi Ha). rewrite ln_mult by (try apply exp_pos; lra).
  rewrite ln_exp. ring.
Qed.

Lemma ln_logit_p aval uval ks i :
  In i ks -> aval i <> 0 -> ln (logit_p aval uval ks i) = uval i - ln (den aval uval ks).
Proof.
  intros Hi Ha. unfold logit_p. assert (E : Rnz (aval i) = true) by now apply Rnz_true. rewrite E.
  pose proof (den_pos aval uval ks i Hi Ha). unfold Rdiv.
  rewrite ln_mult by (try apply exp_pos; apply Rinv_0_lt_compat; lra).
  rewrite ln_exp, ln_Rinv by lra. ring.
Qed.

Lemma exp_loglogit aval uval ks i :
  In i ks -> aval i <> 0 -> exp (uval i - ln (den aval uval ks)) = logit_p aval uval ks i.
Proof.
  intros Hi Ha. rewrite <- (ln_logit_p aval uval ks i Hi Ha). apply exp_ln.
  unfold logit_p. assert (E : Rnz (aval i) = true) by now apply Rnz_true. rewrite E.
  pose proof (den_pos aval uval ks i Hi Ha). apply Rdiv_lt_0_compat; [apply exp_pos|lra].
Qed.

Section Logit.
  Variable Phi : R -> R.
  Variable en : env.
  Notation ev e := (evalX Phi e en).
  Notation pvx p := (pvX Phi en p).
  Variables aval uval : Z -> R.

  Lemma assoc_Z_eval (A : dict expr) k :
    (forall k e, In (k, e) A -> ev e = XR (aval k)) -> In k (keys A) ->
    assoc_Z k (keys A) (map (fun e => ev e) (map snd A)) = Some (XR (aval k)).
  Proof.
    intros HA. induction A as [|[k' e'] A IH]; simpl; [tauto|]. intros Hk.
    destruct (Z.eqb_spec k k') as [->|Hne].
    - rewrite (HA k' e') by now left. reflexivity.
    - apply IH; [intros; apply HA; now right|]. destruct Hk; [congruence|assumption].
  Qed.

  Lemma assoc_Z_util (U : dict expr) k :
    (forall k e, In (k, e) U -> aval k <> 0 -> ev e = XR (uval k)) -> In k (keys U) -> aval k <> 0 ->
    assoc_Z k (keys U) (map (fun e => ev e) (map snd U)) = Some (XR (uval k)).
  Proof.
    intros HU. induction U as [|[k' e'] U IH]; simpl; [tauto|]. intros Hk Ha.
    destruct (Z.eqb_spec k k') as [->|Hne].
    - rewrite (HU k' e') by (auto; now left). reflexivity.
    - apply IH; [intros; apply HU; auto; now right| |assumption]. destruct Hk; [congruence|assumption].
  Qed.

  Lemma logit_denominator_eval (U : dict expr) akeys avs :
    (forall k, In k (keys U) -> assoc_Z k akeys avs = Some (XR (aval k))) ->
    (forall k e, In (k, e) U -> aval k <> 0 -> ev e = XR (uval k)) ->
    logit_denominator (keys U) (map (fun e => ev e) (map snd U)) akeys avs = XR (den aval uval (keys U)).
  Proof.
    intros HA HU. induction U as [|[k e] U IH]; simpl; [reflexivity|].
    rewrite (HA k) by (simpl; now left).
    rewrite IH; [|intros; apply HA; simpl; now right|intros; apply (HU k0); auto; now right].
    unfold den. simpl. destruct (Rnz (aval k)) eqn:E.
    - rewrite (HU k e) by (try apply Rnz_true; auto; now left). reflexivity.
    - f_equal. ring.
  Qed.

  Lemma ev_ELogLogit ch (U A : dict expr) i :
    (forall k e, In (k, e) A -> ev e = XR (aval k)) ->
    (forall k e, In (k, e) U -> aval k <> 0 -> ev e = XR (uval k)) ->
    incl (keys U) (keys A) ->
    ev ch = XR (IZR i) -> In i (keys U) ->
    ev (ELogLogit ch U A)
    = if Rnz (aval i) then XR (uval i - ln (den aval uval (keys U))) else XmInf.
  Proof.
    intros HA HU Hinc Hch Hi.
    change (ev (ELogLogit ch U A)) with
      (xloglogit (keys U) (keys A) (ev ch :: map (fun k => ev k) (map snd U ++ map snd A))).
    rewrite Hch. unfold xloglogit. rewrite map_app.
    assert (Hlen : List.length (keys U) = List.length (map (fun k => ev k) (map snd U))).
    { unfold keys. now rewrite !map_length. }
    rewrite Hlen, firstn_app, firstn_all, Nat.sub_diag, skipn_app, skipn_all, Nat.sub_diag.
    simpl firstn. simpl skipn. rewrite app_nil_r. simpl app.
    assert (Hl2 : List.length (map (fun k => ev k) (map snd A)) = List.length (keys A)).
    { unfold keys. now rewrite !map_length. }
    rewrite Hl2, Nat.eqb_refl. simpl negb. cbv iota.
    rewrite R2Z_IZR.
    rewrite (assoc_Z_eval A i HA (Hinc i Hi)).
    destruct (Rnz (aval i)) eqn:E.
    - assert (Ha : aval i <> 0) by now apply Rnz_true.
      rewrite (assoc_Z_util U i HU Hi Ha).
      rewrite logit_denominator_eval; [|intros; apply assoc_Z_eval; auto|assumption].
      rewrite Rltb'_true by (apply (den_pos aval uval (keys U) i); assumption).
      reflexivity.
    - destruct (assoc_Z i (keys U) (map (fun k => ev k) (map snd U))) eqn:E2; [reflexivity|].
      exfalso. clear - Hi E2. induction U as [|[k e] U IH]; simpl in *; [tauto|].
      destruct (Z.eqb_spec i k); [discriminate|]. apply IH; [|assumption]. destruct Hi; [congruence|assumption].
  Qed.

  (* the tree built by loglogit / logit from Python-level arguments *)
  Lemma ev_loglogit_e (util : dict pv) (av : avail) (ch : pv) i :
    av_ok Phi en av aval -> av_covers av (keys util) ->
    (forall k p, In (k, p) util -> aval k <> 0 -> pvx p = XR (uval k)) ->
    pvx ch = XR (IZR i) -> In i (keys util) ->
    ev (loglogit_e util av ch)
    = if Rnz (aval i) then XR (uval i - ln (den aval uval (keys util))) else XmInf.
  Proof.
    intros Hav Hcov HU Hch Hi. unfold loglogit_e.
    rewrite <- (keys_dmap to_e util).
    apply ev_ELogLogit; rewrite ?keys_dmap; try assumption.
    - destruct av as [a|]; simpl in *.
      + intros k e Hin. apply In_dmap in Hin as (p & Hp & ->). now apply (Hav k p).
      + intros k e Hin. apply In_dmap in Hin as (p & Hp & ->). rewrite (Hav k). simpl.
        now rewrite D2R_one.
    - intros k e Hin Ha. apply In_dmap in Hin as (p & Hp & ->). now apply (HU k p).
    - destruct av as [a|]; simpl in *; rewrite keys_dmap; [assumption|apply incl_refl].
  Qed.

  Lemma ev_logit_e (util : dict pv) (av : avail) (ch : pv) i :
    av_ok Phi en av aval -> av_covers av (keys util) ->
    (forall k p, In (k, p) util -> aval k <> 0 -> pvx p = XR (uval k)) ->
    pvx ch = XR (IZR i) -> In i (keys util) ->
    ev (EUn Exp (loglogit_e util av ch)) = XR (logit_p aval uval (keys util) i).
  Proof.
    intros Hav Hcov HU Hch Hi. rewrite ev_un_exp, (ev_loglogit_e util av ch i) by assumption.
    unfold logit_p at 1. destruct (Rnz (aval i)) eqn:E; simpl.
    - f_equal. rewrite exp_loglogit by (try apply Rnz_true; assumption).
      unfold logit_p. now rewrite E.
    - reflexivity.
  Qed.
End Logit.

(* ------------------------------------------------------------------ logit.py *)
Section LogitProper.
  Variable Phi : R -> R.
  Variable en : env.
  Notation ev e := (evalX Phi e en).
  Notation pvx p := (pvX Phi en p).

  (* T05a/b/c (+ the logit part of T05h): for every environment, the trees built by logit /
     loglogit for the alternatives i of the choice set evaluate to p i / ln (p i) (or -inf),
     where p is a distribution over the available alternatives *)
  Theorem logit_proper (util : dict pv) (av : avail) (aval uval : Z -> R) :
    av_ok Phi en av aval -> av_covers av (keys util) ->
    (forall k p, In (k, p) util -> aval k <> 0 -> pvx p = XR (uval k)) ->
    (exists k, In k (keys util) /\ aval k <> 0) ->
    let p := logit_p aval uval (keys util) in
    (forall i ch, In i (keys util) -> pvx ch = XR (IZR i) ->
       exists t l, logit util av ch = Ok t /\ loglogit util av ch = Ok l /\
                   ev t = XR (p i) /\
                   ev l = (if Rnz (aval i) then XR (ln (p i)) else XmInf) /\
                   ev t = xun Phi Exp (ev l)) /\
    is_distribution (keys util) aval p.
  Proof.
    intros Hav Hcov HU Hex p. split; [|now apply logit_distribution].
    intros i ch Hi Hch. eexists; eexists. split; [reflexivity|]. split; [reflexivity|].
    split; [now apply ev_logit_e|]. split; [|reflexivity].
    rewrite (ev_loglogit_e Phi en aval uval util av ch i) by assumption.
    destruct (Rnz (aval i)) eqn:E; [|reflexivity].
    unfold p. rewrite ln_logit_p by (try apply Rnz_true; assumption). reflexivity.
  Qed.

  (* shift invariance (logit part of T05g) *)
  Theorem logit_shift_invariant (util util' : dict pv) (av : avail) (aval uval : Z -> R) (c : R) :
    av_ok Phi en av aval -> av_covers av (keys util) -> keys util' = keys util ->
    (forall k p, In (k, p) util -> aval k <> 0 -> pvx p = XR (uval k)) ->
    (forall k p, In (k, p) util' -> aval k <> 0 -> pvx p = XR (uval k + c)) ->
    forall i ch, In i (keys util) -> pvx ch = XR (IZR i) ->
      ev (EUn Exp (loglogit_e util' av ch)) = ev (EUn Exp (loglogit_e util av ch)) /\
      ev (loglogit_e util' av ch) = ev (loglogit_e util av ch).
  Proof.
    intros Hav Hcov Hk HU HU' i ch Hi Hch.
    assert (Hs : forall k, In k (keys util) -> aval k <> 0 -> (fun k => uval k + c) k = uval k + c)
      by reflexivity.
    split.
    - rewrite (ev_logit_e Phi en aval uval util av ch i) by assumption.
      rewrite (ev_logit_e Phi en aval (fun k => uval k + c) util' av ch i);
        rewrite ?Hk; try assumption.
      f_equal. exact (logit_p_shift aval uval (fun k => uval k + c) (keys util) c i Hs Hi).
    - rewrite (ev_loglogit_e Phi en aval uval util av ch i) by assumption.
      rewrite (ev_loglogit_e Phi en aval (fun k => uval k + c) util' av ch i);
        rewrite ?Hk; try assumption.
      destruct (Rnz (aval i)) eqn:E; [|reflexivity]. f_equal.
      apply Rnz_true in E.
      exact (loglogit_shift aval uval (fun k => uval k + c) (keys util) c i Hs Hi E).
  Qed.
End LogitProper.

(* ------------------------------------------------------------------ mev.py *)
Lemma mapM_inv {A B} (f : A -> res B) l r :
  mapM f l = Ok r -> Forall2 (fun x y => f x = Ok y) l r.
Proof.
  revert r. induction l as [|a l IH]; simpl; intros r.
  - intros [= <-]. constructor.
  - destruct (f a) as [y|k] eqn:Ey; simpl; [|discriminate].
    destruct (mapM f l) as [ys|k] eqn:El; simpl; [|discriminate].
    intros [= <-]. constructor; [assumption|]. now apply IH.
Qed.

Lemma mapM_ok {A B} (f : A -> res B) l :
  (forall x, In x l -> exists y, f x = Ok y) -> exists r, mapM f l = Ok r.
Proof.
  induction l as [|a l IH]; simpl; intros H; [eauto|].
  destruct (H a) as [y Hy]; [now left|]. rewrite Hy. simpl.
  destruct IH as [r Hr]; [intros; apply H; now right|]. rewrite Hr. simpl. eauto.
Qed.

Lemma mev_h_inv util lg H :
  mev_h util lg = Ok H ->
  keys H = keys util /\
  (forall k h, In (k, h) H -> exists v g, In (k, v) util /\ lg k = Ok g /\ h = padd v g).
Proof.
  unfold mev_h. intros E. apply mapM_inv in E.
  induction E as [|[k v] [k' h] util H E0 E IH]; simpl.
  - split; [reflexivity|tauto].
  - simpl in E0. destruct (lg k) as [g|] eqn:Eg; simpl in E0; [|discriminate].
    injection E0 as <- <-. destruct IH as [IH1 IH2]. split; [simpl; congruence|].
    intros k0 h0 [[= <- <-]|Hin].
    + exists v, g. split; [now left|]. split; [assumption|reflexivity].
    + destruct (IH2 k0 h0 Hin) as (v0 & g0 & H1 & H2 & H3). exists v0, g0. split; [now right|auto].
Qed.

Lemma mev_h_ok util lg :
  (forall k, In k (keys util) -> exists g, lg k = Ok g) -> exists H, mev_h util lg = Ok H.
Proof.
  intros Hg. apply mapM_ok. intros [k v] Hin.
  destruct (Hg k) as [g Eg]; [now apply (In_keys util k v)|]. simpl. rewrite Eg. simpl. eauto.
Qed.

Section Mev.
  Variable Phi : R -> R.
  Variable en : env.
  Notation ev e := (evalX Phi e en).
  Notation pvx p := (pvX Phi en p).

  (* MEV = logit on h = V + ln G *)
  Lemma logmev_f_value util lg av aval hval H :
    mev_h util lg = Ok H ->
    av_ok Phi en av aval -> av_covers av (keys util) ->
    (forall k h, In (k, h) H -> aval k <> 0 -> pvx h = XR (hval k)) ->
    forall i ch, In i (keys util) -> pvx ch = XR (IZR i) ->
      logmev_f util lg av ch = Ok (loglogit_e H av ch) /\
      ev (loglogit_e H av ch)
        = (if Rnz (aval i) then XR (hval i - ln (den aval hval (keys util))) else XmInf) /\
      ev (EUn Exp (loglogit_e H av ch)) = XR (logit_p aval hval (keys util) i).
  Proof.
    intros EH Hav Hcov HH i ch Hi Hch. destruct (mev_h_inv _ _ _ EH) as [Hk _].
    split; [unfold logmev_f; rewrite EH; reflexivity|]. rewrite <- Hk in *. split.
    - now apply ev_loglogit_e.
    - now apply ev_logit_e.
  Qed.

  (* T05d: MEV with arbitrary user-supplied ln G_i terms *)
  Theorem mev_proper util (lg : Z -> res pv) av aval :
    NoDup (keys util) ->
    av_ok Phi en av aval -> av_covers av (keys util) ->
    (forall k, In k (keys util) -> exists g, lg k = Ok g) ->
    (forall k v g, In (k, v) util -> lg k = Ok g -> aval k <> 0 ->
                   exists x y, pvx v = XR x /\ pvx g = XR y) ->
    (exists k, In k (keys util) /\ aval k <> 0) ->
    exists p,
      (forall i ch, In i (keys util) -> pvx ch = XR (IZR i) ->
         exists l, logmev_f util lg av ch = Ok l /\
                   ev (EUn Exp l) = XR (p i) /\
                   ev l = (if Rnz (aval i) then XR (ln (p i)) else XmInf)) /\
      is_distribution (keys util) aval p.
  Proof.
    intros Hnd Hav Hcov Hlg Hval Hex.
    destruct (mev_h_ok util lg Hlg) as [H EH].
    destruct (mev_h_inv _ _ _ EH) as [Hk Hin].
    set (hval := fun k => xR (pvx (getd p_zero H k))).
    assert (HH : forall k h, In (k, h) H -> aval k <> 0 -> pvx h = XR (hval k)).
    { intros k h Hkh Ha. unfold hval, getd.
      rewrite (In_get_nodup H k h) by (rewrite ?Hk; assumption).
      destruct (Hin k h Hkh) as (v & g & Hv & Hg & ->).
      destruct (Hval k v g Hv Hg Ha) as (x & y & Hx & Hy).
      destruct (pvX_padd_def Phi en v g x y Hx Hy) as [z Hz]. rewrite Hz. reflexivity. }
    exists (logit_p aval hval (keys util)). split; [|now apply logit_distribution].
    intros i ch Hi Hch.
    destruct (logmev_f_value util lg av aval hval H EH Hav Hcov HH i ch Hi Hch) as (E1 & E2 & E3).
    exists (loglogit_e H av ch). split; [assumption|]. split; [assumption|].
    rewrite E2. destruct (Rnz (aval i)) eqn:E; [|reflexivity].
    rewrite ln_logit_p by (try apply Rnz_true; assumption). reflexivity.
  Qed.
End Mev.

(* ------------------------------------------------------------------ endogenous sampling *)
Lemma es_h_inv util lg cr H :
  es_h util lg cr = Ok H ->
  keys H = keys util /\
  (forall k h, In (k, h) H -> exists v g c, In (k, v) util /\ lg k = Ok g /\ cr k = Ok c /\ h = padd (padd v g) c).
Proof.
  unfold es_h. intros E. apply mapM_inv in E.
  induction E as [|[k v] [k' h] util H E0 E IH]; simpl.
  - split; [reflexivity|tauto].
  - simpl in E0. destruct (lg k) as [g|] eqn:Eg; simpl in E0; [|discriminate].
    destruct (cr k) as [c|] eqn:Ec; simpl in E0; [|discriminate].
    injection E0 as <- <-. destruct IH as [IH1 IH2]. split; [simpl; congruence|].
    intros k0 h0 [[= <- <-]|Hin].
    + exists v, g, c. split; [now left|]. repeat split; assumption.
    + destruct (IH2 k0 h0 Hin) as (v0 & g0 & c0 & H1 & H2 & H3 & H4). exists v0, g0, c0. split; [now right|auto].
Qed.

Lemma es_h_ok util lg cr :
  (forall k, In k (keys util) -> exists g c, lg k = Ok g /\ cr k = Ok c) -> exists H, es_h util lg cr = Ok H.
Proof.
  intros Hg. apply mapM_ok. intros [k v] Hin.
  destruct (Hg k) as (g & c & Eg & Ec); [now apply (In_keys util k v)|]. simpl. rewrite Eg, Ec. simpl. eauto.
Qed.

Section EndogenousSampling.
  Variable Phi : R -> R.
  Variable en : env.
  Notation ev e := (evalX Phi e en).
  Notation pvx p := (pvX Phi en p).

  Lemma logmev_es_value util lg cr av aval hval H :
    es_h util lg cr = Ok H ->
    av_ok Phi en av aval -> av_covers av (keys util) ->
    (forall k h, In (k, h) H -> aval k <> 0 -> pvx h = XR (hval k)) ->
    forall i ch, In i (keys util) -> pvx ch = XR (IZR i) ->
      logmev_es_f util lg cr av ch = Ok (loglogit_e H av ch) /\
      ev (loglogit_e H av ch)
        = (if Rnz (aval i) then XR (hval i - ln (den aval hval (keys util))) else XmInf) /\
      ev (EUn Exp (loglogit_e H av ch)) = XR (logit_p aval hval (keys util) i).
  Proof.
    intros EH Hav Hcov HH i ch Hi Hch. destruct (es_h_inv _ _ _ _ EH) as [Hk _].
    split; [unfold logmev_es_f; rewrite EH; reflexivity|]. rewrite <- Hk in *. split.
    - now apply ev_loglogit_e.
    - now apply ev_logit_e.
  Qed.

  (* the MEV model with endogenous-sampling correction is a proper distribution, for arbitrary
     ln G_i and correction terms *)
  Theorem mev_es_proper util (lg cr : Z -> res pv) av aval :
    NoDup (keys util) ->
    av_ok Phi en av aval -> av_covers av (keys util) ->
    (forall k, In k (keys util) -> exists g c, lg k = Ok g /\ cr k = Ok c) ->
    (forall k v g c, In (k, v) util -> lg k = Ok g -> cr k = Ok c -> aval k <> 0 ->
                     exists x y z, pvx v = XR x /\ pvx g = XR y /\ pvx c = XR z) ->
    (exists k, In k (keys util) /\ aval k <> 0) ->
    exists p,
      (forall i ch, In i (keys util) -> pvx ch = XR (IZR i) ->
         exists l, logmev_es_f util lg cr av ch = Ok l /\
                   ev (EUn Exp l) = XR (p i) /\
                   ev l = (if Rnz (aval i) then XR (ln (p i)) else XmInf)) /\
      is_distribution (keys util) aval p.
  Proof.
    intros Hnd Hav Hcov Hlg Hval Hex.
    destruct (es_h_ok util lg cr Hlg) as [H EH].
    destruct (es_h_inv _ _ _ _ EH) as [Hk Hin].
    set (hval := fun k => xR (pvx (getd p_zero H k))).
    assert (HH : forall k h, In (k, h) H -> aval k <> 0 -> pvx h = XR (hval k)).
    { intros k h Hkh Ha. unfold hval, getd.
      rewrite (In_get_nodup H k h) by (rewrite ?Hk; assumption).
      destruct (Hin k h Hkh) as (v & g & c & Hv & Hg & Hc & ->).
      destruct (Hval k v g c Hv Hg Hc Ha) as (x & y & z & Hx & Hy & Hz).
      destruct (pvX_padd_def Phi en v g x y Hx Hy) as [w Hw].
      destruct (pvX_padd_def Phi en _ c w z Hw Hz) as [w' Hw']. rewrite Hw'. reflexivity. }
    exists (logit_p aval hval (keys util)). split; [|now apply logit_distribution].
    intros i ch Hi Hch.
    destruct (logmev_es_value util lg cr av aval hval H EH Hav Hcov HH i ch Hi Hch) as (E1 & E2 & E3).
    exists (loglogit_e H av ch). split; [assumption|]. split; [assumption|].
    rewrite E2. destruct (Rnz (aval i)) eqn:E; [|reflexivity].
    rewrite ln_logit_p by (try apply Rnz_true; assumption). reflexivity.
  Qed.

  (* with one and the same correction for every alternative the model is the MEV model *)
  Theorem mev_es_equal_corrections (U : dict expr) (lg cr : Z -> res pv) av aval (uval gval : Z -> R) (c0 : R) :
    av_ok Phi en av aval -> av_covers av (keys U) ->
    (forall k e, In (k, e) U -> aval k <> 0 -> ev e = XR (uval k)) ->
    (forall k g, lg k = Ok g -> aval k <> 0 -> pvx g = XR (gval k)) ->
    (forall k c, cr k = Ok c -> aval k <> 0 -> pvx c = XR c0) ->
    forall i ch l l', In i (keys U) -> pvx ch = XR (IZR i) ->
      logmev_es_f (pe_dict U) lg cr av ch = Ok l -> logmev_f (pe_dict U) lg av ch = Ok l' ->
      ev l = ev l' /\ ev (EUn Exp l) = ev (EUn Exp l').
  Proof.
    intros Hav Hcov HU Hg Hc i ch l l' Hi Hch E E'.
    assert (Hkeys : keys (pe_dict U) = keys U) by apply keys_dmap.
    unfold logmev_es_f in E. destruct (es_h (pe_dict U) lg cr) as [H|] eqn:EH; [|discriminate].
    unfold logmev_f in E'. destruct (mev_h (pe_dict U) lg) as [H'|] eqn:EH'; [|discriminate].
    simpl in E, E'. injection E as <-. injection E' as <-.
    destruct (es_h_inv _ _ _ _ EH) as [Hk Hin]. destruct (mev_h_inv _ _ _ EH') as [Hk' Hin'].
    set (h' := fun k => uval k + gval k).
    assert (HH' : forall k h, In (k, h) H' -> aval k <> 0 -> pvx h = XR (h' k)).
    { intros k h Hkh Ha. destruct (Hin' k h Hkh) as (v & g & Hv & Hgk & ->).
      apply In_dmap in Hv as (e & He & ->). apply pvX_padd_PE_l; [now apply (HU k e)|now apply Hg]. }
    assert (HH : forall k h, In (k, h) H -> aval k <> 0 -> pvx h = XR (h' k + c0)).
    { intros k h Hkh Ha. destruct (Hin k h Hkh) as (v & g & c & Hv & Hgk & Hck & ->).
      apply In_dmap in Hv as (e & He & ->).
      assert (H1 : pvx (padd (PE e) g) = XR (h' k)) by (apply pvX_padd_PE_l; [now apply (HU k e)|now apply Hg]).
      destruct g; cbn [padd to_e] in *; (apply pvX_padd_PE_l; [exact H1|now apply (Hc k)]). }
    rewrite <- Hkeys in Hi, Hcov.
    pose proof Hi as Hi1. rewrite <- Hk in Hi1. pose proof Hcov as Hc1. rewrite <- Hk in Hc1.
    pose proof Hi as Hi2. rewrite <- Hk' in Hi2. pose proof Hcov as Hc2. rewrite <- Hk' in Hc2.
    rewrite (ev_loglogit_e Phi en aval (fun k => h' k + c0) H av ch i Hav Hc1 HH Hch Hi1).
    rewrite (ev_logit_e Phi en aval (fun k => h' k + c0) H av ch i Hav Hc1 HH Hch Hi1).
    rewrite (ev_loglogit_e Phi en aval h' H' av ch i Hav Hc2 HH' Hch Hi2).
    rewrite (ev_logit_e Phi en aval h' H' av ch i Hav Hc2 HH' Hch Hi2).
    rewrite Hk, Hk'.
    assert (Hs : forall k, In k (keys (pe_dict U)) -> aval k <> 0 -> (fun k0 => h' k0 + c0) k = h' k + c0)
      by reflexivity.
    split.
    - destruct (Rnz (aval i)) eqn:Ea; [|reflexivity]. f_equal. apply Rnz_true in Ea.
      exact (loglogit_shift aval h' (fun k => h' k + c0) (keys (pe_dict U)) c0 i Hs Hi Ea).
    - f_equal. exact (logit_p_shift aval h' (fun k => h' k + c0) (keys (pe_dict U)) c0 i Hs Hi).
  Qed.
End EndogenousSampling.
