(* Lemmas about Model/Audit.v and the generated recursion table Gen/AuditTable.v (C12).

   1. the generated table: every kind lets the audit reach each of its children, the three collections
      have exactly their leaf and their blocking operator, catalogs delegate everything
   2. audit over one-hole contexts: completeness (a fault anywhere is reported) and soundness
      (every report comes from a node that breaks its own rule)
   3. the three collections over contexts
   4. logit, duplicates, hessian without gradient, data, nests
   5. no false rejection
   6. the missing-data rule on the lazy semantics evalX *)
From Coq Require Import Lia.
From BV Require Import Model.Audit Gen.AuditTable Proofs.IdMgrP.
Open Scope Z_scope.
Open Scope list_scope.

(* ================================================================== 0. small tools *)
Lemma mem_str_In x l : mem_str x l = true <-> In x l.
Proof.
  unfold mem_str. rewrite existsb_exists. split.
  - intros (y & Hy & E). apply String.eqb_eq in E. subst. exact Hy.
  - intros H. exists x. split; [exact H|apply String.eqb_refl].
Qed.

Lemma mem_Z_In x l : mem_Z x l = true <-> In x l.
Proof.
  unfold mem_Z. rewrite existsb_exists. split.
  - intros (y & Hy & E). apply Z.eqb_eq in E. subst. exact Hy.
  - intros H. exists x. split; [exact H|apply Z.eqb_refl].
Qed.

Lemma mem_Z_false x l : mem_Z x l = false <-> ~ In x l.
Proof. rewrite <- mem_Z_In. destruct (mem_Z x l); split; congruence. Qed.

Lemma amode_eqb_eq a b : amode_eqb a b = true <-> a = b.
Proof. destruct a, b; cbn; split; congruence. Qed.
Lemma smode_eqb_eq a b : smode_eqb a b = true <-> a = b.
Proof. destruct a, b; cbn; split; congruence. Qed.

Lemma subterms_self e : In e (subterms e).
Proof. destruct e. cbn. left. reflexivity. Qed.

Lemma subterms_kid h kids k s : In k kids -> In s (subterms k) -> In s (subterms (Node h kids)).
Proof. intros Hk Hs. cbn. right. apply in_flat_map. exists k. split; assumption. Qed.

Lemma subterms_plug C e : In e (subterms (plug C e)).
Proof.
  induction C as [|[[h l] r] C IH]; cbn [plug].
  - apply subterms_self.
  - apply (subterms_kid h _ (plug C e)); [|exact IH]. apply in_or_app. right. left. reflexivity.
Qed.

Lemma subterms_trans a b c : In a (subterms b) -> In b (subterms c) -> In a (subterms c).
Proof.
  revert b a. induction c as [h kids IH] using expr_rose_ind. intros b a Hab Hbc.
  cbn in Hbc. destruct Hbc as [E|Hbc].
  - subst b. exact Hab.
  - apply in_flat_map in Hbc. destruct Hbc as (k & Hk & Hb).
    apply (subterms_kid h kids k); [exact Hk|].
    rewrite Forall_forall in IH. exact (IH k Hk b a Hab Hb).
Qed.

Lemma passes_under_cons p h l r C : passes_under p ((h, l, r) :: C) = p h || passes_under p C.
Proof. reflexivity. Qed.

(* a sub-term sits in a context *)
Lemma subterm_ctx e s : In s (subterms e) -> exists C, e = plug C s.
Proof.
  induction e as [h kids IH] using expr_rose_ind. intros Hs. cbn in Hs. destruct Hs as [E|Hs].
  - exists []. cbn. congruence.
  - apply in_flat_map in Hs. destruct Hs as (k & Hk & Hs).
    rewrite Forall_forall in IH. destruct (IH k Hk Hs) as (C & EC).
    apply in_split in Hk. destruct Hk as (l & r & E). exists ((h, l, r) :: C). cbn. congruence.
Qed.

(* ================================================================== 1. the generated table *)
Lemma gen_head_ok : forall h, head_ok gen_table h = true.
Proof.
  destruct h as [d|n f|n|n t|n|op|op|c|n|n|s| | |k| |u a]; try destruct op; reflexivity.
Qed.

Lemma gen_transparent_ok : forallb (fun r => transparent_ok (snd r)) gen_transparent = true.
Proof. reflexivity. Qed.

Lemma gen_transparent_classes : map fst gen_transparent = ["MultipleExpression"; "Catalog"]%string.
Proof. reflexivity. Qed.

Section WithTable.
  Variable T : table.
  Hypothesis HT : forall h, head_ok T h = true.

  Lemma head_ok_parts h : head_ok T h = true ->
    kind_recurses T h = true /\
    (if is_var h then amode_eqb (t_audit T h) AVarRule else true) = true /\
    collection_ok (t_draws T) is_draws is_mc h = true /\
    collection_ok (t_rv T) is_rv is_integrate h = true /\
    collection_ok (t_panel T) is_var is_traj h = true /\
    kmode_eqb (t_kids T h) KOwn = true.
  Proof. unfold head_ok. rewrite !andb_true_iff. tauto. Qed.

  Lemma T_recurses h : kind_recurses T h = true.
  Proof. exact (proj1 (head_ok_parts h (HT h))). Qed.
  Lemma T_var x : t_audit T (HVar x) = AVarRule.
  Proof. apply amode_eqb_eq. exact (proj1 (proj2 (head_ok_parts _ (HT (HVar x))))). Qed.
  Lemma T_draws h : collection_ok (t_draws T) is_draws is_mc h = true.
  Proof. exact (proj1 (proj2 (proj2 (head_ok_parts h (HT h))))). Qed.
  Lemma T_rv h : collection_ok (t_rv T) is_rv is_integrate h = true.
  Proof. exact (proj1 (proj2 (proj2 (proj2 (head_ok_parts h (HT h)))))). Qed.
  Lemma T_panel h : collection_ok (t_panel T) is_var is_traj h = true.
  Proof. exact (proj1 (proj2 (proj2 (proj2 (proj2 (head_ok_parts h (HT h))))))). Qed.

  (* ================================================================== 2. audit over contexts *)
  Lemma audit_node db h kids :
    audit T db (Node h kids) =
    (match t_audit T h with
     | AAll | AChildren | ADelegate => flat_map (audit T db) kids
     | AChild => match kids with k :: _ => audit T db k | [] => [] end
     | AVarRule | ANone => []
     end) ++ own_errors T db h kids.
  Proof. reflexivity. Qed.

  Lemma own_in_audit db h kids : incl (own_errors T db h kids) (audit T db (Node h kids)).
  Proof. rewrite audit_node. intros x Hx. apply in_or_app. right. exact Hx. Qed.

  Lemma unary_left_nil h l r :
    match h with HUn _ | HPowC _ | HDerive _ | HIntegrate _ | HBelongs _ => True | _ => False end ->
    frame_wf (h, l, r) = true -> l = [].
  Proof.
    intros Hh Hw. unfold frame_wf in Hw.
    destruct h; try contradiction; cbn in Hw; apply Nat.eqb_eq in Hw; destruct l; [reflexivity|cbn in Hw; lia
      |reflexivity|cbn in Hw; lia|reflexivity|cbn in Hw; lia|reflexivity|cbn in Hw; lia|reflexivity|cbn in Hw; lia].
  Qed.

  (* the audit of a node contains the audit of each child (well-formed arity) *)
  Lemma audit_frame_incl db h l r e :
    frame_wf (h, l, r) = true -> incl (audit T db e) (audit T db (Node h (l ++ e :: r))).
  Proof.
    intros Hw x Hx. rewrite audit_node. apply in_or_app. left.
    pose proof (T_recurses h) as Hr. unfold kind_recurses in Hr.
    destruct (t_audit T h) eqn:Em.
    - apply in_flat_map. exists e. split; [apply in_or_app; right; left; reflexivity|exact Hx].
    - apply in_flat_map. exists e. split; [apply in_or_app; right; left; reflexivity|exact Hx].
    - assert (l = []) as ->.
      { apply (unary_left_nil h l r); [|exact Hw]. destruct h; try discriminate; exact I. }
      cbn. exact Hx.
    - destruct h; try discriminate. unfold frame_wf in Hw. cbn in Hw. apply Nat.eqb_eq in Hw. lia.
    - unfold frame_wf in Hw. destruct h; try discriminate; cbn in Hw; apply Nat.eqb_eq in Hw; lia.
    - apply in_flat_map. exists e. split; [apply in_or_app; right; left; reflexivity|exact Hx].
  Qed.

  Theorem audit_ctx_incl db C e : ctx_wf C = true -> incl (audit T db e) (audit T db (plug C e)).
  Proof.
    induction C as [|[[h l] r] C IH]; intros Hw; cbn [plug].
    - apply incl_refl.
    - cbn in Hw. apply andb_prop in Hw. destruct Hw as [Hf HC].
      eapply incl_tran; [exact (IH HC)|]. apply audit_frame_incl. exact Hf.
  Qed.

  (* T12a *)
  Theorem missing_column_rejected_T db C x :
    ctx_wf C = true -> ~ In x (d_cols db) -> In (EMissingColumn x) (audit T db (plug C (EVar x))).
  Proof.
    intros Hw Hx. apply (audit_ctx_incl db C (EVar x) Hw).
    unfold EVar. rewrite audit_node. apply in_or_app. right. cbn [own_errors]. rewrite (T_var x).
    destruct (mem_str x (d_cols db)) eqn:E; [apply mem_str_In in E; contradiction|left; reflexivity].
  Qed.

  (* any node that breaks its own rule is reported, wherever it sits *)
  Theorem own_fault_reported db C s :
    ctx_wf C = true -> incl (own_errors T db (hd_of s) (kids_of s)) (audit T db (plug C s)).
  Proof.
    intros Hw. eapply incl_tran; [|exact (audit_ctx_incl db C s Hw)].
    destruct s as [h kids]. apply own_in_audit.
  Qed.

  (* soundness: every reported error is the own error of some node (no hypothesis on the table) *)
  Theorem audit_sound db e x :
    In x (audit T db e) -> exists s, In s (subterms e) /\ In x (own_errors T db (hd_of s) (kids_of s)).
  Proof.
    induction e as [h kids IH] using expr_rose_ind. rewrite audit_node. intros Hx.
    rewrite Forall_forall in IH.
    apply in_app_or in Hx. destruct Hx as [Hx|Hx].
    - assert (Hf : In x (flat_map (audit T db) kids)).
      { destruct (t_audit T h); try exact Hx; try contradiction.
        destruct kids as [|k ?]; [contradiction|]. cbn. apply in_or_app. left. exact Hx. }
      apply in_flat_map in Hf. destruct Hf as (k & Hk & Hxk).
      destruct (IH k Hk Hxk) as (s & Hs & Ho). exists s. split; [|exact Ho].
      apply (subterms_kid h kids k); assumption.
    - exists (Node h kids). split; [apply subterms_self|exact Hx].
  Qed.

  Definition faultfree (db : database) (e : expr) : Prop :=
    forall s, In s (subterms e) -> own_errors T db (hd_of s) (kids_of s) = [].

  Theorem faultfree_audit_nil db e : faultfree db e -> audit T db e = [].
  Proof.
    intros H. destruct (audit T db e) as [|x l] eqn:E; [reflexivity|].
    destruct (audit_sound db e x) as (s & Hs & Ho); [rewrite E; left; reflexivity|].
    rewrite (H s Hs) in Ho. contradiction.
  Qed.

  (* ================================================================== 3. the collections *)
  Section Collection.
    Variable mode : head -> smode.
    Variables leaf block : head -> bool.
    Hypothesis Hm : forall h, collection_ok mode leaf block h = true.
    Hypothesis Hleaf_name : forall h, leaf h = true -> exists n, name_of_head h = Some n.
    Hypothesis Hleaf_arity : forall h n, leaf h = true -> arity_ok h n = true -> n = O.

    Lemma mode_leaf h : leaf h = true -> mode h = SSelf.
    Proof. intros H. specialize (Hm h). unfold collection_ok in Hm. rewrite H in Hm. apply smode_eqb_eq. exact Hm. Qed.
    Lemma mode_block h : leaf h = false -> block h = true -> mode h = SBlock.
    Proof. intros H1 H2. specialize (Hm h). unfold collection_ok in Hm. rewrite H1, H2 in Hm. apply smode_eqb_eq. exact Hm. Qed.
    Lemma mode_other h : leaf h = false -> block h = false -> mode h = SAll \/ mode h = SDelegate.
    Proof.
      intros H1 H2. specialize (Hm h). unfold collection_ok in Hm. rewrite H1, H2 in Hm.
      destruct (mode h); try discriminate; auto.
    Qed.

    Lemma collect_node h kids :
      collect_names mode (Node h kids) =
      match mode h with
      | SAll | SDelegate => flat_map (collect_names mode) kids
      | SSelf => match name_of_head h with Some n => [n] | None => [] end
      | SBlock => []
      end.
    Proof. reflexivity. Qed.

    (* outside the blocking operator the content of the hole is collected *)
    Theorem collect_ctx_incl C e :
      ctx_wf C = true -> passes_under block C = false ->
      incl (collect_names mode e) (collect_names mode (plug C e)).
    Proof.
      induction C as [|[[h l] r] C IH]; intros Hw Hb; cbn [plug].
      - apply incl_refl.
      - cbn in Hw. apply andb_prop in Hw. destruct Hw as [Hf HC].
        rewrite passes_under_cons in Hb. apply orb_false_elim in Hb. destruct Hb as [Hbh HbC].
        assert (Hl : leaf h = false).
        { destruct (leaf h) eqn:El; [|reflexivity]. unfold frame_wf in Hf.
          pose proof (Hleaf_arity h _ El Hf). lia. }
        intros x Hx. rewrite collect_node.
        assert (Hin : In x (flat_map (collect_names mode) (l ++ plug C e :: r))).
        { apply in_flat_map. exists (plug C e). split; [apply in_or_app; right; left; reflexivity|].
          exact (IH HC HbC x Hx). }
        destruct (mode_other h Hl Hbh) as [-> | ->]; exact Hin.
    Qed.

    Theorem leaf_outside_reported C h n :
      ctx_wf C = true -> passes_under block C = false -> leaf h = true -> name_of_head h = Some n ->
      In n (collect_names mode (plug C (Node h []))).
    Proof.
      intros Hw Hb Hl Hn. apply (collect_ctx_incl C (Node h []) Hw Hb).
      rewrite collect_node, (mode_leaf h Hl), Hn. left. reflexivity.
    Qed.

    (* under the blocking operator the content of the hole is irrelevant *)
    Theorem collect_ctx_blocked C e1 e2 :
      passes_under block C = true ->
      collect_names mode (plug C e1) = collect_names mode (plug C e2).
    Proof.
      induction C as [|[[h l] r] C IH]; intros Hb; cbn [plug]; [discriminate|].
      rewrite passes_under_cons in Hb.
      rewrite !collect_node.
      destruct (mode h) eqn:Em; try reflexivity.
      - destruct (leaf h) eqn:El; [rewrite (mode_leaf h El) in Em; discriminate|].
        destruct (block h) eqn:Eb; [rewrite (mode_block h El Eb) in Em; discriminate|].
        cbn in Hb. rewrite !flat_map_app. cbn. rewrite (IH Hb). reflexivity.
      - destruct (leaf h) eqn:El; [rewrite (mode_leaf h El) in Em; discriminate|].
        destruct (block h) eqn:Eb; [rewrite (mode_block h El Eb) in Em; discriminate|].
        cbn in Hb. rewrite !flat_map_app. cbn. rewrite (IH Hb). reflexivity.
    Qed.

    (* converse: every collected name is a leaf that is not under the blocking operator *)
    Theorem collected_is_outside e n :
      In n (collect_names mode e) ->
      exists C l, e = plug C l /\ leaf (hd_of l) = true /\ name_of_head (hd_of l) = Some n /\
                  passes_under block C = false.
    Proof.
      induction e as [h kids IH] using expr_rose_ind. rewrite collect_node. intros Hn.
      rewrite Forall_forall in IH.
      assert (Hrec : In n (flat_map (collect_names mode) kids) -> leaf h = false -> block h = false ->
                     exists C l, Node h kids = plug C l /\ leaf (hd_of l) = true /\
                                 name_of_head (hd_of l) = Some n /\ passes_under block C = false).
      { intros Hf Hl Hb. apply in_flat_map in Hf. destruct Hf as (k & Hk & Hnk).
        destruct (IH k Hk Hnk) as (C & lf & E & H1 & H2 & H3).
        apply in_split in Hk. destruct Hk as (l & r & Ek).
        exists ((h, l, r) :: C), lf. split; [cbn; congruence|]. split; [exact H1|]. split; [exact H2|].
        rewrite passes_under_cons, Hb, H3. reflexivity. }
      destruct (leaf h) eqn:El.
      - rewrite (mode_leaf h El) in Hn. destruct (name_of_head h) as [m|] eqn:En; [|contradiction].
        destruct Hn as [->|[]]. exists [], (Node h kids). cbn. auto.
      - destruct (block h) eqn:Eb.
        + rewrite (mode_block h El Eb) in Hn. contradiction.
        + destruct (mode_other h El Eb) as [Em|Em]; rewrite Em in Hn; apply Hrec; auto.
    Qed.

    Definition placed_ok (e : expr) : Prop :=
      forall C l, e = plug C l -> leaf (hd_of l) = true -> passes_under block C = true.

    Theorem placed_ok_collect_nil e : placed_ok e -> collect_names mode e = [].
    Proof.
      intros H. destruct (collect_names mode e) as [|n l] eqn:E; [reflexivity|].
      destruct (collected_is_outside e n) as (C & lf & E1 & H1 & _ & H3); [rewrite E; left; reflexivity|].
      rewrite (H C lf E1 H1) in H3. discriminate.
    Qed.
  End Collection.

  Lemma draws_leaf_name h : is_draws h = true -> exists n, name_of_head h = Some n.
  Proof. destruct h; try discriminate; cbn; eauto. Qed.
  Lemma rv_leaf_name h : is_rv h = true -> exists n, name_of_head h = Some n.
  Proof. destruct h; try discriminate; cbn; eauto. Qed.
  Lemma var_leaf_name h : is_var h = true -> exists n, name_of_head h = Some n.
  Proof. destruct h; try discriminate; cbn; eauto. Qed.
  Lemma draws_leaf_arity h n : is_draws h = true -> arity_ok h n = true -> n = O.
  Proof. destruct h; try discriminate. cbn. intros _ H. apply Nat.eqb_eq in H. exact H. Qed.
  Lemma rv_leaf_arity h n : is_rv h = true -> arity_ok h n = true -> n = O.
  Proof. destruct h; try discriminate. cbn. intros _ H. apply Nat.eqb_eq in H. exact H. Qed.
  Lemma var_leaf_arity h n : is_var h = true -> arity_ok h n = true -> n = O.
  Proof. destruct h; try discriminate. cbn. intros _ H. apply Nat.eqb_eq in H. exact H. Qed.

  (* T12b *)
  Theorem draws_outside_mc_T C n t :
    ctx_wf C = true -> passes_under is_mc C = false -> In n (check_draws T (plug C (EDraws n t))).
  Proof.
    intros Hw Hb. unfold check_draws, EDraws.
    apply (leaf_outside_reported (t_draws T) is_draws is_mc T_draws draws_leaf_arity C (HDraws n t) n Hw Hb);
      reflexivity.
  Qed.
  Theorem draws_under_mc_T C e1 e2 :
    passes_under is_mc C = true -> check_draws T (plug C e1) = check_draws T (plug C e2).
  Proof. apply (collect_ctx_blocked (t_draws T) is_draws is_mc T_draws). Qed.

  (* T12c *)
  Theorem rv_outside_integral_T C n :
    ctx_wf C = true -> passes_under is_integrate C = false -> In n (check_rv T (plug C (ERV n))).
  Proof.
    intros Hw Hb. unfold check_rv, ERV.
    apply (leaf_outside_reported (t_rv T) is_rv is_integrate T_rv rv_leaf_arity C (HRV n) n Hw Hb); reflexivity.
  Qed.
  Theorem rv_under_integral_T C e1 e2 :
    passes_under is_integrate C = true -> check_rv T (plug C e1) = check_rv T (plug C e2).
  Proof. apply (collect_ctx_blocked (t_rv T) is_rv is_integrate T_rv). Qed.

  (* T12d *)
  Theorem var_outside_trajectory_T C n :
    ctx_wf C = true -> passes_under is_traj C = false -> In n (check_panel T (plug C (EVar n))).
  Proof.
    intros Hw Hb. unfold check_panel, EVar.
    apply (leaf_outside_reported (t_panel T) is_var is_traj T_panel var_leaf_arity C (HVar n) n Hw Hb); reflexivity.
  Qed.
  Theorem var_under_trajectory_T C e1 e2 :
    passes_under is_traj C = true -> check_panel T (plug C e1) = check_panel T (plug C e2).
  Proof. apply (collect_ctx_blocked (t_panel T) is_var is_traj T_panel). Qed.

  (* the placement faults reach the verdict of BIOGEME(...) *)
  Lemma spec_errors_incl_audit db e : incl (audit T db e) (spec_errors T db e).
  Proof. unfold spec_errors. intros x Hx. rewrite !in_app_iff. tauto. Qed.

  Theorem spec_refuses_draws db C n t :
    ctx_wf C = true -> passes_under is_mc C = false ->
    In (EDrawsOutside n) (spec_errors T db (plug C (EDraws n t))).
  Proof.
    intros Hw Hb. unfold spec_errors. rewrite !in_app_iff. right. left.
    apply in_map. apply draws_outside_mc_T; assumption.
  Qed.
  Theorem spec_refuses_rv db C n :
    ctx_wf C = true -> passes_under is_integrate C = false ->
    In (ERvOutside n) (spec_errors T db (plug C (ERV n))).
  Proof.
    intros Hw Hb. unfold spec_errors. rewrite !in_app_iff. right. right. left.
    apply in_map. apply rv_outside_integral_T; assumption.
  Qed.
  Theorem spec_refuses_var_outside db C n :
    d_panel db = true -> ctx_wf C = true -> passes_under is_traj C = false ->
    In (EVarOutsideTraj n) (spec_errors T db (plug C (EVar n))).
  Proof.
    intros Hp Hw Hb. unfold spec_errors. rewrite !in_app_iff. right. right. right. left.
    rewrite Hp. apply in_map. apply var_outside_trajectory_T; assumption.
  Qed.
  Theorem spec_refuses_missing_column db C x :
    ctx_wf C = true -> ~ In x (d_cols db) -> In (EMissingColumn x) (spec_errors T db (plug C (EVar x))).
  Proof. intros Hw Hx. apply spec_errors_incl_audit. apply missing_column_rejected_T; assumption. Qed.

  (* ================================================================== 4a. logit *)
  Lemma same_keys_spec uk ak :
    same_keys uk ak = true <-> (forall k, In k uk <-> In k ak).
  Proof.
    unfold same_keys. rewrite andb_true_iff, !forallb_forall. split.
    - intros [H1 H2] k. split; intros H; apply mem_Z_In; auto.
    - intros H. split; intros k Hk; apply mem_Z_In; apply H; exact Hk.
  Qed.

  (* T12e (keys): availabilities inconsistent with the utilities *)
  Theorem logit_keys_rejected_T db C uk ak kids :
    ctx_wf C = true -> ~ (forall k, In k uk <-> In k ak) ->
    In ELogitKeys (audit T db (plug C (Node (HLogLogit uk ak) kids))).
  Proof.
    intros Hw Hk. apply (own_fault_reported db C (Node (HLogLogit uk ak) kids) Hw).
    cbn [hd_of kids_of own_errors]. unfold logit_errors.
    destruct (same_keys uk ak) eqn:E; [exfalso; apply Hk; exact (proj1 (same_keys_spec uk ak) E)|].
    left. reflexivity.
  Qed.

  Lemma any_bad_from_spec i uk vs :
    any_bad_from i uk vs = true <->
    exists j v, nth_error vs j = Some v /\ valid_choice uk v = false /\ (i + j <> 0)%nat.
  Proof.
    revert i. induction vs as [|v r IH]; intros i; cbn [any_bad_from].
    - split; [discriminate|]. intros (j & v & H & _). destruct j; discriminate.
    - rewrite orb_true_iff, andb_true_iff, !negb_true_iff, IH. split.
      + intros [[H1 H2]|(j & w & H1 & H2 & H3)].
        * exists O, v. cbn. apply Nat.eqb_neq in H2. repeat split; auto. lia.
        * exists (S j), w. cbn. repeat split; auto. lia.
      + intros (j & w & H1 & H2 & H3). destruct j as [|j]; cbn in H1.
        * left. inversion H1; subst. split; [exact H2|]. apply Nat.eqb_neq. lia.
        * right. exists j, w. repeat split; auto. lia.
  Qed.

  (* T12e (choice): a chosen alternative that is not one of the utilities, on any row *)
  Theorem logit_choice_rejected_T db C uk ak c rest vs j v :
    ctx_wf C = true -> choice_values db c = Some vs ->
    nth_error vs j = Some v -> valid_choice uk v = false ->
    exists x, In x [ELogitKeys; ELogitChoice; ELogitChoiceNotInAv] /\
              In x (audit T db (plug C (Node (HLogLogit uk ak) (c :: rest)))).
  Proof.
    intros Hw Hc Hj Hv.
    assert (Hown : exists x, In x [ELogitKeys; ELogitChoice; ELogitChoiceNotInAv] /\
                             In x (own_errors T db (HLogLogit uk ak) (c :: rest))).
    { cbn [own_errors]. unfold logit_errors. rewrite Hc.
      destruct (same_keys uk ak) eqn:Ek.
      - exists ELogitChoiceNotInAv. split; [cbn; auto|]. cbn [app]. apply in_or_app. right.
        assert (Hf : forallb (valid_choice uk) vs = false).
        { destruct (forallb (valid_choice uk) vs) eqn:Ef; [|reflexivity].
          rewrite forallb_forall in Ef. rewrite (Ef v (nth_error_In _ _ Hj)) in Hv. discriminate. }
        rewrite Hf. cbn. left. reflexivity.
      - exists ELogitKeys. split; [cbn; auto|]. left. reflexivity. }
    destruct Hown as (x & Hx & Ho). exists x. split; [exact Hx|].
    exact (own_fault_reported db C (Node (HLogLogit uk ak) (c :: rest)) Hw x Ho).
  Qed.

  (* a logit whose keys agree and whose chosen alternative is a utility on every row has no error *)
  Lemma logit_ok_no_error db uk ak c rest vs :
    (forall k, In k uk <-> In k ak) -> choice_values db c = Some vs ->
    (forall v, In v vs -> valid_choice uk v = true) ->
    own_errors T db (HLogLogit uk ak) (c :: rest) = [].
  Proof.
    intros Hk Hc Hv. cbn [own_errors]. unfold logit_errors. rewrite Hc.
    apply (proj2 (same_keys_spec uk ak)) in Hk. rewrite Hk. cbn [app].
    assert (Hf : forallb (valid_choice uk) vs = true) by (apply forallb_forall; exact Hv).
    rewrite Hf.
    destruct (any_bad_from 0 uk vs) eqn:Eb; [|reflexivity].
    apply any_bad_from_spec in Eb. destruct Eb as (j & v & H1 & H2 & _).
    rewrite (Hv v (nth_error_In _ _ H1)) in H2. discriminate.
  Qed.

  (* ================================================================== 4b. duplicates *)
  (* T12h = T03h *)
  Theorem duplicates_rejected_T db e :
    ((exists n k1 k2, k1 <> k2 /\ In n (raw_class [e] (d_cols db) k1) /\ In n (raw_class [e] (d_cols db) k2))
     \/ ~ NoDup (d_cols db)) ->
    In EDuplicate (spec_errors T db e).
  Proof.
    intros H. apply prepare_refuses_iff in H. unfold spec_errors, idmanager_errors. rewrite H.
    rewrite !in_app_iff. left. right. left. reflexivity.
  Qed.

  (* ================================================================== 5. no false rejection *)
  Theorem no_false_rejection_T db e :
    prepare [e] (d_cols db) <> None ->
    clashing_names (draw_decls e) = [] ->
    placed_ok is_draws is_mc e -> placed_ok is_rv is_integrate e ->
    (d_panel db = true -> placed_ok is_var is_traj e) ->
    faultfree db e ->
    spec_errors T db e = [].
  Proof.
    intros Hp Hc Hd Hr Hv Hf. unfold spec_errors, idmanager_errors, draw_type_errors.
    cbn [flat_map]. rewrite app_nil_r, Hc. cbn [map app].
    destruct (prepare [e] (d_cols db)); [|congruence].
    unfold check_draws, check_rv, check_panel.
    rewrite (placed_ok_collect_nil (t_draws T) is_draws is_mc T_draws e Hd).
    rewrite (placed_ok_collect_nil (t_rv T) is_rv is_integrate T_rv e Hr).
    rewrite (faultfree_audit_nil db e Hf). cbn.
    destruct (d_panel db); [|reflexivity].
    rewrite (placed_ok_collect_nil (t_panel T) is_var is_traj T_panel e (Hv eq_refl)). reflexivity.
  Qed.
End WithTable.

(* ================================================================== 4c. hessian without gradient *)
Theorem hessian_without_gradient_rejected hessian bhhh :
  hessian || bhhh = true -> request_errors false hessian bhhh = [EHessianNoGradient].
Proof. intros H. unfold request_errors. rewrite H. reflexivity. Qed.

Theorem request_accepted gradient hessian bhhh :
  (hessian || bhhh = true -> gradient = true) -> request_errors gradient hessian bhhh = [].
Proof.
  intros H. unfold request_errors. destruct (hessian || bhhh); [rewrite (H eq_refl)|]; reflexivity.
Qed.

(* ================================================================== 4d. data *)
Theorem data_rejected_iff f :
  data_audit f <> [] <->
  (exists c t, In (c, t) (f_cols f) /\ numeric_dtype t = false) \/ f_has_null f = true \/ f_nrows f = O.
Proof.
  unfold data_audit. split.
  - intros H.
    destruct (filter (fun c => negb (numeric_dtype (snd c))) (f_cols f)) as [|[c t] r] eqn:Ef.
    + cbn in H. destruct (f_has_null f); [right; left; reflexivity|].
      destruct (Nat.eqb_spec (f_nrows f) 0); [right; right; assumption|]. cbn in H. congruence.
    + left. exists c, t. assert (Hin : In (c, t) (filter (fun c => negb (numeric_dtype (snd c))) (f_cols f))).
      { rewrite Ef. left. reflexivity. }
      apply filter_In in Hin. destruct Hin as [H1 H2]. cbn in H2. apply negb_true_iff in H2. auto.
  - intros [(c & t & Hin & Hn)|[Hn|Hn]].
    + assert (Hf : In (c, t) (filter (fun c => negb (numeric_dtype (snd c))) (f_cols f))).
      { apply filter_In. split; [exact Hin|]. cbn. rewrite Hn. reflexivity. }
      destruct (filter _ (f_cols f)); [contradiction|]. cbn. discriminate.
    + rewrite Hn. intros E. apply app_eq_nil in E. destruct E as [_ E]. discriminate.
    + rewrite Hn. intros E. apply app_eq_nil in E. destruct E as [_ E].
      apply app_eq_nil in E. destruct E as [_ E]. discriminate.
Qed.

Theorem data_accepted f :
  (forall c t, In (c, t) (f_cols f) -> numeric_dtype t = true) -> f_has_null f = false -> f_nrows f <> O ->
  data_audit f = [].
Proof.
  intros H1 H2 H3. destruct (data_audit f) eqn:E; [reflexivity|].
  assert (Hne : data_audit f <> []) by (rewrite E; discriminate).
  apply data_rejected_iff in Hne. destruct Hne as [(c & t & Hin & Hn)|[Hn|Hn]].
  - rewrite (H1 c t Hin) in Hn. discriminate.
  - congruence.
  - contradiction.
Qed.

(* ================================================================== 4e. nests *)
Lemma intersects_spec a b : intersects a b = true <-> exists x, In x a /\ In x b.
Proof.
  unfold intersects. rewrite existsb_exists. split; intros (x & H1 & H2); exists x; split; auto;
    apply mem_Z_In; exact H2.
Qed.

Lemma in_union ns x : In x (nests_union ns) <-> exists a, In a (n_alts ns) /\ In x a.
Proof.
  unfold nests_union. rewrite in_concat. split; intros (a & H1 & H2); exists a; auto.
Qed.

Lemma nests_invalid_nil ns :
  nests_invalid ns = [] <-> (forall a x, In a (n_alts ns) -> In x a -> In x (n_choice_set ns)).
Proof.
  unfold nests_invalid. split.
  - intros H a x Ha Hx.
    destruct (mem_Z x (n_choice_set ns)) eqn:E; [apply mem_Z_In; exact E|].
    assert (Hin : In x (filter (fun a => negb (mem_Z a (n_choice_set ns))) (nests_union ns))).
    { apply filter_In. split; [apply in_union; eauto|rewrite E; reflexivity]. }
    rewrite H in Hin. contradiction.
  - intros H. destruct (filter _ (nests_union ns)) as [|x r] eqn:E; [reflexivity|].
    assert (Hin : In x (filter (fun a => negb (mem_Z a (n_choice_set ns))) (nests_union ns))).
    { rewrite E. left. reflexivity. }
    apply filter_In in Hin. destruct Hin as [H1 H2]. apply in_union in H1. destruct H1 as (a & Ha & Hx).
    apply negb_true_iff in H2. apply mem_Z_false in H2. exfalso. apply H2. exact (H a x Ha Hx).
Qed.

Lemma union_ok_of_valid ns : nests_invalid ns = [] -> union_ok ns = true.
Proof.
  intros H. pose proof (proj1 (nests_invalid_nil ns) H) as Hv. unfold union_ok.
  apply andb_true_intro. split; apply forallb_forall; intros x Hx; apply mem_Z_In.
  - apply in_app_or in Hx. destruct Hx as [Hx|Hx].
    + apply in_union in Hx. destruct Hx as (a & Ha & Hxa). exact (Hv a x Ha Hxa).
    + unfold nests_alone in Hx. apply filter_In in Hx. exact (proj1 Hx).
  - apply in_or_app. destruct (mem_Z x (nests_union ns)) eqn:E.
    + left. apply mem_Z_In. exact E.
    + right. unfold nests_alone. apply filter_In. split; [exact Hx|rewrite E; reflexivity].
Qed.

Lemma alone_disjoint ns a : In a (n_alts ns) -> intersects a (nests_alone ns) = false.
Proof.
  intros Ha. destruct (intersects a (nests_alone ns)) eqn:E; [|reflexivity].
  apply intersects_spec in E. destruct E as (x & Hx & Hal). unfold nests_alone in Hal.
  apply filter_In in Hal. destruct Hal as [_ H]. apply negb_true_iff in H. apply mem_Z_false in H.
  exfalso. apply H. apply in_union. eauto.
Qed.

Lemma overlap_with_spec a i j l :
  overlap_with a i j l = true <->
  exists k b x, nth_error l k = Some b /\ i <> (j + k)%nat /\ In x a /\ In x b.
Proof.
  revert j. induction l as [|b r IH]; intros j; cbn [overlap_with].
  - split; [discriminate|]. intros (k & b & x & H & _). destruct k; discriminate.
  - rewrite orb_true_iff, andb_true_iff, negb_true_iff, IH, intersects_spec. split.
    + intros [[H1 (x & H2 & H3)]|(k & c & x & H1 & H2 & H3 & H4)].
      * exists O, b, x. cbn. apply Nat.eqb_neq in H1. repeat split; auto. lia.
      * exists (S k), c, x. cbn. repeat split; auto. lia.
    + intros (k & c & x & H1 & H2 & H3 & H4). destruct k as [|k]; cbn in H1.
      * left. inversion H1; subst. split; [apply Nat.eqb_neq; lia|eauto].
      * right. exists k, c, x. repeat split; auto. lia.
Qed.

Lemma any_overlap_spec alone i all l :
  (forall a, In a l -> intersects a alone = false) ->
  (any_overlap_from alone i all l = true <->
   exists k a, nth_error l k = Some a /\ overlap_with a (i + k) 0 all = true).
Proof.
  revert i. induction l as [|a r IH]; intros i Hal; cbn [any_overlap_from].
  - split; [discriminate|]. intros (k & a & H & _). destruct k; discriminate.
  - rewrite (Hal a (or_introl eq_refl)). cbn [orb]. rewrite orb_true_iff.
    rewrite (IH (S i) (fun a0 H0 => Hal a0 (or_intror H0))). split.
    + intros [H|(k & b & H1 & H2)].
      * exists O, a. cbn. rewrite Nat.add_0_r. auto.
      * exists (S k), b. cbn. replace (i + S k)%nat with (S i + k)%nat by lia. auto.
    + intros (k & b & H1 & H2). destruct k as [|k]; cbn in H1.
      * left. inversion H1; subst. rewrite Nat.add_0_r in H2. exact H2.
      * right. exists k, b. replace (S i + k)%nat with (i + S k)%nat by lia. auto.
Qed.

Definition disjoint_nests (l : list (list Z)) : Prop :=
  forall i j a b x, i <> j -> nth_error l i = Some a -> nth_error l j = Some b -> In x a -> In x b -> False.

Lemma nests_overlap_false ns : nests_overlap ns = false <-> disjoint_nests (n_alts ns).
Proof.
  unfold nests_overlap. split.
  - intros H i j a b x Hij Ha Hb Hxa Hxb.
    assert (Ht : any_overlap_from (nests_alone ns) 0 (n_alts ns) (n_alts ns) = true).
    { apply any_overlap_spec; [intros c Hc; apply alone_disjoint; exact Hc|].
      exists i, a. split; [exact Ha|]. apply overlap_with_spec. exists j, b, x. cbn. auto. }
    congruence.
  - intros H. destruct (any_overlap_from _ 0 (n_alts ns) (n_alts ns)) eqn:E; [|reflexivity].
    apply any_overlap_spec in E; [|intros c Hc; apply alone_disjoint; exact Hc].
    destruct E as (i & a & Ha & Ho). apply overlap_with_spec in Ho.
    destruct Ho as (j & b & x & Hb & Hij & Hxa & Hxb). cbn in Hij.
    exfalso. exact (H i j a b x Hij Ha Hb Hxa Hxb).
Qed.

Lemma nodupZb_NoDup l : nodupZb l = true <-> NoDup l.
Proof.
  induction l as [|x r IH]; cbn.
  - split; [constructor|reflexivity].
  - rewrite andb_true_iff, negb_true_iff, mem_Z_false, IH. split.
    + intros [H1 H2]. constructor; assumption.
    + intros H. inversion H; subst. auto.
Qed.

Lemma nests_repeat_false ns : nests_repeat ns = false <-> (forall a, In a (n_alts ns) -> NoDup a).
Proof.
  unfold nests_repeat. split.
  - intros H a Ha. apply nodupZb_NoDup. destruct (nodupZb a) eqn:E; [reflexivity|].
    assert (Ht : existsb (fun a => negb (nodupZb a)) (n_alts ns) = true).
    { apply existsb_exists. exists a. rewrite E. auto. }
    congruence.
  - intros H. destruct (existsb _ (n_alts ns)) eqn:E; [|reflexivity].
    apply existsb_exists in E. destruct E as (a & Ha & Hn). apply negb_true_iff in Hn.
    rewrite (proj2 (nodupZb_NoDup a) (H a Ha)) in Hn. discriminate.
Qed.

(* T12f *)
Theorem nested_ok_iff ns :
  nested_ok ns = true <->
  (forall a x, In a (n_alts ns) -> In x a -> In x (n_choice_set ns)) /\
  (forall a, In a (n_alts ns) -> NoDup a) /\ disjoint_nests (n_alts ns).
Proof.
  unfold nested_ok. rewrite <- nests_invalid_nil, <- nests_overlap_false, <- nests_repeat_false.
  destruct (nests_invalid ns) as [|z r] eqn:E.
  - rewrite union_ok_of_valid by exact E. cbn. rewrite andb_true_iff, !negb_true_iff. tauto.
  - split; [discriminate|]. intros [H _]. discriminate.
Qed.

Theorem cnl_ok_iff ns :
  cnl_ok ns = true <-> (forall a x, In a (n_alts ns) -> In x a -> In x (n_choice_set ns)).
Proof.
  unfold cnl_ok. rewrite <- nests_invalid_nil.
  destruct (nests_invalid ns) as [|z r] eqn:E.
  - rewrite union_ok_of_valid by exact E. tauto.
  - split; discriminate.
Qed.

Theorem nests_overlap_rejected ns i j a b x :
  i <> j -> nth_error (n_alts ns) i = Some a -> nth_error (n_alts ns) j = Some b -> In x a -> In x b ->
  nested_ok ns = false.
Proof.
  intros Hij Ha Hb Hxa Hxb. destruct (nested_ok ns) eqn:E; [|reflexivity].
  apply nested_ok_iff in E. destruct E as (_ & _ & Hd). exfalso. exact (Hd i j a b x Hij Ha Hb Hxa Hxb).
Qed.

Theorem nests_outside_rejected ns a x :
  In a (n_alts ns) -> In x a -> ~ In x (n_choice_set ns) -> nested_ok ns = false /\ cnl_ok ns = false.
Proof.
  intros Ha Hx Hn. split.
  - destruct (nested_ok ns) eqn:E; [|reflexivity]. apply nested_ok_iff in E. exfalso. apply Hn. exact (proj1 E a x Ha Hx).
  - destruct (cnl_ok ns) eqn:E; [|reflexivity]. exfalso. apply Hn. exact (proj1 (cnl_ok_iff ns) E a x Ha Hx).
Qed.

(* ================================================================== instance: the generated table *)
Definition G := gen_table.

Theorem missing_column_rejected db C x :
  ctx_wf C = true -> ~ In x (d_cols db) -> In (EMissingColumn x) (audit G db (plug C (EVar x))).
Proof. exact (missing_column_rejected_T G gen_head_ok db C x). Qed.

Theorem draws_outside_mc C n t :
  ctx_wf C = true -> passes_under is_mc C = false -> In n (check_draws G (plug C (EDraws n t))).
Proof. exact (draws_outside_mc_T G gen_head_ok C n t). Qed.
Theorem draws_under_mc C e1 e2 :
  passes_under is_mc C = true -> check_draws G (plug C e1) = check_draws G (plug C e2).
Proof. exact (draws_under_mc_T G gen_head_ok C e1 e2). Qed.

Theorem rv_outside_integral C n :
  ctx_wf C = true -> passes_under is_integrate C = false -> In n (check_rv G (plug C (ERV n))).
Proof. exact (rv_outside_integral_T G gen_head_ok C n). Qed.
Theorem rv_under_integral C e1 e2 :
  passes_under is_integrate C = true -> check_rv G (plug C e1) = check_rv G (plug C e2).
Proof. exact (rv_under_integral_T G gen_head_ok C e1 e2). Qed.

Theorem var_outside_trajectory C n :
  ctx_wf C = true -> passes_under is_traj C = false -> In n (check_panel G (plug C (EVar n))).
Proof. exact (var_outside_trajectory_T G gen_head_ok C n). Qed.
Theorem var_under_trajectory C e1 e2 :
  passes_under is_traj C = true -> check_panel G (plug C e1) = check_panel G (plug C e2).
Proof. exact (var_under_trajectory_T G gen_head_ok C e1 e2). Qed.

(* the verdict of BIOGEME(...) on each planted fault *)
Theorem spec_refuses db C :
  ctx_wf C = true ->
  (forall x, ~ In x (d_cols db) -> In (EMissingColumn x) (spec_errors G db (plug C (EVar x)))) /\
  (forall n t, passes_under is_mc C = false -> In (EDrawsOutside n) (spec_errors G db (plug C (EDraws n t)))) /\
  (forall n, passes_under is_integrate C = false -> In (ERvOutside n) (spec_errors G db (plug C (ERV n)))) /\
  (forall n, d_panel db = true -> passes_under is_traj C = false ->
             In (EVarOutsideTraj n) (spec_errors G db (plug C (EVar n)))).
Proof.
  intros Hw. repeat split; intros.
  - apply (spec_refuses_missing_column G gen_head_ok); assumption.
  - apply (spec_refuses_draws G gen_head_ok); assumption.
  - apply (spec_refuses_rv G gen_head_ok); assumption.
  - apply (spec_refuses_var_outside G gen_head_ok); assumption.
Qed.

Theorem logit_keys_rejected db C uk ak kids :
  ctx_wf C = true -> ~ (forall k, In k uk <-> In k ak) ->
  In ELogitKeys (audit G db (plug C (Node (HLogLogit uk ak) kids))).
Proof. exact (logit_keys_rejected_T G gen_head_ok db C uk ak kids). Qed.

Theorem logit_choice_rejected db C uk ak c rest vs j v :
  ctx_wf C = true -> choice_values db c = Some vs ->
  nth_error vs j = Some v -> valid_choice uk v = false ->
  exists x, In x [ELogitKeys; ELogitChoice; ELogitChoiceNotInAv] /\
            In x (audit G db (plug C (Node (HLogLogit uk ak) (c :: rest)))).
Proof. exact (logit_choice_rejected_T G gen_head_ok db C uk ak c rest vs j v). Qed.

Theorem duplicates_rejected db e :
  ((exists n k1 k2, k1 <> k2 /\ In n (raw_class [e] (d_cols db) k1) /\ In n (raw_class [e] (d_cols db) k2))
   \/ ~ NoDup (d_cols db)) ->
  In EDuplicate (spec_errors G db e).
Proof. exact (duplicates_rejected_T G db e). Qed.

(* one draw name with two distributions, in the same formula or in two formulas of one specification *)
Lemma gen_scope_all : gen_draw_scope = ScopeAll.
Proof. reflexivity. Qed.

Lemma draw_decls_ctx C n t : In (n, t) (draw_decls (plug C (EDraws n t))).
Proof.
  unfold draw_decls. apply in_flat_map. exists (EDraws n t). split; [apply subterms_plug|]. cbn. auto.
Qed.

Lemma clashing_names_In l n t1 t2 :
  In (n, t1) l -> In (n, t2) l -> t1 <> t2 -> In n (clashing_names l).
Proof.
  intros H1 H2 Hne. unfold clashing_names. apply in_map_iff. exists (n, t1). split; [reflexivity|].
  apply filter_In. split; [exact H1|]. unfold decl_clashes. apply existsb_exists. exists (n, t2).
  split; [exact H2|]. cbn. rewrite String.eqb_refl. cbn. apply negb_true_iff. apply String.eqb_neq. exact Hne.
Qed.

Lemma clashing_names_sound l n :
  In n (clashing_names l) -> exists t1 t2, In (n, t1) l /\ In (n, t2) l /\ t1 <> t2.
Proof.
  unfold clashing_names. intros H. apply in_map_iff in H. destruct H as ([m t1] & E & H). cbn in E. subst m.
  apply filter_In in H. destruct H as [H1 H2]. unfold decl_clashes in H2. apply existsb_exists in H2.
  destruct H2 as ([m t2] & H2 & H3). cbn in H3. apply andb_prop in H3. destruct H3 as [E1 E2].
  apply String.eqb_eq in E1. subst m. apply negb_true_iff in E2. apply String.eqb_neq in E2. eauto.
Qed.

(* wherever the two declarations sit: any two formulas of the specification (possibly the same one), any
   two contexts *)
Theorem draw_type_clash_rejected fs cols f1 f2 C1 C2 n t1 t2 :
  In f1 fs -> In f2 fs -> f1 = plug C1 (EDraws n t1) -> f2 = plug C2 (EDraws n t2) -> t1 <> t2 ->
  In (EDrawTypes n) (idmanager_errors gen_draw_scope fs cols).
Proof.
  intros H1 H2 E1 E2 Hne. rewrite gen_scope_all. unfold idmanager_errors, draw_type_errors.
  apply in_or_app. left. apply in_map. apply (clashing_names_In _ n t1 t2); [| |exact Hne];
    apply in_flat_map; [exists f1|exists f2]; (split; [assumption|]); subst; apply draw_decls_ctx.
Qed.

(* no false rejection: a reported clash is a name declared with two different types *)
Theorem draw_type_error_sound fs n :
  In (EDrawTypes n) (draw_type_errors gen_draw_scope fs) ->
  exists f1 f2 t1 t2, In f1 fs /\ In f2 fs /\ In (n, t1) (draw_decls f1) /\ In (n, t2) (draw_decls f2) /\ t1 <> t2.
Proof.
  rewrite gen_scope_all. unfold draw_type_errors. intros H. apply in_map_iff in H. destruct H as (m & E & H).
  inversion E; subst m. apply clashing_names_sound in H. destruct H as (t1 & t2 & H1 & H2 & Hne).
  apply in_flat_map in H1. destruct H1 as (f1 & Hf1 & H1). apply in_flat_map in H2. destruct H2 as (f2 & Hf2 & H2).
  exists f1, f2, t1, t2. auto.
Qed.

(* a specification with several formulas: the fault of ANY formula (first, middle, last) is reported,
   because the generated rule of BIOGEME._audit accumulates the lists *)
Lemma gen_acc_all : gen_biogeme_acc = AccAll.
Proof. reflexivity. Qed.

Theorem dict_fault_any_position db fs e x :
  In e fs -> In x (formula_errors G db e) -> In x (biogeme_audit_errors gen_biogeme_acc G db fs).
Proof.
  intros He Hx. rewrite gen_acc_all. cbn [biogeme_audit_errors]. apply in_flat_map. exists e. auto.
Qed.

Theorem dict_faults_through_contexts db fs1 fs2 C :
  ctx_wf C = true ->
  (forall x, ~ In x (d_cols db) ->
     In (EMissingColumn x) (biogeme_audit_errors gen_biogeme_acc G db (fs1 ++ plug C (EVar x) :: fs2))) /\
  (forall n t, passes_under is_mc C = false ->
     In (EDrawsOutside n) (biogeme_audit_errors gen_biogeme_acc G db (fs1 ++ plug C (EDraws n t) :: fs2))) /\
  (forall n, passes_under is_integrate C = false ->
     In (ERvOutside n) (biogeme_audit_errors gen_biogeme_acc G db (fs1 ++ plug C (ERV n) :: fs2))).
Proof.
  intros Hw. repeat split; intros.
  - apply (dict_fault_any_position db _ (plug C (EVar x))); [apply in_or_app; right; left; reflexivity|].
    unfold formula_errors. do 2 (apply in_or_app; right). apply missing_column_rejected; assumption.
  - apply (dict_fault_any_position db _ (plug C (EDraws n t))); [apply in_or_app; right; left; reflexivity|].
    unfold formula_errors. apply in_or_app. left. apply in_map. apply draws_outside_mc; assumption.
  - apply (dict_fault_any_position db _ (plug C (ERV n))); [apply in_or_app; right; left; reflexivity|].
    unfold formula_errors. apply in_or_app. right. apply in_or_app. left. apply in_map.
    apply rv_outside_integral; assumption.
Qed.

(* KNOWN FINDING: the constructor does not apply the panel rule to formulas given in a dictionary *)
Theorem var_outside_trajectory_dict_refuted :
  exists db e, d_panel db = true /\ In "x1"%string (check_panel G e) /\
               spec_errors G db e <> [] /\ spec_errors_dict G db e = [].
Proof.
  exists (mkDb ["x1"%string; "id"%string] [] true),
         (EBin Times (EVar "x1") (EUn PanelTraj (EBin Times (EBeta "b" false) (EVar "x1")))).
  vm_compute. repeat split; auto. discriminate.
Qed.

Theorem audit_reports_only_faults db e x :
  In x (audit G db e) -> exists s, In s (subterms e) /\ In x (own_errors G db (hd_of s) (kids_of s)).
Proof. exact (audit_sound G db e x). Qed.

Theorem no_false_rejection db e :
  prepare [e] (d_cols db) <> None ->
  clashing_names (draw_decls e) = [] ->
  placed_ok is_draws is_mc e -> placed_ok is_rv is_integrate e ->
  (d_panel db = true -> placed_ok is_var is_traj e) ->
  faultfree G db e ->
  spec_errors G db e = [].
Proof. exact (no_false_rejection_T G gen_head_ok db e). Qed.

(* ================================================================== 6. the missing-data rule *)
(* A cell equal to the missing-data code is absent from the row ([e_var en x = None]); reading it is
   XNaN ("the evaluation fails").  (a) [read_propagates]: through every position that the semantics
   always reads, the failure reaches the root.  (b) the four lazy operators: a hole in a position
   that the semantics does not read for this observation has no influence at all
   ([*_unread]), and a hole in a position that it does read propagates ([*_read]). *)
From BV Require Import Model.EvalX.
Open Scope list_scope.

Definition strict_frame (f : cframe) : bool :=
  let '(h, l, r) := f in
  match h with
  | HBin And | HBin Or => Nat.eqb (List.length l) 0          (* the first operand *)
  | HUn PanelTraj => false                                      (* re-evaluates on the rows of the individual *)
  | HCondSum => Nat.even (List.length l)                        (* a condition *)
  | HElem _ | HLogLogit _ _ => Nat.eqb (List.length l) 0      (* the key / the chosen alternative *)
  | _ => true
  end.

Lemma lift2_nan_r f a : lift2 f a XNaN = XNaN.
Proof. destruct a; reflexivity. Qed.
Lemma lift2_nan_l f b : lift2 f XNaN b = XNaN.
Proof. reflexivity. Qed.

Lemma list_pair_ind {A} (P : list A -> Prop) :
  P [] -> (forall a, P [a]) -> (forall a b l, P l -> P (a :: b :: l)) -> forall l, P l.
Proof.
  intros H0 H1 H2. fix IH 1. intros [|a [|b l]]; [exact H0|apply H1|apply H2, IH].
Qed.

Section Missing.
  Variable Phi : R -> R.

  Lemma xsum_nan l r : xsum (l ++ XNaN :: r) = XNaN.
  Proof.
    induction l as [|a l IH]; cbn; [reflexivity|]. unfold xsum in IH. rewrite IH. apply lift2_nan_r.
  Qed.

  Lemma xlinutil_nan l r : xlinutil (l ++ XNaN :: r) = XNaN.
  Proof.
    induction l as [|a|a b l IH] using list_pair_ind; cbn.
    - destruct r; reflexivity.
    - rewrite lift2_nan_r. reflexivity.
    - rewrite IH. apply lift2_nan_r.
  Qed.

  Lemma xcondsum_cond_nan l r : Nat.even (List.length l) = true -> xcondsum (l ++ XNaN :: r) = XNaN.
  Proof.
    induction l as [|a|a b l IH] using list_pair_ind; cbn [List.length Nat.even app]; intros He.
    - destruct r; reflexivity.
    - discriminate.
    - cbn [xcondsum]. rewrite (IH He). destruct a; try reflexivity.
      destruct (Rnz r0); [apply lift2_nan_r|reflexivity].
  Qed.

  Lemma xmean_all_nan {A} (l : list A) : xmean (map (fun _ => XNaN) l) = XNaN.
  Proof. destruct l; reflexivity. Qed.

  Lemma xbin_nan_l op b : xbin op XNaN b = XNaN.
  Proof. destruct op; reflexivity. Qed.
  Lemma xbin_nan_r op a : op <> And -> op <> Or -> xbin op a XNaN = XNaN.
  Proof. intros H1 H2. destruct op; try congruence; destruct a; reflexivity. Qed.
  Lemma xun_nan op : xun Phi op XNaN = XNaN.
  Proof. destruct op; reflexivity. Qed.

  Lemma wf_bin op l r : frame_wf (HBin op, l, r) = true -> (l = [] /\ exists b, r = [b]) \/ ((exists a, l = [a]) /\ r = []).
  Proof.
    unfold frame_wf. cbn. intros H. apply Nat.eqb_eq in H.
    destruct l as [|a [|? ?]]; destruct r as [|b [|? ?]]; cbn in H; try lia; eauto.
  Qed.
  Lemma wf_unary h l r :
    match h with HUn _ | HPowC _ | HDerive _ | HIntegrate _ | HBelongs _ => True | _ => False end ->
    frame_wf (h, l, r) = true -> l = [] /\ r = [].
  Proof.
    intros Hh H. unfold frame_wf in H.
    destruct h; try contradiction; cbn in H; apply Nat.eqb_eq in H;
      destruct l, r; cbn in H; try lia; auto; rewrite app_length in H; cbn in H; lia.
  Qed.

  (* one frame: if the hole fails in every environment that has the same row, so does the node *)
  Lemma strict_frame_nan h l r e x en :
    frame_wf (h, l, r) = true -> strict_frame (h, l, r) = true ->
    (forall en', e_var en' x = None -> evalX Phi e en' = XNaN) ->
    e_var en x = None ->
    evalX Phi (Node h (l ++ e :: r)) en = XNaN.
  Proof.
    intros Hw Hs He Hx. pose proof (He en Hx) as Hen.
    destruct h as [d|n f|n|n t|n|op|op|c|n|n|s| | |k| |u a].
    1-5: (unfold frame_wf in Hw; cbn in Hw; apply Nat.eqb_eq in Hw; lia).
    - (* HBin *)
      destruct (wf_bin op l r Hw) as [[-> (b & ->)]|[(a & ->) ->]]; cbn [app].
      + change (xbin op (evalX Phi e en) (evalX Phi b en) = XNaN). rewrite Hen. apply xbin_nan_l.
      + change (xbin op (evalX Phi a en) (evalX Phi e en) = XNaN). rewrite Hen.
        apply xbin_nan_r; intros ->; discriminate.
    - (* HUn *)
      destruct (wf_unary (HUn op) l r I Hw) as [-> ->]. cbn [app].
      destruct op.
      1-7: (match goal with |- evalX _ (Node (HUn ?o) _) _ = _ =>
              change (xun Phi o (evalX Phi e en) = XNaN) end; rewrite Hen; reflexivity).
      + (* MonteCarlo *)
        change (xmean (map (fun d => evalX Phi e (with_draw en d)) (e_draws en)) = XNaN).
        rewrite (map_ext _ (fun _ => XNaN)); [apply xmean_all_nan|].
        intros d. apply He. exact Hx.
      + cbn in Hs. discriminate.
    - destruct (wf_unary (HPowC c) l r I Hw) as [-> ->]. cbn [app].
      change (xpowc c (evalX Phi e en) = XNaN). rewrite Hen. reflexivity.
    - destruct (wf_unary (HDerive n) l r I Hw) as [-> ->]. reflexivity.
    - destruct (wf_unary (HIntegrate n) l r I Hw) as [-> ->]. reflexivity.
    - destruct (wf_unary (HBelongs s) l r I Hw) as [-> ->]. cbn [app].
      change (xbelongs s (evalX Phi e en) = XNaN). rewrite Hen. reflexivity.
    - change (xsum (map (fun k => evalX Phi k en) (l ++ e :: r)) = XNaN).
      rewrite map_app. cbn [map]. rewrite Hen. apply xsum_nan.
    - change (xcondsum (map (fun k => evalX Phi k en) (l ++ e :: r)) = XNaN).
      rewrite map_app. cbn [map]. rewrite Hen. apply xcondsum_cond_nan. rewrite map_length. exact Hs.
    - cbn in Hs. apply Nat.eqb_eq in Hs. destruct l; [|discriminate]. cbn [app].
      change (xelem k (map (fun k0 => evalX Phi k0 en) (e :: r)) = XNaN). cbn [map]. rewrite Hen. reflexivity.
    - change (xlinutil (map (fun k => evalX Phi k en) (l ++ e :: r)) = XNaN).
      rewrite map_app. cbn [map]. rewrite Hen. apply xlinutil_nan.
    - cbn in Hs. apply Nat.eqb_eq in Hs. destruct l; [|discriminate]. cbn [app].
      change (xloglogit u a (map (fun k0 => evalX Phi k0 en) (e :: r)) = XNaN). cbn [map]. rewrite Hen. reflexivity.
  Qed.

  (* T12j (a) *)
  Theorem read_propagates C x :
    ctx_wf C = true -> forallb strict_frame C = true ->
    forall en, e_var en x = None -> evalX Phi (plug C (EVar x)) en = XNaN.
  Proof.
    induction C as [|[[h l] r] C IH]; intros Hw Hs en Hx.
    - cbn. rewrite Hx. reflexivity.
    - cbn in Hw, Hs. apply andb_prop in Hw. destruct Hw as [Hf HC].
      apply andb_prop in Hs. destruct Hs as [Hsf HsC]. cbn [plug].
      apply (strict_frame_nan h l r (plug C (EVar x)) x en Hf Hsf); [|exact Hx].
      intros en' Hx'. exact (IH HC HsC en' Hx').
  Qed.

  (* KNOWN FINDING: the compiled engine evaluates a linear utility through getAllLiteralValues, which
     catches the exception of a variable holding the missing-data code and drops the term: the
     engine's rule for this node is [xlinutil_engine], not the strict [xlinutil] *)
  Fixpoint xlinutil_engine (l : list xval) : xval :=
    match l with
    | [] => XR 0
    | b :: v :: r =>
        match xlinutil_engine r with
        | XR s => match b, v with XR x, XR y => XR (x * y + s) | _, _ => XR s end
        | _ => XNaN
        end
    | _ => XNaN
    end.

  Theorem linear_utility_swallows_refuted :
    exists b, xlinutil [XR b; XNaN] = XNaN /\ xlinutil_engine [XR b; XNaN] = XR 0.
  Proof. exists 1%R. split; reflexivity. Qed.

  (* ---------------------------------------------------------------- And / Or *)
  Theorem and_second_unread a b en :
    evalX Phi a en = XR 0 -> evalX Phi (EBin And a b) en = XR 0.
  Proof.
    intros Ha. change (xbin And (evalX Phi a en) (evalX Phi b en) = XR 0). rewrite Ha. cbn.
    unfold Rnz. destruct (Req_EM_T 0 0); [reflexivity|congruence].
  Qed.
  Theorem and_second_read a b en v :
    evalX Phi a en = XR v -> v <> 0%R -> evalX Phi b en = XNaN -> evalX Phi (EBin And a b) en = XNaN.
  Proof.
    intros Ha Hv Hb. change (xbin And (evalX Phi a en) (evalX Phi b en) = XNaN). rewrite Ha, Hb. cbn.
    unfold Rnz. destruct (Req_EM_T v 0); [contradiction|reflexivity].
  Qed.
  Theorem or_second_unread a b en v :
    evalX Phi a en = XR v -> v <> 0%R -> evalX Phi (EBin Or a b) en = XR 1.
  Proof.
    intros Ha Hv. change (xbin Or (evalX Phi a en) (evalX Phi b en) = XR 1). rewrite Ha. cbn.
    unfold Rnz. destruct (Req_EM_T v 0); [contradiction|reflexivity].
  Qed.
  Theorem or_second_read a b en :
    evalX Phi a en = XR 0 -> evalX Phi b en = XNaN -> evalX Phi (EBin Or a b) en = XNaN.
  Proof.
    intros Ha Hb. change (xbin Or (evalX Phi a en) (evalX Phi b en) = XNaN). rewrite Ha, Hb. cbn.
    unfold Rnz. destruct (Req_EM_T 0 0); [reflexivity|congruence].
  Qed.

  (* ---------------------------------------------------------------- ConditionalSum *)
  Lemma xcondsum_false_term l t1 t2 r :
    Nat.even (List.length l) = true ->
    xcondsum (l ++ XR 0 :: t1 :: r) = xcondsum (l ++ XR 0 :: t2 :: r).
  Proof.
    induction l as [|a|a b l IH] using list_pair_ind; cbn [List.length Nat.even app]; intros He.
    - cbn. unfold Rnz. destruct (Req_EM_T 0 0); [reflexivity|congruence].
    - discriminate.
    - cbn [xcondsum]. rewrite (IH He). reflexivity.
  Qed.
  Lemma xcondsum_true_term_nan l v r :
    Nat.even (List.length l) = true -> v <> 0%R -> xcondsum (l ++ XR v :: XNaN :: r) = XNaN.
  Proof.
    induction l as [|a|a b l IH] using list_pair_ind; cbn [List.length Nat.even app]; intros He Hv.
    - cbn. unfold Rnz. destruct (Req_EM_T v 0); [contradiction|reflexivity].
    - discriminate.
    - cbn [xcondsum]. rewrite (IH He Hv). destruct a; try reflexivity.
      destruct (Rnz r0); [apply lift2_nan_r|reflexivity].
  Qed.

  Theorem condsum_false_term_unread l c t1 t2 r en :
    Nat.even (List.length l) = true -> evalX Phi c en = XR 0 ->
    evalX Phi (Node HCondSum (l ++ c :: t1 :: r)) en = evalX Phi (Node HCondSum (l ++ c :: t2 :: r)) en.
  Proof.
    intros He Hc.
    change (xcondsum (map (fun k => evalX Phi k en) (l ++ c :: t1 :: r)) =
            xcondsum (map (fun k => evalX Phi k en) (l ++ c :: t2 :: r))).
    rewrite !map_app. cbn [map]. rewrite Hc. apply xcondsum_false_term. rewrite map_length. exact He.
  Qed.
  Theorem condsum_true_term_read l c t r en v :
    Nat.even (List.length l) = true -> evalX Phi c en = XR v -> v <> 0%R -> evalX Phi t en = XNaN ->
    evalX Phi (Node HCondSum (l ++ c :: t :: r)) en = XNaN.
  Proof.
    intros He Hc Hv Ht.
    change (xcondsum (map (fun k => evalX Phi k en) (l ++ c :: t :: r)) = XNaN).
    rewrite !map_app. cbn [map]. rewrite Hc, Ht. apply xcondsum_true_term_nan; [rewrite map_length; exact He|exact Hv].
  Qed.

  (* ---------------------------------------------------------------- Elem *)
  Lemma assoc_Z_other {A} z keys (es1 es2 : list A) v1 v2 :
    nth_error keys (List.length es1) <> Some z ->
    assoc_Z z keys (es1 ++ v1 :: es2) = assoc_Z z keys (es1 ++ v2 :: es2).
  Proof.
    revert keys. induction es1 as [|e es1 IH]; intros [|k keys] Hn; cbn; try reflexivity.
    - cbn in Hn. destruct (Z.eqb_spec z k); [subst; congruence|reflexivity].
    - destruct (z =? k); [reflexivity|]. apply IH. exact Hn.
  Qed.
  Lemma assoc_Z_none_shape {A} z keys (m1 m2 : list A) v1 v2 :
    assoc_Z z keys (m1 ++ v1 :: m2) = None <-> assoc_Z z keys (m1 ++ v2 :: m2) = None.
  Proof.
    revert keys. induction m1 as [|m m1 IH]; intros [|k keys]; cbn; try tauto.
    - destruct (z =? k); split; (discriminate || tauto).
    - destruct (z =? k); [split; discriminate|apply IH].
  Qed.
  Lemma assoc_Z_first {A} z keys (es1 es2 : list A) v :
    nth_error keys (List.length es1) = Some z ->
    (forall j, (j < List.length es1)%nat -> nth_error keys j <> Some z) ->
    assoc_Z z keys (es1 ++ v :: es2) = Some v.
  Proof.
    revert keys. induction es1 as [|e es1 IH]; intros [|k keys] Hn Hf; cbn in *; try discriminate.
    - inversion Hn; subst. rewrite Z.eqb_refl. reflexivity.
    - destruct (Z.eqb_spec z k).
      + subst. exfalso. apply (Hf O); [lia|reflexivity].
      + apply IH; [exact Hn|]. intros j Hj. apply (Hf (S j)). lia.
  Qed.

  Theorem elem_unselected_unread keys k es1 e1 e2 es2 en kr z :
    evalX Phi k en = XR kr -> R2Z kr = Some z -> nth_error keys (List.length es1) <> Some z ->
    evalX Phi (Node (HElem keys) (k :: es1 ++ e1 :: es2)) en =
    evalX Phi (Node (HElem keys) (k :: es1 ++ e2 :: es2)) en.
  Proof.
    intros Hk Hz Hn.
    change (xelem keys (map (fun x => evalX Phi x en) (k :: es1 ++ e1 :: es2)) =
            xelem keys (map (fun x => evalX Phi x en) (k :: es1 ++ e2 :: es2))).
    cbn [map]. rewrite Hk. cbn [xelem]. rewrite Hz, !map_app. cbn [map].
    rewrite (assoc_Z_other z keys _ _ (evalX Phi e1 en) (evalX Phi e2 en)); [reflexivity|].
    rewrite map_length. exact Hn.
  Qed.
  Theorem elem_selected_read keys k es1 e es2 en kr z :
    evalX Phi k en = XR kr -> R2Z kr = Some z -> nth_error keys (List.length es1) = Some z ->
    (forall j, (j < List.length es1)%nat -> nth_error keys j <> Some z) ->
    evalX Phi e en = XNaN ->
    evalX Phi (Node (HElem keys) (k :: es1 ++ e :: es2)) en = XNaN.
  Proof.
    intros Hk Hz Hn Hf He.
    change (xelem keys (map (fun x => evalX Phi x en) (k :: es1 ++ e :: es2)) = XNaN).
    cbn [map]. rewrite Hk. cbn [xelem]. rewrite Hz, map_app. cbn [map].
    rewrite assoc_Z_first; [rewrite He; reflexivity|rewrite map_length; exact Hn|rewrite map_length; exact Hf].
  Qed.

  (* ---------------------------------------------------------------- logit: unavailable alternatives *)
  Lemma denominator_unavailable uk us1 u1 u2 us2 ak avs ki :
    nth_error uk (List.length us1) = Some ki -> assoc_Z ki ak avs = Some (XR 0) ->
    logit_denominator uk (us1 ++ u1 :: us2) ak avs = logit_denominator uk (us1 ++ u2 :: us2) ak avs.
  Proof.
    revert uk. induction us1 as [|u us1 IH]; intros [|k uk] Hn Ha; cbn in Hn; try discriminate.
    - inversion Hn; subst. cbn. rewrite Ha. unfold Rnz. destruct (Req_EM_T 0 0); [reflexivity|congruence].
    - cbn. rewrite (IH uk Hn Ha). reflexivity.
  Qed.

  Lemma firstn_app_exact {A} (l1 l2 : list A) n : n = List.length l1 -> firstn n (l1 ++ l2) = l1.
  Proof. intros ->. rewrite firstn_app, Nat.sub_diag, firstn_all. cbn. apply app_nil_r. Qed.
  Lemma skipn_app_exact {A} (l1 l2 : list A) n : n = List.length l1 -> skipn n (l1 ++ l2) = l2.
  Proof. intros ->. rewrite skipn_app, Nat.sub_diag, skipn_all. reflexivity. Qed.

  (* the utility of an alternative whose availability is 0 on this observation is not read *)
  Theorem logit_unavailable_unread uk ak c us1 u1 u2 us2 avk en ki :
    List.length (us1 ++ u1 :: us2) = List.length uk ->
    nth_error uk (List.length us1) = Some ki ->
    assoc_Z ki ak (map (fun x => evalX Phi x en) avk) = Some (XR 0) ->
    evalX Phi (Node (HLogLogit uk ak) (c :: (us1 ++ u1 :: us2) ++ avk)) en =
    evalX Phi (Node (HLogLogit uk ak) (c :: (us1 ++ u2 :: us2) ++ avk)) en.
  Proof.
    intros Hlen Hn Ha.
    change (xloglogit uk ak (map (fun x => evalX Phi x en) (c :: (us1 ++ u1 :: us2) ++ avk)) =
            xloglogit uk ak (map (fun x => evalX Phi x en) (c :: (us1 ++ u2 :: us2) ++ avk))).
    cbn [map]. destruct (evalX Phi c en) as [cr| |]; try reflexivity. cbn [xloglogit].
    rewrite (map_app _ (us1 ++ u1 :: us2) avk), (map_app _ (us1 ++ u2 :: us2) avk).
    assert (L1 : List.length uk = List.length (map (fun x => evalX Phi x en) (us1 ++ u1 :: us2)))
      by (rewrite map_length; congruence).
    assert (L2 : List.length uk = List.length (map (fun x => evalX Phi x en) (us1 ++ u2 :: us2))).
    { rewrite map_length. rewrite <- Hlen. rewrite !app_length. reflexivity. }
    rewrite (firstn_app_exact _ _ _ L1), (firstn_app_exact _ _ _ L2),
            (skipn_app_exact _ _ _ L1), (skipn_app_exact _ _ _ L2).
    set (avs := map (fun x => evalX Phi x en) avk) in *.
    destruct (negb (Nat.eqb (List.length avs) (List.length ak))); [reflexivity|].
    destruct (R2Z cr) as [z|]; [|reflexivity].
    rewrite !map_app. cbn [map].
    set (m1 := map (fun x => evalX Phi x en) us1). set (m2 := map (fun x => evalX Phi x en) us2).
    assert (Hn' : nth_error uk (List.length m1) = Some ki) by (unfold m1; rewrite map_length; exact Hn).
    rewrite (denominator_unavailable uk m1 (evalX Phi u1 en) (evalX Phi u2 en) m2 ak avs ki Hn' Ha).
    destruct (assoc_Z z ak avs) as [[a| |]|] eqn:Ez; try reflexivity.
    destruct (Z.eq_dec z ki) as [->|Hne].
    - (* the chosen alternative is the unavailable one: -inf whatever its utility *)
      rewrite Ha in Ez. inversion Ez; subst.
      assert (R0 : Rnz 0 = false) by (unfold Rnz; destruct (Req_EM_T 0 0); [reflexivity|congruence]).
      rewrite R0.
      pose proof (assoc_Z_none_shape ki uk m1 m2 (evalX Phi u1 en) (evalX Phi u2 en)) as Hsh.
      destruct (assoc_Z ki uk (m1 ++ evalX Phi u1 en :: m2)) eqn:E1;
      destruct (assoc_Z ki uk (m1 ++ evalX Phi u2 en :: m2)) eqn:E2; try reflexivity; exfalso.
      + destruct Hsh as [_ Hsh]. specialize (Hsh eq_refl). discriminate.
      + destruct Hsh as [Hsh _]. specialize (Hsh eq_refl). discriminate.
    - rewrite (assoc_Z_other z uk m1 m2 (evalX Phi u1 en) (evalX Phi u2 en)); [reflexivity|].
      rewrite Hn'. congruence.
  Qed.

  Lemma denominator_available_nan uk us1 us2 ak avs ki a :
    nth_error uk (List.length us1) = Some ki -> assoc_Z ki ak avs = Some (XR a) -> a <> 0%R ->
    logit_denominator uk (us1 ++ XNaN :: us2) ak avs = XNaN.
  Proof.
    intros Hn Ha Hne. revert uk Hn. induction us1 as [|u us1 IH]; intros [|k uk] Hn; cbn in Hn; try discriminate.
    - inversion Hn; subst. cbn. rewrite Ha. unfold Rnz. destruct (Req_EM_T a 0); [contradiction|reflexivity].
    - cbn. rewrite (IH uk Hn).
      destruct (assoc_Z k ak avs) as [[b| |]|]; try reflexivity.
      destruct (Rnz b); [apply lift2_nan_r|reflexivity].
  Qed.

  (* the utility of an available alternative is read when the chosen alternative is available *)
  Theorem logit_available_read uk ak c us1 u us2 avk en ki a cr z ca :
    List.length (us1 ++ u :: us2) = List.length uk ->
    List.length avk = List.length ak ->
    nth_error uk (List.length us1) = Some ki ->
    assoc_Z ki ak (map (fun x => evalX Phi x en) avk) = Some (XR a) -> a <> 0%R ->
    evalX Phi c en = XR cr -> R2Z cr = Some z ->
    assoc_Z z ak (map (fun x => evalX Phi x en) avk) = Some (XR ca) -> ca <> 0%R ->
    evalX Phi u en = XNaN ->
    evalX Phi (Node (HLogLogit uk ak) (c :: (us1 ++ u :: us2) ++ avk)) en = XNaN.
  Proof.
    intros Hlen Hla Hn Ha Hne Hc Hz Hca Hcne Hu.
    change (xloglogit uk ak (map (fun x => evalX Phi x en) (c :: (us1 ++ u :: us2) ++ avk)) = XNaN).
    cbn [map]. rewrite Hc. cbn [xloglogit]. rewrite (map_app _ (us1 ++ u :: us2) avk).
    assert (L1 : List.length uk = List.length (map (fun x => evalX Phi x en) (us1 ++ u :: us2)))
      by (rewrite map_length; congruence).
    rewrite (firstn_app_exact _ _ _ L1), (skipn_app_exact _ _ _ L1).
    set (avs := map (fun x => evalX Phi x en) avk) in *.
    assert (Hl : Nat.eqb (List.length avs) (List.length ak) = true)
      by (apply Nat.eqb_eq; unfold avs; rewrite map_length; exact Hla).
    rewrite Hl. cbn [negb]. rewrite Hz, Hca.
    rewrite map_app. cbn [map]. rewrite Hu.
    set (m1 := map (fun x => evalX Phi x en) us1). set (m2 := map (fun x => evalX Phi x en) us2).
    assert (Hn' : nth_error uk (List.length m1) = Some ki) by (unfold m1; rewrite map_length; exact Hn).
    rewrite (denominator_available_nan uk m1 m2 ak avs ki a Hn' Ha Hne).
    destruct (assoc_Z z uk (m1 ++ XNaN :: m2)) as [[v| |]|]; try reflexivity;
      unfold Rnz; destruct (Req_EM_T ca 0); try contradiction; reflexivity.
  Qed.
End Missing.
