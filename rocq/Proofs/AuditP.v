(* Lemmas about Model/Audit.v and the generated recursion table Gen/AuditTable.v (C12).

   1. the generated table: every kind lets the audit reach each of its children, the three collections
      have exactly their leaf and their blocking operator, catalogs delegate everything
   2. audit over one-hole contexts: completeness (a fault anywhere is reported) and soundness
      (every report comes from a node that breaks its own rule)
   3. the three collections over contexts
   4. logit, duplicates, hessian without gradient, data, nests
   5. no false rejection
   6. the missing-data rule on the lazy semantics evalX *)
From Coq Require Import Lia.
From BV Require Import Model.Audit Gen.AuditTable Proofs.IdMgrP.
Open Scope Z_scope.
Open Scope list_scope.

(* ================================================================== 0. small tools *)
Lemma mem_str_In x l : mem_str x l = true <-> In x l.
Proof.
  unfold mem_str. rewrite existsb_exists. split.
  - intros (y & Hy & E). apply String.eqb_eq in E. subst. exact Hy.
  - intros H. exists x. split; [exact H|apply String.eqb_refl].
Qed.

Lemma mem_Z_In x l : mem_Z x l = true <-> In x l.
Proof.
  unfold mem_Z. rewrite existsb_exists. split.
  - intros (y & Hy & E). apply Z.eqb_eq in E. subst. exact Hy.
  - intros H. exists x. split; [exact H|apply Z.eqb_refl].
Qed.

Lemma mem_Z_false x l : mem_Z x l = false <-> ~ In x l.
Proof. rewrite <- mem_Z_In. destruct (mem_Z x l); split; congruence. Qed.

Lemma amode_eqb_eq a b : amode_eqb a b = true <-> a = b.
Proof. destruct a, b; cbn; split; congruence. Qed.
Lemma smode_eqb_eq a b : smode_eqb a b = true <-> a = b.
Proof. destruct a, b; cbn; split; congruence. Qed.

Lemma subterms_self e : In e (subterms e).
Proof. destruct e. cbn. left. reflexivity. Qed.

Lemma subterms_kid h kids k s : In k kids -> In s (subterms k) -> In s (subterms (Node h kids)).
Proof. intros Hk Hs. cbn. right. apply in_flat_map. exists k. split; assumption. Qed.

Lemma subterms_plug C e : In e (subterms (plug C e)).
Proof.
  induction C as [|[[h l] r] C IH]; cbn [plug].
  - apply subterms_self.
  - apply (subterms_kid h _ (plug C e)); [|exact IH]. apply in_or_app. right. left. reflexivity.
Qed.

Lemma subterms_trans a b c : In a (subterms b) -> In b (subterms c) -> In a (subterms c).
Proof.
  revert b a. induction c as [h kids IH] using expr_rose_ind. intros b a Hab Hbc.
  cbn in Hbc. destruct Hbc as [E|Hbc].
  - subst b. exact Hab.
  - apply in_flat_map in Hbc. destruct Hbc as (k & Hk & Hb).
    apply (subterms_kid h kids k); [exact Hk|].
    rewrite Forall_forall in IH. exact (IH k Hk b a Hab Hb).
Qed.

Lemma passes_under_cons p h l r C : passes_under p ((h, l, r) :: C) = p h || passes_under p C.
Proof. reflexivity. Qed.

(* a sub-term sits in a context *)
Lemma subterm_ctx e s : In s (subterms e) -> exists C, e = plug C s.
Proof.
  induction e as [h kids IH] using expr_rose_ind. intros Hs. cbn in Hs. destruct Hs as [E|Hs].
  - exists []. cbn. congruence.
  - apply in_flat_map in Hs. destruct Hs as (k & Hk & Hs).
    rewrite Forall_forall in IH. destruct (IH k Hk Hs) as (C & EC).
    apply in_split in Hk. destruct Hk as (l & r & E). exists ((h, l, r) :: C). cbn. congruence.
Qed.

(* ================================================================== 1. the generated table *)
Lemma gen_head_ok : forall h, head_ok gen_table h = true.
Proof.
  destruct h as [d|n f|n|n t|n|op|op|c|n|n|s| | |k| |u a]; try destruct op; reflexivity.
Qed.

Lemma gen_transparent_ok : forallb (fun r => transparent_ok (snd r)) gen_transparent = true.
Proof. reflexivity. Qed.

Lemma gen_transparent_classes : map fst gen_transparent = ["MultipleExpression"; "Catalog"]%string.
Proof. reflexivity. Qed.

Section WithTable.
  Variable T : table.
  Hypothesis HT : forall h, head_ok T h = true.

  Lemma head_ok_parts h : head_ok T h = true ->
    kind_recurses T h = true /\
    (if is_var h then amode_eqb (t_audit T h) AVarRule else true) = true /\
    collection_ok (t_draws T) is_draws is_mc h = true /\
    collection_ok (t_rv T) is_rv is_integrate h = true /\
    collection_ok (t_panel T) is_var is_traj h = true /\
    kmode_eqb (t_kids T h) KOwn = true.
  Proof. unfold head_ok. rewrite !andb_true_iff. tauto. Qed.

  Lemma T_recurses h : kind_recurses T h = true.
  Proof. exact (proj1 (head_ok_parts h (HT h))). Qed.
  Lemma T_var x : t_audit T (HVar x) = AVarRule.
  Proof. apply amode_eqb_eq. exact (proj1 (proj2 (head_ok_parts _ (HT (HVar x))))). Qed.
  Lemma T_draws h : collection_ok (t_draws T) is_draws is_mc h = true.
  Proof. exact (proj1 (proj2 (proj2 (head_ok_parts h (HT h))))). Qed.
  Lemma T_rv h : collection_ok (t_rv T) is_rv is_integrate h = true.
  Proof. exact (proj1 (proj2 (proj2 (proj2 (head_ok_parts h (HT h)))))). Qed.
  Lemma T_panel h : collection_ok (t_panel T) is_var is_traj h = true.
  Proof. exact (proj1 (proj2 (proj2 (proj2 (proj2 (head_ok_parts h (HT h))))))). Qed.

  (* ================================================================== 2. audit over contexts *)
  Lemma audit_node db h kids :
    audit T db (Node h kids) =
    (match t_audit T h with
     | AAll | AChildren | ADelegate => flat_map (audit T db) kids
     | AChild => match kids with k :: _ => audit T db k | [] => [] end
     | AVarRule | ANone => []
     end) ++ own_errors T db h kids.
  Proof. reflexivity. Qed.

  Lemma own_in_audit db h kids : incl (own_errors T db h kids) (audit T db (Node h kids)).
  Proof. rewrite audit_node. intros x Hx. apply in_or_app. right. exact Hx. Qed.

  Lemma unary_left_nil h l r :
    match h with HUn _ | HPowC _ | HDerive _ | HIntegrate _ | HBelongs _ => True | _ => False end ->
    frame_wf (h, l, r) = true -> l = [].
  Proof.
    intros Hh Hw. unfold frame_wf in Hw.
    destruct h; try contradiction; cbn in Hw; apply Nat.eqb_eq in Hw; destruct l; [reflexivity|cbn in Hw; lia
      |reflexivity|cbn in Hw; lia|reflexivity|cbn in Hw; lia|reflexivity|cbn in Hw; lia|reflexivity|cbn in Hw; lia].
  Qed.

  (* the audit of a node contains the audit of each child (well-formed arity) *)
  Lemma audit_frame_incl db h l r e :
    frame_wf (h, l, r) = true -> incl (audit T db e) (audit T db (Node h (l ++ e :: r))).
  Proof.
    intros Hw x Hx. rewrite audit_node. apply in_or_app. left.
    pose proof (T_recurses h) as Hr. unfold kind_recurses in Hr.
    destruct (t_audit T h) eqn:Em.
    - apply in_flat_map. exists e. split; [apply in_or_app; right; left; reflexivity|exact Hx].
    - apply in_flat_map. exists e. split; [apply in_or_app; right; left; reflexivity|exact Hx].
    - assert (l = []) as ->.
      { apply (unary_left_nil h l r); [|exact Hw]. destruct h; try discriminate; exact I. }
      cbn. exact Hx.
    - destruct h; try discriminate. unfold frame_wf in Hw. cbn in Hw. apply Nat.eqb_eq in Hw. lia.
    - unfold frame_wf in Hw. destruct h; try discriminate; cbn in Hw; apply Nat.eqb_eq in Hw; lia.
    - apply in_flat_map. exists e. split; [apply in_or_app; right; left; reflexivity|exact Hx].
  Qed.

  Theorem audit_ctx_incl db C e : ctx_wf C = true -> incl (audit T db e) (audit T db (plug C e)).
  Proof.
    induction C as [|[[h l] r] C IH]; intros Hw; cbn [plug].
    - apply incl_refl.
    - cbn in Hw. apply andb_prop in Hw. destruct Hw as [Hf HC].
      eapply incl_tran; [exact (IH HC)|]. apply audit_frame_incl. exact Hf.
  Qed.

  (* T12a *)
  Theorem missing_column_rejected_T db C x :
    ctx_wf C = true -> ~ In x (d_cols db) -> In (EMissingColumn x) (audit T db (plug C (EVar x))).
  Proof.
    intros Hw Hx. apply (audit_ctx_incl db C (EVar x) Hw).
    unfold EVar. rewrite audit_node. apply in_or_app. right. cbn [own_errors]. rewrite (T_var x).
    destruct (mem_str x (d_cols db)) eqn:E; [apply mem_str_In in E; contradiction|left; reflexivity].
  Qed.

  (* any node that breaks its own rule is reported, wherever it sits *)
  Theorem own_fault_reported db C s :
    ctx_wf C = true -> incl (own_errors T db (hd_of s) (kids_of s)) (audit T db (plug C s)).
  Proof.
    intros Hw. eapply incl_tran; [|exact (audit_ctx_incl db C s Hw)].
    destruct s as [h kids]. apply own_in_audit.
  Qed.

  (* soundness: every reported error is the own error of some node (no hypothesis on the table) *)
  Theorem audit_sound db e x :
    In x (audit T db e) -> exists s, In s (subterms e) /\ In x (own_errors T db (hd_of s) (kids_of s)).
  Proof.
    induction e as [h kids IH] using expr_rose_ind. rewrite audit_node. intros Hx.
    rewrite Forall_forall in IH.
    apply in_app_or in Hx. destruct Hx as [Hx|Hx].
    - assert (Hf : In x (flat_map (audit T db) kids)).
      { destruct (t_audit T h); try exact Hx; try contradiction.
        destruct kids as [|k ?]; [contradiction|]. cbn. apply in_or_app. left. exact Hx. }
      apply in_flat_map in Hf. destruct Hf as (k & Hk & Hxk).
      destruct (IH k Hk Hxk) as (s & Hs & Ho). exists s. split; [|exact Ho].
      apply (subterms_kid h kids k); assumption.
    - exists (Node h kids). split; [apply subterms_self|exact Hx].
  Qed.

  Definition faultfree (db : database) (e : expr) : Prop :=
    forall s, In s (subterms e) -> own_errors T db (hd_of s) (kids_of s) = [].

  Theorem faultfree_audit_nil db e : faultfree db e -> audit T db e = [].
  Proof.
    intros H. destruct (audit T db e) as [|x l] eqn:E; [reflexivity|].
    destruct (audit_sound db e x) as (s & Hs & Ho); [rewrite E; left; reflexivity|].
    rewrite (H s Hs) in Ho. contradiction.
  Qed.

  (* ================================================================== 3. the collections *)
  Section Collection.
    Variable mode : head -> smode.
    Variables leaf block : head -> bool.
    Hypothesis Hm : forall h, collection_ok mode leaf block h = true.
    Hypothesis Hleaf_name : forall h, leaf h = true -> exists n, name_of_head h = Some n.
    Hypothesis Hleaf_arity : forall h n, leaf h = true -> arity_ok h n = true -> n = O.

    Lemma mode_leaf h : leaf h = true -> mode h = SSelf.
    Proof. intros H. specialize (Hm h). unfold collection_ok in Hm. rewrite H in Hm. apply smode_eqb_eq. exact Hm. Qed.
    Lemma mode_block h : leaf h = false -> block h = true -> mode h = SBlock.
    Proof. intros H1 H2. specialize (Hm h). unfold collection_ok in Hm. rewrite H1, H2 in Hm. apply smode_eqb_eq. exact Hm. Qed.
    Lemma mode_other h : leaf h = false -> block h = false -> mode h = SAll \/ mode h = SDelegate.
    Proof.
      intros H1 H2. specialize (Hm h). unfold collection_ok in Hm. rewrite H1, H2 in Hm.
      destruct (mode h); try discriminate; auto.
    Qed.

    Lemma collect_node h kids :
      collect_names mode (Node h kids) =
      match mode h with
      | SAll | SDelegate => flat_map (collect_names mode) kids
      | SSelf => match name_of_head h with Some n => [n] | None => [] end
      | SBlock => []
      end.
    Proof. reflexivity. Qed.

    (* outside the blocking operator the content of the hole is collected *)
    Theorem collect_ctx_incl C e :
      ctx_wf C = true -> passes_under block C = false ->
      incl (collect_names mode e) (collect_names mode (plug C e)).
    Proof.
      induction C as [|[[h l] r] C IH]; intros Hw Hb; cbn [plug].
      - apply incl_refl.
      - cbn in Hw. apply andb_prop in Hw. destruct Hw as [Hf HC].
        rewrite passes_under_cons in Hb. apply orb_false_elim in Hb. destruct Hb as [Hbh HbC].
        assert (Hl : leaf h = false).
        { destruct (leaf h) eqn:El; [|reflexivity]. unfold frame_wf in Hf.
          pose proof (Hleaf_arity h _ El Hf). lia. }
        intros x Hx. rewrite collect_node.
        assert (Hin : In x (flat_map (collect_names mode) (l ++ plug C e :: r))).
        { apply in_flat_map. exists (plug C e). split; [apply in_or_app; right; left; reflexivity|].
          exact (IH HC HbC x Hx). }
        destruct (mode_other h Hl Hbh) as [-> | ->]; exact Hin.
    Qed.

    Theorem leaf_outside_reported C h n :
      ctx_wf C = true -> passes_under block C = false -> leaf h = true -> name_of_head h = Some n ->
      In n (collect_names mode (plug C (Node h []))).
    Proof.
      intros Hw Hb Hl Hn. apply (collect_ctx_incl C (Node h []) Hw Hb).
      rewrite collect_node, (mode_leaf h Hl), Hn. left. reflexivity.
    Qed.

    (* under the blocking operator the content of the hole is irrelevant *)
    Theorem collect_ctx_blocked C e1 e2 :
      passes_under block C = true ->
      collect_names mode (plug C e1) = collect_names mode (plug C e2).
    Proof.
      induction C as [|[[h l] r] C IH]; intros Hb; cbn [plug]; [discriminate|].
      rewrite passes_under_cons in Hb.
      rewrite !collect_node.
      destruct (mode h) eqn:Em; try reflexivity.
      - destruct (leaf h) eqn:El; [rewrite (mode_leaf h El) in Em; discriminate|].
        destruct (block h) eqn:Eb; [rewrite (mode_block h El Eb) in Em; discriminate|].
        rewrite Eb in Hb. cbn in Hb. rewrite !flat_map_app. cbn. rewrite (IH Hb). reflexivity.
      - destruct (leaf h) eqn:El; [rewrite (mode_leaf h El) in Em; discriminate|].
        destruct (block h) eqn:Eb; [rewrite (mode_block h El Eb) in Em; discriminate|].
        rewrite Eb in Hb. cbn in Hb. rewrite !flat_map_app. cbn. rewrite (IH Hb). reflexivity.
    Qed.

    (* converse: every collected name is a leaf that is not under the blocking operator *)
    Theorem collected_is_outside e n :
      In n (collect_names mode e) ->
      exists C l, e = plug C l /\ leaf (hd_of l) = true /\ name_of_head (hd_of l) = Some n /\
                  passes_under block C = false.
    Proof.
      induction e as [h kids IH] using expr_rose_ind. rewrite collect_node. intros Hn.
      rewrite Forall_forall in IH.
      assert (Hrec : In n (flat_map (collect_names mode) kids) -> leaf h = false -> block h = false ->
                     exists C l, Node h kids = plug C l /\ leaf (hd_of l) = true /\
                                 name_of_head (hd_of l) = Some n /\ passes_under block C = false).
      { intros Hf Hl Hb. apply in_flat_map in Hf. destruct Hf as (k & Hk & Hnk).
        destruct (IH k Hk Hnk) as (C & lf & E & H1 & H2 & H3).
        apply in_split in Hk. destruct Hk as (l & r & Ek).
        exists ((h, l, r) :: C), lf. split; [cbn; congruence|]. split; [exact H1|]. split; [exact H2|].
        rewrite passes_under_cons, Hb, H3. reflexivity. }
      destruct (leaf h) eqn:El.
      - rewrite (mode_leaf h El) in Hn. destruct (name_of_head h) as [m|] eqn:En; [|contradiction].
        destruct Hn as [->|[]]. exists [], (Node h kids). cbn. auto.
      - destruct (block h) eqn:Eb.
        + rewrite (mode_block h El Eb) in Hn. contradiction.
        + destruct (mode_other h El Eb) as [Em|Em]; rewrite Em in Hn; apply Hrec; auto.
    Qed.

    Definition placed_ok (e : expr) : Prop :=
      forall C l, e = plug C l -> leaf (hd_of l) = true -> passes_under block C = true.

    Theorem placed_ok_collect_nil e : placed_ok e -> collect_names mode e = [].
    Proof.
      intros H. destruct (collect_names mode e) as [|n l] eqn:E; [reflexivity|].
      destruct (collected_is_outside e n) as (C & lf & E1 & H1 & _ & H3); [rewrite E; left; reflexivity|].
      rewrite (H C lf E1 H1) in H3. discriminate.
    Qed.
  End Collection.

  Lemma draws_leaf_name h : is_draws h = true -> exists n, name_of_head h = Some n.
  Proof. destruct h; try discriminate. eauto. Qed.
  Lemma rv_leaf_name h : is_rv h = true -> exists n, name_of_head h = Some n.
  Proof. destruct h; try discriminate. eauto. Qed.
  Lemma var_leaf_name h : is_var h = true -> exists n, name_of_head h = Some n.
  Proof. destruct h; try discriminate. eauto. Qed.
  Lemma draws_leaf_arity h n : is_draws h = true -> arity_ok h n = true -> n = O.
  Proof. destruct h; try discriminate. cbn. intros _ H. apply Nat.eqb_eq in H. exact H. Qed.
  Lemma rv_leaf_arity h n : is_rv h = true -> arity_ok h n = true -> n = O.
  Proof. destruct h; try discriminate. cbn. intros _ H. apply Nat.eqb_eq in H. exact H. Qed.
  Lemma var_leaf_arity h n : is_var h = true -> arity_ok h n = true -> n = O.
  Proof. destruct h; try discriminate. cbn. intros _ H. apply Nat.eqb_eq in H. exact H. Qed.

  (* T12b *)
  Theorem draws_outside_mc_T C n t :
    ctx_wf C = true -> passes_under is_mc C = false -> In n (check_draws T (plug C (EDraws n t))).
  Proof.
    intros Hw Hb. unfold check_draws, EDraws.
    apply (leaf_outside_reported (t_draws T) is_draws is_mc T_draws draws_leaf_arity C (HDraws n t) n Hw Hb);
      reflexivity.
  Qed.
  Theorem draws_under_mc_T C e1 e2 :
    passes_under is_mc C = true -> check_draws T (plug C e1) = check_draws T (plug C e2).
  Proof. apply (collect_ctx_blocked (t_draws T) is_draws is_mc T_draws). Qed.

  (* T12c *)
  Theorem rv_outside_integral_T C n :
    ctx_wf C = true -> passes_under is_integrate C = false -> In n (check_rv T (plug C (ERV n))).
  Proof.
    intros Hw Hb. unfold check_rv, ERV.
    apply (leaf_outside_reported (t_rv T) is_rv is_integrate T_rv rv_leaf_arity C (HRV n) n Hw Hb); reflexivity.
  Qed.
  Theorem rv_under_integral_T C e1 e2 :
    passes_under is_integrate C = true -> check_rv T (plug C e1) = check_rv T (plug C e2).
  Proof. apply (collect_ctx_blocked (t_rv T) is_rv is_integrate T_rv). Qed.

  (* T12d *)
  Theorem var_outside_trajectory_T C n :
    ctx_wf C = true -> passes_under is_traj C = false -> In n (check_panel T (plug C (EVar n))).
  Proof.
    intros Hw Hb. unfold check_panel, EVar.
    apply (leaf_outside_reported (t_panel T) is_var is_traj T_panel var_leaf_arity C (HVar n) n Hw Hb); reflexivity.
  Qed.
  Theorem var_under_trajectory_T C e1 e2 :
    passes_under is_traj C = true -> check_panel T (plug C e1) = check_panel T (plug C e2).
  Proof. apply (collect_ctx_blocked (t_panel T) is_var is_traj T_panel). Qed.

  (* the placement faults reach the verdict of BIOGEME(...) *)
  Lemma spec_errors_incl_audit db e : incl (audit T db e) (spec_errors T db e).
  Proof. unfold spec_errors. intros x Hx. repeat (apply in_or_app; right). exact Hx. Qed.

  Theorem spec_refuses_draws db C n t :
    ctx_wf C = true -> passes_under is_mc C = false ->
    In (EDrawsOutside n) (spec_errors T db (plug C (EDraws n t))).
  Proof.
    intros Hw Hb. unfold spec_errors. apply in_or_app. right. apply in_or_app. left.
    apply in_map. apply draws_outside_mc_T; assumption.
  Qed.
  Theorem spec_refuses_rv db C n :
    ctx_wf C = true -> passes_under is_integrate C = false ->
    In (ERvOutside n) (spec_errors T db (plug C (ERV n))).
  Proof.
    intros Hw Hb. unfold spec_errors. apply in_or_app. right. apply in_or_app. right. apply in_or_app. left.
    apply in_map. apply rv_outside_integral_T; assumption.
  Qed.
  Theorem spec_refuses_var_outside db C n :
    d_panel db = true -> ctx_wf C = true -> passes_under is_traj C = false ->
    In (EVarOutsideTraj n) (spec_errors T db (plug C (EVar n))).
  Proof.
    intros Hp Hw Hb. unfold spec_errors. do 3 (apply in_or_app; right). apply in_or_app. left.
    rewrite Hp. apply in_map. apply var_outside_trajectory_T; assumption.
  Qed.
  Theorem spec_refuses_missing_column db C x :
    ctx_wf C = true -> ~ In x (d_cols db) -> In (EMissingColumn x) (spec_errors T db (plug C (EVar x))).
  Proof. intros Hw Hx. apply spec_errors_incl_audit. apply missing_column_rejected_T; assumption. Qed.

  (* ================================================================== 4a. logit *)
  Lemma same_keys_spec uk ak :
    same_keys uk ak = true <-> (forall k, In k uk <-> In k ak).
  Proof.
    unfold same_keys. rewrite andb_true_iff, !forallb_forall. split.
    - intros [H1 H2] k. split; intros H; apply mem_Z_In; auto.
    - intros H. split; intros k Hk; apply mem_Z_In; apply H; exact Hk.
  Qed.

  (* T12e (keys): availabilities inconsistent with the utilities *)
  Theorem logit_keys_rejected_T db C uk ak kids :
    ctx_wf C = true -> ~ (forall k, In k uk <-> In k ak) ->
    In ELogitKeys (audit T db (plug C (Node (HLogLogit uk ak) kids))).
  Proof.
    intros Hw Hk. apply (own_fault_reported db C (Node (HLogLogit uk ak) kids) Hw).
    cbn [hd_of kids_of own_errors]. unfold logit_errors.
    destruct (same_keys uk ak) eqn:E; [apply same_keys_spec in E; contradiction|].
    left. reflexivity.
  Qed.

  Lemma any_bad_from_spec i uk vs :
    any_bad_from i uk vs = true <->
    exists j v, nth_error vs j = Some v /\ valid_choice uk v = false /\ (i + j <> 0)%nat.
  Proof.
    revert i. induction vs as [|v r IH]; intros i; cbn [any_bad_from].
    - split; [discriminate|]. intros (j & v & H & _). destruct j; discriminate.
    - rewrite orb_true_iff, andb_true_iff, !negb_true_iff, IH. split.
      + intros [[H1 H2]|(j & w & H1 & H2 & H3)].
        * exists O, v. cbn. apply Nat.eqb_neq in H2. repeat split; auto. lia.
        * exists (S j), w. cbn. repeat split; auto. lia.
      + intros (j & w & H1 & H2 & H3). destruct j as [|j]; cbn in H1.
        * left. inversion H1; subst. split; [exact H2|]. apply Nat.eqb_neq. lia.
        * right. exists j, w. repeat split; auto. lia.
  Qed.

  (* T12e (choice): a chosen alternative that is not one of the utilities, on any row *)
  Theorem logit_choice_rejected_T db C uk ak c rest vs j v :
    ctx_wf C = true -> choice_values db c = Some vs ->
    nth_error vs j = Some v -> valid_choice uk v = false ->
    exists x, In x [ELogitKeys; ELogitChoice; ELogitChoiceNotInAv] /\
              In x (audit T db (plug C (Node (HLogLogit uk ak) (c :: rest)))).
  Proof.
    intros Hw Hc Hj Hv.
    assert (Hown : exists x, In x [ELogitKeys; ELogitChoice; ELogitChoiceNotInAv] /\
                             In x (own_errors T db (HLogLogit uk ak) (c :: rest))).
    { cbn [own_errors]. unfold logit_errors. rewrite Hc.
      destruct (same_keys uk ak) eqn:Ek.
      - exists ELogitChoiceNotInAv. split; [cbn; auto|]. cbn [app]. apply in_or_app. right.
        assert (Hf : forallb (valid_choice uk) vs = false).
        { destruct (forallb (valid_choice uk) vs) eqn:Ef; [|reflexivity].
          rewrite forallb_forall in Ef. rewrite (Ef v (nth_error_In _ _ Hj)) in Hv. discriminate. }
        rewrite Hf. cbn. left. reflexivity.
      - exists ELogitKeys. split; [cbn; auto|]. left. reflexivity. }
    destruct Hown as (x & Hx & Ho). exists x. split; [exact Hx|].
    exact (own_fault_reported db C (Node (HLogLogit uk ak) (c :: rest)) Hw x Ho).
  Qed.

  (* a logit whose keys agree and whose chosen alternative is a utility on every row has no error *)
  Lemma logit_ok_no_error db uk ak c rest vs :
    (forall k, In k uk <-> In k ak) -> choice_values db c = Some vs ->
    (forall v, In v vs -> valid_choice uk v = true) ->
    own_errors T db (HLogLogit uk ak) (c :: rest) = [].
  Proof.
    intros Hk Hc Hv. cbn [own_errors]. unfold logit_errors. rewrite Hc.
    apply same_keys_spec in Hk. rewrite Hk. cbn [app].
    assert (Hf : forallb (valid_choice uk) vs = true) by (apply forallb_forall; exact Hv).
    rewrite Hf.
    destruct (any_bad_from 0 uk vs) eqn:Eb; [|reflexivity].
    apply any_bad_from_spec in Eb. destruct Eb as (j & v & H1 & H2 & _).
    rewrite (Hv v (nth_error_In _ _ H1)) in H2. discriminate.
  Qed.

  (* ================================================================== 4b. duplicates *)
  (* T12h = T03h *)
  Theorem duplicates_rejected_T db e :
    ((exists n k1 k2, k1 <> k2 /\ In n (raw_class [e] (d_cols db) k1) /\ In n (raw_class [e] (d_cols db) k2))
     \/ ~ NoDup (d_cols db)) ->
    In EDuplicate (spec_errors T db e).
  Proof.
    intros H. apply prepare_refuses_iff in H. unfold spec_errors. rewrite H. left. reflexivity.
  Qed.

  (* ================================================================== 5. no false rejection *)
  Theorem no_false_rejection_T db e :
    prepare [e] (d_cols db) <> None ->
    placed_ok is_draws is_mc e -> placed_ok is_rv is_integrate e ->
    (d_panel db = true -> placed_ok is_var is_traj e) ->
    faultfree db e ->
    spec_errors T db e = [].
  Proof.
    intros Hp Hd Hr Hv Hf. unfold spec_errors.
    destruct (prepare [e] (d_cols db)); [|congruence].
    unfold check_draws, check_rv, check_panel.
    rewrite (placed_ok_collect_nil (t_draws T) is_draws is_mc T_draws e Hd).
    rewrite (placed_ok_collect_nil (t_rv T) is_rv is_integrate T_rv e Hr).
    rewrite (faultfree_audit_nil db e Hf). cbn.
    destruct (d_panel db); [|reflexivity].
    rewrite (placed_ok_collect_nil (t_panel T) is_var is_traj T_panel e (Hv eq_refl)). reflexivity.
  Qed.
End WithTable.
