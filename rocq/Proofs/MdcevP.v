(* C18 -- lemmas about Model/Mdcev.v and the generated Gen/MdcevFormulas.v. *)
From Coq Require Import Reals Lra Lia QArith Qreals ZArith List Bool.
From Coquelicot Require Import Coquelicot.
From BV Require Import Model.Expr Model.EvalX Model.Mdcev Gen.MdcevFormulas.
Import ListNotations.
Open Scope R_scope.

(* ============================================================================================
   0. real-analysis helpers *)

Lemma exp_mono x y : x <= y -> exp x <= exp y.
Proof. intros [H|H]; [left; apply exp_increasing; exact H | subst; lra]. Qed.

Lemma exp_m1 z a : 0 < z -> exp ((a - 1) * ln z) = exp (a * ln z) * / z.
Proof.
  intros Hz. replace ((a - 1) * ln z) with (a * ln z + - ln z) by ring.
  rewrite exp_plus, exp_Ropp, exp_ln by assumption. reflexivity.
Qed.

Lemma exp_split3 c a z al : 0 < z -> 0 < al ->
  exp (c + ln al + (a - 1) * ln z) = exp c * al * (exp (a * ln z) * / z).
Proof. intros Hz Hal. rewrite !exp_plus, exp_ln, exp_m1 by assumption. ring. Qed.

Lemma powexp_dec a z1 z2 : a <= 0 -> 0 < z1 -> z1 <= z2 -> exp (a * ln z2) <= exp (a * ln z1).
Proof.
  intros Ha Hz H. apply exp_mono. assert (ln z1 <= ln z2) by (apply ln_le; assumption). nra.
Qed.

Lemma dom_pg p g x : 0 < p -> 0 < g -> - (p * g) < x -> 0 < 1 + x / (p * g).
Proof.
  intros Hp Hg Hx. assert (0 < p * g) by (apply Rmult_lt_0_compat; assumption).
  replace (1 + x / (p * g)) with ((x + p * g) / (p * g)) by (field; lra).
  apply Rdiv_lt_0_compat; lra.
Qed.

Lemma dom_g g x : 0 < g -> - g < x -> 0 < 1 + x / g.
Proof.
  intros Hg Hx. replace (1 + x / g) with ((x + g) / g) by (field; lra).
  apply Rdiv_lt_0_compat; lra.
Qed.

Lemma div_mono c x y : 0 < c -> x <= y -> x / c <= y / c.
Proof.
  intros Hc H. unfold Rdiv. apply Rmult_le_compat_r; [left; apply Rinv_0_lt_compat; exact Hc | exact H].
Qed.

(* c * x^a -> +infinity when x -> 0+, for a < 0 < c *)
Lemma blowup a c K : a < 0 -> 0 < c ->
  exists delta, 0 < delta /\ forall x, 0 < x < delta -> K < c * exp (a * ln x).
Proof.
  intros Ha Hc. set (M := Rmax (K / c) 1).
  assert (HM : 0 < M) by (unfold M; apply Rlt_le_trans with 1; [lra | apply Rmax_r]).
  exists (exp (ln M / a)). split; [apply exp_pos|]. intros x [Hx Hd].
  assert (Hl : ln x < ln M / a).
  { rewrite <- (ln_exp (ln M / a)). apply ln_increasing; assumption. }
  assert (Hal : ln M < a * ln x).
  { assert (a * (ln M / a) = ln M) by (field; lra). nra. }
  assert (HMx : M < exp (a * ln x)).
  { rewrite <- (exp_ln M) at 1 by exact HM. apply exp_increasing. exact Hal. }
  assert (K / c <= M) by apply Rmax_l.
  assert (K = K / c * c) by (field; lra). nra.
Qed.

(* ============================================================================================
   1. T18a: the marginal utility D is the derivative of the utility U on x > lo *)

Lemma U_is_derive v scale price gamma alpha V mu eps x :
  params_ok v price gamma alpha -> lo v price gamma < x ->
  is_derive (fun x => U v scale price gamma alpha V mu x eps) x (D v scale price gamma alpha V mu x eps).
Proof.
  intros (Hp & Hg & Ha) Hx.
  destruct v, gamma as [g|]; unfold U, D, lo, Rpower in *; cbv zeta; try specialize (Hg g eq_refl).
  all: set (p := pr_of price) in *; set (e := sc_eps scale eps).
  all: try (assert (Hpg : 0 < 1 + x / (p * g)) by (apply dom_pg; assumption)).
  all: try (assert (Hpg0 : 0 < p * g) by (apply Rmult_lt_0_compat; assumption)).
  all: try (assert (Hg1 : 0 < 1 + x / g) by (apply dom_g; assumption)).
  all: try (assert (Hxp : 0 < x / p) by (apply Rdiv_lt_0_compat; lra)).
  - auto_derive. exact Hpg. field. split; lra.
  - auto_derive. exact Hxp. field. split; lra.
  - auto_derive. lra. rewrite exp_split3 by lra. rewrite exp_plus. ring.
  - auto_derive. lra. rewrite exp_split3 by lra. rewrite exp_plus. ring.
  - auto_derive. exact Hpg. unfold Rdiv in *. rewrite exp_m1 by exact Hpg. field. repeat split; lra.
  - auto_derive. exact Hxp. unfold Rdiv in *. rewrite exp_m1 by exact Hxp. field. repeat split; lra.
  - auto_derive. exact Hg1. unfold Rdiv in *. rewrite exp_m1 by exact Hg1. field. repeat split; lra.
  - auto_derive. exact Hx. unfold Rdiv in *. rewrite exp_m1 by exact Hx. field. repeat split; lra.
Qed.

(* ============================================================================================
   2. T18b: the closed-form optimal consumption inverts the marginal utility *)

Lemma Rpower_inv_exp z a : 0 < z -> a <> 0 -> Rpower (Rpower z (1 / a)) a = z.
Proof.
  intros Hz Ha. rewrite Rpower_mult. replace (1 / a * a) with 1 by (field; exact Ha).
  apply Rpower_1. exact Hz.
Qed.

Lemma Xopt_inverts v scale price gamma alpha V mu eps lam :
  params_ok v price gamma alpha -> lam_ok v scale mu eps lam ->
  lo v price gamma < Xopt v scale price gamma alpha V mu lam eps /\
  D v scale price gamma alpha V mu (Xopt v scale price gamma alpha V mu lam eps) eps = lam.
Proof.
  intros (Hp & Hg & Ha) Hl.
  destruct v, gamma as [g|]; unfold Xopt, D, lo, lam_ok in *; cbv zeta; try specialize (Hg g eq_refl).
  all: set (p := pr_of price) in *; set (e := sc_eps scale eps) in *.
  all: try (assert (Hpg0 : 0 < p * g) by (apply Rmult_lt_0_compat; assumption)).
  - assert (He := exp_pos (V + e)). split.
    + assert (0 < exp (V + e) * g / lam) by (apply Rdiv_lt_0_compat; [apply Rmult_lt_0_compat|]; lra). lra.
    + replace (exp (V + e) * g / lam - p * g + p * g) with (exp (V + e) * g / lam) by ring.
      field. repeat split; lra.
  - assert (He := exp_pos (V + e)). split.
    + apply Rdiv_lt_0_compat; lra.
    + field. split; lra.
  - set (q := (ln lam - V - e - ln alpha) / (alpha - 1)). split.
    + assert (0 < exp q) by apply exp_pos. lra.
    + replace (exp q - g + g) with (exp q) by ring. rewrite ln_exp.
      replace (V + e + ln alpha + (alpha - 1) * q) with (ln lam) by (unfold q; field; lra).
      apply exp_ln. exact Hl.
  - set (q := (ln lam - V - e - ln alpha) / (alpha - 1)). split.
    + apply exp_pos.
    + rewrite ln_exp.
      replace (V + e + ln alpha + (alpha - 1) * q) with (ln lam) by (unfold q; field; lra).
      apply exp_ln. exact Hl.
  - assert (He := exp_pos (V + e)).
    assert (Hz : 0 < p * lam / exp (V + e)) by (apply Rdiv_lt_0_compat; [apply Rmult_lt_0_compat|]; lra).
    set (r := Rpower (p * lam / exp (V + e)) (1 / (alpha - 1))).
    assert (Hr : 0 < r) by (unfold r, Rpower; apply exp_pos). split.
    + nra.
    + replace (1 + p * g * (r - 1) / (p * g)) with r by (field; split; lra).
      unfold r. rewrite Rpower_inv_exp by lra. field. split; lra.
  - assert (He := exp_pos (V + e)).
    assert (Hz : 0 < p * lam / exp (V + e)) by (apply Rdiv_lt_0_compat; [apply Rmult_lt_0_compat|]; lra).
    set (r := Rpower (p * lam / exp (V + e)) (1 / (alpha - 1))).
    assert (Hr : 0 < r) by (unfold r, Rpower; apply exp_pos). split.
    + apply Rmult_lt_0_compat; assumption.
    + replace (p * r / p) with r by (field; lra).
      unfold r. rewrite Rpower_inv_exp by lra. field. split; lra.
  - assert (Hb : 0 < (lam - mu - e) * exp (- V)) by (apply Rmult_lt_0_compat; [lra | apply exp_pos]).
    set (r := Rpower ((lam - mu - e) * exp (- V)) (1 / (alpha - 1))).
    assert (Hr : 0 < r) by (unfold r, Rpower; apply exp_pos). split.
    + nra.
    + replace (1 + g * (r - 1) / g) with r by (field; lra).
      unfold r. rewrite Rpower_inv_exp by lra.
      replace (exp V * ((lam - mu - e) * exp (- V))) with ((lam - mu - e) * (exp V * exp (- V))) by ring.
      rewrite <- exp_plus. replace (V + - V) with 0 by ring. rewrite exp_0. ring.
  - assert (Hb : 0 < (lam - mu - e) * exp (- V)) by (apply Rmult_lt_0_compat; [lra | apply exp_pos]).
    set (r := Rpower ((lam - mu - e) * exp (- V)) (1 / (alpha - 1))).
    assert (Hr : 0 < r) by (unfold r, Rpower; apply exp_pos). split.
    + exact Hr.
    + unfold r. rewrite Rpower_inv_exp by lra.
      replace (exp V * ((lam - mu - e) * exp (- V))) with ((lam - mu - e) * (exp V * exp (- V))) by ring.
      rewrite <- exp_plus. replace (V + - V) with 0 by ring. rewrite exp_0. ring.
Qed.

(* ============================================================================================
   3. T18c: concavity -- the marginal utility is non-increasing on the domain *)

Lemma D_decreasing v scale price gamma alpha V mu eps x y :
  params_ok v price gamma alpha -> lo v price gamma < x -> x <= y ->
  D v scale price gamma alpha V mu y eps <= D v scale price gamma alpha V mu x eps.
Proof.
  intros (Hp & Hg & Ha) Hx Hxy.
  destruct v, gamma as [g|]; unfold D, lo, Rpower in *; cbv zeta; try specialize (Hg g eq_refl).
  all: set (p := pr_of price) in *; set (e := sc_eps scale eps) in *.
  all: try (assert (Hpg0 : 0 < p * g) by (apply Rmult_lt_0_compat; assumption)).
  all: try (assert (He := exp_pos (V + e))).
  all: try (assert (HeV := exp_pos V)).
  - unfold Rdiv. apply Rmult_le_compat_l; [nra|]. apply Rinv_le_contravar; lra.
  - unfold Rdiv. apply Rmult_le_compat_l; [lra|]. apply Rinv_le_contravar; lra.
  - apply exp_mono. assert (ln (x + g) <= ln (y + g)) by (apply ln_le; lra). nra.
  - apply exp_mono. assert (ln x <= ln y) by (apply ln_le; lra). nra.
  - apply div_mono; [exact Hp|]. apply Rmult_le_compat_l; [lra|].
    apply powexp_dec; [lra | apply dom_pg; assumption |].
    apply Rplus_le_compat_l. apply div_mono; assumption.
  - apply div_mono; [exact Hp|]. apply Rmult_le_compat_l; [lra|].
    apply powexp_dec; [lra | apply Rdiv_lt_0_compat; lra | apply div_mono; assumption].
  - do 2 apply Rplus_le_compat_r. apply Rmult_le_compat_l; [lra|].
    apply powexp_dec; [lra | apply dom_g; assumption |].
    apply Rplus_le_compat_l. apply div_mono; assumption.
  - do 2 apply Rplus_le_compat_r. apply Rmult_le_compat_l; [lra|].
    apply powexp_dec; [lra | exact Hx | exact Hxy].
Qed.

(* supporting line of a differentiable function with non-increasing derivative *)
Lemma concave_support (u du : R -> R) (l : R) :
  (forall x, l < x -> is_derive u x (du x)) ->
  (forall x y, l < x -> x <= y -> du y <= du x) ->
  forall x y, l < x -> l < y -> u y <= u x + du x * (y - x).
Proof.
  intros Hd Hm x y Hx Hy.
  assert (Hmin : l < Rmin x y) by (apply Rmin_glb_lt; assumption).
  destruct (MVT_gen u x y du) as (c & Hc & Heq).
  - intros z Hz. apply Hd. lra.
  - intros z Hz. apply continuity_pt_filterlim. apply (ex_derive_continuous u z).
    exists (du z). apply Hd. lra.
  - assert (Huy : u y = u x + du c * (y - x)) by lra.
    rewrite Huy. apply Rplus_le_compat_l.
    destruct (Rle_lt_dec x y) as [Hxy|Hxy].
    + rewrite Rmin_left, Rmax_right in Hc by lra. assert (du c <= du x) by (apply Hm; lra). nra.
    + rewrite Rmin_right, Rmax_left in Hc by lra. assert (du x <= du c) by (apply Hm; lra). nra.
Qed.

Lemma U_support v scale price gamma alpha V mu eps x y :
  params_ok v price gamma alpha -> lo v price gamma < x -> lo v price gamma < y ->
  U v scale price gamma alpha V mu y eps <=
  U v scale price gamma alpha V mu x eps + D v scale price gamma alpha V mu x eps * (y - x).
Proof.
  intros Hp Hx Hy.
  apply (concave_support (fun x => U v scale price gamma alpha V mu x eps)
                         (fun x => D v scale price gamma alpha V mu x eps) (lo v price gamma)); try assumption.
  - intros z Hz. apply U_is_derive; assumption.
  - intros a b Ha Hab. apply D_decreasing; assumption.
Qed.

(* ============================================================================================
   4. T18d: KKT sufficiency (with an eps version) over lists of concave goods *)

Lemma kkt_eps_bound gs : Forall supported gs -> forall eps lam xs ys, 0 <= eps ->
  feasible gs xs -> feasible gs ys -> kkt_eps eps lam gs xs ->
  total_u gs ys <= total_u gs xs + lam * (spend gs ys - spend gs xs) + eps * (spend gs ys + spend gs xs).
Proof.
  induction 1 as [|g gs Hg Hgs IH]; intros eps lam xs ys He Fx Fy K.
  - destruct xs, ys; simpl in *; try contradiction. lra.
  - destruct xs as [|x xs], ys as [|y ys]; simpl in *; try contradiction.
    destruct Fx as (Hx0 & Hxl & Fx), Fy as (Hy0 & Hyl & Fy), K as (Kle & Kge & K).
    specialize (IH eps lam xs ys He Fx Fy K).
    destruct Hg as (Hp & Hlo & Hsup). specialize (Hsup x y Hxl Hyl).
    set (d := cdu g x) in *. set (p := cp g) in *.
    assert (Hstep : d * (y - x) <= lam * (p * y - p * x) + eps * (p * y + p * x)).
    { destruct (Rle_lt_or_eq_dec 0 x Hx0) as [Hpos|Hz].
      - specialize (Kge Hpos). destruct (Rle_lt_dec x y).
        + assert (d * (y - x) <= (lam + eps) * p * (y - x)) by nra.
          assert (0 <= eps * p * x) by (apply Rmult_le_pos; [apply Rmult_le_pos|]; lra). nra.
        + assert (d * (y - x) <= (lam - eps) * p * (y - x)) by nra.
          assert (0 <= eps * p * y) by (apply Rmult_le_pos; [apply Rmult_le_pos|]; lra). nra.
      - subst x. assert (d * y <= (lam + eps) * p * y) by nra. nra. }
    lra.
Qed.

Theorem kkt_sufficient gs lam B xs ys :
  Forall supported gs -> feasible gs xs -> kkt_eps 0 lam gs xs -> spend gs xs = B ->
  feasible gs ys -> spend gs ys = B -> total_u gs ys <= total_u gs xs.
Proof.
  intros Hs Fx K Sx Fy Sy.
  pose proof (kkt_eps_bound gs Hs 0 lam xs ys (Rle_refl 0) Fx Fy K) as H.
  rewrite Sx, Sy in H. lra.
Qed.

Theorem kkt_eps_optimal gs eps lam delta B xs ys :
  Forall supported gs -> 0 <= eps -> feasible gs xs -> kkt_eps eps lam gs xs ->
  Rabs (spend gs xs - B) <= delta -> feasible gs ys -> spend gs ys = B ->
  total_u gs ys <= total_u gs xs + Rabs lam * delta + eps * (2 * B + delta).
Proof.
  intros Hs He Fx K Sx Fy Sy.
  pose proof (kkt_eps_bound gs Hs eps lam xs ys He Fx Fy K) as H. rewrite Sy in H.
  assert (Hd : 0 <= delta) by (pose proof (Rabs_pos (spend gs xs - B)); lra).
  assert (H1 : lam * (B - spend gs xs) <= Rabs lam * delta).
  { rewrite <- (Rabs_Ropp (spend gs xs - B)) in Sx. replace (- (spend gs xs - B)) with (B - spend gs xs) in Sx by ring.
    apply Rle_trans with (Rabs (lam * (B - spend gs xs))); [apply Rle_abs|].
    rewrite Rabs_mult. apply Rmult_le_compat_l; [apply Rabs_pos | exact Sx]. }
  assert (H2 : spend gs xs <= B + delta).
  { pose proof (Rle_abs (spend gs xs - B)). lra. }
  assert (eps * (B + spend gs xs) <= eps * (2 * B + delta)) by (apply Rmult_le_compat_l; lra).
  lra.
Qed.

(* the goods of the four variants are supported (prices are inside the utility: cp = 1) *)
Lemma lo_nonpos v price gamma alpha : params_ok v price gamma alpha -> lo v price gamma <= 0.
Proof.
  intros (Hp & Hg & _). unfold lo. destruct gamma as [g|]; [|lra]. specialize (Hg g eq_refl).
  destruct v; try nra.
Qed.

Lemma variant_supported v scale price gamma alpha V mu eps :
  params_ok v price gamma alpha -> supported (variant_good v scale price gamma alpha V mu eps).
Proof.
  intros H. unfold supported, variant_good; simpl. split; [lra|]. split; [eapply lo_nonpos; exact H|].
  intros x y Hx Hy. apply U_support; assumption.
Qed.

(* T18f (partial): the allocation "closed-form consumption at lam on the chosen set, zero elsewhere" is
   optimal as soon as it is non-negative, the unchosen goods have marginal utility at zero <= lam and the
   budget is met.  (That the greedy identification and the bisection find such a set and root is numerical:
   checked by the forecast stream only.) *)
Theorem root_allocation_optimal (l : list (vgood * bool)) lam B ys :
  Forall (root_ok lam) l ->
  let gs := map (fun ac => good_of (fst ac)) l in
  let xs := map (alloc lam) l in
  spend gs xs = B -> feasible gs ys -> spend gs ys = B ->
  total_u gs ys <= total_u gs xs.
Proof.
  intros Hok gs xs Sx Fy Sy.
  assert (Hs : Forall supported gs).
  { unfold gs. clear -Hok. induction Hok as [|[a c] l (Ha & _) _ IH]; simpl; constructor; [|exact IH].
    apply variant_supported. exact Ha. }
  assert (HF : feasible gs xs /\ kkt_eps 0 lam gs xs).
  { unfold gs, xs. clear -Hok. induction Hok as [|[a c] l H _ IH]; simpl; [tauto|].
    destruct IH as (IF & IK). destruct H as (Ha & H). simpl in Ha, H. unfold alloc; simpl.
    destruct c.
    - destruct H as (Hl & Hx0).
      destruct (Xopt_inverts _ (vg_scale a) _ _ _ (vg_V a) _ (vg_eps a) lam Ha Hl) as (Hlo & Hinv).
      fold (vg_X a lam) in Hlo, Hinv. unfold vg_X in *.
      repeat split; try assumption; rewrite Hinv; lra.
    - destruct H as (Hg & Hd). unfold vg_D in Hd.
      assert (Hlo : lo (vg_v a) (vg_price a) (vg_gamma a) < 0).
      { destruct Ha as (Hp & Hgp & _). unfold lo. destruct (vg_gamma a) as [g|]; [|contradiction].
        specialize (Hgp g eq_refl). destruct (vg_v a); nra. }
      repeat split; try assumption; try lra. }
  destruct HF as (Fx & K). eapply kkt_sufficient; eassumption.
Qed.

(* ============================================================================================
   5. T18e: the outside good is always consumed *)

Lemma Reqb_refl x : Reqb x x = true.
Proof. unfold Reqb. destruct (Req_EM_T x x); [reflexivity | contradiction]. Qed.

Lemma Reqb_neq x y : x <> y -> Reqb x y = false.
Proof. unfold Reqb. destruct (Req_EM_T x y); [contradiction | reflexivity]. Qed.

(* the code: at zero consumption the marginal utility of the outside good is np.inf: no finite dual
   variable can dominate it *)
Lemma gp_outside_good_inf scale price gamma alpha V mu eps lam :
  ~ res_le (gp_derivative true scale price gamma alpha V mu 0 eps) lam.
Proof. unfold gp_derivative. rewrite Reqb_refl. simpl. tauto. Qed.

(* the mathematics, four variants: the marginal utility of an outside good exceeds every finite dual
   variable near zero (so zero consumption never satisfies the KKT conditions) *)
Lemma outside_good_unbounded v scale price alpha V mu eps lam :
  params_ok v price None alpha ->
  exists delta, 0 < delta /\ forall x, 0 < x < delta -> lam < D v scale price None alpha V mu x eps.
Proof.
  intros (Hp & _ & Ha). unfold D; cbv zeta.
  set (p := pr_of price) in *; set (e := sc_eps scale eps).
  destruct v.
  - destruct (blowup (-1) (exp (V + e)) lam) as (d & Hd & H); [lra | apply exp_pos |].
    exists d. split; [exact Hd|]. intros x Hx. specialize (H x Hx).
    replace (-1 * ln x) with (- ln x) in H by ring. rewrite exp_Ropp, exp_ln in H by lra. exact H.
  - destruct (blowup (alpha - 1) (exp (V + e + ln alpha)) lam) as (d & Hd & H); [lra | apply exp_pos |].
    exists d. split; [exact Hd|]. intros x Hx. specialize (H x Hx).
    rewrite exp_plus. exact H.
  - destruct (blowup (alpha - 1) (exp (V + e) / p) lam) as (d & Hd & H);
      [lra | apply Rdiv_lt_0_compat; [apply exp_pos | exact Hp] |].
    exists (p * d). split; [apply Rmult_lt_0_compat; assumption|]. intros x Hx.
    assert (Hz : 0 < x / p < d).
    { split; [apply Rdiv_lt_0_compat; lra|].
      apply Rmult_lt_reg_r with p; [exact Hp|]. replace (x / p * p) with x by (field; lra). lra. }
    specialize (H _ Hz). unfold Rpower.
    replace (exp (V + e) * exp ((alpha - 1) * ln (x / p)) / p)
      with (exp (V + e) / p * exp ((alpha - 1) * ln (x / p))) by (field; lra).
    exact H.
  - destruct (blowup (alpha - 1) (exp V) (lam - mu - e)) as (d & Hd & H); [lra | apply exp_pos |].
    exists d. split; [exact Hd|]. intros x Hx. specialize (H x Hx). unfold Rpower. lra.
Qed.

(* ============================================================================================
   6. T18i: the rational checker is sound *)

Lemma Qle_bool_R a b : Qle_bool a b = true -> Q2R a <= Q2R b.
Proof. intros H. apply Qle_Rle. apply Qle_bool_iff. exact H. Qed.

Lemma spendQ_R gs l : matches gs l ->
  spend gs (map (fun t => Q2R (fst (fst t))) l) = Q2R (spendQ l).
Proof.
  revert gs. induction l as [|[[x d] p] l IH]; intros [|g gs] M; simpl in *; try contradiction.
  - unfold Q2R. simpl. lra.
  - destruct M as (_ & Hp & _ & _ & M). rewrite Q2R_plus, Q2R_mult, Hp, (IH gs M). reflexivity.
Qed.

Lemma kkt_checkQ_sound gs l B lam eps delta :
  kkt_checkQ l B lam eps delta = true -> matches gs l ->
  let xs := map (fun t => Q2R (fst (fst t))) l in
  0 <= Q2R eps /\
  feasible gs xs /\ kkt_eps (Q2R eps) (Q2R lam) gs xs /\ Rabs (spend gs xs - Q2R B) <= Q2R delta.
Proof.
  unfold kkt_checkQ. intros H M. apply andb_prop in H as (H0 & H). apply andb_prop in H as (H & H3). apply andb_prop in H as (H1 & H2).
  cbv zeta. split; [|split; [|split]].
  - apply Qle_bool_R in H0. unfold Q2R in H0 at 1. simpl in H0. lra.
  - clear H2 H3. revert gs M H1. induction l as [|[[x d] p] l IH]; intros [|g gs] M H; simpl in *; try contradiction; auto.
    apply andb_prop in H as (He & H). destruct M as (Hd & Hp & Hpos & Hzero & M).
    unfold entry_okQ in He. apply andb_prop in He as (He & _). apply andb_prop in He as (He & _).
    apply andb_prop in He as (Hx & _). apply Qle_bool_R in Hx. change (Q2R 0) with (Q2R (0 # 1)) in Hx.
    assert (Hx' : 0 <= Q2R x) by (unfold Q2R in Hx at 1; simpl in Hx; lra).
    split; [exact Hx'|]. split; [|apply IH; assumption].
    destruct (Rle_lt_or_eq_dec _ _ Hx') as [Hp'|Hz]; [apply Hpos; exact Hp' | rewrite <- Hz; apply Hzero; symmetry; exact Hz].
  - clear H2 H3. revert gs M H1. induction l as [|[[x d] p] l IH]; intros [|g gs] M H; simpl in *; try contradiction; auto.
    apply andb_prop in H as (He & H). destruct M as (Hd & Hp & Hpos & Hzero & M).
    unfold entry_okQ in He. apply andb_prop in He as (He & Hlow). apply andb_prop in He as (He & Hup).
    apply andb_prop in He as (Hx & Hpp).
    rewrite Hd, Hp. split; [|split; [|apply IH; assumption]].
    + apply Qle_bool_R in Hup. rewrite Q2R_mult, Q2R_plus in Hup. exact Hup.
    + intros Hxpos. apply orb_prop in Hlow as [Hl|Hl].
      * apply Qle_bool_R in Hl. unfold Q2R in Hl at 2. simpl in Hl. lra.
      * apply Qle_bool_R in Hl. rewrite Q2R_mult, Q2R_minus in Hl. exact Hl.
  - rewrite (spendQ_R gs l M). apply Qle_bool_R in H2, H3. rewrite Q2R_minus in H2, H3.
    apply Rabs_le. lra.
Qed.

Theorem kkt_check_eps_optimal gs l B lam eps delta ys :
  Forall supported gs -> matches gs l -> kkt_checkQ l B lam eps delta = true ->
  feasible gs ys -> spend gs ys = Q2R B ->
  total_u gs ys <= total_u gs (map (fun t => Q2R (fst (fst t))) l)
                   + Rabs (Q2R lam) * Q2R delta + Q2R eps * (2 * Q2R B + Q2R delta).
Proof.
  intros Hs M Hc Fy Sy.
  destruct (kkt_checkQ_sound gs l B lam eps delta Hc M) as (He & Fx & K & Sx).
  eapply kkt_eps_optimal; eassumption.
Qed.

(* ============================================================================================
   7. T18h: labels *)

Lemma index_of_map_inj f l k : injective_on f l -> In k l -> index_of (f k) (map f l) = index_of k l.
Proof.
  induction l as [|k' r IH]; intros Hinj Hin; simpl in *; [contradiction|].
  destruct (Z.eqb_spec k k') as [->|Hne].
  - rewrite Z.eqb_refl. reflexivity.
  - destruct (Z.eqb_spec (f k) (f k')) as [Heq|_].
    + exfalso. apply Hne. apply Hinj; simpl; auto.
    + assert (Hr : In k r) by (destruct Hin as [E|E]; [exfalso; apply Hne; symmetry; exact E | exact E]).
      rewrite IH; [reflexivity | | exact Hr].
      intros a b Ha Hb. apply Hinj; simpl; auto.
Qed.

Lemma keys_relabel f m : keys (relabel f m) = map f (keys m).
Proof. unfold keys, relabel. rewrite !map_map. reflexivity. Qed.

Lemma key_to_index_relabel f m k : injective_on f (keys m) -> In k (keys m) ->
  key_to_index (relabel f m) (f k) = key_to_index m k.
Proof. intros. unfold key_to_index. rewrite keys_relabel. apply index_of_map_inj; assumption. Qed.

Lemma find_relabel f m :
  find is_outside (relabel f m) = option_map (fun a => (f (fst a), snd a)) (find is_outside m).
Proof.
  induction m as [|a m IH]; simpl; [reflexivity|].
  unfold is_outside at 1 3; simpl. destruct (is_none (gp_gamma (snd a))); [reflexivity | exact IH].
Qed.

Lemma og_key_relabel f m : og_key (relabel f m) = option_map f (og_key m).
Proof. unfold og_key. rewrite find_relabel. destruct (find is_outside m); reflexivity. Qed.

Lemma og_key_in m k : og_key m = Some k -> In k (keys m).
Proof.
  unfold og_key. destruct (find is_outside m) as [a|] eqn:E; simpl; [|discriminate].
  intros [= <-]. apply find_some in E as (E & _). unfold keys. apply in_map. exact E.
Qed.

Lemma og_index_relabel f m : injective_on f (keys m) -> og_index (relabel f m) = og_index m.
Proof.
  intros Hinj. unfold og_index. rewrite og_key_relabel. destruct (og_key m) as [k|] eqn:E; simpl; [|reflexivity].
  apply key_to_index_relabel; [assumption | apply og_key_in; exact E].
Qed.

Lemma eqb_inj f l a b : injective_on f l -> In a l -> In b l -> (f a =? f b)%Z = (a =? b)%Z.
Proof.
  intros Hinj Ha Hb. destruct (Z.eqb_spec a b) as [->|Hne]; [apply Z.eqb_refl|].
  apply Z.eqb_neq. intro H. apply Hne. apply Hinj; assumption.
Qed.

Lemma og_test_key_relabel f m k : injective_on f (keys m) -> In k (keys m) ->
  og_test true (relabel f m) (f k) = og_test true m k.
Proof.
  intros Hinj Hin. unfold og_test. rewrite og_key_relabel. destruct (og_key m) as [k'|] eqn:E; simpl; [|reflexivity].
  apply (eqb_inj f (keys m)); [assumption | assumption | apply og_key_in; exact E].
Qed.

Lemma filter_map_comm {A B} (F : A -> B) (P : B -> bool) l :
  filter P (map F l) = map F (filter (fun a => P (F a)) l).
Proof. induction l as [|a l IH]; simpl; [reflexivity|]. destruct (P (F a)); simpl; rewrite IH; reflexivity. Qed.

(* the table of marginal utilities at zero commutes with any injective relabelling, provided the
   outside-good test does *)
Lemma w_table_relabel_gen bk deriv scale m eps f :
  injective_on f (keys m) ->
  (forall k g e, In (k, g) m ->
     deriv (og_test bk (relabel f m) (f k)) scale (gp_price g) (gp_gamma g) (gp_alpha g) (gp_V g) (gp_mu g) 0 e
     = deriv (og_test bk m k) scale (gp_price g) (gp_gamma g) (gp_alpha g) (gp_V g) (gp_mu g) 0 e) ->
  w_table bk deriv scale (relabel f m) eps = relabel_tab f (w_table bk deriv scale m eps).
Proof.
  intros Hinj Hd. unfold w_table, relabel_tab. rewrite og_key_relabel. unfold relabel at 2.
  rewrite filter_map_comm, !map_map.
  assert (Hf : forall a, In a m ->
            negb match option_map f (og_key m) with Some k' => (fst (f (fst a), snd a) =? k')%Z | None => false end
            = negb match og_key m with Some k' => (fst a =? k')%Z | None => false end).
  { intros a Ha. destruct (og_key m) as [k'|] eqn:E; simpl; [|reflexivity]. f_equal.
    apply (eqb_inj f (keys m)); [assumption | unfold keys; apply in_map; exact Ha | apply og_key_in; exact E]. }
  rewrite (filter_ext_in _ _ m Hf).
  apply map_ext_in. intros [k g] Hin. apply filter_In in Hin as (Hin & _).
  unfold w_entry; simpl.
  rewrite key_to_index_relabel; [|assumption | unfold keys; change k with (fst (k, g)); apply in_map; exact Hin].
  destruct (key_to_index m k); [|reflexivity].
  rewrite (Hd k g _ Hin). reflexivity.
Qed.

Theorem w_table_relabel_by_key deriv scale m eps f :
  injective_on f (keys m) ->
  w_table true deriv scale (relabel f m) eps = relabel_tab f (w_table true deriv scale m eps).
Proof.
  intros Hinj. apply w_table_relabel_gen; [assumption|]. intros k g e Hin.
  rewrite og_test_key_relabel; [reflexivity | assumption |].
  unfold keys. change k with (fst (k, g)). apply in_map. exact Hin.
Qed.

(* Translated, Generalized, NonMonotonic never look at the outside-good test *)
Theorem w_table_relabel_blind bk (deriv : deriv_fn) scale m eps f :
  (forall b b' s p g a V mu x e, deriv b s p g a V mu x e = deriv b' s p g a V mu x e) ->
  injective_on f (keys m) ->
  w_table bk deriv scale (relabel f m) eps = relabel_tab f (w_table bk deriv scale m eps).
Proof.
  intros Hb Hinj. apply w_table_relabel_gen; [assumption|]. intros k g e Hin. apply Hb.
Qed.

(* the consumption table of optimal_consumption commutes with relabelling of the chosen set *)
Lemma lookup_alt_relabel f m k : injective_on f (keys m) -> In k (keys m) ->
  lookup_alt (relabel f m) (f k) = lookup_alt m k.
Proof.
  intros Hinj Hin. unfold lookup_alt.
  assert (G : forall l, (forall a, In a l -> In (fst a) (keys m)) ->
            option_map snd (find (fun a => (fst a =? f k)%Z) (relabel f l))
            = option_map snd (find (fun a => (fst a =? k)%Z) l)).
  { induction l as [|a l IH]; intros Hl; simpl; [reflexivity|].
    rewrite (eqb_inj f (keys m)); [|assumption | apply Hl; simpl; auto | assumption].
    destruct (fst a =? k)%Z; [reflexivity|]. apply IH. intros b Hb. apply Hl. simpl; auto. }
  apply G. intros a Ha. unfold keys. apply in_map. exact Ha.
Qed.

Theorem consumption_table_relabel opt scale m eps lam chosen f :
  injective_on f (keys m) -> (forall k, In k chosen -> In k (keys m)) ->
  consumption_table opt scale (relabel f m) eps lam (map f chosen)
  = relabel_tab f (consumption_table opt scale m eps lam chosen).
Proof.
  intros Hinj Hch. unfold consumption_table, relabel_tab. rewrite !map_map.
  apply map_ext_in. intros k Hk. simpl.
  rewrite key_to_index_relabel, lookup_alt_relabel by (try assumption; apply Hch; exact Hk).
  reflexivity.
Qed.

(* ============================================================================================
   8. tie A: the generated definitions equal the closed forms on their domains *)

Ltac closed_form :=
  intros; cbv beta delta [gp_utility gp_derivative gp_optimal tr_utility tr_derivative tr_optimal
                          gn_utility gn_derivative gn_optimal nm_utility nm_derivative nm_optimal
                          U D Xopt sc_eps pr_of] zeta;
  repeat match goal with
         | |- context [match ?o with Some _ => _ | None => _ end] => is_var o; destruct o
         end;
  simpl; try reflexivity; try (f_equal; ring).

Lemma gp_utility_closed b scale price gamma alpha V mu x eps :
  (gamma = None -> isclose_b x 0 = false) ->
  gp_utility b scale price gamma alpha V mu x eps = Val (U VG scale price gamma alpha V mu x eps).
Proof.
  intros H. unfold gp_utility. destruct gamma as [g|]; simpl.
  - closed_form.
  - rewrite (H eq_refl). closed_form.
Qed.

Lemma gp_derivative_closed b scale price gamma alpha V mu x eps :
  (b = true -> x <> 0) ->
  gp_derivative b scale price gamma alpha V mu x eps = Val (D VG scale price gamma alpha V mu x eps).
Proof.
  intros H. unfold gp_derivative. destruct b; simpl.
  - rewrite Reqb_neq by (apply H; reflexivity). closed_form.
  - closed_form.
Qed.

Lemma gp_optimal_closed b scale price gamma alpha V mu lam eps :
  gp_optimal b scale price gamma alpha V mu lam eps = Val (Xopt VG scale price gamma alpha V mu lam eps).
Proof. closed_form. Qed.

Lemma tr_utility_closed b scale price gamma alpha V mu x eps :
  (gamma = None -> x <> 0) ->
  tr_utility b scale price gamma alpha V mu x eps = Val (U VT scale price gamma alpha V mu x eps).
Proof.
  intros H. unfold tr_utility. destruct gamma as [g|]; simpl.
  - closed_form.
  - rewrite Reqb_neq by (apply H; reflexivity). closed_form.
Qed.

Lemma tr_derivative_closed b scale price gamma alpha V mu x eps :
  (gamma = None -> x <> 0) ->
  tr_derivative b scale price gamma alpha V mu x eps = Val (D VT scale price gamma alpha V mu x eps).
Proof.
  intros H. unfold tr_derivative. destruct gamma as [g|]; simpl.
  - closed_form.
  - rewrite Reqb_neq by (apply H; reflexivity). closed_form.
Qed.

Lemma tr_optimal_closed b scale price gamma alpha V mu lam eps :
  isclose_b alpha 0 = false -> isclose_b alpha 1 = false -> lam <> 0 ->
  (ln lam - V - sc_eps scale eps - ln alpha) / (alpha - 1) <= MAX_EXP_ARGUMENT ->
  tr_optimal b scale price gamma alpha V mu lam eps = Val (Xopt VT scale price gamma alpha V mu lam eps).
Proof.
  intros H0 H1 Hl Hm. unfold tr_optimal. rewrite H0, H1, (Reqb_neq _ _ Hl). simpl.
  cbv zeta. fold (sc_eps scale eps). rewrite Rmin_left by exact Hm.
  unfold Xopt. cbv zeta. destruct gamma; reflexivity.
Qed.

Lemma gn_utility_closed b scale price gamma alpha V mu x eps :
  gn_utility b scale price gamma alpha V mu x eps = Val (U VZ scale price gamma alpha V mu x eps).
Proof. closed_form. Qed.
Lemma gn_derivative_closed b scale price gamma alpha V mu x eps :
  gn_derivative b scale price gamma alpha V mu x eps = Val (D VZ scale price gamma alpha V mu x eps).
Proof. closed_form. Qed.
Lemma gn_optimal_closed b scale price gamma alpha V mu lam eps :
  gn_optimal b scale price gamma alpha V mu lam eps = Val (Xopt VZ scale price gamma alpha V mu lam eps).
Proof. closed_form. Qed.
Lemma nm_utility_closed b scale price gamma alpha V mu x eps :
  nm_utility b scale price gamma alpha V mu x eps = Val (U VN scale price gamma alpha V mu x eps).
Proof. closed_form. Qed.
Lemma nm_derivative_closed b scale price gamma alpha V mu x eps :
  nm_derivative b scale price gamma alpha V mu x eps = Val (D VN scale price gamma alpha V mu x eps).
Proof. closed_form. Qed.
Lemma nm_optimal_closed b scale price gamma alpha V mu lam eps :
  nm_optimal b scale price gamma alpha V mu lam eps = Val (Xopt VN scale price gamma alpha V mu lam eps).
Proof. closed_form. Qed.

(* packaged: on the admissible domain the twelve translated functions are the closed forms *)
Definition code_u (v : variant) := match v with VG => gp_utility | VT => tr_utility | VZ => gn_utility | VN => nm_utility end.
Definition code_d (v : variant) := match v with VG => gp_derivative | VT => tr_derivative | VZ => gn_derivative | VN => nm_derivative end.
Definition code_x (v : variant) := match v with VG => gp_optimal | VT => tr_optimal | VZ => gn_optimal | VN => nm_optimal end.

(* the guards of the code that restrict the domain further than x > lo (they fire at / next to zero
   consumption of the outside good, or when the outside-good test holds at zero) *)
Definition guards_u (v : variant) (gamma : option R) (x : R) : Prop :=
  match v with VG => gamma = None -> isclose_b x 0 = false | _ => True end.
Definition guards_x (v : variant) (scale : option R) (alpha V lam eps : R) : Prop :=
  match v with
  | VT => isclose_b alpha 0 = false /\ isclose_b alpha 1 = false /\
          (ln lam - V - sc_eps scale eps - ln alpha) / (alpha - 1) <= MAX_EXP_ARGUMENT
  | _ => True
  end.

Theorem code_is_closed_form v b scale price gamma alpha V mu x eps :
  lo v price gamma < x -> params_ok v price gamma alpha -> guards_u v gamma x ->
  (b = true -> x <> 0) ->
  code_u v b scale price gamma alpha V mu x eps = Val (U v scale price gamma alpha V mu x eps) /\
  code_d v b scale price gamma alpha V mu x eps = Val (D v scale price gamma alpha V mu x eps).
Proof.
  intros Hx Hp Hg Hb.
  assert (Hnz : gamma = None -> x <> 0) by (intros ->; unfold lo in Hx; lra).
  destruct v; simpl in *.
  - split; [apply gp_utility_closed; exact Hg | apply gp_derivative_closed; exact Hb].
  - split; [apply tr_utility_closed | apply tr_derivative_closed]; exact Hnz.
  - split; [apply gn_utility_closed | apply gn_derivative_closed].
  - split; [apply nm_utility_closed | apply nm_derivative_closed].
Qed.

Theorem code_optimal_is_closed_form v b scale price gamma alpha V mu lam eps :
  lam_ok v scale mu eps lam -> guards_x v scale alpha V lam eps ->
  code_x v b scale price gamma alpha V mu lam eps = Val (Xopt v scale price gamma alpha V mu lam eps).
Proof.
  intros Hl Hg. destruct v; simpl in *.
  - apply gp_optimal_closed.
  - destruct Hg as (H0 & H1 & Hm). apply tr_optimal_closed; try assumption. lra.
  - apply gn_optimal_closed.
  - apply nm_optimal_closed.
Qed.

(* T18a/b/c restated about the code *)
Theorem code_derivative_is_derivative v scale price gamma alpha V mu eps x :
  params_ok v price gamma alpha -> lo v price gamma < x ->
  exists d, code_d v false scale price gamma alpha V mu x eps = Val d /\
            is_derive (fun x => U v scale price gamma alpha V mu x eps) x d.
Proof.
  intros Hp Hx. exists (D v scale price gamma alpha V mu x eps). split; [|apply U_is_derive; assumption].
  assert (Hnz : gamma = None -> x <> 0) by (intros ->; unfold lo in Hx; lra).
  destruct v; simpl.
  - apply gp_derivative_closed. discriminate.
  - apply tr_derivative_closed; exact Hnz.
  - apply gn_derivative_closed.
  - apply nm_derivative_closed.
Qed.

Theorem code_optimal_inverts_derivative v scale price gamma alpha V mu eps lam :
  params_ok v price gamma alpha -> lam_ok v scale mu eps lam -> guards_x v scale alpha V lam eps ->
  exists x, code_x v false scale price gamma alpha V mu lam eps = Val x /\ lo v price gamma < x /\
            code_d v false scale price gamma alpha V mu x eps = Val lam.
Proof.
  intros Hp Hl Hg. exists (Xopt v scale price gamma alpha V mu lam eps).
  destruct (Xopt_inverts v scale price gamma alpha V mu eps lam Hp Hl) as (Hlo & Hinv).
  split; [apply code_optimal_is_closed_form; assumption|]. split; [exact Hlo|].
  destruct (code_derivative_is_derivative v scale price gamma alpha V mu eps _ Hp Hlo) as (d & Hd & _).
  rewrite <- Hinv at 2.
  assert (Hnz : gamma = None -> Xopt v scale price gamma alpha V mu lam eps <> 0)
    by (intros ->; unfold lo in Hlo; lra).
  destruct v; simpl.
  - apply gp_derivative_closed. discriminate.
  - apply tr_derivative_closed; exact Hnz.
  - apply gn_derivative_closed.
  - apply nm_derivative_closed.
Qed.

(* blindness of three variants to the outside-good test *)
Lemma tr_derivative_blind b b' s p g a V mu x e : tr_derivative b s p g a V mu x e = tr_derivative b' s p g a V mu x e.
Proof. reflexivity. Qed.
Lemma gn_derivative_blind b b' s p g a V mu x e : gn_derivative b s p g a V mu x e = gn_derivative b' s p g a V mu x e.
Proof. reflexivity. Qed.
Lemma nm_derivative_blind b b' s p g a V mu x e : nm_derivative b s p g a V mu x e = nm_derivative b' s p g a V mu x e.
Proof. reflexivity. Qed.

Theorem labels_irrelevant_TZN v scale m eps f : v <> VG -> injective_on f (keys m) ->
  w_table gp_og_test_by_key (code_d v) scale (relabel f m) eps
  = relabel_tab f (w_table gp_og_test_by_key (code_d v) scale m eps).
Proof.
  intros Hv Hinj. apply w_table_relabel_blind; [|exact Hinj].
  destruct v; [contradiction | exact tr_derivative_blind | exact gn_derivative_blind | exact nm_derivative_blind].
Qed.

Theorem labels_irrelevant_G scale m eps f : gp_og_test_by_key = true -> injective_on f (keys m) ->
  w_table gp_og_test_by_key gp_derivative scale (relabel f m) eps
  = relabel_tab f (w_table gp_og_test_by_key gp_derivative scale m eps).
Proof. intros -> Hinj. apply w_table_relabel_by_key. exact Hinj. Qed.

(* the source read on this run compares labels (repaired by /repo 51eacb0); reverting that repair makes
   this lemma -- hence T18h_labels_irrelevant -- fail *)
Lemma gp_og_test_is_by_key : gp_og_test_by_key = true.
Proof. reflexivity. Qed.

Theorem labels_irrelevant v scale m eps f : injective_on f (keys m) ->
  w_table gp_og_test_by_key (code_d v) scale (relabel f m) eps
  = relabel_tab f (w_table gp_og_test_by_key (code_d v) scale m eps).
Proof.
  intros Hinj. destruct v.
  - apply labels_irrelevant_G; [exact gp_og_test_is_by_key | exact Hinj].
  - apply labels_irrelevant_TZN; [discriminate | exact Hinj].
  - apply labels_irrelevant_TZN; [discriminate | exact Hinj].
  - apply labels_irrelevant_TZN; [discriminate | exact Hinj].
Qed.

(* the position/label confusion: labels 1,2,3 with the outside good labelled 2 (position 1) versus the
   same model relabelled 11,12,13 *)
Definition confusion_model : lmodel :=
  [(1%Z, mkGP None (Some 1) 0 0 0); (2%Z, mkGP None None 0 0 0); (3%Z, mkGP None (Some 1) 0 0 0)].

Theorem label_position_confusion_refuted : gp_og_test_by_key = false ->
  injective_on (Z.add 10) (keys confusion_model) /\ NoDup (keys confusion_model) /\
  w_table gp_og_test_by_key gp_derivative None (relabel (Z.add 10) confusion_model) [0; 0; 0]
  <> relabel_tab (Z.add 10) (w_table gp_og_test_by_key gp_derivative None confusion_model [0; 0; 0]).
Proof.
  intros ->. split; [|split].
  - intros a b _ _ H. lia.
  - simpl. repeat constructor; simpl; intuition lia.
  - unfold w_table, relabel_tab, confusion_model, relabel, og_key, og_test, og_index, og_key, key_to_index, keys.
    simpl. unfold gp_derivative at 1 3. simpl. rewrite Reqb_refl. simpl. intro H. discriminate H.
Qed.

(* ============================================================================================
   9. T18g: the symbolic utility built by utility_expression_one_alternative evaluates to the closed
      form that the numeric utility computes *)

Section Symbolic.
  Variable Phi : R -> R.

  Lemma Rnz_true r : r <> 0 -> Rnz r = true.
  Proof. unfold Rnz. destruct (Req_EM_T r 0); [contradiction | reflexivity]. Qed.
  Lemma Rltb'_true a b : a < b -> Rltb' a b = true.
  Proof. unfold Rltb'. destruct (Rlt_dec a b); [reflexivity | contradiction]. Qed.
  Lemma D2R_one : D2R (1%Z, 0%Z) = 1.
  Proof. unfold D2R; simpl. lra. Qed.

  Lemma ev_bin op a b en : evalX Phi (EBin op a b) en = xbin op (evalX Phi a en) (evalX Phi b en).
  Proof. reflexivity. Qed.
  Lemma ev_exp a en : evalX Phi (EUn Exp a) en = xun Phi Exp (evalX Phi a en).
  Proof. reflexivity. Qed.
  Lemma ev_log a en : evalX Phi (EUn Log a) en = xun Phi Log (evalX Phi a en).
  Proof. reflexivity. Qed.
  Lemma ev_powc a c en : evalX Phi (EPowC a c) en = xpowc c (evalX Phi a en).
  Proof. reflexivity. Qed.
  Lemma ev_num d en : evalX Phi (Node (HNum d) []) en = XR (D2R d).
  Proof. reflexivity. Qed.
  Lemma ev_numz1 en : evalX Phi (ENumZ 1) en = XR 1.
  Proof. unfold ENumZ. rewrite ev_num, D2R_one. reflexivity. Qed.

  Lemma xdiv a b : b <> 0 -> xbin Divide (XR a) (XR b) = XR (a / b).
  Proof. intros H. simpl. rewrite Rnz_true by exact H. reflexivity. Qed.
  Lemma xlog a : 0 < a -> xun Phi Log (XR a) = XR (ln a).
  Proof. intros H. simpl. rewrite Rltb'_true by exact H. reflexivity. Qed.
  Lemma xpow a b : 0 < a -> xbin Power (XR a) (XR b) = XR (Rpower a b).
  Proof. intros H. simpl. rewrite Rltb'_true by exact H. reflexivity. Qed.
  Lemma xpowc_frac d a : dyadic_is_int d = None -> 0 < a -> xpowc d (XR a) = XR (Rpower a (D2R d)).
  Proof. intros Hd H. unfold xpowc. rewrite Hd, Rltb'_true by exact H. reflexivity. Qed.
  Lemma xplus a b : xbin Plus (XR a) (XR b) = XR (a + b). Proof. reflexivity. Qed.
  Lemma xminus a b : xbin Minus (XR a) (XR b) = XR (a - b). Proof. reflexivity. Qed.
  Lemma xtimes a b : xbin Times (XR a) (XR b) = XR (a * b). Proof. reflexivity. Qed.
  Lemma xexp a : xun Phi Exp (XR a) = XR (exp a). Proof. reflexivity. Qed.

  Ltac side :=
    first [ assumption | lra | apply Rgt_not_eq; assumption | apply Rgt_not_eq; lra
          | apply Rmult_integral_contrapositive_currified; lra ].

  Ltac crunch :=
    repeat first
      [ rewrite xplus | rewrite xminus | rewrite xtimes | rewrite xexp
      | rewrite xdiv by side | rewrite xlog by side | rewrite xpow by side
      | rewrite xpowc_frac by side ].

  Lemma uexpr_value v en Vx Mx scale_e price_e gamma_e alpha_e xe epsu vV vM scale price gamma alpha x eps :
    evalX Phi Vx en = XR vV -> evalX Phi Mx en = XR vM ->
    opt_val Phi en scale_e scale -> (forall s, scale = Some s -> s <> 0) ->
    opt_val Phi en price_e price -> opt_val Phi en gamma_e gamma ->
    alpha_val Phi en alpha_e alpha -> (v <> VG -> alpha_e <> ANone) ->
    evalX Phi xe en = XR x -> evalX Phi epsu en = XR eps ->
    params_ok v price gamma alpha -> lo v price gamma < x ->
    evalX Phi (uexpr v Vx Mx scale_e price_e gamma_e alpha_e xe epsu) en
    = XR (U v scale price gamma alpha vV vM x eps).
  Proof.
    intros HV HM Hs Hs0 Hp Hg Ha Han Hx He (Hpp & Hgp & Hap) Hlo.
    destruct gamma_e as [ge|], gamma as [g|]; simpl in Hg; try contradiction;
      try specialize (Hgp g eq_refl).
    all: destruct scale_e as [se|], scale as [s|]; simpl in Hs; try contradiction;
      try (assert (Hsn : s <> 0) by (apply Hs0; reflexivity)).
    all: destruct price_e as [pe|], price as [p|]; simpl in Hp; try contradiction.
    all: unfold lo, pr_of in *.
    all: destruct v; try (destruct alpha_e as [|d|ae]; [exfalso; apply Han; [discriminate | reflexivity] | |];
                          simpl in Ha; try destruct Ha as (Had & Hai)).
    all: unfold uexpr, U, epow, a_expr, sc_eps, pr_of; cbv zeta.
    all: repeat first [rewrite ev_bin | rewrite ev_exp | rewrite ev_log | rewrite ev_powc | rewrite ev_numz1
                      | rewrite ev_num].
    all: rewrite ?HV, ?HM, ?Hs, ?Hp, ?Hg, ?Ha, ?Hx, ?He.
    all: try (assert (Hpg0 : 0 < p * g) by (apply Rmult_lt_0_compat; assumption)).
    all: try (assert (Hpg : 0 < 1 + x / (p * g)) by (apply dom_pg; assumption)).
    all: try (assert (H1g0 : 0 < 1 * g) by lra).
    all: try (assert (H1g : 0 < 1 + x / (1 * g)) by (apply dom_pg; lra)).
    all: try (assert (Hg1 : 0 < 1 + x / g) by (apply dom_g; lra)).
    all: try (assert (Hxp : 0 < x / p) by (apply Rdiv_lt_0_compat; lra)).
    all: try (assert (Hx1 : 0 < x / 1) by (apply Rdiv_lt_0_compat; lra)).
    all: try (assert (Hd0 : D2R d <> 0) by (rewrite Had; lra)).
    all: crunch.
    all: try rewrite Had.
    all: try reflexivity.
  Qed.
End Symbolic.

(* ============================================================================================
   10. T18j: lower_bound_dual_variable (translated on this run) is EXACTLY the infimum of the admissible dual
       variables of the chosen set: a dual variable is above the bound iff the closed-form consumption of every
       chosen alternative is defined at it.  A bound that is too high would cut optimal (e.g. negative) dual
       variables of NonMonotonic out of the bisection bracket; a bound that is too low would let the bisection
       evaluate the closed form outside its domain. *)
Definition code_lb (v : variant) := match v with VG => gp_lower_bound | VT => tr_lower_bound | VZ => gn_lower_bound | VN => nm_lower_bound end.

Lemma nm_fold_bound scale l b lam :
  Rbar_lt (fold_left (fun (lower_bound : Rbar) (me : R * R) =>
     let eps_s := match scale with Some s => snd me / s | None => snd me end in
     let mu_utility := fst me + eps_s in
     if Rbar_lt_dec lower_bound (Finite mu_utility) then Finite mu_utility else lower_bound) l b) (Finite lam)
  <-> Rbar_lt b (Finite lam) /\ Forall (fun me => fst me + sc_eps scale (snd me) < lam) l.
Proof.
  revert b. induction l as [|me l IH]; intros b; simpl.
  - split; [intros H; split; [exact H | constructor] | tauto].
  - rewrite IH. fold (sc_eps scale (snd me)). set (m := fst me + sc_eps scale (snd me)).
    destruct (Rbar_lt_dec b (Finite m)) as [Hlt|Hge].
    + split.
      * intros (Hm & Hl). simpl in Hm. split; [|constructor; assumption].
        eapply Rbar_lt_trans; [exact Hlt | exact Hm].
      * intros (Hb & Hl). inversion Hl; subst. split; [simpl; assumption | assumption].
    + split.
      * intros (Hb & Hl). split; [exact Hb|]. constructor; [|exact Hl].
        apply Rbar_not_lt_le in Hge. destruct b as [b| |]; simpl in *; try contradiction. fold m. lra.
      * intros (Hb & Hl). inversion Hl; subst. split; assumption.
Qed.

Theorem lower_bound_exact v scale l lam :
  Rbar_lt (code_lb v scale l) (Finite lam)
  <-> (v <> VN -> 0 < lam) /\ Forall (fun me => lam_ok v scale (fst me) (snd me) lam) l.
Proof.
  destruct v; simpl.
  1-3: (split; [intros H; split; [intros _; exact H | apply Forall_forall; intros; exact H]
               | intros (H & _); apply H; discriminate]).
  unfold nm_lower_bound. rewrite nm_fold_bound. simpl. split; [intros (_ & H) | intros (_ & H)]; split; try exact H; try exact I.
  intros C; contradiction C; reflexivity.
Qed.
