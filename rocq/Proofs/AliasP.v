(* C20 -- lemmas about the model of deprecated aliases (Model/Alias.v) and about the tables
   regenerated from /repo on every run (Gen/AliasTable.v).

   Part 1: reflection -- what each boolean statement means in Prop, for arbitrary tables.
   Part 2: the wrappers -- general theorems about the interpreter of `deprecated`'s wrapper
           and about the keyword-renaming loop of `deprecated_parameters` (induction).
   Part 3: the generated tables -- each boolean statement holds (vm_compute; the bound
           "all aliases / classes / keyword maps present in the extracted table" is in the
           statement through [In _ aliases] etc.). *)
From Coq Require Import ZArith List String Ascii Bool Lia.
From BV Require Import Model.Alias Gen.AliasTable.
Import ListNotations.
Open Scope string_scope.

(* ------------------------------------------------------------ 1. reflection *)
Lemma forallb_In {A} (f : A -> bool) (l : list A) :
  forallb f l = true -> forall x, In x l -> f x = true.
Proof. intros H x Hx. rewrite forallb_forall in H. auto. Qed.

Lemma mem_In x l : mem x l = true <-> In x l.
Proof.
  unfold mem. rewrite existsb_exists. split.
  - intros (y & Hy & E). apply String.eqb_eq in E. subst. exact Hy.
  - intros H. exists x. split; [exact H|apply String.eqb_refl].
Qed.

Lemma nodupb_NoDup l : nodupb l = true -> NoDup l.
Proof.
  induction l as [|x r IH]; simpl; intros H; [constructor|].
  apply andb_true_iff in H. destruct H as [H1 H2]. constructor; [|auto].
  intros Hin. apply mem_In in Hin. rewrite Hin in H1. discriminate.
Qed.

Lemma pkind_eqb_eq a b : pkind_eqb a b = true -> a = b.
Proof. destruct a, b; simpl; congruence. Qed.
Lemma fkind_eqb_eq a b : fkind_eqb a b = true -> a = b.
Proof. destruct a, b; simpl; congruence. Qed.
Lemma ostr_eqb_eq a b : ostr_eqb a b = true -> a = b.
Proof.
  destruct a, b; simpl; try congruence. intros H. apply String.eqb_eq in H. congruence.
Qed.
Lemma fid_eqb_eq a b : fid_eqb a b = true -> a = b.
Proof.
  destruct a, b; unfold fid_eqb; simpl. intros H.
  repeat (apply andb_true_iff in H; destruct H as [H ?]).
  apply String.eqb_eq in H. apply String.eqb_eq in H2. apply String.eqb_eq in H1. apply Z.eqb_eq in H0.
  congruence.
Qed.
Lemma ofid_eqb_eq a b : ofid_eqb a b = true -> a = b.
Proof.
  destruct a, b; simpl; try congruence. intros H. apply fid_eqb_eq in H. congruence.
Qed.

Lemma forall2b_Forall2 {A B} (f : A -> B -> bool) (P : A -> B -> Prop) :
  (forall x y, f x y = true -> P x y) ->
  forall l m, forall2b f l m = true -> Forall2 P l m.
Proof.
  intros HP. induction l as [|x l IH]; destruct m as [|y m]; simpl; intros H; try discriminate.
  - constructor.
  - apply andb_true_iff in H. destruct H. constructor; auto.
Qed.

Lemma In_enum_from {A} (l : list A) : forall k i a,
  nth_error l i = Some a -> In ((k + i)%nat, a) (enum_from k l).
Proof.
  induction l as [|x r IH]; intros k i a H; destruct i; simpl in *; try discriminate.
  - injection H as ->. left. f_equal. lia.
  - right. replace (k + S i)%nat with (S k + i)%nat by lia. apply IH. exact H.
Qed.

(* T20a in Prop *)
Definition params_agree (kw : list (string * option string)) (o n : param) : Prop :=
  (p_name o = p_name n \/ assoc (p_name o) kw = Some (Some (p_name n))) /\
  p_kind o = p_kind n /\ p_default o = p_default n.

Lemma param_agree_sound kw o n : param_agree kw o n = true -> params_agree kw o n.
Proof.
  unfold param_agree, params_agree. intros H.
  apply andb_true_iff in H. destruct H as [H Hd].
  apply andb_true_iff in H. destruct H as [Hn Hk].
  split; [|split; [apply pkind_eqb_eq; exact Hk|apply ostr_eqb_eq; exact Hd]].
  apply orb_true_iff in Hn. destruct Hn as [Hn|Hn].
  - left. apply String.eqb_eq. exact Hn.
  - right. apply ostr_eqb_eq in Hn. destruct (assoc (p_name o) kw) as [x|]; [|discriminate].
    rewrite Hn. reflexivity.
Qed.

(* what an exception entry allows: the parameter lists agree after the listed, reviewed
   adjustment (one parameter renamed in the replacement / trailing defaulted parameters added
   to the replacement) *)
Definition params_agree_modulo (a : alias) (e : pexc) : Prop :=
  match e with
  | RenamedAt i o n =>
      Forall2 (params_agree (a_captured_kwmap a)) (rename_at i o n (a_old_params a)) (a_new_params a)
  | NewExtraDefaulted names =>
      Forall2 (params_agree (a_captured_kwmap a)) (a_old_params a)
              (rev (strip_trailing names (rev (a_new_params a))))
  end.

Lemma same_parameters_sound (T : tables) :
  same_parameters_b T = true ->
  forall a, In a (t_aliases T) ->
    Forall2 (params_agree (a_captured_kwmap a)) (a_old_params a) (a_new_params a) \/
    exists e, In (a_mod a, a_owner a, a_old a, e) param_exceptions_reviewed /\ params_agree_modulo a e.
Proof.
  intros H a Ha. apply (forallb_In _ _ H) in Ha. unfold same_parameters_alias in Ha.
  apply orb_true_iff in Ha. destruct Ha as [Ha|Ha].
  - left. eapply forall2b_Forall2; [apply param_agree_sound|exact Ha].
  - right. apply existsb_exists in Ha. destruct Ha as ([[[m o] n] e] & Hin & Hk).
    apply andb_true_iff in Hk. destruct Hk as [Hk He].
    unfold alias_key_eqb in Hk. apply andb_true_iff in Hk. destruct Hk as [Hk Hn].
    apply andb_true_iff in Hk. destruct Hk as [Hm Ho].
    apply String.eqb_eq in Hm, Ho, Hn. subst. exists e. split; [exact Hin|].
    destruct e; simpl in *; (eapply forall2b_Forall2; [apply param_agree_sound|exact He]).
Qed.

(* T20b in Prop *)
Lemma receiver_independent_sound (prog : list wstmt) (T : tables) :
  receiver_independent_b prog T = true ->
  forall c, In c (t_classes T) ->
  forall i a, nth_error (t_aliases T) i = Some a ->
    exposes T c i = true ->
    (a_kind a = Instance \/ f_owner (a_captured a) <> "") ->
    exists f, resolve_fn (t_classes T) c (a_new a) = Some f /\
              reach fuel_reach prog T c (a_old a) = Some f.
Proof.
  intros H c Hc i a Hi Hex Hk.
  apply (forallb_In _ _ H) in Hc. cbv zeta in Hc.
  pose proof (In_enum_from (t_aliases T) 0 i a Hi) as Hin. simpl in Hin.
  apply (forallb_In _ _ Hc) in Hin. unfold receiver_ok_d in Hin.
  unfold exposes in Hex. rewrite Hi in Hex. rewrite Hex in Hin. simpl in Hin.
  assert (Hv : isSome (resolve_fn_d (mro_dicts (t_classes T) c) (a_new a)) &&
               ofid_eqb (reach_d fuel_reach prog (t_aliases T) (mro_dicts (t_classes T) c) (a_old a))
                        (resolve_fn_d (mro_dicts (t_classes T) c) (a_new a)) = true).
  { destruct Hk as [Hk|Hk].
    - rewrite Hk in Hin. exact Hin.
    - destruct (a_kind a); try exact Hin;
        (destruct (String.eqb (f_owner (a_captured a)) "") eqn:E;
         [apply String.eqb_eq in E; contradiction|exact Hin]). }
  apply andb_true_iff in Hv. destruct Hv as [Hs He].
  unfold resolve_fn, reach.
  destruct (resolve_fn_d (mro_dicts (t_classes T) c) (a_new a)) as [f|]; [|discriminate].
  exists f. split; [reflexivity|]. apply ofid_eqb_eq in He. exact He.
Qed.

Lemma receiver_free_sound (prog : list wstmt) (T : tables) :
  receiver_independent_b prog T = true ->
  forall c, In c (t_classes T) ->
  forall i a, nth_error (t_aliases T) i = Some a ->
    exposes T c i = true ->
    a_kind a <> Instance -> f_owner (a_captured a) = "" ->
    exists f, a_final a = Some f /\ reach fuel_reach prog T c (a_old a) = Some f.
Proof.
  intros H c Hc i a Hi Hex Hk Ho.
  apply (forallb_In _ _ H) in Hc. cbv zeta in Hc.
  pose proof (In_enum_from (t_aliases T) 0 i a Hi) as Hin. simpl in Hin.
  apply (forallb_In _ _ Hc) in Hin. unfold receiver_ok_d in Hin.
  unfold exposes in Hex. rewrite Hi in Hex. rewrite Hex in Hin. simpl in Hin.
  rewrite Ho in Hin. simpl in Hin.
  assert (Hv : isSome (a_final a) &&
               ofid_eqb (reach_d fuel_reach prog (t_aliases T) (mro_dicts (t_classes T) c) (a_old a)) (a_final a) = true).
  { destruct (a_kind a); try exact Hin. contradiction Hk. reflexivity. }
  apply andb_true_iff in Hv. destruct Hv as [Hs He].
  destruct (a_final a) as [f|]; [|discriminate].
  exists f. split; [reflexivity|]. apply ofid_eqb_eq in He. exact He.
Qed.

(* module-level aliases *)
Lemma module_aliases_sound (prog : list wstmt) (T : tables) :
  module_aliases_b prog T = true ->
  forall a, In a (t_aliases T) -> a_kind a = ModuleLevel ->
    a_final a = Some (a_captured a) /\
    forall args_nonempty, exists ev,
      run_wrapper prog {| has_args := args_nonempty; owned := false |} = (ev, OForward CallCaptured).
Proof.
  intros H a Ha Hk. apply (forallb_In _ _ H) in Ha. unfold module_alias_ok in Ha. rewrite Hk in Ha.
  apply andb_true_iff in Ha. destruct Ha as [Hs Ha].
  destruct (run_wrapper prog {| has_args := true; owned := false |}) as [ev1 o1] eqn:E1.
  destruct (run_wrapper prog {| has_args := false; owned := false |}) as [ev2 o2] eqn:E2.
  destruct o1 as [[|]| |]; try discriminate. destruct o2 as [[|]| |]; try discriminate.
  apply ofid_eqb_eq in Ha. split; [symmetry; exact Ha|].
  intros [|]; eexists; eassumption.
Qed.

(* T20c in Prop *)
Lemma replacement_matches_name_sound (T : tables) :
  replacement_matches_name_b T = true ->
  forall a, In a (t_aliases T) ->
    (normalise (a_old a) = normalise (a_new a) \/
     In (a_mod a, a_owner a, a_old a, a_new a) renamed_reviewed) /\
    (forall x, a_doc_same_as a = Some x -> x = a_new a) /\
    a_new a = f_name (a_captured a).
Proof.
  intros H a Ha. apply (forallb_In _ _ H) in Ha.
  apply andb_true_iff in Ha. destruct Ha as [Ha Hw].
  apply andb_true_iff in Ha. destruct Ha as [Hn Hd].
  split; [|split].
  - unfold name_matches in Hn. apply orb_true_iff in Hn. destruct Hn as [Hn|Hn].
    + left. apply String.eqb_eq. exact Hn.
    + right. apply existsb_exists in Hn. destruct Hn as ([[[m o] n] nw] & Hin & Hk).
      apply andb_true_iff in Hk. destruct Hk as [Hk Hnw].
      unfold alias_key_eqb in Hk. apply andb_true_iff in Hk. destruct Hk as [Hk Hn].
      apply andb_true_iff in Hk. destruct Hk as [Hm Ho].
      apply String.eqb_eq in Hm, Ho, Hn, Hnw. subst. exact Hin.
  - intros x Hx. unfold doc_matches in Hd. rewrite Hx in Hd. apply String.eqb_eq. exact Hd.
  - apply String.eqb_eq. exact Hw.
Qed.

(* T20d in Prop *)
Lemma In_somes {A} (x : A) l : In (Some x) l -> In x (somes l).
Proof.
  induction l as [|[y|] r IH]; simpl; intros H; auto.
  - destruct H as [H|H]; [left; congruence|right; auto].
  - destruct H as [H|H]; [discriminate|auto].
Qed.

Lemma keyword_map_wellformed_sound (T : tables) :
  keyword_map_wellformed_b T = true ->
  forall k, In k (t_kwuses T) ->
    (forall o n, In (o, Some n) (k_map k) ->
       In n (named_params (k_params k)) \/ (has_varkw (k_params k) = true /\ In n (k_extra k))) /\
    NoDup (somes (map snd (k_map k))) /\
    NoDup (map fst (k_map k)) /\
    (forall o, In o (map fst (k_map k)) -> ~ In o (map p_name (k_params k))) /\
    (forall o, In o (map fst (k_map k)) -> ~ In o (somes (map snd (k_map k)))).
Proof.
  intros H k Hk. apply (forallb_In _ _ H) in Hk. unfold kwuse_ok in Hk.
  repeat (apply andb_true_iff in Hk; destruct Hk as [Hk ?]).
  split; [|split; [|split; [|split]]].
  - intros o n Hin.
    assert (Hn : In n (somes (map snd (k_map k)))).
    { apply In_somes. apply in_map_iff. exists (o, Some n). split; [reflexivity|exact Hin]. }
    apply (forallb_In _ _ Hk) in Hn. apply orb_true_iff in Hn. destruct Hn as [Hn|Hn].
    + left. apply mem_In. exact Hn.
    + right. apply andb_true_iff in Hn. destruct Hn as [Hv Hn]. split; [exact Hv|apply mem_In; exact Hn].
  - apply nodupb_NoDup. assumption.
  - apply nodupb_NoDup. assumption.
  - intros o Ho Hin. apply (forallb_In _ _ H1) in Ho. apply mem_In in Hin. rewrite Hin in Ho. discriminate.
  - intros o Ho Hin. apply (forallb_In _ _ H0) in Ho. apply mem_In in Hin. rewrite Hin in Ho. discriminate.
Qed.

Lemma mro_table_sound (T : tables) :
  mro_table_b T = true ->
  NoDup (map c_name (t_classes T)) /\
  forall c, In c (t_classes T) ->
    c3 (S (List.length (t_classes T))) (t_classes T) (c_name c) = Some (c_mro c).
Proof.
  intros H. apply andb_true_iff in H. destruct H as [H Hn]. split; [apply nodupb_NoDup; exact Hn|].
  intros c Hc. apply (forallb_In _ _ H) in Hc. unfold mro_ok in Hc.
  destruct (c3 _ _ _) as [l|]; [|discriminate]. f_equal.
  clear -Hc. unfold slist_eqb in Hc. revert Hc. generalize (c_mro c) as m.
  induction l as [|x l IH]; destruct m as [|y m]; simpl; intros H; try discriminate; [reflexivity|].
  apply andb_true_iff in H. destruct H as [H1 H2]. apply String.eqb_eq in H1. f_equal; auto.
Qed.

(* ------------------------------------------------------------ 2. the wrappers *)
(* 2a. A wrapper program that (i) warns once, (ii) forwards on the receiver only under the
   ownership test, (iii) otherwise forwards to the captured function, adds exactly one
   DeprecationWarning and forwards all arguments, in every calling context. *)
Definition adds_only_warning (prog : list wstmt) : Prop :=
  forall x : wctx, exists c,
    run_wrapper prog x = ([EvDeprecationWarning], OForward c) /\
    (c = CallOnReceiver -> has_args x = true /\ owned x = true).

(* 2b. deprecated_parameters: the renaming loop *)
Section KWP.
  Variable V : Type.
  Implicit Types (d acc : list (string * V)) (m : list (string * option string)).

  Lemma assoc_dict_set d k v t :
    assoc t (dict_set d k v) = if String.eqb t k then Some v else assoc t d.
  Proof.
    induction d as [|[k' v'] r IH]; simpl.
    - destruct (String.eqb t k); reflexivity.
    - destruct (String.eqb k k') eqn:E.
      + apply String.eqb_eq in E. subst k'. simpl. destruct (String.eqb t k); reflexivity.
      + simpl. destruct (String.eqb t k') eqn:E2.
        * apply String.eqb_eq in E2. subst k'.
          destruct (String.eqb t k) eqn:E3; [|reflexivity].
          apply String.eqb_eq in E3. subst. rewrite String.eqb_refl in E. discriminate.
        * exact IH.
  Qed.

  Lemma dict_set_fresh d k v : ~ In k (map fst d) -> dict_set d k v = (d ++ [(k, v)])%list.
  Proof.
    induction d as [|[k' v'] r IH]; simpl; intros H; [reflexivity|].
    destruct (String.eqb k k') eqn:E.
    - apply String.eqb_eq in E. subst. exfalso. apply H. left. reflexivity.
    - f_equal. apply IH. intros Hin. apply H. right. exact Hin.
  Qed.

  (* the value finally forwarded under keyword t: the last passed keyword whose target is t *)
  Fixpoint last_for m (t : string) (kw : list (string * V)) (dflt : option V) : option V :=
    match kw with
    | [] => dflt
    | (k, v) :: r =>
        last_for m t r (match kw_target m k with
                        | Some t' => if String.eqb t t' then Some v else dflt
                        | None => dflt end)
    end.

  Lemma fold_lookup m : forall kw ev acc t,
    assoc t (snd (fold_left (kw_step m) kw (ev, acc))) = last_for m t kw (assoc t acc).
  Proof.
    induction kw as [|[k v] r IH]; intros ev acc t; simpl; [reflexivity|].
    unfold kw_target. destruct (assoc k m) as [[n|]|]; rewrite IH; f_equal.
    - apply assoc_dict_set.
    - apply assoc_dict_set.
  Qed.

  (* Every forwarded keyword carries the value of the last passed keyword that targets it;
     nothing else is forwarded. *)
  Lemma rename_kwargs_lookup m kw t :
    assoc t (snd (rename_kwargs m kw)) = last_for m t kw None.
  Proof. unfold rename_kwargs. rewrite fold_lookup. reflexivity. Qed.

  Lemma last_for_notin m t : forall kw dflt,
    (forall k, In k (map fst kw) -> kw_target m k <> Some t) -> last_for m t kw dflt = dflt.
  Proof.
    induction kw as [|[k v] r IH]; intros dflt H; simpl; [reflexivity|].
    rewrite IH.
    - destruct (kw_target m k) as [t'|] eqn:E; [|reflexivity].
      destruct (String.eqb t t') eqn:E2; [|reflexivity].
      apply String.eqb_eq in E2. subst. exfalso. apply (H k); [left; reflexivity|exact E].
    - intros k' Hk'. apply H. right. exact Hk'.
  Qed.

  (* When the targets of the passed keywords are pairwise distinct (no call passes both an
     obsolete keyword and its new spelling, the map is injective -- T20d), each value is
     forwarded under its target. *)
  Lemma rename_kwargs_value m : forall kw : list (string * V),
    NoDup (somes (map (kw_target m) (map fst kw))) ->
    forall k v t, In (k, v) kw -> kw_target m k = Some t ->
      assoc t (snd (rename_kwargs m kw)) = Some v.
  Proof.
    intros kw Hnd k v t Hin Ht. rewrite rename_kwargs_lookup.
    generalize (@None V) as dflt. revert Hnd Hin.
    induction kw as [|[k' v'] r IH]; intros Hnd Hin dflt; [contradiction|].
    simpl in *. destruct Hin as [Hin|Hin].
    - injection Hin as -> ->. rewrite Ht. rewrite String.eqb_refl.
      rewrite Ht in Hnd. simpl in Hnd. inversion Hnd as [|? ? Hnot Hnd']. subst.
      apply last_for_notin. intros k2 Hk2 E. apply Hnot.
      apply In_somes. rewrite <- E. apply in_map. exact Hk2.
    - apply IH; [|exact Hin].
      destruct (kw_target m k'); simpl in Hnd; [inversion Hnd; assumption|exact Hnd].
  Qed.

  (* one warning per obsolete keyword, in call order, nothing else *)
  Definition kw_events m (keys : list string) : list kwevent :=
    flat_map (fun k => match assoc k m with
                       | Some (Some n) => [EvRenamed k n]
                       | Some None => [EvIgnored k]
                       | None => [] end) keys.

  Lemma fold_events m : forall kw ev acc,
    fst (fold_left (kw_step m) kw (ev, acc)) = (ev ++ kw_events m (map fst kw))%list.
  Proof.
    induction kw as [|[k v] r IH]; intros ev acc; simpl; [rewrite app_nil_r; reflexivity|].
    destruct (assoc k m) as [[n|]|]; rewrite IH; simpl; rewrite <- ?app_assoc; reflexivity.
  Qed.

  Lemma rename_kwargs_events m (kw : list (string * V)) : fst (rename_kwargs m kw) = kw_events m (map fst kw).
  Proof. unfold rename_kwargs. rewrite fold_events. reflexivity. Qed.

  (* a call that uses no obsolete keyword is forwarded unchanged and silently *)
  Lemma fold_identity m : forall kw ev acc,
    NoDup (map fst acc ++ map fst kw) ->
    (forall k, In k (map fst kw) -> assoc k m = None) ->
    fold_left (kw_step m) kw (ev, acc) = (ev, (acc ++ kw)%list).
  Proof.
    induction kw as [|[k v] r IH]; intros ev acc Hnd Hm; simpl.
    - rewrite app_nil_r. reflexivity.
    - rewrite (Hm k) by (left; reflexivity).
      rewrite dict_set_fresh.
      + rewrite IH.
        * rewrite <- app_assoc. reflexivity.
        * rewrite map_app. simpl. rewrite <- app_assoc. exact Hnd.
        * intros k' Hk'. apply Hm. right. exact Hk'.
      + intros Hin. simpl in Hnd. apply NoDup_remove_2 in Hnd. apply Hnd.
        apply in_or_app. left. exact Hin.
  Qed.

  Lemma rename_kwargs_identity m (kw : list (string * V)) :
    NoDup (map fst kw) ->
    (forall k, In k (map fst kw) -> assoc k m = None) ->
    rename_kwargs m kw = ([], kw).
  Proof. intros Hnd Hm. unfold rename_kwargs. rewrite fold_identity; auto. Qed.
End KWP.

(* ---------------------------------------------------- 3. the generated tables *)
Lemma tables_same_parameters : same_parameters_b T = true.
Proof. vm_compute. reflexivity. Qed.

Lemma tables_receiver_independent : receiver_independent_b deprecated_wrapper T = true.
Proof. vm_compute. reflexivity. Qed.

Lemma tables_module_aliases : module_aliases_b deprecated_wrapper T = true.
Proof. vm_compute. reflexivity. Qed.

Lemma tables_no_receiver : no_receiver_b T = true.
Proof. vm_compute. reflexivity. Qed.

Lemma tables_replacement_matches_name : replacement_matches_name_b T = true.
Proof. vm_compute. reflexivity. Qed.

Lemma tables_keyword_map_wellformed : keyword_map_wellformed_b T = true.
Proof. vm_compute. reflexivity. Qed.

Lemma tables_mro : mro_table_b T = true.
Proof. vm_compute. reflexivity. Qed.

(* the wrapper read from deprecated.py *)
Lemma wrapper_adds_only_warning_l : adds_only_warning deprecated_wrapper.
Proof.
  intros [[|] [|]]; vm_compute; eexists; (split; [reflexivity|]); intros E; try discriminate E; split; reflexivity.
Qed.

Lemma wrapper_never_raises_flag : raise_exception_flag = false.
Proof. reflexivity. Qed.

(* T20a *)
Lemma same_parameters_l : forall a, In a aliases ->
  Forall2 (params_agree (a_captured_kwmap a)) (a_old_params a) (a_new_params a) \/
  exists e, In (a_mod a, a_owner a, a_old a, e) param_exceptions_reviewed /\ params_agree_modulo a e.
Proof. exact (same_parameters_sound T tables_same_parameters). Qed.

(* T20b *)
Lemma receiver_independent_l : forall c, In c classes ->
  forall i a, nth_error aliases i = Some a -> exposes T c i = true ->
  (a_kind a = Instance \/ f_owner (a_captured a) <> "") ->
  exists f, resolve_fn classes c (a_new a) = Some f /\
            reach fuel_reach deprecated_wrapper T c (a_old a) = Some f.
Proof. exact (receiver_independent_sound deprecated_wrapper T tables_receiver_independent). Qed.

Lemma receiver_free_l : forall c, In c classes ->
  forall i a, nth_error aliases i = Some a -> exposes T c i = true ->
  a_kind a <> Instance -> f_owner (a_captured a) = "" ->
  exists f, a_final a = Some f /\ reach fuel_reach deprecated_wrapper T c (a_old a) = Some f.
Proof. exact (receiver_free_sound deprecated_wrapper T tables_receiver_independent). Qed.

Lemma module_aliases_l : forall a, In a aliases -> a_kind a = ModuleLevel ->
  a_final a = Some (a_captured a) /\
  forall args_nonempty, exists ev,
    run_wrapper deprecated_wrapper {| has_args := args_nonempty; owned := false |} = (ev, OForward CallCaptured).
Proof. exact (module_aliases_sound deprecated_wrapper T tables_module_aliases). Qed.

Lemma no_receiver_l : forall a, In a aliases -> no_receiver_ok T a = true.
Proof. exact (forallb_In _ _ tables_no_receiver). Qed.

(* the statement T20b discriminates: with the wrapper as it was before the repair (forwarding to
   the captured function) it is false on these very tables *)
Lemma receiver_independent_needs_dispatch : receiver_independent_b captured_only_wrapper T = false.
Proof. vm_compute. reflexivity. Qed.

(* number of (class, alias) pairs where the class exposes the alias / where, in addition, the
   class resolves the new name to a function other than the captured one (an override) *)
Definition exposing_pairs : list (string * string) :=
  flat_map (fun c => let ds := mro_dicts classes c in
     flat_map (fun '(i, a) => if exposes_d ds i a then [(c_name c, a_old a)] else []) (enum_from 0 aliases)) classes.
Definition overriding_pairs : list (string * string) :=
  flat_map (fun c => let ds := mro_dicts classes c in
     flat_map (fun '(i, a) => if exposes_d ds i a && fkind_eqb (a_kind a) Instance &&
                                 negb (ofid_eqb (resolve_fn_d ds (a_new a)) (Some (a_captured a)))
                              then [(c_name c, a_old a)] else []) (enum_from 0 aliases)) classes.

(* T20c *)
Lemma replacement_matches_name_l : forall a, In a aliases ->
  (normalise (a_old a) = normalise (a_new a) \/ In (a_mod a, a_owner a, a_old a, a_new a) renamed_reviewed) /\
  (forall x, a_doc_same_as a = Some x -> x = a_new a) /\
  a_new a = f_name (a_captured a).
Proof. exact (replacement_matches_name_sound T tables_replacement_matches_name). Qed.

(* T20d *)
Lemma keyword_map_wellformed_l : forall k, In k kwuses ->
  (forall o n, In (o, Some n) (k_map k) ->
     In n (named_params (k_params k)) \/ (has_varkw (k_params k) = true /\ In n (k_extra k))) /\
  NoDup (somes (map snd (k_map k))) /\
  NoDup (map fst (k_map k)) /\
  (forall o, In o (map fst (k_map k)) -> ~ In o (map p_name (k_params k))) /\
  (forall o, In o (map fst (k_map k)) -> ~ In o (somes (map snd (k_map k)))).
Proof. exact (keyword_map_wellformed_sound T tables_keyword_map_wellformed). Qed.

Lemma mro_table_l :
  NoDup (map c_name classes) /\
  forall c, In c classes -> c3 (S (List.length classes)) classes (c_name c) = Some (c_mro c).
Proof. exact (mro_table_sound T tables_mro). Qed.

(* the reviewed tables used by the harness are the ones of Model/Alias.v *)
Lemma harness_tables_agree : harness_renamed = renamed_reviewed.
Proof. reflexivity. Qed.
