(* Proofs about the GENERATED row loops of the report writers (Gen/Reports.v):
   every report has exactly one row per estimated parameter, in order, carrying its name and
   showing its value. *)
From Coq Require Import ZArith List String Ascii Bool Lia.
From BV Require Import Model.PyBase Model.FsOps Model.Reports Gen.Reports.

Section Rows.
  Variable B : Type.
  Variable b_name : B -> string.

  Lemma table_set_fresh {R} (t : table R) l (r : R) :
    ~ In l (map fst t) -> table_set t l r = (t ++ [(l, r)])%list.
  Proof.
    induction t as [|[l' r'] rest IH]; simpl; intros H; [reflexivity|].
    destruct (String.eqb l l') eqn:E.
    - apply String.eqb_eq in E. exfalso. apply H. left. congruence.
    - rewrite IH; [reflexivity|]. intros H1. apply H. now right.
  Qed.

  Lemma table_loc_In {R} (t : table R) l (r : R) :
    NoDup (map fst t) -> In (l, r) t -> table_loc t l = Some r.
  Proof.
    induction t as [|[l' r'] rest IH]; simpl; [tauto|]. intros Hnd [H|H].
    - injection H as -> ->. rewrite String.eqb_refl. reflexivity.
    - inversion Hnd as [|? ? Hl Hr]; subst.
      destruct (String.eqb l l') eqn:E.
      + apply String.eqb_eq in E. subst. exfalso. apply Hl. apply (in_map fst) in H. exact H.
      + apply IH; assumption.
  Qed.

  (* the loop `for b in betas: table.loc[b.name] = row(b)`, started from any table whose labels
     are disjoint from the (pairwise distinct) names, appends one row per beta, in order *)
  Lemma row_loop_closed_form cols : forall (betas : list B) (acc : table (row B)),
    NoDup (map b_name betas) ->
    (forall b, In b betas -> ~ In (b_name b) (map fst acc)) ->
    fold_left (fun t b => table_set t (b_name b) (make_row cols b)) betas acc =
      (acc ++ map (fun b => (b_name b, make_row cols b)) betas)%list.
  Proof.
    induction betas as [|b rest IH]; intros acc Hnd Hdis; simpl.
    - rewrite app_nil_r. reflexivity.
    - inversion Hnd as [|? ? Hb Hrest]; subst.
      rewrite table_set_fresh by (apply Hdis; now left).
      rewrite IH.
      + rewrite <- app_assoc. reflexivity.
      + exact Hrest.
      + intros b' Hb' Hin. rewrite map_app, in_app_iff in Hin. destruct Hin as [Hin|Hin].
        * apply (Hdis b'); [now right|exact Hin].
        * simpl in Hin. destruct Hin as [Hin|[]]. apply Hb. rewrite Hin. apply in_map. exact Hb'.
  Qed.

  (* get_estimated_parameters: exactly one row per parameter, in the order of the betas *)
  Theorem gep_table_closed_form aab orb boot nboot (betas : list B) :
    NoDup (map b_name betas) ->
    gep_table b_name aab orb boot nboot betas =
      map (fun b => (b_name b, make_row (gep_columns aab orb boot nboot) b)) betas.
  Proof.
    intros Hnd. unfold gep_table, estimated_parameters_table.
    rewrite row_loop_closed_form; [reflexivity|exact Hnd|intros b _ []].
  Qed.

  (* whatever the flags, the first column is the estimate *)
  Lemma gep_columns_value_first aab orb boot nboot :
    exists rest, gep_columns aab orb boot nboot = ("Value"%string, FValue) :: rest.
  Proof. destruct aab, orb, boot; eexists; reflexivity. Qed.

  Lemma make_row_value aab orb boot nboot (b : B) :
    exists rest, make_row (gep_columns aab orb boot nboot) b = ("Value"%string, (FValue, b)) :: rest.
  Proof.
    destruct (gep_columns_value_first aab orb boot nboot) as (rest & ->). eexists. reflexivity.
  Qed.

  Lemma map_fst_rows cols (betas : list B) :
    map fst (map (fun b => (b_name b, make_row cols b)) betas) = map b_name betas.
  Proof. rewrite map_map. reflexivity. Qed.

  (* refuted without the distinct-names hypothesis (faithful to `table.loc[label] = row`): two
     parameters with the same name share one row *)
  Theorem gep_table_duplicate_names_refuted :
    exists (betas : list (string * nat)),
      List.length (gep_table fst false true false ""%string betas) <> List.length betas.
  Proof. exists [("b"%string, 0%nat); ("b"%string, 1%nat)]. vm_compute. discriminate. Qed.

  Section OneReport.
    Variables (aab orb boot : bool) (nboot : string) (betas : list B).
    Hypothesis Hnd : NoDup (map b_name betas).
    Let T := gep_table b_name aab orb boot nboot betas.

    (* T14f (HTML): the parameter rows of get_html are, in order, one per beta: its name, then
       its cells, the first of which is the estimate formatted with the specification found in
       the source *)
    Theorem html_rows_list_all :
      exists (spec : string) (cells : B -> list (string * cell B)),
        html_rows T = map (fun b => (b_name b, (spec, (FValue, b)) :: cells b)) betas.
    Proof.
      unfold T. rewrite (gep_table_closed_form _ _ _ _ _ Hnd).
      destruct (gep_columns_value_first aab orb boot nboot) as (rest & Hc).
      evar (spec : string). exists spec.
      exists (fun b => map (fun kv : string * cell B => (spec, snd kv)) (make_row rest b)).
      unfold html_rows. rewrite map_map. apply map_ext. intros b. rewrite Hc.
      unfold make_row. cbn [map fst snd]. f_equal. f_equal.
      - unfold spec. reflexivity.
      - rewrite !map_map. apply map_ext. intros [c f]. unfold spec. reflexivity.
    Qed.

    (* T14f (F12): one coefficient line per beta, in order, labelled by the first characters of
       its name (the F12 format has a fixed label width) and showing the estimate *)
    Theorem f12_rows_list_all :
      exists width lspec vspec,
        f12_rows T = map (fun b => (str_take width (b_name b), lspec, Some (vspec, (FValue, b)))) betas.
    Proof.
      unfold T. rewrite (gep_table_closed_form _ _ _ _ _ Hnd).
      do 3 eexists. unfold f12_rows. rewrite map_fst_rows, map_map.
      apply map_ext_in. intros b Hb.
      rewrite (table_loc_In _ (b_name b) (make_row (gep_columns aab orb boot nboot) b)).
      - destruct (make_row_value aab orb boot nboot b) as (rest & ->). reflexivity.
      - rewrite map_fst_rows. exact Hnd.
      - apply in_map_iff. exists b. split; [reflexivity|exact Hb].
    Qed.

    (* T14f (printed form): one line per beta, in order: name, then the estimate *)
    Theorem str_rows_list_all :
      exists nspec vspec, str_rows b_name betas = map (fun b => (b_name b, nspec, (vspec, (FValue, b)))) betas.
    Proof. do 2 eexists. reflexivity. Qed.

    (* T14f (LaTeX, and the DataFrame returned by get_estimated_parameters): the table handed to
       pandas `to_latex` has exactly the betas' names as index, in order, and each row starts with
       the estimate.  Rendering one line per DataFrame row is pandas' (assumed). *)
    Theorem latex_table_lists_all :
      map fst T = map b_name betas /\
      forall b, In b betas -> exists rest, table_loc T (b_name b) = Some (("Value"%string, (FValue, b)) :: rest).
    Proof.
      unfold T. rewrite (gep_table_closed_form _ _ _ _ _ Hnd). split; [apply map_fst_rows|].
      intros b Hb. destruct (make_row_value aab orb boot nboot b) as (rest & Hr). exists rest.
      rewrite <- Hr. apply table_loc_In.
      - rewrite map_fst_rows. exact Hnd.
      - apply in_map_iff. exists b. split; [reflexivity|exact Hb].
    Qed.
  End OneReport.
End Rows.
