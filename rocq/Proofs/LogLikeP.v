(* C04 -- lemmas about Model/LogLike.v and the generated Gen/Threads.v *)
From Coq Require Import ZArith List Bool Lia ZifyBool Reals Lra Permutation.
From BV Require Import Model.LogLike Gen.Threads.
Import ListNotations.
Ltac Zify.zify_post_hook ::= Z.to_euclidean_division_equations.
Open Scope Z_scope.

(* ================================================================== ranges of rows *)
Lemma seq_as_map : forall len m, seq m len = map (fun k => (m + k)%nat) (seq 0 len).
Proof.
  induction len as [|len IH]; intros m; simpl; [reflexivity|].
  f_equal; [lia|].
  rewrite (IH (S m)), <- seq_shift, map_map.
  apply map_ext; intros; lia.
Qed.

Lemma zrange_nil : forall s e, e <= s -> zrange s e = [].
Proof. intros s e H. unfold zrange. replace (Z.to_nat (e - s)) with 0%nat by lia. reflexivity. Qed.

Lemma zrange_app : forall a b c, a <= b <= c -> zrange a b ++ zrange b c = zrange a c.
Proof.
  intros a b c H. unfold zrange.
  replace (Z.to_nat (c - a)) with (Z.to_nat (b - a) + Z.to_nat (c - b))%nat by lia.
  rewrite seq_app, map_app. f_equal. simpl.
  rewrite (seq_as_map (Z.to_nat (c - b)) (Z.to_nat (b - a))), map_map.
  apply map_ext; intros; lia.
Qed.

Lemma zrange_one : forall b, zrange b (b + 1) = [b].
Proof. intros b. unfold zrange. replace (b + 1 - b) with 1 by lia. simpl. f_equal. lia. Qed.

Lemma zrange_snoc : forall a b, a <= b -> zrange a (b + 1) = zrange a b ++ [b].
Proof. intros a b H. rewrite <- (zrange_app a b (b + 1)) by lia. now rewrite zrange_one. Qed.

Lemma in_zrange : forall s e x, In x (zrange s e) <-> s <= x < e.
Proof.
  intros s e x. unfold zrange. rewrite in_map_iff. split.
  - intros [k [Hk Hin]]. apply in_seq in Hin. lia.
  - intros H. exists (Z.to_nat (x - s)). split; [lia|]. apply in_seq. lia.
Qed.

Lemma zrange_length : forall s e, length (zrange s e) = Z.to_nat (e - s).
Proof. intros. unfold zrange. now rewrite map_length, seq_length. Qed.

Lemma zrange_NoDup : forall s e, NoDup (zrange s e).
Proof.
  intros s e. unfold zrange. apply FinFun.Injective_map_NoDup; [|apply seq_NoDup].
  intros x y H. lia.
Qed.

Lemma zrange_nat : forall n : nat, map Z.to_nat (zrange 0 (Z.of_nat n)) = seq 0 n.
Proof.
  intros n. unfold zrange. rewrite map_map. replace (Z.to_nat (Z.of_nat n - 0)) with n by lia.
  rewrite <- (map_id (seq 0 n)) at 2. apply map_ext; intros; lia.
Qed.

(* ================================================================== ceiling division *)
Lemma cdiv_spec : forall a b, 0 < b -> (cdiv a b - 1) * b < a <= cdiv a b * b.
Proof. intros a b Hb. unfold cdiv. nia. Qed.

Lemma cdiv_pos : forall a b, 0 < a -> 0 < b -> 0 < cdiv a b.
Proof. intros a b Ha Hb. pose proof (cdiv_spec a b Hb). nia. Qed.

Lemma cdiv_exact : forall a b, 0 < b -> cdiv (a * b) b = a.
Proof. intros a b Hb. pose proof (cdiv_spec (a * b) b Hb). nia. Qed.

Section Partition.
Variables n T : Z.
Hypothesis Hn : 0 < n.
Hypothesis HT : 0 < T.

Lemma block_size_pos : 0 < block_size n T.
Proof. unfold block_size. now apply cdiv_pos. Qed.

Lemma n_blocks_pos : 0 < n_blocks n T.
Proof. unfold n_blocks. apply cdiv_pos; [assumption | apply block_size_pos]. Qed.

Lemma n_blocks_le_T : n_blocks n T <= T.
Proof.
  pose proof block_size_pos as Hs.
  pose proof (cdiv_spec n T HT) as H1. fold (block_size n T) in H1.
  pose proof (cdiv_spec n (block_size n T) Hs) as H2. fold (n_blocks n T) in H2.
  nia.
Qed.

Lemma n_threads_eq : n_threads n T = n_blocks n T.
Proof. unfold n_threads. pose proof n_blocks_le_T. destruct (n_blocks n T <? T) eqn:E; lia. Qed.

(* the last block starts before n and the regular grid reaches n *)
Lemma last_block_nonempty :
  (n_threads n T - 1) * block_size n T < n <= n_threads n T * block_size n T.
Proof. rewrite n_threads_eq. unfold n_blocks. apply cdiv_spec, block_size_pos. Qed.

Lemma regular_blocks : forall size (k : nat), 0 <= size ->
  concat (map (fun t => zrange (t * size) ((t + 1) * size)) (zrange 0 (Z.of_nat k)))
  = zrange 0 (Z.of_nat k * size).
Proof.
  intros size k Hs. induction k as [|k IH].
  - simpl. rewrite zrange_nil by lia. reflexivity.
  - replace (Z.of_nat (S k)) with (Z.of_nat k + 1) by lia.
    rewrite zrange_snoc by lia. rewrite map_app, concat_app, IH. simpl. rewrite app_nil_r.
    apply zrange_app. nia.
Qed.

Lemma blocks_partition : concat (blocks n T) = zrange 0 n.
Proof.
  pose proof block_size_pos as Hs. pose proof n_blocks_pos as Hb.
  pose proof last_block_nonempty as [L1 L2]. pose proof n_threads_eq as HT'.
  unfold blocks, block_bounds. rewrite map_map. cbn [fst snd].
  set (T' := n_threads n T) in *. set (size := block_size n T) in *.
  replace T' with ((T' - 1) + 1) at 1 by lia.
  rewrite zrange_snoc by lia. rewrite map_app, concat_app. simpl. rewrite app_nil_r.
  rewrite Z.eqb_refl.
  rewrite (map_ext_in _ (fun t => zrange (t * size) ((t + 1) * size))).
  - replace (T' - 1) with (Z.of_nat (Z.to_nat (T' - 1))) at 1 by lia.
    rewrite regular_blocks by lia.
    replace (Z.of_nat (Z.to_nat (T' - 1))) with (T' - 1) by lia.
    apply zrange_app. nia.
  - intros t Ht. apply in_zrange in Ht.
    destruct (t =? T' - 1) eqn:E; [lia | reflexivity].
Qed.

Lemma blocks_count : Z.of_nat (length (blocks n T)) = n_threads n T /\ n_threads n T <= T.
Proof.
  unfold blocks, block_bounds. rewrite !map_length, zrange_length.
  pose proof n_blocks_pos. pose proof n_blocks_le_T. rewrite n_threads_eq. lia.
Qed.

(* every thread has at least one row and at most block_size rows *)
Lemma blocks_nonempty : forall b, In b (blocks n T) ->
  (0 < length b <= Z.to_nat (block_size n T))%nat.
Proof.
  intros b Hb. unfold blocks, block_bounds in Hb. rewrite map_map in Hb. cbn [fst snd] in Hb.
  apply in_map_iff in Hb. destruct Hb as [t [Hb Ht]]. apply in_zrange in Ht.
  pose proof last_block_nonempty as [L1 L2]. pose proof block_size_pos as Hs.
  subst b. rewrite zrange_length.
  destruct (t =? n_threads n T - 1) eqn:E.
  - assert (t = n_threads n T - 1) by lia. subst t. nia.
  - nia.
Qed.

(* every row is in exactly one block *)
Lemma row_in_one_block : forall r,
  count_occ Z.eq_dec (concat (blocks n T)) r = if (0 <=? r) && (r <? n) then 1%nat else 0%nat.
Proof.
  intros r. rewrite blocks_partition.
  destruct ((0 <=? r) && (r <? n)) eqn:E.
  - apply NoDup_count_occ'; [apply zrange_NoDup | apply in_zrange; lia].
  - apply count_occ_not_In. rewrite in_zrange. lia.
Qed.
End Partition.

Lemma blocks_shape : forall n T, 0 < n -> 0 < T ->
  (Z.of_nat (length (blocks n T)) = n_threads n T /\ n_threads n T <= T) /\
  (forall b, In b (blocks n T) -> (0 < length b <= Z.to_nat (block_size n T))%nat).
Proof. intros n T Hn HT. split; [exact (blocks_count n T Hn HT) | exact (blocks_nonempty n T Hn HT)]. Qed.

Lemma blocks_nat_partition : forall n T : nat, (0 < n)%nat -> (0 < T)%nat ->
  concat (blocks_nat n T) = seq 0 n.
Proof.
  intros n T Hn HT. unfold blocks_nat. rewrite <- concat_map.
  rewrite blocks_partition by lia. apply zrange_nat.
Qed.

(* more threads than rows: one row per thread *)
Lemma blocks_many_threads : forall n T, 0 < n -> n <= T ->
  block_size n T = 1 /\ n_threads n T = n.
Proof.
  intros n T Hn HT. assert (HT0 : 0 < T) by lia.
  assert (Hs : block_size n T = 1).
  { pose proof (cdiv_spec n T HT0). pose proof (block_size_pos n T Hn HT0). unfold block_size in *. nia. }
  split; [assumption|]. rewrite n_threads_eq by assumption. unfold n_blocks. rewrite Hs.
  pose proof (cdiv_spec n 1). lia.
Qed.

(* ================================================================== sums over reals *)
Open Scope R_scope.

Lemma rsum_app : forall a b, rsum (a ++ b) = rsum a + rsum b.
Proof. induction a as [|x a IH]; intros b; simpl; [lra | rewrite IH; lra]. Qed.

Lemma rsum_perm : forall l l', Permutation l l' -> rsum l = rsum l'.
Proof. induction 1; simpl; lra. Qed.

Lemma fold_left_acc : forall (A : Type) (g : A -> R) (l : list A) (a : R),
  fold_left (fun acc r => acc + g r) l a = a + rsum (map g l).
Proof. induction l as [|x l IH]; intros a; simpl; [lra | rewrite IH; lra]. Qed.

Lemma thread_sum_eq : forall rows w f, thread_sum rows w f = loglike rows w f.
Proof. intros. unfold thread_sum, loglike. rewrite (fold_left_acc Z (fun r => w r * f r)). lra. Qed.

Lemma fold_left_Rplus : forall l a, fold_left Rplus l a = a + rsum l.
Proof. induction l as [|x l IH]; intros a; simpl; [lra | rewrite IH; lra]. Qed.

Lemma join_eq : forall l, join l = rsum l.
Proof. intros l. unfold join. rewrite fold_left_Rplus. lra. Qed.

Lemma loglike_app : forall a b w f, loglike (a ++ b) w f = loglike a w f + loglike b w f.
Proof. intros. unfold loglike. now rewrite map_app, rsum_app. Qed.

Lemma loglike_concat : forall parts w f,
  rsum (map (fun b => loglike b w f) parts) = loglike (concat parts) w f.
Proof.
  induction parts as [|b parts IH]; intros w f; simpl; [reflexivity|].
  rewrite loglike_app, IH. reflexivity.
Qed.

Lemma loglike_perm : forall rows rows' w f, Permutation rows rows' -> loglike rows w f = loglike rows' w f.
Proof. intros. unfold loglike. apply rsum_perm, Permutation_map. assumption. Qed.

Lemma loglike_ext : forall rows w f w' f',
  (forall r, In r rows -> w r = w' r /\ f r = f' r) -> loglike rows w f = loglike rows w' f'.
Proof.
  intros rows w f w' f' H. unfold loglike. f_equal. apply map_ext_in. intros r Hr.
  destruct (H r Hr) as [-> ->]. reflexivity.
Qed.

Lemma loglike_weight_one : forall rows f, loglike rows one f = rsum (map f rows).
Proof. intros. unfold loglike, one. f_equal. apply map_ext; intros; lra. Qed.

(* T04b: the total computed part by part (each part accumulated separately, the partial results
   added) is the sum over the rows of all parts *)
Lemma total_of_parts_eq : forall parts w f, total_of_parts parts w f = loglike (concat parts) w f.
Proof.
  intros. unfold total_of_parts. rewrite join_eq, <- loglike_concat. f_equal.
  apply map_ext. intros; apply thread_sum_eq.
Qed.

Lemma sum_over_partition : forall parts rows w f,
  Permutation (concat parts) rows -> total_of_parts parts w f = loglike rows w f.
Proof. intros. rewrite total_of_parts_eq. now apply loglike_perm. Qed.

(* T04d: the engine's total is the weighted sum of the per-observation values, whatever the
   number of threads *)
Lemma engine_total_eq : forall n T w f, (0 < n)%Z -> (0 < T)%Z ->
  engine_total n T w f = loglike (zrange 0 n) w f.
Proof.
  intros. unfold engine_total. change (total_of_parts (blocks n T) w f = loglike (zrange 0 n) w f).
  rewrite total_of_parts_eq, blocks_partition by assumption. reflexivity.
Qed.

Lemma threads_invariant : forall n T1 T2 w f, (0 < n)%Z -> (0 < T1)%Z -> (0 < T2)%Z ->
  engine_total n T1 w f = engine_total n T2 w f.
Proof. intros. now rewrite !engine_total_eq. Qed.

(* the order in which the threads' partial results are added is irrelevant *)
Lemma join_order_invariant : forall ps ps', Permutation ps ps' -> join ps = join ps'.
Proof. intros. rewrite !join_eq. now apply rsum_perm. Qed.

(* T04c: permuting the rows of the table (row i of the new table is row sigma(i) of the old one) *)
Lemma sum_perm_invariant : forall n T T' (sigma : Z -> Z) w f, (0 < n)%Z -> (0 < T)%Z -> (0 < T')%Z ->
  Permutation (map sigma (zrange 0 n)) (zrange 0 n) ->
  engine_total n T (fun i => w (sigma i)) (fun i => f (sigma i)) = engine_total n T' w f.
Proof.
  intros n T T' sigma w f Hn HT HT' HP. rewrite !engine_total_eq by assumption.
  rewrite <- (loglike_perm _ _ w f HP). unfold loglike. now rewrite map_map.
Qed.

(* splitting the table into parts, each evaluated by the engine with its own thread count *)
Lemma split_invariant : forall n T (parts : list (list Z)) w f, (0 < n)%Z -> (0 < T)%Z ->
  Permutation (concat parts) (zrange 0 n) ->
  rsum (map (fun p => loglike p w f) parts) = engine_total n T w f.
Proof.
  intros. rewrite engine_total_eq by assumption. rewrite loglike_concat. now apply loglike_perm.
Qed.

(* ================================================================== tie A: thread count, scaling *)
Lemma number_of_threads_zero : forall cpu, number_of_threads cpu 0 = cpu.
Proof. intros. reflexivity. Qed.

Lemma number_of_threads_nonzero : forall cpu p, p <> 0%Z -> number_of_threads cpu p = p.
Proof. intros cpu p H. unfold number_of_threads. destruct (p =? 0)%Z eqn:E; [lia | reflexivity]. Qed.

Lemma number_of_threads_pos : forall cpu p, (0 < cpu)%Z -> (0 <= p)%Z -> (0 < number_of_threads cpu p)%Z.
Proof. intros cpu p Hc Hp. unfold number_of_threads. destruct (p =? 0)%Z eqn:E; lia. Qed.

Lemma threads_resolution : forall cpu p, (0 < cpu)%Z -> (0 <= p)%Z ->
  number_of_threads cpu 0 = cpu /\ (p <> 0%Z -> number_of_threads cpu p = p) /\
  (0 < number_of_threads cpu p)%Z.
Proof.
  intros cpu p Hc Hp. split; [exact (number_of_threads_zero cpu)|].
  split; [exact (number_of_threads_nonzero cpu p) | exact (number_of_threads_pos cpu p Hc Hp)].
Qed.

Lemma scaled_likelihood_def : forall N f,
  scaled_likelihood N true f = scaled f N /\ scaled_likelihood N false f = f.
Proof. intros. split; reflexivity. Qed.

Lemma scaled_times_N : forall N f, N <> 0%Z -> scaled f N * IZR N = f.
Proof. intros N f H. unfold scaled. field. now apply not_0_IZR. Qed.

Lemma scaled_output_def : forall N f g h bh, N <> 0%Z ->
  scaled_output N true f g h bh = Some (scaled f N, vdiv g (IZR N), vdiv h (IZR N), vdiv bh (IZR N)) /\
  scaled_output N false f g h bh = Some (f, g, h, bh).
Proof.
  intros N f g h bh HN. unfold scaled_output, Reqb, scaled.
  destruct (Req_EM_T (IZR N) 0) as [E|E].
  - exfalso. now apply (not_0_IZR N).
  - split; reflexivity.
Qed.

Lemma nth_vdiv : forall v s k, nth k (vdiv v s) 0 = nth k v 0 / s.
Proof.
  intros v s k. unfold vdiv.
  transitivity (nth k (map (fun x => x / s) v) ((fun x => x / s) 0)).
  - f_equal. unfold Rdiv; lra.
  - apply (map_nth (fun x => x / s)).
Qed.

(* what BIOGEME.calculate_likelihood reports, end to end *)
Lemma reported_loglike : forall cpu p n sc w f, (0 < cpu)%Z -> (0 <= p)%Z -> (0 < n)%Z ->
  scaled_likelihood n sc (engine_total n (number_of_threads cpu p) w f)
  = if sc then loglike (zrange 0 n) w f / IZR n else loglike (zrange 0 n) w f.
Proof.
  intros. rewrite engine_total_eq by (try apply number_of_threads_pos; assumption).
  destruct sc; reflexivity.
Qed.

(* ================================================================== vectors: gradient, Hessian, BHHH *)
Lemma vadd_length : forall a b, length a = length b -> length (vadd a b) = length a.
Proof.
  induction a as [|x a IH]; intros [|y b] H; simpl in *; try reflexivity; try discriminate.
  f_equal. apply IH. lia.
Qed.

Lemma nth_vadd : forall a b k, length a = length b -> nth k (vadd a b) 0 = nth k a 0 + nth k b 0.
Proof.
  induction a as [|x a IH]; intros [|y b] k H; simpl in *; try discriminate.
  - destruct k; lra.
  - destruct k; [reflexivity | apply IH; lia].
Qed.

Lemma vscale_length : forall c v, length (vscale c v) = length v.
Proof. intros. apply map_length. Qed.

Lemma nth_vscale : forall c v k, nth k (vscale c v) 0 = c * nth k v 0.
Proof.
  intros c v k. unfold vscale.
  transitivity (nth k (map (Rmult c) v) (Rmult c 0)).
  - f_equal. lra.
  - apply (map_nth (Rmult c)).
Qed.

Lemma vzero_length : forall d, length (vzero d) = d.
Proof. intros. apply repeat_length. Qed.

Lemma nth_vzero : forall d k, nth k (vzero d) 0 = 0.
Proof.
  intros d k. unfold vzero. destruct (Nat.lt_ge_cases k d).
  - now apply nth_repeat.
  - apply nth_overflow. now rewrite repeat_length.
Qed.

Lemma thread_vsum_acc : forall d rows w v acc k,
  length acc = d -> (forall r, In r rows -> length (v r) = d) ->
  let res := fold_left (fun acc r => vadd acc (vscale (w r) (v r))) rows acc in
  length res = d /\ nth k res 0 = nth k acc 0 + loglike rows w (comp k v).
Proof.
  intros d rows w v. induction rows as [|r rows IH]; intros acc k Hacc Hv; simpl.
  - split; [assumption | unfold loglike; simpl; lra].
  - assert (Hr : length (v r) = d) by (apply Hv; now left).
    assert (Hl : length (vadd acc (vscale (w r) (v r))) = d).
    { rewrite vadd_length; [assumption | rewrite vscale_length; congruence]. }
    destruct (IH (vadd acc (vscale (w r) (v r))) k Hl) as [L N].
    { intros; apply Hv; now right. }
    split; [exact L|]. rewrite N. rewrite nth_vadd by (rewrite vscale_length; congruence).
    rewrite nth_vscale. unfold loglike, comp. simpl. lra.
Qed.

Lemma thread_vsum_nth : forall d rows w v k, (forall r, In r rows -> length (v r) = d) ->
  length (thread_vsum d rows w v) = d /\
  nth k (thread_vsum d rows w v) 0 = loglike rows w (comp k v).
Proof.
  intros d rows w v k Hv. unfold thread_vsum.
  destruct (thread_vsum_acc d rows w v (vzero d) k (vzero_length d) Hv) as [L N].
  split; [exact L|]. rewrite N, nth_vzero. lra.
Qed.

Lemma vjoin_acc : forall d ps acc k, length acc = d -> (forall p, In p ps -> length p = d) ->
  length (fold_left vadd ps acc) = d /\
  nth k (fold_left vadd ps acc) 0 = nth k acc 0 + rsum (map (fun p => nth k p 0) ps).
Proof.
  intros d ps. induction ps as [|p ps IH]; intros acc k Hacc Hp; simpl.
  - split; [assumption | lra].
  - assert (Hl : length p = d) by (apply Hp; now left).
    destruct (IH (vadd acc p) k) as [L N].
    { rewrite vadd_length; congruence. }
    { intros; apply Hp; now right. }
    split; [exact L|]. rewrite N, nth_vadd by congruence. lra.
Qed.

(* the vector total computed part by part *)
Lemma vtotal_of_parts_nth : forall d parts w v k,
  (forall r, In r (concat parts) -> length (v r) = d) ->
  length (vtotal_of_parts d parts w v) = d /\
  nth k (vtotal_of_parts d parts w v) 0 = loglike (concat parts) w (comp k v).
Proof.
  intros d parts w v k Hv. unfold vtotal_of_parts, vjoin.
  assert (Hparts : forall b, In b parts -> forall r, In r b -> length (v r) = d).
  { intros b Hb r Hr. apply Hv. apply in_concat. exists b. now split. }
  destruct (vjoin_acc d (map (fun b => thread_vsum d b w v) parts) (vzero d) k (vzero_length d)) as [L N].
  { intros p Hp. apply in_map_iff in Hp. destruct Hp as [b [<- Hb]].
    apply (thread_vsum_nth d b w v k). now apply Hparts. }
  split; [exact L|]. rewrite N, nth_vzero, map_map, <- loglike_concat, Rplus_0_l. f_equal.
  apply map_ext_in. intros b Hb. apply (thread_vsum_nth d b w v k). now apply Hparts.
Qed.

(* T04f: every component of the gradient / Hessian / BHHH total is the same weighted sum over the
   rows as the function value, with the component of the per-row derivative as per-row value *)
Lemma engine_vtotal_nth : forall d n T w v k, (0 < n)%Z -> (0 < T)%Z ->
  (forall r, (0 <= r < n)%Z -> length (v r) = d) ->
  length (engine_vtotal d n T w v) = d /\
  nth k (engine_vtotal d n T w v) 0 = loglike (zrange 0 n) w (comp k v).
Proof.
  intros d n T w v k Hn HT Hv.
  change (engine_vtotal d n T w v) with (vtotal_of_parts d (blocks n T) w v).
  rewrite <- (blocks_partition n T Hn HT). apply vtotal_of_parts_nth.
  intros r Hr. apply Hv. rewrite blocks_partition in Hr by assumption. now apply in_zrange.
Qed.

Lemma derivatives_aggregate_alike : forall d n T w v k, (0 < n)%Z -> (0 < T)%Z ->
  (forall r, (0 <= r < n)%Z -> length (v r) = d) ->
  nth k (engine_vtotal d n T w v) 0 = engine_total n T w (comp k v).
Proof.
  intros. rewrite engine_total_eq by assumption. now apply engine_vtotal_nth.
Qed.

(* the vector total over any split of the rows into parts, in any order *)
Lemma vsum_over_partition : forall d parts rows w v k,
  Permutation (concat parts) rows -> (forall r, In r rows -> length (v r) = d) ->
  nth k (vtotal_of_parts d parts w v) 0 = loglike rows w (comp k v).
Proof.
  intros d parts rows w v k HP Hv.
  destruct (vtotal_of_parts_nth d parts w v k) as [_ N].
  { intros r Hr. apply Hv. now apply (Permutation_in _ HP). }
  rewrite N. now apply loglike_perm.
Qed.

(* ------------------------------------------------------------------ BHHH: outer product *)
Lemma nth_flat_map_const : forall (A : Type) (F : A -> list R) (m : nat) (l : list A) (a : A) (i j : nat),
  (forall x, In x l -> length (F x) = m) -> (i < length l)%nat -> (j < m)%nat ->
  nth (i * m + j) (flat_map F l) 0 = nth j (F (nth i l a)) 0.
Proof.
  intros A F m l a. induction l as [|x l IH]; intros i j HF Hi Hj; simpl in *; [lia|].
  assert (Hx : length (F x) = m) by (apply HF; now left).
  destruct i as [|i]; simpl.
  - apply app_nth1. lia.
  - rewrite app_nth2 by lia. replace (m + i * m + j - length (F x))%nat with (i * m + j)%nat by lia.
    apply IH; [intros; apply HF; now right | lia | assumption].
Qed.

Lemma outer_length_gen : forall g0 g : list R,
  length (flat_map (fun gi => map (Rmult gi) g) g0) = (length g0 * length g)%nat.
Proof.
  induction g0 as [|x g0 IH]; intros g; simpl; [reflexivity|].
  rewrite app_length, map_length, IH. reflexivity.
Qed.

Lemma outer_length : forall g, length (outer g) = (length g * length g)%nat.
Proof. intros g. apply outer_length_gen. Qed.

Lemma nth_outer : forall g i j, (i < length g)%nat -> (j < length g)%nat ->
  nth (i * length g + j) (outer g) 0 = nth i g 0 * nth j g 0.
Proof.
  intros g i j Hi Hj. unfold outer.
  rewrite (nth_flat_map_const R (fun gi => map (Rmult gi) g) (length g) g 0 i j);
    [| intros; apply map_length | assumption | assumption].
  transitivity (nth j (map (Rmult (nth i g 0)) g) (Rmult (nth i g 0) 0)).
  - f_equal. lra.
  - apply (map_nth (Rmult (nth i g 0))).
Qed.

(* entry (i, j) of the BHHH total is the weighted sum of g_i * g_j *)
Lemma bhhh_entry : forall d n T w (g : Z -> list R) i j, (0 < n)%Z -> (0 < T)%Z ->
  (forall r, (0 <= r < n)%Z -> length (g r) = d) -> (i < d)%nat -> (j < d)%nat ->
  nth (i * d + j) (engine_vtotal (d * d) n T w (fun r => outer (g r))) 0
  = loglike (zrange 0 n) w (fun r => nth i (g r) 0 * nth j (g r) 0).
Proof.
  intros d n T w g i j Hn HT Hg Hi Hj.
  destruct (engine_vtotal_nth (d * d) n T w (fun r => outer (g r)) (i * d + j) Hn HT) as [_ N].
  { intros r Hr. rewrite outer_length, (Hg r Hr). reflexivity. }
  rewrite N. apply loglike_ext. intros r Hr. apply in_zrange in Hr. split; [reflexivity|].
  unfold comp. rewrite <- (Hg r Hr) at 1. apply nth_outer; rewrite (Hg r Hr); assumption.
Qed.

(* ================================================================== the library's splitters *)
Open Scope Z_scope.

Lemma NoDup_app_intro : forall (A : Type) (l l' : list A),
  NoDup l -> NoDup l' -> (forall x, In x l -> ~ In x l') -> NoDup (l ++ l').
Proof.
  induction l as [|a l IH]; intros l' H1 H2 H; simpl; [assumption|].
  inversion H1; subst. constructor.
  - rewrite in_app_iff. intros [Hin|Hin]; [contradiction | apply (H a); [now left | assumption]].
  - apply IH; [assumption | assumption | intros x Hx; apply H; now right].
Qed.

Lemma NoDup_concat_map : forall (K A : Type) (F : K -> list A) (ks : list K),
  NoDup ks -> (forall k, In k ks -> NoDup (F k)) ->
  (forall k k' x, In k ks -> In k' ks -> In x (F k) -> In x (F k') -> k = k') ->
  NoDup (concat (map F ks)).
Proof.
  intros K A F ks. induction ks as [|k ks IH]; intros Hks HF Hd; simpl; [constructor|].
  inversion Hks; subst. apply NoDup_app_intro.
  - apply HF. now left.
  - apply IH; [assumption | intros; apply HF; now right | intros; eapply Hd; eauto; now right].
  - intros x Hx Hc. apply in_concat in Hc. destruct Hc as [l [Hl Hxl]].
    apply in_map_iff in Hl. destruct Hl as [k' [<- Hk']].
    assert (k = k') by (eapply Hd; eauto; [now left | now right]). subst k'. contradiction.
Qed.

Lemma in_py_range_pos : forall start stop step x, 0 < step ->
  In x (py_range start stop step) <-> exists j, 0 <= j /\ x = start + j * step /\ x < stop.
Proof.
  intros start stop step x Hs. unfold py_range.
  destruct (0 <? step) eqn:E; [|lia]. rewrite in_map_iff.
  pose proof (cdiv_spec (stop - start) step Hs) as C.
  split.
  - intros [j [Hj Hin]]. apply in_zrange in Hin. exists j. repeat split; try lia. nia.
  - intros [j [Hj [Hx Hlt]]]. exists j. split; [lia|]. apply in_zrange. nia.
Qed.

Lemma py_range_NoDup : forall start stop step, NoDup (py_range start stop step).
Proof.
  intros. unfold py_range. destruct (0 <? step) eqn:E; [|destruct (step <? 0) eqn:E2; [|constructor]];
    (apply FinFun.Injective_map_NoDup; [intros a b H; nia | apply zrange_NoDup]).
Qed.

Lemma py_range_step1 : forall a b, py_range a b 1 = zrange a b.
Proof.
  intros a b. unfold py_range. simpl. unfold cdiv. replace (b - a + 1 - 1) with (b - a) by lia.
  rewrite Z.div_1_r. unfold zrange. rewrite map_map. replace (b - a - 0) with (b - a) by lia.
  apply map_ext. intros; lia.
Qed.

(* T04g: the interleaved ranges range(k, n, m), k = 0..m-1, hold every row exactly once *)
Lemma interleaved_partition : forall n m, 0 < m -> Permutation (concat (interleaved n m)) (zrange 0 n).
Proof.
  intros n m Hm. unfold interleaved. apply NoDup_Permutation.
  - apply NoDup_concat_map.
    + apply zrange_NoDup.
    + intros; apply py_range_NoDup.
    + intros k k' x Hk Hk' Hx Hx'. apply in_zrange in Hk. apply in_zrange in Hk'.
      apply in_py_range_pos in Hx; [|assumption]. apply in_py_range_pos in Hx'; [|assumption].
      destruct Hx as [j [Hj [Ex _]]]. destruct Hx' as [j' [Hj' [Ex' _]]].
      assert (Hm1 : x mod m = k) by (subst x; rewrite Z.mod_add by lia; apply Z.mod_small; lia).
      assert (Hm2 : x mod m = k') by (rewrite Ex'; rewrite Z.mod_add by lia; apply Z.mod_small; lia).
      congruence.
  - apply zrange_NoDup.
  - intros x. rewrite in_zrange, in_concat. split.
    + intros [l [Hl Hx]]. apply in_map_iff in Hl. destruct Hl as [k [<- Hk]]. apply in_zrange in Hk.
      apply in_py_range_pos in Hx; [|assumption]. destruct Hx as [j [Hj [Ex Hlt]]]. nia.
    + intros Hx. exists (py_range (x mod m) n m). split.
      * apply in_map_iff. exists (x mod m). split; [reflexivity|]. apply in_zrange.
        pose proof (Z.mod_pos_bound x m Hm). lia.
      * apply in_py_range_pos; [assumption|]. exists (x / m).
        pose proof (Z.div_mod x m ltac:(lia)) as D.
        split; [apply Z.div_pos; lia|]. split; nia.
Qed.

(* a reversed range holds the same rows *)
Lemma py_range_minus1 : forall a b, py_range a b (-1) = map (fun j => a - j) (zrange 0 (a - b)).
Proof.
  intros a b. unfold py_range. change (0 <? -1) with false. change (-1 <? 0) with true. cbv iota.
  change (- -1) with 1. unfold cdiv. replace (a - b + 1 - 1) with (a - b) by lia. rewrite Z.div_1_r.
  apply map_ext. intros; lia.
Qed.

Lemma reversed_range : forall n, 0 <= n -> Permutation (py_range (n - 1) (-1) (-1)) (zrange 0 n).
Proof.
  intros n Hn. apply NoDup_Permutation; [apply py_range_NoDup | apply zrange_NoDup |].
  intros x. rewrite py_range_minus1, in_map_iff, in_zrange.
  replace (n - 1 - -1) with n by lia. split.
  - intros [j [Hj Hin]]. apply in_zrange in Hin. lia.
  - intros Hx. exists (n - 1 - x). split; [lia | apply in_zrange; lia].
Qed.

Lemma nth_zrange : forall s e k d, (k < Z.to_nat (e - s))%nat -> nth k (zrange s e) d = s + Z.of_nat k.
Proof.
  intros s e k d H. unfold zrange.
  rewrite (nth_indep _ d (s + Z.of_nat 0)) by (rewrite map_length, seq_length; exact H).
  transitivity ((fun k => s + Z.of_nat k) (nth k (seq 0 (Z.to_nat (e - s))) 0%nat)).
  - apply (map_nth (fun k => s + Z.of_nat k)).
  - cbv beta. rewrite seq_nth by exact H. reflexivity.
Qed.

Lemma extract_rows_positions : forall n ps, (forall i, In i ps -> 0 <= i < n) ->
  extract_rows 0 (zrange 0 n) ps = ps.
Proof.
  intros n ps H. unfold extract_rows. rewrite <- (map_id ps) at 2. apply map_ext_in.
  intros i Hi. specialize (H i Hi). rewrite nth_zrange by lia. lia.
Qed.

(* numpy.array_split *)
Lemma firstn_plus : forall (A : Type) (a b : nat) (l : list A),
  firstn (a + b) l = firstn a l ++ firstn b (skipn a l).
Proof.
  intros A a. induction a as [|a IH]; intros b l; simpl; [reflexivity|].
  destruct l as [|x l]; simpl; [now rewrite firstn_nil | now rewrite IH].
Qed.

Lemma take_sizes_concat : forall (A : Type) (sizes : list nat) (l : list A),
  concat (take_sizes sizes l) = firstn (list_sum sizes) l.
Proof.
  intros A sizes. induction sizes as [|s ss IH]; intros l; simpl; [reflexivity|].
  now rewrite IH, firstn_plus.
Qed.

Lemma sizes_sum_gen : forall q r k : nat,
  list_sum (map (fun i => if (i <? r)%nat then S q else q) (seq 0 k)) = (k * q + Nat.min r k)%nat.
Proof.
  intros q r k. induction k as [|k IH]; [simpl; lia|].
  rewrite seq_S, map_app, list_sum_app, IH. simpl.
  destruct (k <? r)%nat eqn:E; [apply Nat.ltb_lt in E | apply Nat.ltb_ge in E]; lia.
Qed.

Lemma array_split_sizes_sum : forall n k : nat, (0 < k)%nat -> list_sum (array_split_sizes n k) = n.
Proof.
  intros n k Hk. unfold array_split_sizes. rewrite sizes_sum_gen.
  pose proof (Nat.mod_upper_bound n k ltac:(lia)). pose proof (Nat.div_mod n k ltac:(lia)).
  rewrite Nat.min_l by lia. nia.
Qed.

(* T04g: numpy.array_split loses and repeats nothing, whatever the remainder of n by k *)
Lemma array_split_concat : forall (A : Type) (l : list A) (k : nat), (0 < k)%nat ->
  concat (array_split l k) = l /\ length (array_split l k) = k.
Proof.
  intros A l k Hk. unfold array_split. split.
  - rewrite take_sizes_concat, array_split_sizes_sum by assumption. apply firstn_all.
  - assert (H : forall (sizes : list nat) (m : list A), length (take_sizes sizes m) = length sizes).
    { induction sizes as [|s ss IH]; intros m; simpl; [reflexivity | now rewrite IH]. }
    rewrite H. unfold array_split_sizes. now rewrite map_length, seq_length.
Qed.

Lemma split_at : forall (A : Type) (i : nat) (l : list A) (d : A), (i < length l)%nat ->
  firstn i l ++ nth i l d :: skipn (S i) l = l.
Proof.
  intros A i. induction i as [|i IH]; intros l d H; destruct l as [|x l]; simpl in *; try lia; [reflexivity|].
  f_equal. apply IH. lia.
Qed.

(* every estimation / validation pair of Database.split holds every row exactly once *)
Lemma estimation_validation_partition : forall (A : Type) (slices : list (list A)) (i : nat),
  (i < length slices)%nat ->
  Permutation (estimation_of slices i ++ validation_of slices i) (concat slices).
Proof.
  intros A slices i H. unfold estimation_of, validation_of.
  rewrite <- (split_at _ i slices [] H) at 4.
  rewrite !concat_app. simpl. rewrite <- app_assoc.
  apply Permutation_app_head, Permutation_app_comm.
Qed.

Lemma row_split_concat : forall (A : Type) (l : list A), concat (row_split l) = l.
Proof. intros A l. unfold row_split. induction l as [|x l IH]; simpl; [reflexivity | now rewrite IH]. Qed.

Open Scope R_scope.

(* the log likelihood summed over the parts made by the library equals the total of the data set *)
Lemma library_parts_total : forall n m k (shuffled : list Z) w f, (0 < m)%Z -> (0 < k)%nat ->
  Permutation shuffled (zrange 0 n) ->
  total_of_parts (interleaved n m) w f = loglike (zrange 0 n) w f /\
  total_of_parts (array_split shuffled k) w f = loglike (zrange 0 n) w f /\
  total_of_parts (row_split (zrange 0 n)) w f = loglike (zrange 0 n) w f /\
  (forall i, (i < k)%nat ->
     loglike (estimation_of (array_split shuffled k) i) w f + loglike (validation_of (array_split shuffled k) i) w f
     = loglike (zrange 0 n) w f).
Proof.
  intros n m k shuffled w f Hm Hk HP.
  destruct (array_split_concat Z shuffled k Hk) as [C L].
  repeat split.
  - apply sum_over_partition, interleaved_partition. assumption.
  - apply sum_over_partition. now rewrite C.
  - apply sum_over_partition. now rewrite row_split_concat.
  - intros i Hi. rewrite <- loglike_app.
    rewrite (loglike_perm _ (concat (array_split shuffled k)) w f).
    + rewrite C. now apply loglike_perm.
    + apply estimation_validation_partition. now rewrite L.
Qed.

(* the same for every component of gradient / Hessian / BHHH *)
Lemma library_parts_vtotal : forall d n m k (shuffled : list Z) w v j, (0 < m)%Z -> (0 < k)%nat ->
  Permutation shuffled (zrange 0 n) -> (forall r, In r (zrange 0 n) -> length (v r) = d) ->
  nth j (vtotal_of_parts d (interleaved n m) w v) 0 = loglike (zrange 0 n) w (comp j v) /\
  nth j (vtotal_of_parts d (array_split shuffled k) w v) 0 = loglike (zrange 0 n) w (comp j v) /\
  nth j (vtotal_of_parts d (row_split (zrange 0 n)) w v) 0 = loglike (zrange 0 n) w (comp j v).
Proof.
  intros d n m k shuffled w v j Hm Hk HP Hv.
  destruct (array_split_concat Z shuffled k Hk) as [C _].
  repeat split; apply vsum_over_partition; try assumption.
  - now apply interleaved_partition.
  - now rewrite C.
  - now rewrite row_split_concat.
Qed.

(* a constant weight c (a Numeric weight formula): c times the unweighted sum *)
Lemma constant_weight : forall rows c f, loglike rows (fun _ => c) f = c * rsum (map f rows).
Proof.
  intros rows c f. unfold loglike. induction rows as [|r rows IH]; simpl; [lra | rewrite IH; lra].
Qed.

(* the vector of current values after change_init_values (generated changed_value): a given value --
   zero included -- replaces the old one, a parameter that is not mentioned keeps its value *)
Lemma changed_value_spec : forall old v, changed_value old (Some v) = v /\ changed_value old None = old.
Proof. intros. split; reflexivity. Qed.
